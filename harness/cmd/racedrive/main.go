// racedrive — supporting validation and failing-input search for property C19
// ("Compile and Run are safe to call from many goroutines").
//
// It is NOT a proof. The Lean theorem (Vore/Props/C19.lean) covers the interference
// logic over the shared-state facts extracted from the Go source; this program drives
// the real code with many goroutines and compares every result with the value the same
// call returned when it was executed alone. Built twice from this source by the check:
// once with `-race` (the Go race detector reports unsynchronised accesses, its log is
// read by checklib/prop_C19.py) and once without (faster, different interleavings).
//
// One batch = G goroutines released together by a barrier; goroutine i performs one of
//
//	compile-groups   Compile of a source whose regex literals contain capture groups
//	compile-plain    Compile of a source without regex groups (loops draw ids from math/rand)
//	run-shared       Run on a *Vore shared by all goroutines of the batch
//	run-private      Run on a *Vore owned by that goroutine (compiled before the batch, alone)
//	parse-groups     front end only (VerifParse) on a source with groups
//
// `iters` times in a row. Results compared: complete syntax-tree dump, bytecode dump
// (loop ids renumbered by first occurrence), error text, canonical match lists.
//
// The step hook engine.VerifStepHook is a verif-only package variable written by the
// *other* harness; this program never touches it (doing so would be a race of the
// harness, not of vore). Every program in the pool terminates (no recursion; quantified
// groups always consume).
package main

import (
	"encoding/json"
	"flag"
	"fmt"
	"math/rand"
	"os"
	"runtime"
	"sort"
	"strconv"
	"strings"
	"sync"
	"time"

	"github.com/jmeaster30/vore/libvore"
	"github.com/jmeaster30/vore/libvore/engine"
)

// ---------------------------------------------------------------- canonical results

func canonValue(v engine.Value) string {
	switch x := v.(type) {
	case engine.ValueString:
		return "s:" + strconv.Quote(x.Value)
	case engine.ValueHashMap:
		return "m:" + canonMap(x)
	}
	return fmt.Sprintf("?%T", v)
}

func canonMap(m engine.ValueHashMap) string {
	keys := m.Keys()
	sort.Strings(keys)
	parts := []string{}
	for _, k := range keys {
		v, _ := m.Get(k)
		parts = append(parts, k+"="+canonValue(v))
	}
	return "{" + strings.Join(parts, ",") + "}"
}

func canonMatches(ms engine.Matches) string {
	parts := []string{}
	for _, m := range ms {
		r := "-"
		if m.Replacement.HasValue() {
			r = "r" + strconv.Quote(m.Replacement.GetValue())
		}
		parts = append(parts, fmt.Sprintf("%d,%d,%d,%d,%d,%d,%d,%s,%s,%s", m.MatchNumber, m.Offset.Start, m.Offset.End,
			m.Line.Start, m.Line.End, m.Column.Start, m.Column.End, strconv.Quote(m.Value), r, canonMap(m.Variables)))
	}
	return "OK " + strings.Join(parts, ";")
}

// compileDump: everything observable about one Compile call
func compileDump(src string) (v *libvore.Vore, out string) {
	defer func() {
		if r := recover(); r != nil {
			v, out = nil, "PANIC "+fmt.Sprint(r)
		}
	}()
	p, err := libvore.Compile(src)
	if err != nil {
		return nil, "ERR " + err.Error()
	}
	return p, "AST " + p.VerifAst() + " CODE " + p.VerifBytecode()
}

func parseDump(src string) (out string) {
	defer func() {
		if r := recover(); r != nil {
			out = "PANIC " + fmt.Sprint(r)
		}
	}()
	s, err := libvore.VerifParse(src)
	if err != nil {
		return "ERR " + err.Error()
	}
	return "AST " + s
}

func runDump(v *libvore.Vore, text string) (out string) {
	defer func() {
		if r := recover(); r != nil {
			out = "PANIC " + fmt.Sprint(r)
		}
	}()
	return canonMatches(v.Run(text))
}

// ---------------------------------------------------------------- program pool

var atoms = []string{"a", "b", "c"}

// genRegex builds a regex body; every group body starts with a mandatory atom, so a
// quantified group always consumes. closed counts the capture groups closed so far
// (vore numbers a group when its ')' is read), so \k only refers to an existing group.
func genRegex(r *rand.Rand, depth int, closed *int, wantGroups bool) string {
	n := 1 + r.Intn(3)
	var sb strings.Builder
	for i := 0; i < n; i++ {
		c := r.Intn(10)
		switch {
		case wantGroups && depth < 3 && c < 5:
			kind := r.Intn(6)
			body := atoms[r.Intn(3)] + genRegex(r, depth+1, closed, wantGroups)
			if r.Intn(4) == 0 {
				body += "|" + atoms[r.Intn(3)]
			}
			switch kind {
			case 0:
				sb.WriteString("(?:" + body + ")")
			case 1:
				sb.WriteString(fmt.Sprintf("(?<n%d>%s)", r.Intn(1000), body))
			default:
				sb.WriteString("(" + body + ")")
				*closed++
			}
			if q := r.Intn(5); q < 3 {
				sb.WriteString([]string{"+", "?", "{1,2}"}[q])
			}
		case wantGroups && c < 7 && *closed > 0 && *closed < 10:
			sb.WriteString(fmt.Sprintf("\\%d", 1+r.Intn(*closed)))
		case c == 7:
			sb.WriteString("[ab]")
		case c == 8:
			sb.WriteString(atoms[r.Intn(3)] + []string{"*", "+", "?"}[r.Intn(3)])
		default:
			sb.WriteString(atoms[r.Intn(3)])
		}
	}
	return sb.String()
}

func genGroupSource(r *rand.Rand) string {
	closed := 0
	lits := 1 + r.Intn(2)
	parts := []string{}
	for i := 0; i < lits; i++ {
		body := genRegex(r, 0, &closed, true)
		if closed == 0 {
			body = "(" + atoms[r.Intn(3)] + ")" + body
			closed++
		}
		parts = append(parts, "@/"+body+"/")
	}
	cmd := []string{"find all ", "find top 2 ", "replace all "}[r.Intn(3)]
	src := cmd + strings.Join(parts, " ")
	if strings.HasPrefix(cmd, "replace") {
		src += " with '<' '>'"
	}
	return src
}

var fixedGroupSources = []string{
	"find all @/(a)(b)\\1/",
	"find all @/(test)\\1/",
	"find all @/((a)(b))+c\\2/",
	"find all @/(a)/ @/(b)\\1\\2/",
	"find all @/(t)(e)(s)(t)(e)(x)(p)(r)(e)(s)(s)(i)(o)(n)\\14\\13/",
	"find all @/(a|b)(c)?\\1/",
	"find all @/(((((((((((((((((((((((((((((((a)))))))))))))))))))))))))))))))/",
	"find all @/(a)(a)(a)(a)(a)(a)(a)(a)(a)(a)(a)(a)(a)(a)(a)(a)(a)(a)(a)(a)(a)(a)(a)(a)(a)(a)(a)(a)(a)(a)(a)(a)/",
	"replace all @/(a+)(b+)/ with _2 _1",
}

// process bodies of 1..9 top-level statements (transform and predicate): whatever evaluating a body does to the
// statement list of the shared program happens in every goroutine that runs it
func processBodySources() []string {
	out := []string{}
	for n := 1; n <= 9; n++ {
		stmts := []string{}
		for i := 0; i < n-1; i++ {
			stmts = append(stmts, fmt.Sprintf("set v%d to matchLength + %d", i, i))
		}
		body := strings.Join(stmts, " ")
		out = append(out, "set t to transform "+body+" return match + matchLength end\nreplace all at least 1 in 'a', 'b' with '<' t '>'")
		out = append(out, "set p to pattern at least 1 in 'a', 'b', 'c' begin "+body+" return matchLength > 1 end\nfind all p")
	}
	return out
}

var fixedPlainSources = []string{
	"find all 'a'",
	"find all in 'a', 'b', 'c', 'd', 'ab', 'ba', 'ca', 'cb', 'x', 'y', 'z', '1'",
	"find all ('ab' or 'a' or 'b' or 'c' or 'ca') 'c'",
	"find all not in 'a', 'b', 'c' (digit or upper or lower)",
	"find all at least 1 digit",
	"find all between 1 and 3 'a' 'b'",
	"find all at least 1 (in 'a' to 'c') = x maybe x",
	"find all ('a' or 'b') = t t",
	"find all @/a+b*/",
	"find all @/[abc]{0,2}c/",
	"find skip 1 take 2 'ab'",
	"find last 2 at most 2 'a' fewest 'b'",
	"replace all 'ab' = w with '<' w '>'",
	"find all at least 1 (maybe ',' (at least 0 not in ',', '\\n') = element) named row",
	"set d3 to pattern\n at least 1 digit\nbegin\n return match % 3 == 0\nend\nfind all d3",
	"set f to function\n if match == 'ab' then\n  return 'X'\n end\n return match\nend\nreplace all 'ab' or 'ba' with f",
	"set p to pattern 'a' or 'b'\nfind all at least 1 p 'c'",
	"find all {'a' maybe s 'b'} = s",
	"find all line start at least 1 letter line end",
	"find all caseless 'ab' not 'c'",
	"find all exactly 2 (at least 1 'a' 'b')",
}

func genPlainSource(r *rand.Rand) string {
	lit := func() string { return "'" + atoms[r.Intn(3)] + atoms[r.Intn(3)][:r.Intn(2)] + "'" }
	// loop bodies always consume at least one byte (a loop over a possibly empty body
	// need not terminate; that is C10's subject, not this one's)
	atom := func() string {
		switch r.Intn(4) {
		case 0:
			return "in 'a' to 'b', 'c'"
		case 1:
			return "(" + lit() + " or " + lit() + ")"
		case 2:
			return "(" + lit() + " " + lit() + ")"
		}
		return lit()
	}
	var expr func(d int) string
	expr = func(d int) string {
		switch c := r.Intn(9); {
		case c < 2:
			return fmt.Sprintf("at least %d %s", r.Intn(2), atom())
		case c < 3:
			return fmt.Sprintf("between %d and %d %s", r.Intn(2), 2+r.Intn(2), atom())
		case c < 4 && d < 3:
			return "(" + expr(d+1) + " " + expr(d+1) + ")"
		case c < 5:
			return "(" + atom() + ") = v" + strconv.Itoa(r.Intn(3))
		case c < 6:
			return "maybe " + atom()
		default:
			return atom()
		}
	}
	n := 1 + r.Intn(3)
	parts := []string{}
	for i := 0; i < n; i++ {
		parts = append(parts, expr(0))
	}
	return "find all " + strings.Join(parts, " ")
}

func genText(r *rand.Rand) string {
	n := r.Intn(14)
	var sb strings.Builder
	for i := 0; i < n; i++ {
		c := r.Intn(12)
		switch {
		case c < 9:
			sb.WriteString(atoms[c%3])
		case c == 9:
			sb.WriteString("1")
		case c == 10:
			sb.WriteString(",")
		default:
			sb.WriteString("\n")
		}
	}
	return sb.String()
}

var fixedTexts = []string{"", "abab", "abcabc", "aabbaab", "testtest", "a,b,c\n1,2,3", "123 4 6 51", "texpressionon", "abba ab"}

// ---------------------------------------------------------------- reference values

type program struct {
	Src     string
	Groups  bool
	Compile string         // sequential compileDump
	Parse   string         // sequential parseDump
	Shared  *libvore.Vore  // nil if the source does not compile
	Runs    map[int]string // text index -> sequential runDump
}

// within runs f with a deadline; a source whose sequential evaluation does not finish
// is dropped from the pool (and counted) instead of hanging the driver
func within(d time.Duration, f func()) bool {
	done := make(chan struct{})
	go func() { f(); close(done) }()
	select {
	case <-done:
		return true
	case <-time.After(d):
		return false
	}
}

// ---------------------------------------------------------------- driver

type Diff struct {
	Procs     int    `json:"gomaxprocs"`
	Batch     int    `json:"batch"`
	Goroutine int    `json:"goroutine"`
	Iter      int    `json:"iteration"`
	Kind      string `json:"kind"`
	Source    string `json:"source"`
	Text      string `json:"text,omitempty"`
	Expected  string `json:"sequential_result"`
	Got       string `json:"concurrent_result"`
	BatchMix  string `json:"batch_mix"`
}

type Report struct {
	RaceBuild      bool           `json:"race_build"`
	Seed           int64          `json:"seed"`
	Procs          []int          `json:"gomaxprocs"`
	BatchesPer     int            `json:"batches_per_setting"`
	Batches        int            `json:"batches"`
	FreshBatches   int            `json:"batches_sharing_a_never_run_program"`
	Goroutines     int            `json:"goroutines"`
	Iters          int            `json:"iterations_per_goroutine"`
	Mode           string         `json:"mode"`
	Ops            int            `json:"operations"`
	OpsByKind      map[string]int `json:"operations_by_kind"`
	Programs       int            `json:"programs"`
	GroupPrograms  int            `json:"programs_with_groups"`
	CompileOK      int            `json:"programs_that_compile"`
	Dropped        int            `json:"programs_dropped_slow"`
	DroppedSrc     []string       `json:"programs_dropped_slow_sources,omitempty"`
	Texts          int            `json:"texts"`
	NontrivialRuns int            `json:"run_results_with_matches"`
	DistinctCalls  int            `json:"distinct_calls_compared"`
	SeqStable      bool           `json:"sequential_reference_stable"`
	SeqUnstable    []string       `json:"sequential_reference_unstable,omitempty"`
	DiffCount      int            `json:"differing_results"`
	Diffs          []Diff         `json:"diffs"`
	Samples        []Diff         `json:"samples"`
	NumCPU         int            `json:"num_cpu"`
	WallS          float64        `json:"wall_s"`
}

const (
	kCompileGroups = iota
	kCompilePlain
	kRunShared
	kRunPrivate
	kParseGroups
	nKinds
	// not drawn at random: placed into every fifth batch (see novelSources)
	kRunNovel     = nKinds
	kCompileNovel = nKinds + 1
)

// novelSpelling: `find all at least 1 digit whitespace 'kg<n>' or (maybe upper) = c` with the letters of its keywords
// upper-cased according to the bits of n — a spelling no earlier compile of this process has seen
func novelSpelling(n int) string {
	words := []string{"find", "all", "at", "least", "1", "digit", "whitespace", fmt.Sprintf("'kg%d'", n), "or", "(", "maybe", "upper", ")", "=", "c"}
	bit := uint(n)*2654435761 + 12345
	for i, w := range words {
		if w[0] == '\'' {
			continue
		}
		b := []byte(w)
		for j := range b {
			bit = bit*1103515245 + 12345
			if b[j] >= 'a' && b[j] <= 'z' && (bit>>16)&1 == 1 {
				b[j] -= 32
			}
		}
		words[i] = string(b)
	}
	return strings.Join(words, " ")
}

var kindNames = []string{"compile-groups", "compile-plain", "run-shared", "run-private", "parse-groups", "run-novel", "compile-novel"}

type task struct {
	kind int
	prog *program
	text int
	priv *libvore.Vore
	// run-novel: an input this process has never seen; the reference result is computed alone AFTER the batch
	novelText string
	novelGot  []string
}

// The sequential reference runs every pooled program on every pooled text before the first concurrent batch, so
// anything the process builds up lazily while running (tables, caches, pools that grow with the input) is warm by
// then.  The novel runs are the complement: long-loop programs on texts longer than anything the process has run so
// far, several goroutines at once, each batch longer than the last.
var novelSources = []string{
	"replace all at least 1 letter with 'x'",
	"find all @/[a-z]+/",
	"find all between 2 and 100000 letter",
}

func main() {
	batches := flag.Int("batches", 200, "batches per GOMAXPROCS setting")
	gor := flag.Int("goroutines", 8, "goroutines per batch")
	iters := flag.Int("iters", 8, "repetitions of its call by every goroutine of a batch")
	procsFlag := flag.String("procs", "4", "comma separated GOMAXPROCS settings")
	seed := flag.Int64("seed", 1, "seed of the program pool and of the batch composition")
	nprog := flag.Int("programs", 40, "generated programs per class (plus the fixed ones)")
	mode := flag.String("mode", "mix", "mix | compile-groups (every goroutine compiles sources with groups)")
	maxDiffs := flag.Int("maxdiffs", 5, "stop after this many differing results")
	out := flag.String("out", "", "write the JSON report here (default stdout)")
	flag.Parse()

	t0 := time.Now()
	// debug output of the library must not end up in the report
	realStdout := os.Stdout
	if devnull, err := os.OpenFile(os.DevNull, os.O_WRONLY, 0); err == nil {
		os.Stdout = devnull
	}

	rep := Report{RaceBuild: raceEnabled, Seed: *seed, BatchesPer: *batches, Goroutines: *gor, Iters: *iters,
		Mode: *mode, OpsByKind: map[string]int{}, NumCPU: runtime.NumCPU(), SeqStable: true, Diffs: []Diff{}, Samples: []Diff{}}
	for _, p := range strings.Split(*procsFlag, ",") {
		n, err := strconv.Atoi(strings.TrimSpace(p))
		if err != nil || n < 1 {
			fmt.Fprintln(os.Stderr, "bad -procs")
			os.Exit(2)
		}
		rep.Procs = append(rep.Procs, n)
	}

	r := rand.New(rand.NewSource(*seed))
	texts := append([]string{}, fixedTexts...)
	for i := 0; i < 24; i++ {
		texts = append(texts, genText(r))
	}
	srcs := []struct {
		s string
		g bool
	}{}
	seen := map[string]bool{}
	add := func(s string, g bool) {
		if !seen[s] {
			seen[s] = true
			srcs = append(srcs, struct {
				s string
				g bool
			}{s, g})
		}
	}
	for _, s := range fixedGroupSources {
		add(s, true)
	}
	for _, s := range fixedPlainSources {
		add(s, false)
	}
	for _, s := range processBodySources() {
		add(s, false)
	}
	for i := 0; i < *nprog; i++ {
		add(genGroupSource(r), true)
		add(genPlainSource(r), false)
	}

	// sequential reference: one goroutine, GOMAXPROCS 1, every call made twice
	runtime.GOMAXPROCS(1)
	progs := []*program{}
	for _, s := range srcs {
		p := &program{Src: s.s, Groups: s.g, Runs: map[int]string{}}
		ok := within(5*time.Second, func() {
			p.Shared, p.Compile = compileDump(p.Src)
			p.Parse = parseDump(p.Src)
			_, again := compileDump(p.Src)
			if again != p.Compile || parseDump(p.Src) != p.Parse {
				rep.SeqStable = false
				rep.SeqUnstable = append(rep.SeqUnstable, p.Src)
			}
			if p.Shared != nil {
				for ti, t := range texts {
					p.Runs[ti] = runDump(p.Shared, t)
					if runDump(p.Shared, t) != p.Runs[ti] {
						rep.SeqStable = false
						rep.SeqUnstable = append(rep.SeqUnstable, p.Src+" on "+strconv.Quote(t))
					}
					if len(p.Runs[ti]) > 3 {
						rep.NontrivialRuns++
					}
				}
			}
		})
		if !ok {
			rep.Dropped++
			rep.DroppedSrc = append(rep.DroppedSrc, p.Src)
			continue
		}
		progs = append(progs, p)
		if p.Groups {
			rep.GroupPrograms++
		}
		if p.Shared != nil {
			rep.CompileOK++
		}
	}
	rep.Programs, rep.Texts = len(progs), len(texts)
	var groupProgs, plainProgs, runnable []*program
	for _, p := range progs {
		if p.Groups {
			groupProgs = append(groupProgs, p)
		} else {
			plainProgs = append(plainProgs, p)
		}
		if p.Shared != nil {
			runnable = append(runnable, p)
		}
	}
	if len(groupProgs) == 0 || len(plainProgs) == 0 || len(runnable) == 0 {
		fmt.Fprintln(os.Stderr, "empty program pool")
		os.Exit(2)
	}

	distinct := map[string]bool{}
	novelCount, novelSrc := 0, ""
	var novelV *libvore.Vore
	var mu sync.Mutex
	stop := false
	for _, np := range rep.Procs {
		for b := 0; b < *batches && !stop; b++ {
			// compose the batch sequentially (private programs compiled here, alone)
			runtime.GOMAXPROCS(1)
			tasks := make([]task, *gor)
			sharedProg := runnable[r.Intn(len(runnable))]
			sharedText := r.Intn(len(texts))
			// every second batch shares a FRESHLY compiled program that has never been run: whatever a first Run
			// does to the program (lazy initialisation, in-place normalisation of the bytecode) then happens in
			// several goroutines at once.  The sequential reference programs have all been run before.
			sharedV := sharedProg.Shared
			fresh := b%2 == 1
			if fresh {
				if v, d := compileDump(sharedProg.Src); v != nil && d == sharedProg.Compile {
					sharedV = v
					rep.FreshBatches++
				} else {
					fresh = false
				}
			}
			mix := []string{}
			for g := range tasks {
				k := r.Intn(nKinds)
				if b%5 == 4 && g >= len(tasks)-3 {
					// one program and one text for the three novel runs of this batch (one reference run afterwards)
					if g == len(tasks)-3 {
						novelCount++
						novelSrc = novelSources[r.Intn(len(novelSources))]
						novelV, _ = compileDump(novelSrc)
					}
					// (the engine is quadratic in the length of a run of loop passes: novel RUN texts stop growing after 700
					// bytes — long sweeps then draw novel sources only)
					if novelCount%2 == 0 || 257+2*novelCount > 700 {
						// a SOURCE the process has never compiled: the keywords in a letter case drawn from the counter
						// (whatever a first sighting of a spelling does to process-wide tables then happens concurrently)
						tasks[g] = task{kind: kCompileNovel, prog: &program{Src: novelSpelling(novelCount)}}
						mix = append(mix, kindNames[kCompileNovel])
						continue
					}
					if novelV != nil {
						tasks[g] = task{kind: kRunNovel, prog: &program{Src: novelSrc}, priv: novelV,
							novelText: strings.Repeat("a", 257+2*novelCount) + " b"}
						mix = append(mix, kindNames[kRunNovel])
						continue
					}
				}
				if *mode == "compile-groups" || (b%4 == 3 && g < 2) {
					// every fourth batch has at least two concurrent compiles with groups
					k = kCompileGroups
				} else if fresh && g >= 2 && g < 5 {
					// at least three goroutines make the first runs of the fresh program together
					k = kRunShared
				}
				t := task{kind: k}
				switch k {
				case kCompileGroups, kParseGroups:
					t.prog = groupProgs[r.Intn(len(groupProgs))]
				case kCompilePlain:
					t.prog = plainProgs[r.Intn(len(plainProgs))]
				case kRunShared:
					t.prog, t.text, t.priv = sharedProg, sharedText, sharedV
					if r.Intn(2) == 0 && !(fresh && g < 5) {
						t.text = r.Intn(len(texts))
					}
				case kRunPrivate:
					t.prog, t.text = runnable[r.Intn(len(runnable))], r.Intn(len(texts))
					v, d := compileDump(t.prog.Src)
					if v == nil || d != t.prog.Compile {
						// not a concurrency effect: the sequential reference itself is unstable
						rep.SeqStable = false
						rep.SeqUnstable = append(rep.SeqUnstable, t.prog.Src)
						v = t.prog.Shared
					}
					t.priv = v
				}
				tasks[g] = t
				mix = append(mix, kindNames[k])
			}
			mixs := strings.Join(mix, ",")
			runtime.GOMAXPROCS(np)
			start := make(chan struct{})
			var wg sync.WaitGroup
			for g := range tasks {
				wg.Add(1)
				go func(g int, t task) {
					defer wg.Done()
					<-start
					for it := 0; it < *iters; it++ {
						var got, want, text string
						switch t.kind {
						case kCompileGroups, kCompilePlain:
							_, got = compileDump(t.prog.Src)
							want = t.prog.Compile
						case kParseGroups:
							got, want = parseDump(t.prog.Src), t.prog.Parse
						case kRunShared:
							got, want, text = runDump(t.priv, texts[t.text]), t.prog.Runs[t.text], texts[t.text]
						case kRunPrivate:
							got, want, text = runDump(t.priv, texts[t.text]), t.prog.Runs[t.text], texts[t.text]
						case kCompileNovel:
							if it == 0 {
								_, d := compileDump(t.prog.Src)
								tasks[g].novelGot = append(tasks[g].novelGot, d)
							}
							continue
						case kRunNovel:
							if it == 0 {
								tasks[g].novelGot = append(tasks[g].novelGot, runDump(t.priv, t.novelText))
							}
							continue
						}
						if got != want {
							mu.Lock()
							rep.DiffCount++
							if len(rep.Diffs) < *maxDiffs {
								rep.Diffs = append(rep.Diffs, Diff{np, b, g, it, kindNames[t.kind], t.prog.Src, text, want, got, mixs})
							}
							mu.Unlock()
						}
					}
				}(g, tasks[g])
			}
			close(start)
			if !within(60*time.Second, wg.Wait) {
				rep.Diffs = append(rep.Diffs, Diff{Procs: np, Batch: b, Kind: "HANG", BatchMix: mixs,
					Expected: "every call of the batch returns", Got: "batch did not finish within 60 s"})
				rep.DiffCount++
				stop = true
			}
			rep.Batches++
			// reference of the novel runs: the same call, alone, after the batch
			runtime.GOMAXPROCS(1)
			novelWant := map[string]string{}
			for g, t := range tasks {
				if (t.kind != kRunNovel && t.kind != kCompileNovel) || stop {
					continue
				}
				want, have := novelWant[t.prog.Src+"\x00"+t.novelText]
				if !have {
					if v, d := compileDump(t.prog.Src); t.kind == kCompileNovel {
						want = d
					} else if v != nil {
						want = runDump(v, t.novelText)
					}
					novelWant[t.prog.Src+"\x00"+t.novelText] = want
				}
				for it, got := range t.novelGot {
					if got != want {
						rep.DiffCount++
						if len(rep.Diffs) < *maxDiffs {
							rep.Diffs = append(rep.Diffs, Diff{np, b, g, it, kindNames[t.kind], t.prog.Src, t.novelText, want, got, mixs})
						}
					}
				}
			}
			for _, t := range tasks {
				rep.Ops += *iters
				rep.OpsByKind[kindNames[t.kind]] += *iters
				if t.kind == kRunNovel || t.kind == kCompileNovel {
					distinct[kindNames[t.kind]+"\x00"+t.prog.Src+"\x00"+t.novelText] = true
					continue
				}
				key := kindNames[t.kind] + "\x00" + t.prog.Src
				if t.kind == kRunShared || t.kind == kRunPrivate {
					key += "\x00" + texts[t.text]
				}
				if !distinct[key] && len(rep.Samples) < 4 && t.kind == len(rep.Samples)%nKinds {
					want := t.prog.Compile
					text := ""
					switch t.kind {
					case kParseGroups:
						want = t.prog.Parse
					case kRunShared, kRunPrivate:
						want, text = t.prog.Runs[t.text], texts[t.text]
					}
					if len(want) > 300 {
						want = want[:300] + "…"
					}
					rep.Samples = append(rep.Samples, Diff{np, b, 0, 0, kindNames[t.kind], t.prog.Src, text, want, "(equal)", mixs})
				}
				distinct[key] = true
			}
			if rep.DiffCount >= *maxDiffs {
				stop = true
			}
		}
	}
	rep.DistinctCalls = len(distinct)
	rep.WallS = time.Since(t0).Seconds()
	js, _ := json.MarshalIndent(rep, "", " ")
	if *out != "" {
		if err := os.WriteFile(*out, js, 0o644); err != nil {
			fmt.Fprintln(os.Stderr, err)
			os.Exit(2)
		}
	} else {
		fmt.Fprintln(realStdout, string(js))
	}
}
