package main

import (
	"fmt"
	"math/rand"
	"strconv"
	"strings"

	"github.com/jmeaster30/vore/libvore/files"
)

// mshist: a history of calls on the in-memory output stream (files.MemoryStream behind files.Writer), the real
// code against Vore.MS.runOps (lean/Vore/Model/MemStream.lean).  Ops: w<off>:x<hex> = Writer.WriteAt,
// s<off>:<whence> = MemoryStream.Seek, p:x<hex> = MemoryStream.Write.
func opMsHist(fields []string) (out string) {
	defer func() {
		if r := recover(); r != nil {
			out = "PANIC"
		}
	}()
	w := files.WriterFromMemory()
	ms, ok := w.VerifStream().(*files.MemoryStream)
	if !ok {
		return "HARNESS not a memory stream"
	}
	if fields[0] != "-" && fields[0] != "" {
		for _, op := range strings.Split(fields[0], ",") {
			switch op[0] {
			case 'w':
				p := strings.SplitN(op[1:], ":", 2)
				off, _ := strconv.Atoi(p[0])
				w.WriteAt(off, unhx(p[1]))
			case 's':
				p := strings.SplitN(op[1:], ":", 2)
				off, _ := strconv.Atoi(p[0])
				wh, _ := strconv.Atoi(p[1])
				ms.Seek(int64(off), wh)
			case 'p':
				ms.Write([]byte(unhx(op[2:])))
			}
		}
	}
	contents, capacity, pos := ms.VerifState()
	return fmt.Sprintf("OK %s cap=%d pos=%d", hx(string(contents)), capacity, pos)
}

func msHistCases(r *rand.Rand, st *Stats, n int) []Case {
	cases := []Case{}
	data := func() string {
		var ln int
		switch r.Intn(6) {
		case 0:
			ln = 0
		case 1:
			ln = 1
		case 2:
			ln = 4090 + r.Intn(12)
		case 3:
			ln = 8190 + r.Intn(5)
		default:
			ln = r.Intn(40)
		}
		b := make([]byte, ln)
		for i := range b {
			b[i] = byte(1 + r.Intn(255))
		}
		return hx(string(b))
	}
	for i := 0; i < n; i++ {
		ops := []string{}
		pos := 0
		k := r.Intn(9)
		for j := 0; j < k; j++ {
			switch r.Intn(8) {
			case 0: // seek: any whence, offsets that land before, inside and beyond the contents, negative ones
				ops = append(ops, fmt.Sprintf("s%d:%d", r.Intn(60)-20, r.Intn(4)))
			case 1:
				ops = append(ops, "p:"+data())
			case 2: // a write far beyond the end (gap), or backwards into the contents
				ops = append(ops, fmt.Sprintf("w%d:%s", r.Intn(9000), data()))
			case 3:
				if r.Intn(6) == 0 {
					ops = append(ops, fmt.Sprintf("w%d:%s", -1-r.Intn(3), data()))
				} else {
					ops = append(ops, fmt.Sprintf("w%d:%s", r.Intn(pos+2), data()))
				}
			default: // what searchReplace does: consecutive pieces
				d := data()
				ops = append(ops, fmt.Sprintf("w%d:%s", pos, d))
				pos += (len(d) - 1) / 2
			}
		}
		f := "-"
		if len(ops) > 0 {
			f = strings.Join(ops, ",")
		}
		cases = append(cases, Case{ID: fmt.Sprintf("ms%d", i), Op: "mshist", Fields: []string{f}, Meta: map[string]string{}})
	}
	st.Counts["memory-stream-histories"] = n
	return cases
}

func init() {
	extraOps["mshist"] = opMsHist
	leanCaseExtra["mshist"] = func(c Case, impl string) (string, bool) {
		return c.ID + "\tmshist\t" + c.Fields[0], true
	}
}
