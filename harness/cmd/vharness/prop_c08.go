package main

import (
	"encoding/hex"
	"fmt"
	"math/rand"
	"os"
	"path/filepath"
	"regexp"
	"sort"
	"strings"

	"github.com/jmeaster30/vore/libvore"
	"github.com/jmeaster30/vore/libvore/ast"
)

// ---------------------------------------------------------------------------
// C08 (parser part) / C15 (parser part): real-code side
//
// op `front <src>`: lexes src with the real lexer, runs the real parser on those tokens
// and the real Compile on the source.  Result fields (TAB separated):
//   TOKS <KIND:lexhex[:oracle] ...>   tokens as the parser saw them (absent on a lexer error);
//                                     REGEXP tokens carry what the real regex sub-parser
//                                     answers for that lexeme (E error, P panic, D<hex dump>)
//   PARSE AST <dump> | ERR <msghex> | PANIC <msghex> | LEXERR <msghex>
//   COMPILE OK | ERR <kind> | PANIC <msghex>
// ---------------------------------------------------------------------------

func regexOracle(lexeme string, first bool) (out string) {
	defer func() {
		if r := recover(); r != nil {
			out = "P"
		}
	}()
	d, err := ast.VerifParseRegexp(lexeme, first)
	if err != nil {
		return "E"
	}
	return "D" + hex.EncodeToString([]byte(d))
}

func tokenFields(toks []ast.VerifToken) string {
	parts := make([]string, 0, len(toks))
	nre := 0
	for _, t := range toks {
		f := t.Name + ":" + hex.EncodeToString([]byte(t.Lexeme))
		if t.Name == "REGEXP" {
			// the sub-parser's answer depends on the literal and on how many unnamed groups earlier
			// literals of the program had; the ordinal appended to the lexeme (NUL + number) makes the
			// oracle a function of the (marked) lexeme, as the model's parameter `rx` is
			f += fmt.Sprintf("00%02x", nre%256) + ":" + regexOracle(t.Lexeme, nre == 0)
			nre++
		}
		parts = append(parts, f)
	}
	return strings.Join(parts, " ")
}

func opFront(fields []string) string {
	src := unhx(fields[0])
	toksField := ""
	parse := ""
	func() {
		defer func() {
			if r := recover(); r != nil {
				parse = "PANIC " + hx(fmt.Sprint(r))
			}
		}()
		// tokens first (the lexer alone), so that they are available when the parser panics
		if toks, err := ast.VerifTokens(src); err == nil {
			toksField = tokenFields(toks)
		}
		dump, _, lexErr, parseErr := ast.VerifParseSource(src)
		switch {
		case lexErr != nil:
			parse = "LEXERR " + hx(lexErr.Error())
		case parseErr != nil:
			msg, _ := ast.VerifParseErrorInfo(parseErr)
			parse = "ERR " + hx(msg)
		default:
			parse = "AST " + dump
		}
	}()
	comp := ""
	func() {
		defer func() {
			if r := recover(); r != nil {
				comp = "PANIC " + hx(fmt.Sprint(r))
			}
		}()
		_, err := libvore.Compile(src)
		if err != nil {
			msg := err.Error()
			kind := "Error"
			if i := strings.Index(msg, ":"); i > 0 {
				kind = msg[:i]
			}
			comp = "ERR " + kind
		} else {
			comp = "OK"
		}
	}()
	out := ""
	if toksField != "" {
		out = "TOKS " + toksField + "\t"
	}
	return out + "PARSE " + parse + "\tCOMPILE " + comp
}

func splitFields(line string) map[string]string {
	d := map[string]string{}
	for _, part := range strings.Split(line, "\t") {
		if j := strings.Index(part, " "); j >= 0 {
			d[part[:j]] = part[j+1:]
		} else {
			d[part] = ""
		}
	}
	return d
}

// the Lean case: the token list and what the real parser answered
func leanFront(c Case, impl string) (string, bool) {
	f := splitFields(impl)
	toks, ok := f["TOKS"]
	if !ok {
		return "", false
	}
	p := f["PARSE"]
	res := "NONE"
	switch {
	case strings.HasPrefix(p, "AST "):
		res = p
	case strings.HasPrefix(p, "ERR"):
		res = "ERR"
	case strings.HasPrefix(p, "PANIC"):
		res = "PANIC"
	}
	return c.ID + "\tparsetoks\t" + toks + "\t" + res, true
}

// ---------------------------------------------------------------------------
// sources
// ---------------------------------------------------------------------------

var fullCfg = GenCfg{MaxDepth: 3, NamedLoops: true, Subs: true, Globals: true, Predicates: true, Replace: true,
	Transforms: true, Captures: true, Amounts: true, MultiCmd: true, Anchors: true}

// richer process code than GenSource's transforms: every statement form
func genProcStmts(r *rand.Rand, depth int) string {
	n := 1 + r.Intn(3)
	parts := []string{}
	g := &srcGen{r: r, features: map[string]int{}}
	for i := 0; i < n; i++ {
		switch x := r.Intn(9); {
		case x < 2:
			parts = append(parts, "set v"+fmt.Sprint(r.Intn(3))+" to "+g.pexprAny(2, []string{"v0", "v1"}))
		case x < 3 && depth > 0:
			s := "if " + g.pexpr(2, "boolean", []string{"v0"}) + " then " + genProcStmts(r, depth-1)
			if r.Intn(2) == 0 {
				s += " else " + genProcStmts(r, depth-1)
			}
			parts = append(parts, s+" end")
		case x < 4 && depth > 0:
			parts = append(parts, "loop "+genProcStmts(r, depth-1)+" break end")
		case x < 5:
			parts = append(parts, "debug "+g.pexprAny(1, nil))
		case x < 6:
			parts = append(parts, []string{"break", "continue"}[r.Intn(2)])
		default:
			parts = append(parts, "return "+g.pexprAny(2, []string{"v0"}))
		}
	}
	return strings.Join(parts, " ")
}

var regexBodies = []string{"a", "ab|c", "a*", "(a|b)+", "[a-c]", "a{2,3}", "\\d+", "a?b", "[^a]", "(?<n>a)", ".", "^a$", "a{2}", "\\w\\s",
	// every escape the sub-parser knows, alone and combined: what it desugars to reaches the generator
	"\\b", "\\B", "\\w", "\\W", "\\s", "\\S", "\\d", "\\D", "a\\Bb", "\\ba+\\b", "[^\\d]", "(\\w+)\\s\\1", "\\B|\\b", "(?:\\B)+", "\\t\\n\\r", "\\k<n>"}

func genValid(r *rand.Rand) GenProgram {
	cfg := fullCfg
	cfg.MaxDepth = 1 + r.Intn(3)
	p := GenSource(r, cfg)
	extra := []string{}
	if r.Intn(4) == 0 {
		extra = append(extra, "set t"+fmt.Sprint(r.Intn(9))+" to transform "+[]string{"", "begin "}[r.Intn(2)]+genProcStmts(r, 2)+" end")
		p.Features["proc-stmts"]++
	}
	if r.Intn(6) == 0 {
		extra = append(extra, "set q to pattern 'a' at least 1 'b' begin "+genProcStmts(r, 1)+" end")
		p.Features["proc-stmts"]++
	}
	if r.Intn(8) == 0 {
		extra = append(extra, "set m to matches find all 'a' = x")
		p.Features["set-matches"]++
	}
	if r.Intn(5) == 0 {
		extra = append(extra, "find all @/"+regexBodies[r.Intn(len(regexBodies))]+"/ 'x'")
		p.Features["regex"]++
	}
	if r.Intn(10) == 0 {
		extra = append(extra, "find all ( ) {} = e 'a' in 'b', digit , caseless 'c' , 'a' to 'c'")
		p.Features["empty-groups"]++
	}
	if len(extra) > 0 {
		p.Src = strings.Join(extra, "\n") + "\n" + p.Src
	}
	return p
}

// byte spans of the real tokens of src (nil if the lexer rejects it)
func tokenSpans(src string) [][2]int {
	var spans [][2]int
	for _, s := range allTokenSpans(src) {
		spans = append(spans, [2]int{s.start, s.end})
	}
	return spans
}

var soupWords = strings.Fields(`find replace with set to pattern matches transform all skip take top last any whitespace
 digit upper lower letter whole line file word start end begin caseless not at least most between and exactly maybe
 fewest named in or if then else debug return head tail loop break continue true false
 ( ) { } , = + - * / % < > <= >= == != 'a' "b" x y 1 2 10 @/a/ -- --( )-- := ''`)

func tokenSoup(r *rand.Rand, n int) string {
	parts := []string{}
	for i := 0; i < n; i++ {
		parts = append(parts, soupWords[r.Intn(len(soupWords))])
	}
	return strings.Join(parts, " ")
}

// sources biased towards the process language and other deep corners
func procSoup(r *rand.Rand) string {
	words := strings.Fields(`set x to if then else end return debug loop break continue 1 2 'a' x y + - * ( ) not head tail and or == < true false begin`)
	n := 1 + r.Intn(10)
	parts := []string{"set", "f", "to", "transform"}
	for i := 0; i < n; i++ {
		parts = append(parts, words[r.Intn(len(words))])
	}
	if r.Intn(2) == 0 {
		parts = append(parts, "end")
	}
	return strings.Join(parts, " ")
}

func randomBytes(r *rand.Rand, n int) string {
	b := make([]byte, n)
	for i := range b {
		switch r.Intn(4) {
		case 0:
			b[i] = byte(r.Intn(256))
		case 1:
			b[i] = " \n\t'\"()-@/\\{}=,"[r.Intn(15)]
		default:
			b[i] = byte(32 + r.Intn(95))
		}
	}
	return string(b)
}

func regexSoup(r *rand.Rand) string {
	atoms := []string{"a", "b", "(", ")", "[", "]", "{", "}", "|", "*", "+", "?", "\\", "d", "k", "<", ">", "^", "$", ".", "-", "1", ",", ":", "=", "!", "{1", "{1,", "{1,2", "}",
		"\\b", "\\B", "\\w", "\\W", "\\s", "\\S", "\\D", "\\1", "B", "b", "w"}
	n := r.Intn(7)
	var b strings.Builder
	for i := 0; i < n; i++ {
		b.WriteString(atoms[r.Intn(len(atoms))])
	}
	return "find all @/" + b.String() + "/"
}

// the known defect inputs of DESIGN §9 and of this builder's analysis: always run
var c08Seeds = []string{
	// counts far beyond anything that may be unrolled or reserved, on the constructs that are NOT unrolled (named
	// loops, maxima, amounts): accepted at once on the unchanged tree
	"find all at least 1000000000000000 'a' named n", "find all between 20000000000000 and 20000000000001 'a' named \"s\"",
	"find all exactly 3000000000000000 digit named k", "find all at most 1000000000000000 'a'", "find all between 0 and 4000000000000000000 any fewest",
	"find all at most 9000000000000000000 'a' named m", "find skip 4000000000000000000 take 4000000000000000000 'a'", "find last 2000000000000000 'a'",
	"find top 9000000000000000000 'a'", "replace last 30000000000 'a' with 'b'", "find all @/a{0,900000000000000}/", "find all @/(?:ab){0,20000000000000}?c/",
	"set f to transform return end", "set f to transform return 1 + end", "set f to transform return (1 end",
	"set f to transform return 1 )", "set f to transform if true ) ", "set f to transform return not end",
	"set f to transform set x to end", "set f to transform if then end", "set f to transform debug end",
	"find all at least 1 'a' named", "find all at most 1 'a' fewest named", "find all exactly 1 'a' named",
	"find all between 1 and 2 'a' named", "set x to matches", "set x to matches ", "set x to pattern", "find all",
	"find all ", "find all (", "find all {", "find all ( )", "find all { } = x", "replace all with 'x'",
	"replace all 'a' with", "find all in 'b', digit , 'a'", "set f to transform return 1 --(c)-- + 2 end",
	"find all 'a' find all 'b'", "find all find all 'a'", "find skip 99999999999999999999 'a'",
	"find all at least 99999999999999999999 'a'", "set f to transform return 99999999999999999999 end",
	"set f to transform return 1 ) 2 3 end", "set f to transform else end", "set f to transform begin begin end",
	"set p to pattern 'a' begin return true", "set p to pattern 'a' begin return true end end",
	"find all exactly 2 'a' named foo", "find all not", "find all not in", "find all whole", "find all line 'a'",
	"find all @/a{1</", "find all @/a{/", "find all @/a{1,/", "find all @/(/", "find all @/[/", "find all @/\\/", "find all @/(a)(b)/ @/(c)/",
}

func addCase(cases *[]Case, seen map[string]bool, st *Stats, stream string, src string) {
	if seen[src] {
		return
	}
	seen[src] = true
	st.Counts["stream-"+stream]++
	*cases = append(*cases, Case{ID: fmt.Sprintf("%s%d", stream, len(*cases)), Op: "front", Fields: []string{hx(src)},
		Meta: map[string]string{"stream": stream}})
}

func genC08(r *rand.Rand, tier string, st *Stats) []Case {
	cases := []Case{}
	seen := map[string]bool{}
	for _, s := range c08Seeds {
		addCase(&cases, seen, st, "seed", s)
	}
	// regex bracket classes whose atoms and range bounds are escapes: every (lower bound, upper bound) pair from plain
	// characters and the escape kinds, positive and negated, alone and followed by a quantifier and more pattern
	bounds := []string{"a", "z", "+", "_", "\\d", "\\D", "\\s", "\\S", "\\w", "\\W", "\\t", "\\n", "\\x41", "\\]", "\\\\", "\\-", "\\b", "\\0"}
	for _, neg := range []string{"", "^"} {
		for _, lo := range bounds {
			addCase(&cases, seen, st, "regex-class-escapes", "find all @/["+neg+lo+"]/")
			for _, hi := range bounds {
				addCase(&cases, seen, st, "regex-class-escapes", "find all @/["+neg+lo+"-"+hi+"]/")
				if neg == "" {
					addCase(&cases, seen, st, "regex-class-escapes", "find all 'id=' @/[x"+lo+"-"+hi+"y]*z/")
				}
			}
		}
	}
	// process loops whose body moves TYPES around between variables (swap / rotate through a temporary, retype a
	// variable from its own value, assign in one branch only): whatever a checker does with a loop — one pass, several,
	// a fixed point — it has to come back
	vals := map[string]string{"n": "1", "s": "'x'", "b": "true"}
	for _, ctx := range []string{"transform", "predicate"} {
		for _, ty := range [][]string{{"n", "s"}, {"s", "b"}, {"n", "b"}, {"n", "s", "b"}, {"n", "n"}} {
			init, rot := "", "set t to v0 "
			for i, t := range ty {
				init += fmt.Sprintf("set v%d to %s ", i, vals[t])
				if i > 0 {
					rot += fmt.Sprintf("set v%d to v%d ", i-1, i)
				}
			}
			rot += fmt.Sprintf("set v%d to t ", len(ty)-1)
			for _, body := range []string{rot + "break", rot + "if v0 == v0 then break end", "if true then " + rot + "end break",
				"set v0 to v0 == v0 break", "set v0 to v0 + 1 set v0 to v0 + 'a' break", "loop " + rot + "break end break"} {
				src := "set f to transform " + init + "loop " + body + " end return 'r' end\nreplace all 'a' with f"
				if ctx == "predicate" {
					src = "set p to pattern 'a' begin " + init + "loop " + body + " end return true end\nfind all p"
				}
				addCase(&cases, seen, st, "type-permuting-loop", src)
			}
		}
	}
	nValid := sizes(tier, 60, 400)
	for i := 0; i < nValid; i++ {
		p := genValid(r)
		st.addFeatures(p.Features)
		src := p.Src
		addCase(&cases, seen, st, "valid", src)
		spans := tokenSpans(src)
		// every byte prefix (quick: sampled)
		step := 1
		if tier != "thorough" && len(src) > 60 {
			step = len(src) / 60
		}
		for k := 0; k < len(src); k += step {
			addCase(&cases, seen, st, "byteprefix", src[:k])
		}
		if spans == nil {
			continue
		}
		// every token prefix
		for _, sp := range spans {
			addCase(&cases, seen, st, "tokprefix", src[:sp[1]])
		}
		// one-token deletion / duplication / adjacent swap (quick: sampled positions)
		idx := []int{}
		for k := range spans {
			idx = append(idx, k)
		}
		if tier != "thorough" && len(idx) > 25 {
			r.Shuffle(len(idx), func(a, b int) { idx[a], idx[b] = idx[b], idx[a] })
			idx = idx[:25]
			sort.Ints(idx)
		}
		for _, k := range idx {
			a, b := spans[k][0], spans[k][1]
			addCase(&cases, seen, st, "delete", src[:a]+src[b:])
			addCase(&cases, seen, st, "dup", src[:b]+" "+src[a:b]+src[b:])
			if k+1 < len(spans) {
				c, d := spans[k+1][0], spans[k+1][1]
				addCase(&cases, seen, st, "swap", src[:a]+src[c:d]+src[b:c]+src[a:b]+src[d:])
			}
		}
	}
	for i := 0; i < sizes(tier, 700, 8000); i++ {
		addCase(&cases, seen, st, "soup", tokenSoup(r, 1+r.Intn(12)))
	}
	for i := 0; i < sizes(tier, 700, 8000); i++ {
		addCase(&cases, seen, st, "procsoup", procSoup(r))
	}
	for i := 0; i < sizes(tier, 300, 6000); i++ {
		addCase(&cases, seen, st, "bytes", randomBytes(r, r.Intn(24)))
	}
	for i := 0; i < sizes(tier, 300, 6000); i++ {
		addCase(&cases, seen, st, "regex", regexSoup(r))
	}
	// deep nesting: every recursive construct of the three grammars (search language, regex literal, process code)
	// nested 12..64 levels, inner expression on the left and on the right.  The sources are a few hundred bytes;
	// a front end whose work doubles per level (re-parsing an operand, say) does not return on them.
	for _, src := range deepSources(tier) {
		addCase(&cases, seen, st, "deep", src)
	}
	// non-ASCII input: the lexer classifies runes with unicode.IsDigit / IsLetter / IsSpace, so every
	// Unicode category it distinguishes is placed at token starts and inside tokens of valid programs,
	// alone, and as malformed UTF-8
	for i := 0; i < sizes(tier, 500, 6000); i++ {
		addCase(&cases, seen, st, "unicode", unicodeInsert(r))
	}
	return cases
}

// deepSources: nested constructs.  Loop shapes keep min = 0: a mandatory copy doubles the generated code per level
// on the unchanged tree too (the recorded unrolling finding).
func deepSources(tier string) []string {
	type shape struct {
		pre, post string // pre + inner + post
		open, end string // wrapped around the whole nest
		leaf      string
		numbered  bool // %d in pre/post is replaced by the level (unique names)
	}
	shapes := []shape{
		{"(", ")", "find all ", "", "'a'", false},
		{"(", " or 'b')", "find all ", "", "'a'", false},
		{"('b' or ", ")", "find all ", "", "'a'", false},
		{"(", " 'b')", "find all ", "", "'a'", false},
		{"('b' ", ")", "find all ", "", "'a'", false},
		{"((", ") or 'b')", "find all ", "", "'a'", false},
		{"", " or 'b'", "find all ", "", "'a'", false},
		{"'b' or ", "", "find all ", "", "'a'", false},
		{"'b' ", "", "find all ", "", "'a'", false},
		{"at least 0 (", ")", "find all ", "", "'a'", false},
		{"maybe (", ") fewest", "find all ", "", "'a'", false},
		{"at most 2 ('b' or (", "))", "find all ", "", "'a'", false},
		{"(", ") = v%d", "find all ", "", "'a'", true},
		{"('c' or (", ")) = v%d", "find all ", "", "'a'", true},
		{"{", " 'b'} = s%d", "find all ", "", "'a'", true},
		{"{'b' or (", ")} = s%d", "find all ", "", "'a'", true},
		{"(", ")", "replace all ", " with 'x'", "'a'", false},
		{"(", " or 'b')", "set p to pattern ", " find all p", "'a'", false},
		{"'b', ", "", "find all in ", "", "'a'", false},
		{"'b', ", "", "find all not in ", "", "'a'", false},
		// regex literals
		{"(", ")", "find all @/", "/", "a", false},
		{"(?:", ")", "find all @/", "/", "a", false},
		{"(", "|b)", "find all @/", "/", "a", false},
		{"(b|", ")", "find all @/", "/", "a", false},
		{"(", ")*", "find all @/", "/", "a", false},
		{"(", ")?b", "find all @/", "/", "a", false},
		{"(?<n%d>", ")", "find all @/", "/", "a", true},
		{"b", "", "find all @/", "/", "a", false},
		{"b|", "", "find all @/", "/", "a", false},
		{"[a-b]", "", "find all @/", "/", "a", false},
		// process code
		{"(", " + 1)", "set f to transform return ", " end", "1", false},
		{"(1 + ", ")", "set f to transform return ", " end", "1", false},
		{"(", ")", "set f to transform return ", " end", "1", false},
		{"", " + 1", "set f to transform return ", " end", "1", false},
		{"1 * ", "", "set f to transform return ", " end", "1", false},
		{"not ", "", "set p to pattern 'a' begin return ", " end find all p", "true", false},
		{"(", " and true)", "set p to pattern 'a' begin return ", " end find all p", "true", false},
		{"(true or ", ")", "set p to pattern 'a' begin return ", " end find all p", "true", false},
		{"((", " < 1) == true)", "set p to pattern 'a' begin return ", " end find all p", "true", false},
		{"head (", ")", "set f to transform return ", " end", "match", false},
		{"if true then ", " end", "set f to transform ", " return 1 end", "set x to 1", false},
		{"if false then return 2 else ", " end", "set f to transform ", " return 1 end", "set x to 1", false},
		{"loop ", " break end", "set f to transform ", " return 1 end", "set x to 1", false},
		{"set x to 1 ", "", "set f to transform ", " return 1 end", "set x to 1", false},
	}
	depths := []int{12, 24, 40, 64}
	if tier == "thorough" {
		depths = []int{4, 8, 12, 16, 20, 24, 28, 32, 40, 48, 64, 96}
	}
	out := []string{}
	for _, sh := range shapes {
		for _, d := range depths {
			inner := sh.leaf
			for l := 1; l <= d; l++ {
				pre, post := sh.pre, sh.post
				if sh.numbered {
					pre = strings.ReplaceAll(pre, "%d", fmt.Sprint(l))
					post = strings.ReplaceAll(post, "%d", fmt.Sprint(l))
				}
				inner = pre + inner + post
			}
			out = append(out, sh.open+inner+sh.end)
		}
	}
	return out
}

var interestingRunes = []string{
	"\u0663", "\u0969", "\uff13", "\u06f5", "\u07c3", // decimal digits of other scripts
	"\u00e9", "\u03bb", "\u0416", "\u4e2d", "\u00df", "\u01c5", // letters (lower, upper, title, other)
	"\u00a0", "\u2003", "\u3000", "\u0085", "\u2028", "\u1680", // spaces
	"\u20ac", "\u2192", "\u00b2", "\u00bd", "\u2160", "\u0301", // symbols, No/Nl numbers, combining mark
	"\U0001f600", "\ufeff", "\ufffd", // astral, BOM, replacement character
	"\xff", "\xc3", "\xe2\x82", "\xc0\x80", "\xed\xa0\x80", // malformed UTF-8
}

func unicodeInsert(r *rand.Rand) string {
	ru := interestingRunes[r.Intn(len(interestingRunes))]
	switch r.Intn(5) {
	case 0:
		return ru
	case 1:
		return "find all " + ru + " 'a'"
	case 2:
		return []string{"find top ", "find skip ", "find all exactly ", "find all at least 1", "set f to transform return "}[r.Intn(5)] + ru + " 'a'"
	}
	p := genValid(r)
	src := p.Src
	spans := tokenSpans(src)
	if len(spans) == 0 {
		return src + ru
	}
	sp := spans[r.Intn(len(spans))]
	switch r.Intn(4) {
	case 0: // at a token start
		return src[:sp[0]] + ru + src[sp[0]:]
	case 1: // inside / at the end of a token
		return src[:sp[1]] + ru + src[sp[1]:]
	case 2: // replacing a token
		return src[:sp[0]] + ru + src[sp[1]:]
	default: // as its own token
		return src[:sp[0]] + ru + " " + src[sp[0]:]
	}
}

// ---------------------------------------------------------------------------
// corpus of real vore sources (tests + docs), shared with C15
// ---------------------------------------------------------------------------

var goCallRe = regexp.MustCompile("(?s)(?:Compile|singleMatch|matches|checkNoError|checkVoreError)\\w*\\(\\s*(?:t\\s*,\\s*)?(\"(?:[^\"\\\\\\n]|\\\\.)*\"|`[^`]*`)")

func repoRoot() string {
	if v := os.Getenv("VERIF_REPO"); v != "" {
		return v
	}
	return "/repo"
}

func corpusSources() []string {
	out := []string{}
	seen := map[string]bool{}
	add := func(s string) {
		s = strings.TrimSpace(s)
		if s == "" || seen[s] || len(s) > 2000 {
			return
		}
		seen[s] = true
		out = append(out, s)
	}
	root := repoRoot()
	files, _ := filepath.Glob(filepath.Join(root, "libvore", "*_test.go"))
	strRe := regexp.MustCompile("(?s)\"((?:[^\"\\\\\\n]|\\\\.)*)\"|`([^`]*)`")
	for _, f := range files {
		data, err := os.ReadFile(f)
		if err != nil {
			continue
		}
		for _, m := range strRe.FindAllStringSubmatch(string(data), -1) {
			s := m[2]
			if m[1] != "" {
				// a Go interpreted string: undo the common escapes
				s = m[1]
				s = strings.NewReplacer("\\\\", "\\", "\\\"", "\"", "\\n", "\n", "\\t", "\t").Replace(s)
			}
			low := strings.ToLower(strings.TrimSpace(s))
			if strings.HasPrefix(low, "find ") || strings.HasPrefix(low, "replace ") || strings.HasPrefix(low, "set ") {
				add(s)
			}
		}
	}
	_ = goCallRe
	filepath.Walk(filepath.Join(root, "docs"), func(p string, info os.FileInfo, err error) error {
		if err != nil || info.IsDir() {
			return nil
		}
		data, err := os.ReadFile(p)
		if err != nil {
			return nil
		}
		if strings.HasSuffix(p, ".vore") {
			add(string(data))
			return nil
		}
		if strings.HasSuffix(p, ".md") {
			// fenced code blocks
			blocks := strings.Split(string(data), "```")
			for i := 1; i < len(blocks); i += 2 {
				b := blocks[i]
				if nl := strings.Index(b, "\n"); nl >= 0 {
					b = b[nl+1:]
				}
				low := strings.ToLower(strings.TrimSpace(b))
				if strings.HasPrefix(low, "find ") || strings.HasPrefix(low, "replace ") || strings.HasPrefix(low, "set ") {
					add(b)
				}
			}
		}
		return nil
	})
	sort.Strings(out)
	return out
}

func init() {
	extraOps["front"] = opFront
	leanCaseExtra["front"] = leanFront
	propGens["C08"] = genC08
}
