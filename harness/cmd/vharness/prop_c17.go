package main

// C17 — JSON output is valid and carries the match data unchanged.
//
// op `json` <source> <text>: compile, (*Vore).Run, then call the REAL Matches.Json() and
// Matches.FormattedJson(), parse both with encoding/json, compare the two documents with each
// other and with the in-memory matches field by field, and emit the in-memory matches and the
// decoded tree for the Lean side (Vore/Driver/OpsC17.lean), which rebuilds the tree with
// Json.ofMatches and runs Json.decodeMatches on the implementation's tree.

import (
	"encoding/hex"
	"encoding/json"
	"fmt"
	"io"
	"math/rand"
	"os"
	"path/filepath"
	"reflect"
	"sort"
	"strconv"
	"strings"
	"unicode/utf8"

	"github.com/jmeaster30/vore/libvore/engine"
)

// c17Fix is what encoding/json does to a Go string: every byte that is not part of a valid
// UTF-8 sequence becomes U+FFFD.
func c17Fix(s string) string {
	var b strings.Builder
	for i := 0; i < len(s); {
		r, size := utf8.DecodeRuneInString(s[i:])
		if r == utf8.RuneError && size == 1 {
			b.WriteString("�")
		} else {
			b.WriteString(s[i : i+size])
		}
		i += size
	}
	return b.String()
}

func c17Name(s string) string {
	if s == "" {
		return "_"
	}
	return "n" + hex.EncodeToString([]byte(s))
}

// ---- in-memory matches as an s-expression -------------------------------------------

func c17ValueS(v engine.Value) string {
	switch x := v.(type) {
	case engine.ValueString:
		return "( s " + hx(x.Value) + " )"
	case engine.ValueHashMap:
		return "( m " + c17MapS(x) + ")"
	}
	return "( ? )"
}

func c17MapS(m engine.ValueHashMap) string {
	keys := m.Keys()
	sort.Strings(keys)
	var b strings.Builder
	for _, k := range keys {
		v, _ := m.Get(k)
		b.WriteString("( " + c17Name(k) + " " + c17ValueS(v) + " ) ")
	}
	return b.String()
}

func c17MatchesS(ms engine.Matches) string {
	var b strings.Builder
	b.WriteString("( ms ")
	for _, m := range ms {
		r := "-"
		if m.Replacement.HasValue() {
			r = hx(m.Replacement.GetValue())
		}
		fmt.Fprintf(&b, "( m %s %d %d %d %d %d %d %d %s %s ( vars %s) ) ", hx(m.Filename), m.MatchNumber,
			m.Offset.Start, m.Offset.End, m.Line.Start, m.Line.End, m.Column.Start, m.Column.End, hx(m.Value), r,
			c17MapS(m.Variables))
	}
	b.WriteString(")")
	return b.String()
}

// ---- decoded documents ---------------------------------------------------------------

// c17Decode parses exactly one JSON document (numbers kept as written).
func c17Decode(s string) (any, error) {
	dec := json.NewDecoder(strings.NewReader(s))
	dec.UseNumber()
	var v any
	if err := dec.Decode(&v); err != nil {
		return nil, err
	}
	var extra any
	if err := dec.Decode(&extra); err != io.EOF {
		return nil, fmt.Errorf("more than one document")
	}
	return v, nil
}

func c17TreeS(v any) string {
	switch x := v.(type) {
	case nil:
		return "null"
	case json.Number:
		if _, err := strconv.ParseInt(string(x), 10, 64); err != nil {
			return "( num ? )"
		}
		return "( num " + string(x) + " )"
	case string:
		return "( str " + hx(x) + " )"
	case []any:
		var b strings.Builder
		b.WriteString("( arr ")
		for _, e := range x {
			b.WriteString(c17TreeS(e) + " ")
		}
		b.WriteString(")")
		return b.String()
	case map[string]any:
		keys := make([]string, 0, len(x))
		for k := range x {
			keys = append(keys, k)
		}
		sort.Strings(keys)
		var b strings.Builder
		b.WriteString("( obj ")
		for _, k := range keys {
			b.WriteString("( " + c17Name(k) + " " + c17TreeS(x[k]) + " ) ")
		}
		b.WriteString(")")
		return b.String()
	}
	return "( bad )"
}

// c17Canon is the rendering Vore.Driver.canon produces on the Lean side.
func c17Canon(v any) string {
	switch x := v.(type) {
	case nil:
		return "null"
	case json.Number:
		return string(x)
	case string:
		return hx(x)
	case []any:
		parts := []string{}
		for _, e := range x {
			parts = append(parts, c17Canon(e))
		}
		return "[" + strings.Join(parts, ",") + "]"
	case map[string]any:
		keys := make([]string, 0, len(x))
		for k := range x {
			keys = append(keys, k)
		}
		sort.Strings(keys)
		parts := []string{}
		for _, k := range keys {
			parts = append(parts, hex.EncodeToString([]byte(k))+":"+c17Canon(x[k]))
		}
		return "{" + strings.Join(parts, ",") + "}"
	}
	return "?"
}

// ---- field-by-field comparison with the in-memory matches ------------------------------

func c17Keys(m map[string]any) string {
	keys := make([]string, 0, len(m))
	for k := range m {
		keys = append(keys, k)
	}
	sort.Strings(keys)
	return strings.Join(keys, ",")
}

var c17MatchKeys = map[string]bool{"filename": true, "matchNumber": true, "offset": true, "line": true,
	"column": true, "value": true, "replacement": true, "variables": true}

// c17Known: a match object restricted to the documented member names
func c17Known(o map[string]any) map[string]any {
	out := map[string]any{}
	for k, v := range o {
		if c17MatchKeys[k] {
			out[k] = v
		}
	}
	return out
}

// c17Prune: the document with undocumented members of the match objects removed; returns their names
func c17Prune(doc any) (any, string) {
	arr, ok := doc.([]any)
	if !ok {
		return doc, ""
	}
	extra := map[string]bool{}
	out := make([]any, len(arr))
	for i, e := range arr {
		if o, ok := e.(map[string]any); ok {
			for k := range o {
				if !c17MatchKeys[k] {
					extra[k] = true
				}
			}
			out[i] = c17Known(o)
		} else {
			out[i] = e
		}
	}
	names := []string{}
	for k := range extra {
		names = append(names, k)
	}
	sort.Strings(names)
	return out, strings.Join(names, ",")
}

func c17CheckInt(path string, v any, want int) string {
	n, ok := v.(json.Number)
	if !ok || string(n) != strconv.Itoa(want) {
		return fmt.Sprintf("%s: document has %v, match has %d", path, v, want)
	}
	return ""
}

func c17CheckStr(path string, v any, want string) string {
	s, ok := v.(string)
	if !ok || s != c17Fix(want) {
		return fmt.Sprintf("%s: document has %q, match has %q", path, v, want)
	}
	return ""
}

func c17CheckRange(path string, v any, start, end int) string {
	o, ok := v.(map[string]any)
	if !ok || c17Keys(o) != "end,start" {
		return path + ": not an object with exactly start and end"
	}
	if e := c17CheckInt(path+".start", o["start"], start); e != "" {
		return e
	}
	return c17CheckInt(path+".end", o["end"], end)
}

func c17CheckVars(path string, v any, want engine.ValueHashMap) string {
	o, ok := v.(map[string]any)
	if !ok {
		return path + ": not an object"
	}
	if len(o) != want.Len() {
		return fmt.Sprintf("%s: document has members [%s], match has %d variables", path, c17Keys(o), want.Len())
	}
	for _, k := range want.Keys() {
		dv, ok := o[c17Fix(k)]
		if !ok {
			return path + "." + k + ": missing"
		}
		val, _ := want.Get(k)
		switch x := val.(type) {
		case engine.ValueString:
			if e := c17CheckStr(path+"."+k, dv, x.Value); e != "" {
				return e
			}
		case engine.ValueHashMap:
			if e := c17CheckVars(path+"."+k, dv, x); e != "" {
				return e
			}
		default:
			return path + "." + k + ": unknown value kind"
		}
	}
	return ""
}

// c17CheckDoc: the executable form of the property on the implementation's own output.
func c17CheckDoc(doc any, ms engine.Matches) string {
	arr, ok := doc.([]any)
	if !ok {
		return "document is not an array"
	}
	if len(arr) != len(ms) {
		return fmt.Sprintf("document has %d elements, result has %d matches", len(arr), len(ms))
	}
	for i, m := range ms {
		p := fmt.Sprintf("[%d]", i)
		o, ok := arr[i].(map[string]any)
		if !ok {
			return p + ": not an object"
		}
		want := "column,filename,line,matchNumber,offset,value,variables"
		if m.Replacement.HasValue() {
			want = "column,filename,line,matchNumber,offset,replacement,value,variables"
		}
		// the documented members must be exactly these; members with other names (a later
		// extension of the format) are not the property's business and are reported separately
		if c17Keys(c17Known(o)) != want {
			return p + ": members [" + c17Keys(o) + "], expected [" + want + "]"
		}
		checks := []string{
			c17CheckStr(p+".filename", o["filename"], m.Filename),
			c17CheckInt(p+".matchNumber", o["matchNumber"], m.MatchNumber),
			c17CheckRange(p+".offset", o["offset"], m.Offset.Start, m.Offset.End),
			c17CheckRange(p+".line", o["line"], m.Line.Start, m.Line.End),
			c17CheckRange(p+".column", o["column"], m.Column.Start, m.Column.End),
			c17CheckStr(p+".value", o["value"], m.Value),
			c17CheckVars(p+".variables", o["variables"], m.Variables),
		}
		if m.Replacement.HasValue() {
			checks = append(checks, c17CheckStr(p+".replacement", o["replacement"], m.Replacement.GetValue()))
		}
		for _, e := range checks {
			if e != "" {
				return e
			}
		}
	}
	return ""
}

// c17Shape: measured distribution of the result list (for the evidence)
func c17Shape(ms engine.Matches) string {
	repl, nested, flat, coerced := 0, 0, 0, 0
	var walk func(m engine.ValueHashMap, depth int) (hasStr bool, hasMap bool, changed bool)
	walk = func(m engine.ValueHashMap, depth int) (bool, bool, bool) {
		hs, hm, ch := false, false, false
		for _, k := range m.Keys() {
			v, _ := m.Get(k)
			switch x := v.(type) {
			case engine.ValueString:
				hs = true
				if c17Fix(x.Value) != x.Value {
					ch = true
				}
			case engine.ValueHashMap:
				hm = true
				_, _, c := walk(x, depth+1)
				ch = ch || c
			}
		}
		return hs, hm, ch
	}
	for _, m := range ms {
		if m.Replacement.HasValue() {
			repl++
		}
		hs, hm, ch := walk(m.Variables, 0)
		if hm {
			nested++
		}
		if hs {
			flat++
		}
		if ch || c17Fix(m.Value) != m.Value || c17Fix(m.Replacement.GetValueOrDefault("")) != m.Replacement.GetValueOrDefault("") {
			coerced++
		}
	}
	return fmt.Sprintf("repl=%d,nested=%d,flat=%d,coerced=%d", repl, nested, flat, coerced)
}

func c17Call(f func() string) (out string, panicked string) {
	defer func() {
		if r := recover(); r != nil {
			panicked = fmt.Sprint(r)
		}
	}()
	return f(), ""
}

func opJson(fields []string) string {
	src, text := unhx(fields[0]), unhx(fields[1])
	v, class := safeCompile(src)
	if v == nil {
		return "COMPILE " + class
	}
	var ms engine.Matches
	if len(fields) >= 3 && fields[2] != "" {
		// the text arrives through a file whose path is spelled in a given form (doubled slash, dot segments, a
		// directory argument with and without trailing slash): the in-memory filename is whatever RunFiles makes of it
		dir, err := os.MkdirTemp("", "c17-")
		if err != nil {
			return "BADCASE"
		}
		defer os.RemoveAll(dir)
		if os.MkdirAll(filepath.Join(dir, "d", "sub"), 0o755) != nil || os.WriteFile(filepath.Join(dir, "d", "f.txt"), []byte(text), 0o644) != nil {
			return "BADCASE"
		}
		path := map[string]string{"plain": dir + "/d/f.txt", "doubled": dir + "/d//f.txt", "dot": dir + "/d/./f.txt",
			"dotdot": dir + "/d/sub/../f.txt", "dir": dir + "/d", "dirslash": dir + "/d/", "dirdot": dir + "/d/."}[fields[2]]
		if path == "" {
			return "BADCASE"
		}
		if res := withBudget(func() string { ms = v.RunFiles([]string{path}, engine.NOTHING, false); return "" }); res != "" {
			return "RUN " + res
		}
	} else if res := withBudget(func() string { ms = v.Run(text); return "" }); res != "" {
		return "RUN " + res
	}
	out := []string{"N " + strconv.Itoa(len(ms)), "SHAPE " + c17Shape(ms), "MS " + c17MatchesS(ms)}
	compact, p1 := c17Call(ms.Json)
	formatted, p2 := c17Call(ms.FormattedJson)
	if p1 != "" {
		out = append(out, "JSON PANIC "+hx(p1))
	} else {
		out = append(out, "JSON ok")
	}
	if p2 != "" {
		out = append(out, "FJSON PANIC "+hx(p2))
	} else {
		out = append(out, "FJSON ok")
	}
	var d1, d2 any
	var e1, e2 error
	if p1 == "" {
		d1, e1 = c17Decode(compact)
		if e1 != nil {
			out = append(out, "JSONPARSE "+hx(e1.Error()))
		} else {
			out = append(out, "JSONPARSE ok")
			if msg := c17CheckDoc(d1, ms); msg != "" {
				out = append(out, "FIELDS "+hx(msg))
			} else {
				out = append(out, "FIELDS ok")
			}
			pruned, extra := c17Prune(d1)
			if extra != "" {
				out = append(out, "EXTRA "+hx(extra))
			}
			out = append(out, "ITREE "+c17TreeS(pruned), "TREE "+c17Canon(pruned))
		}
	}
	if p2 == "" {
		d2, e2 = c17Decode(formatted)
		if e2 != nil {
			out = append(out, "FJSONPARSE "+hx(e2.Error()))
		} else {
			out = append(out, "FJSONPARSE ok")
			if msg := c17CheckDoc(d2, ms); msg != "" {
				out = append(out, "FFIELDS "+hx(msg))
			} else {
				out = append(out, "FFIELDS ok")
			}
			pruned2, _ := c17Prune(d2)
			out = append(out, "FTREE "+c17Canon(pruned2))
		}
	}
	// Match.Json() / Match.FormattedJson(): each element on its own is the same object
	if arr, ok := d1.([]any); ok && e1 == nil && p1 == "" && len(arr) == len(ms) {
		single := "ok"
		for i, m := range ms {
			a, pa := c17Call(m.Json)
			b, pb := c17Call(m.FormattedJson)
			if pa != "" || pb != "" {
				single = hx(fmt.Sprintf("[%d]: Match.Json()/FormattedJson() panics: %s%s", i, pa, pb))
				break
			}
			da, ea := c17Decode(a)
			db, eb := c17Decode(b)
			if ea != nil || eb != nil || !reflect.DeepEqual(da, arr[i]) || !reflect.DeepEqual(db, arr[i]) {
				single = hx(fmt.Sprintf("[%d]: Match.Json()/FormattedJson() is not the list's element", i))
				break
			}
		}
		out = append(out, "SINGLE "+single)
	}
	if p1 == "" && p2 == "" && e1 == nil && e2 == nil {
		if reflect.DeepEqual(d1, d2) {
			out = append(out, "DOCEQ T")
		} else {
			out = append(out, "DOCEQ F")
		}
	}
	return strings.Join(out, "\t")
}

// ---- generator ----------------------------------------------------------------------

type c17Piece struct {
	s    string
	kind string
}

var c17Pieces = []c17Piece{
	{"\"", "quote"}, {"\\", "backslash"}, {"/", "plain"}, {"'", "plain"},
	{"\n", "control"}, {"\t", "control"}, {"\r", "control"}, {"\x00", "control"}, {"\x01", "control"},
	{"\x1f", "control"}, {"\x7f", "control"}, {"\b", "control"}, {"\f", "control"},
	{"<", "html"}, {">", "html"}, {"&", "html"},
	{" ", "plain"}, {"a", "plain"}, {"b", "plain"}, {"a", "plain"}, {"ab", "plain"}, {" ", "plain"},
	{"é", "utf8"}, {"ß", "utf8"}, {"漢", "utf8"}, {"\U0001F600", "utf8"}, {" ", "utf8"},
	{"�", "utf8"},
	{"\xff", "invalid"}, {"\xc3", "invalid"}, {"\xa9", "invalid"}, {"\xed\xa0\x80", "invalid"},
	// look-alikes: text that resembles a JSON escape, an HTML-escaped sequence or a format verb once encoded
	{"\\u003c", "lookalike"}, {"\\u003e", "lookalike"}, {"\\u0026", "lookalike"}, {"\\u0041", "lookalike"},
	{"\\n", "lookalike"}, {"\\\"", "lookalike"}, {"\\\\", "lookalike"}, {"\\/", "lookalike"}, {"\\u2028", "lookalike"},
	{"%d", "lookalike"}, {"%s", "lookalike"}, {"%", "lookalike"}, {"%!", "lookalike"}, {"&lt;", "lookalike"}, {"</script>", "lookalike"},
	{"\u2028", "utf8"}, {"\u2029", "utf8"},
	{"\xc0\x80", "invalid"}, {"\xf4\x90\x80\x80", "invalid"}, {"\xe2\x82", "invalid"}, {"\xf0\x9f\x98", "invalid"},
}

func c17Text(r *rand.Rand, maxPieces int, feats map[string]int) string {
	n := r.Intn(maxPieces + 1)
	var b strings.Builder
	for i := 0; i < n; i++ {
		p := c17Pieces[r.Intn(len(c17Pieces))]
		// keep two thirds of the texts free of invalid bytes so exact round trips are common
		if p.kind == "invalid" && r.Intn(3) != 0 {
			p = c17Pieces[16+r.Intn(6)]
		}
		feats["text:"+p.kind]++
		b.WriteString(p.s)
	}
	return b.String()
}

// programs whose matches and variables carry arbitrary bytes of the text
var c17Programs = []struct{ src, kind string }{
	{"find all any", "find"},
	{"find all at least 1 any", "find"},
	{"find all whole line", "find"},
	{"find all (at least 1 not whitespace) = w", "find-flat"},
	{"find all (any = c) (maybe any) = d", "find-flat"},
	{"find all at least 1 ((not whitespace) = x) named lp", "find-nested"},
	{"find all at least 1 ((not whitespace) = x (maybe ' ') = y) named lp", "find-nested"},
	{"find all at least 1 (at least 1 ((not whitespace) = c) named inner maybe ' ') named outer", "find-nested2"},
	{"find all (any = p) at least 1 ((not whitespace) = x) named lp", "find-nested"},
	{"find top 1 any", "find-one"},
	{"find skip 1 take 2 at least 1 not whitespace", "find-window"},
	{"find last 2 any", "find-window"},
	{"find all 'zzzz'", "find-empty"},
	{"replace all (at least 1 not whitespace) = w with '\"' w '\\\\'", "replace"},
	{"replace all any with ''", "replace"},
	{"replace all any = c with c c", "replace"},
	{"replace all any with nosuch", "replace-none"},
	// replacements that are EMPTY for some matches and not for others: an optional capture, a transform returning ''
	{"replace all (not whitespace) (maybe any) = opt with opt", "replace-some-empty"},
	{"set t to transform\n if matchNumber % 2 == 0 then return '' end return match\nend\nreplace all any with t", "replace-some-empty"},
	{"replace all any with '' ''", "replace"},
	{"replace all at least 1 ((not whitespace) = x) named lp with '<' value '>' matchNumber filename", "replace-nested"},
	{"replace top 1 whole line with 'x\\x01\\n'", "replace-one"},
	{"find all 'a'\nreplace all 'b' with 'c'", "mixed"},
	{"find all any\nfind all at least 1 ((not whitespace) = x) named lp", "mixed"},
}

func init() {
	extraOps["json"] = opJson
	leanCaseExtra["json"] = func(c Case, impl string) (string, bool) {
		ms, tree := "", "-"
		for _, part := range strings.Split(impl, "\t") {
			if strings.HasPrefix(part, "MS ") {
				ms = part[3:]
			}
			if strings.HasPrefix(part, "ITREE ") {
				tree = part[6:]
			}
		}
		if ms == "" {
			return "", false
		}
		return c.ID + "\tjson\t" + ms + "\t" + tree, true
	}
	propGens["C17"] = func(r *rand.Rand, tier string, st *Stats) []Case {
		cases := []Case{}
		add := func(id, src, text string) {
			cases = append(cases, Case{ID: id, Op: "json", Fields: []string{hx(src), hx(text)}, Meta: map[string]string{}})
		}
		// 0a. result lists that are the concatenation of several scans (several commands): offsets restart with each
		// command, so the list is NOT ascending — first command matching deep in a longer text, last one at its top
		for k, n := range []int{300, 1100, 5000, 70000} {
			filler := strings.Repeat("lorem ipsum\n", n/12+1)
			text := "TITLE q\"uote\n" + filler + "TODO \\ end"
			for j, src := range []string{"find all 'TODO'\nfind all 'TITLE'", "replace all 'TODO' with 'DONE'\nfind all 'TITLE' (any = c)",
				"find all 'TODO'\nfind all 'nothing'\nfind top 1 any", "find last 1 any\nfind top 1 any"} {
				st.Features["multi-scan-descending-offsets"]++
				add(fmt.Sprintf("ms%d.%d", k, j), src, text)
			}
		}
		// 0. the same kind of programs with the text arriving through a file whose path is not in canonical form
		forms := []string{"plain", "doubled", "dot", "dotdot", "dir", "dirslash", "dirdot"}
		for i, p := range c17Programs {
			if i%3 != 0 && p.kind != "replace-nested" {
				continue
			}
			for k, form := range forms {
				feats := map[string]int{}
				text := c17Text(r, 1+r.Intn(6), feats)
				st.Features["via-file-path-"+form]++
				cases = append(cases, Case{ID: fmt.Sprintf("vf%d.%d", i, k), Op: "json", Fields: []string{hx(p.src), hx(text), form}, Meta: map[string]string{}})
			}
		}
		// 1. fixed programs over texts with quotes, backslashes, control characters, non-ASCII, invalid bytes
		perProg := sizes(tier, 40, 600)
		for i, p := range c17Programs {
			for j := 0; j < perProg; j++ {
				feats := map[string]int{}
				text := c17Text(r, 1+r.Intn(9), feats)
				if j == 0 {
					text = ""
				}
				st.addFeatures(feats)
				st.Features["prog:"+p.kind]++
				add(fmt.Sprintf("p%d.%d", i, j), p.src, text)
			}
		}
		// 1b. texts beyond 64 KiB and beyond 65 536 lines: offsets, lines and columns that do not fit 16 bits, next to
		// small ones (anything that keys, packs or caches a range by its end points shows here)
		{
			long := "ab" + strings.Repeat("x", 65535) + "ab" + strings.Repeat("y", 70) + "ab"
			lines := "ab\n" + strings.Repeat("\n", 65534) + "ab cd\nab"
			wide := strings.Repeat("q", 3) + "ab" + strings.Repeat("\n", 300) + strings.Repeat("z", 65536) + "ab"
			for i, t := range []string{long, lines, wide} {
				add(fmt.Sprintf("big%d.f", i), "find all 'ab'", t)
				add(fmt.Sprintf("big%d.r", i), "replace all ('a' = x) 'b' with x value", t)
				add(fmt.Sprintf("big%d.l", i), "find last 2 at least 1 ('a' = x 'b') named lp", t)
			}
		}
		// 2. literal programs built from the text's own pieces (escapes in the source too)
		nlit := sizes(tier, 150, 3000)
		for i := 0; i < nlit; i++ {
			feats := map[string]int{}
			text := c17Text(r, 2+r.Intn(8), feats)
			p := c17Pieces[r.Intn(len(c17Pieces))]
			q := c17Pieces[r.Intn(len(c17Pieces))]
			var src string
			switch r.Intn(6) {
			case 4:
				// the parser accepts a string literal as the NAME of a loop: the name becomes a key of the variables
				// object, with whatever characters it holds
				src = "find all at least 1 ((not whitespace) = x) named " + quote(p.s)
			case 5:
				src = "replace all at least 1 (at least 1 (any = c) named " + quote(q.s) + " fewest) named " + quote(p.s+"2") + " with value"
			case 0:
				src = "find all " + quote(p.s) + " = lit"
			case 1:
				src = "replace all " + quote(p.s) + " with " + quote(q.s) + " value " + quote(p.s)
			case 2:
				src = "find all at least 1 (" + "(" + quote(p.s) + " = x) or (" + quote(q.s) + " = y)) named lp"
			default:
				src = "replace all in " + quote(p.s) + ", " + quote(q.s) + " with " + quote(q.s)
			}
			st.addFeatures(feats)
			st.Features["prog:literal"]++
			add(fmt.Sprintf("l%d", i), src, text)
		}
		// 3. generated programs (captures, named loops, replace, transforms, several commands)
		cfg := GenCfg{MaxDepth: 3, Subs: true, Globals: true, Predicates: false, Captures: true, Anchors: true,
			NamedLoops: true, Replace: true, Transforms: true, Amounts: true, MultiCmd: true}
		ngen := sizes(tier, 400, 8000)
		for i := 0; i < ngen; i++ {
			p := GenSource(r, cfg)
			st.addFeatures(p.Features)
			st.Features["prog:generated"]++
			for j := 0; j < 2; j++ {
				add(fmt.Sprintf("g%d.%d", i, j), p.Src, GenText(r, p.Lits, 14))
			}
		}
		return cases
	}
}
