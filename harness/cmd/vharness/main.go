package main

import (
	"bufio"
	"encoding/json"
	"flag"
	"fmt"
	"math/rand"
	"os"
	"path/filepath"
	"runtime"
	"sort"
	"strings"
	"time"

	"github.com/jmeaster30/vore/libvore"
)

// dispatch: operations the worker understands (real code side of the line protocol)
func dispatch(op string, fields []string) string {
	switch op {
	case "run":
		return opRun(fields)
	case "parse":
		return opParse(fields)
	case "runbig":
		return opRunBig(fields)
	case "trace":
		return opTrace(fields)
	}
	if f, ok := extraOps[op]; ok {
		return f(fields)
	}
	return "BADOP"
}

// extraOps is filled by the per-property files (init functions)
var extraOps = map[string]func([]string) string{}

// propGens: property id -> case generator
type propGen func(r *rand.Rand, tier string, st *Stats) []Case

var propGens = map[string]propGen{}

func opParse(fields []string) string {
	src := unhx(fields[0])
	var out string
	func() {
		defer func() {
			if r := recover(); r != nil {
				out = "PANIC " + hx(fmt.Sprint(r))
			}
		}()
		s, err := libvore.VerifParse(src)
		if err != nil {
			out = "ERR " + hx(err.Error())
		} else {
			out = "AST " + s
		}
	}()
	return out
}

type Stats struct {
	Features map[string]int `json:"features"`
	Counts   map[string]int `json:"counts"`
}

func newStats() *Stats { return &Stats{Features: map[string]int{}, Counts: map[string]int{}} }

func (s *Stats) addFeatures(f map[string]int) {
	for k, v := range f {
		if v > 0 {
			s.Features[k]++
		}
	}
}

func writeLines(path string, lines []string) {
	f, err := os.Create(path)
	if err != nil {
		panic(err)
	}
	w := bufio.NewWriterSize(f, 1<<20)
	for _, l := range lines {
		w.WriteString(l)
		w.WriteByte('\n')
	}
	w.Flush()
	f.Close()
}

// leanCase converts a source-level case plus the implementation's answer into the
// case line for the Lean driver (which starts from the syntax tree).
func leanCase(c Case, impl string) (string, bool) {
	switch c.Op {
	case "run":
		ast := ""
		for _, part := range strings.Split(impl, "\t") {
			if strings.HasPrefix(part, "AST ") {
				ast = part[4:]
			}
		}
		if ast == "" {
			if a, ok := c.Meta["ast"]; ok {
				ast = a
			} else {
				return "", false
			}
		}
		res := ""
		for _, part := range strings.Split(impl, "\t") {
			if strings.HasPrefix(part, "RES ") {
				res = part[4:]
			}
		}
		line := c.ID + "\trun\t" + ast + "\t" + c.Fields[1]
		if strings.HasPrefix(res, "OK") {
			line += "\t" + res
		}
		return line, true
	}
	if c.Op == "trace" {
		for _, part := range strings.Split(impl, "\t") {
			if strings.HasPrefix(part, "AST ") {
				return c.ID + "\ttrace\t" + part[4:] + "\t" + c.Fields[1], true
			}
		}
		return "", false
	}
	if f, ok := leanCaseExtra[c.Op]; ok {
		return f(c, impl)
	}
	return "", false
}

var leanCaseExtra = map[string]func(Case, string) (string, bool){}

func main() {
	if len(os.Args) < 2 {
		fmt.Fprintln(os.Stderr, "usage: vharness worker | gen-run ... | one ...")
		os.Exit(2)
	}
	switch os.Args[1] {
	case "worker":
		workerMain()
	case "gen-run":
		genRun(os.Args[2:])
	case "one":
		// vharness one <op> <field>... : run a single case in-process (fields given raw, hex-encoded here)
		fields := []string{}
		for _, f := range os.Args[3:] {
			if strings.HasPrefix(f, "raw:") {
				fields = append(fields, f[4:])
			} else {
				fields = append(fields, hx(f))
			}
		}
		fmt.Println(dispatch(os.Args[2], fields))
	case "replay":
		replay(os.Args[2:])
	default:
		fmt.Fprintln(os.Stderr, "unknown subcommand")
		os.Exit(2)
	}
}

// replay: run cases from a file (lines: id TAB op TAB fields) through the worker pool
func replay(args []string) {
	fs := flag.NewFlagSet("replay", flag.ExitOnError)
	in := fs.String("in", "", "cases file")
	out := fs.String("out", "", "output dir")
	fs.Parse(args)
	data, err := os.ReadFile(*in)
	if err != nil {
		panic(err)
	}
	cases := []Case{}
	for _, l := range strings.Split(string(data), "\n") {
		if l == "" {
			continue
		}
		p := strings.Split(l, "\t")
		cases = append(cases, Case{ID: p[0], Op: p[1], Fields: p[2:], Meta: map[string]string{}})
	}
	finish(cases, *out, newStats(), time.Now())
}

func genRun(args []string) {
	fs := flag.NewFlagSet("gen-run", flag.ExitOnError)
	prop := fs.String("prop", "C01", "property id")
	seed := fs.Int64("seed", 1, "seed")
	tier := fs.String("tier", "quick", "quick|thorough")
	out := fs.String("out", "", "output directory")
	corpus := fs.String("corpus", "", "corpus file of cases to run first (id TAB op TAB fields)")
	fs.Parse(args)
	gen, ok := propGens[*prop]
	if !ok {
		fmt.Fprintln(os.Stderr, "no generator for", *prop)
		os.Exit(2)
	}
	start := time.Now()
	st := newStats()
	r := rand.New(rand.NewSource(*seed*1000003 + int64(len(*prop))))
	cases := []Case{}
	if *corpus != "" {
		if data, err := os.ReadFile(*corpus); err == nil {
			for _, l := range strings.Split(string(data), "\n") {
				if l == "" || strings.HasPrefix(l, "#") {
					continue
				}
				p := strings.Split(l, "\t")
				if len(p) < 3 {
					continue
				}
				cases = append(cases, Case{ID: "corpus-" + p[0], Op: p[1], Fields: p[2:], Meta: map[string]string{"corpus": "1"}})
			}
		}
	}
	st.Counts["corpus"] = len(cases)
	cases = append(cases, gen(r, *tier, st)...)
	if mc := os.Getenv("VERIF_MAX_CASES"); mc != "" {
		// an escalation run: a capped, evenly thinned sample of the larger generation
		var n int
		fmt.Sscanf(mc, "%d", &n)
		if n > 0 && len(cases) > n {
			step := float64(len(cases)) / float64(n)
			thin := make([]Case, 0, n)
			for i := 0; i < n; i++ {
				thin = append(thin, cases[int(float64(i)*step)])
			}
			cases = thin
		}
	}
	finish(cases, *out, st, start)
}

func finish(cases []Case, out string, st *Stats, start time.Time) {
	os.MkdirAll(out, 0o755)
	nw := runtime.NumCPU()
	if nw > 16 {
		nw = 16
	}
	results := runCases(cases, nw, 30*time.Second)
	// a HANG or CRASH under a loaded machine proves nothing: run those cases again with a long deadline and little
	// company, and believe the second answer.  When there are many (a tree in which something really spins) a sample
	// of 8 is re-run first (4 at a time, 60 s each); the rest keep their verdict if every sampled one is confirmed, and are re-run too otherwise.
	again := []Case{}
	for _, c := range cases {
		// (also results that embed a HANG of an inner wall-clock deadline, e.g. "DIFF\tFILE HANG\t…" of the C07 ops)
		if r := results[c.ID]; r == "HANG" || r == "CRASH" || strings.Contains(r, "HANG") {
			again = append(again, c)
		}
	}
	if len(again) > 0 {
		sample := again
		if len(sample) > 8 {
			sample = again[:8]
		}
		os.Setenv("VERIF_RERUN", "1") // workers started from here on use the long inner deadlines
		second := runCases(sample, 4, 60*time.Second)
		confirmed := 0
		for id, r := range second {
			if r == results[id] {
				confirmed++
			}
			results[id] = r
		}
		st.Counts["rerun-alone"] = len(sample)
		if confirmed < len(sample) && len(again) > len(sample) && len(again) <= 400 {
			rest := again[len(sample):]
			third := runCases(rest, 4, 60*time.Second)
			for id, r := range third {
				results[id] = r
			}
			st.Counts["rerun-alone"] = len(again)
		}
	}
	caseLines, implLines, leanLines := []string{}, []string{}, []string{}
	for _, c := range cases {
		res := results[c.ID]
		caseLines = append(caseLines, c.line())
		implLines = append(implLines, c.ID+"\t"+res)
		if l, ok := leanCase(c, res); ok {
			leanLines = append(leanLines, l)
		}
		switch {
		case strings.HasPrefix(res, "COMPILE ERR"):
			st.Counts["compile-error"]++
		case strings.HasPrefix(res, "COMPILE PANIC"):
			st.Counts["compile-panic"]++
		case res == "HANG":
			st.Counts["hang"]++
		case res == "CRASH":
			st.Counts["crash"]++
		}
	}
	st.Counts["cases"] = len(cases)
	writeLines(filepath.Join(out, "cases.tsv"), caseLines)
	writeLines(filepath.Join(out, "impl.tsv"), implLines)
	writeLines(filepath.Join(out, "lean.tsv"), leanLines)
	keys := []string{}
	for k := range st.Features {
		keys = append(keys, k)
	}
	sort.Strings(keys)
	st.Counts["gen_ms"] = int(time.Since(start).Milliseconds())
	b, _ := json.MarshalIndent(st, "", " ")
	os.WriteFile(filepath.Join(out, "stats.json"), b, 0o644)
}
