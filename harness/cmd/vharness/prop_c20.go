package main

// C20 — a -files pattern selects exactly the files it describes.
//
// Real-code side of the C20 line protocol and the case generator.
//
//	pathmatch <name> <pattern>             -> T | F | PANIC <msg>         (files.VerifPathMatches)
//	pathmatchrow <pattern> <alphabet> <n>  -> R <bits>   one T/F (P = panic) per name over the
//	                                          alphabet of length <= n, shortest first, then in
//	                                          alphabet order (first byte most significant)
//	filelist <tree> <pattern> <rel|abs>    -> OK <path>,<path>,... | PANIC <msg> | ERR <msg>
//	                                          files.ParsePath(p).GetFileList(dir) on the tree
//	                                          materialised in a scratch directory (os.MkdirTemp
//	                                          under os.TempDir(), removed afterwards); `rel`: the
//	                                          pattern as it is, from the scratch directory; `abs`:
//	                                          the pattern prefixed with the scratch directory.
//	                                          Paths are printed relative to the scratch directory,
//	                                          in the order returned.
//
// A tree is blank-separated tokens: F<name> regular file, D<name> directory (its entries
// follow), U end of that directory; names are x<hex>, entries sorted by name.

import (
	"fmt"
	"math/rand"
	"os"
	"path/filepath"
	"sort"
	"strconv"
	"strings"

	"github.com/jmeaster30/vore/libvore/files"
)

func c20Match(name, pat string) (res string) {
	defer func() {
		if r := recover(); r != nil {
			res = "PANIC " + hx(fmt.Sprint(r))
		}
	}()
	if files.VerifPathMatches(name, pat) {
		return "T"
	}
	return "F"
}

// c20Words: all words over alpha of exactly length k, first byte most significant
func c20Words(alpha string, k int) []string {
	if k == 0 {
		return []string{""}
	}
	shorter := c20Words(alpha, k-1)
	out := make([]string, 0, len(alpha)*len(shorter))
	for i := 0; i < len(alpha); i++ {
		for _, w := range shorter {
			out = append(out, alpha[i:i+1]+w)
		}
	}
	return out
}

func c20Names(alpha string, maxLen int) []string {
	out := []string{}
	for k := 0; k <= maxLen; k++ {
		out = append(out, c20Words(alpha, k)...)
	}
	return out
}

func opPathMatch(fields []string) string {
	if len(fields) != 2 {
		return "BADCASE"
	}
	return c20Match(unhx(fields[0]), unhx(fields[1]))
}

func opPathMatchRow(fields []string) string {
	if len(fields) != 3 {
		return "BADCASE"
	}
	pat, alpha := unhx(fields[0]), unhx(fields[1])
	n, err := strconv.Atoi(fields[2])
	if err != nil {
		return "BADCASE"
	}
	var sb strings.Builder
	sb.WriteString("R ")
	for _, name := range c20Names(alpha, n) {
		r := c20Match(name, pat)
		sb.WriteByte(r[0]) // T, F or P(ANIC)
	}
	return sb.String()
}

// c20Materialise creates the tree below root
func c20Materialise(root string, toks []string) error {
	stack := []string{root}
	first, nfile, ndir := "", 0, 0
	for _, t := range toks {
		if t == "" {
			continue
		}
		cur := stack[len(stack)-1]
		switch t[0] {
		case 'U':
			if len(stack) == 1 {
				return fmt.Errorf("unbalanced tree")
			}
			stack = stack[:len(stack)-1]
		case 'F':
			// a "file" of the tree is a regular file, or (every fifth) a second NAME of an earlier file — a hard link —
			// or (every fifth) a symbolic link to an earlier regular file: each is one more path that names a file
			p := filepath.Join(cur, unhx(t[1:]))
			nfile++
			switch {
			case first != "" && nfile%5 == 3:
				if err := os.Link(first, p); err != nil {
					return err
				}
			case first != "" && nfile%5 == 4:
				if err := os.Symlink(first, p); err != nil {
					return err
				}
			default:
				if err := os.WriteFile(p, []byte("x\n"), 0o644); err != nil {
					return err
				}
				if first == "" {
					first = p
				}
			}
		case 'D':
			// a "directory" of the tree is a real directory, or (every fourth) a symbolic link to a directory that
			// lives outside the tree (<root>.targets/<n>): one more name under which a directory is reached
			p := filepath.Join(cur, unhx(t[1:]))
			ndir++
			if ndir%4 == 2 {
				target := filepath.Join(root+".targets", strconv.Itoa(ndir))
				if err := os.MkdirAll(target, 0o755); err != nil {
					return err
				}
				if err := os.Symlink(target, p); err != nil {
					return err
				}
			} else if err := os.Mkdir(p, 0o755); err != nil {
				return err
			}
			stack = append(stack, p)
		default:
			return fmt.Errorf("bad token %q", t)
		}
	}
	return nil
}

func opFileList(fields []string) (res string) {
	if len(fields) != 3 {
		return "BADCASE"
	}
	pat, mode := unhx(fields[1]), fields[2]
	tmp, err := os.MkdirTemp(os.TempDir(), "c20-")
	if err != nil {
		return "ERR " + hx(err.Error())
	}
	defer os.RemoveAll(tmp)
	defer os.RemoveAll(tmp + ".targets")
	if err := c20Materialise(tmp, strings.Split(fields[0], " ")); err != nil {
		return "ERR " + hx(err.Error())
	}
	defer func() {
		if r := recover(); r != nil {
			res = "PANIC " + hx(fmt.Sprint(r))
		}
	}()
	var list []string
	prefix := tmp + "/"
	if mode == "abs" {
		list = files.ParsePath(tmp + "/" + pat).GetFileList(tmp)
		prefix = "/" + tmp + "/" // GetFileList("/") writes "/" + "/" + name
	} else {
		list = files.ParsePath(pat).GetFileList(tmp)
	}
	parts := make([]string, 0, len(list))
	for _, p := range list {
		if strings.HasPrefix(p, prefix) {
			parts = append(parts, hx(p[len(prefix):]))
		} else {
			parts = append(parts, "!"+hx(p))
		}
	}
	return "OK " + strings.Join(parts, ",")
}

// ---------------------------------------------------------------------------
// generator
// ---------------------------------------------------------------------------

type c20Node struct {
	name     string
	dir      bool
	children []*c20Node
}

func c20RandName(r *rand.Rand) string {
	// short names over {a,b,.} so that patterns overlap; now and then a literal star,
	// a longer "extension" name, a leading dot
	switch r.Intn(12) {
	case 0:
		return []string{"a.txt", "b.txt", "a.txt.txt", "ab.txt", "a.b.a"}[r.Intn(5)]
	case 1:
		return []string{"a*", "*", "a*b", "*.a"}[r.Intn(4)]
	case 2:
		return "." + string("ab"[r.Intn(2)])
	case 3:
		return []string{"A", "Ab", "aB", "B.a"}[r.Intn(4)]
	}
	for {
		n := 1 + r.Intn(3)
		b := make([]byte, n)
		for i := range b {
			b[i] = "aab."[r.Intn(4)]
		}
		s := string(b)
		if s != "." && s != ".." {
			return s
		}
	}
}

func c20RandTree(r *rand.Rand, depth int, maxDepth int) []*c20Node {
	n := r.Intn(5)
	if depth == 0 && n == 0 {
		n = 1 + r.Intn(4)
	}
	seen := map[string]bool{}
	nodes := []*c20Node{}
	for i := 0; i < n; i++ {
		name := c20RandName(r)
		if seen[name] {
			continue
		}
		seen[name] = true
		nd := &c20Node{name: name}
		if depth < maxDepth && r.Intn(2) == 0 {
			nd.dir = true
			nd.children = c20RandTree(r, depth+1, maxDepth)
		}
		nodes = append(nodes, nd)
	}
	sort.Slice(nodes, func(i, j int) bool { return nodes[i].name < nodes[j].name })
	return nodes
}

func c20Encode(nodes []*c20Node, out *[]string) {
	for _, n := range nodes {
		if n.dir {
			*out = append(*out, "D"+hx(n.name))
			c20Encode(n.children, out)
			*out = append(*out, "U")
		} else {
			*out = append(*out, "F"+hx(n.name))
		}
	}
}

func c20Collect(nodes []*c20Node, depth int, names *[]string, files *int, dirs *int, maxd *int) {
	if depth > *maxd {
		*maxd = depth
	}
	for _, n := range nodes {
		*names = append(*names, n.name)
		if n.dir {
			*dirs++
			c20Collect(n.children, depth+1, names, files, dirs, maxd)
		} else {
			*files++
		}
	}
}

// one pattern segment, biased towards the names that occur in the tree
func c20RandSegment(r *rand.Rand, names []string, last bool) string {
	pick := func() string {
		if len(names) == 0 {
			return "a"
		}
		return names[r.Intn(len(names))]
	}
	switch r.Intn(14) {
	case 0, 1, 2:
		return pick()
	case 3, 4:
		// a name with one stretch replaced by a star
		s := pick()
		i := r.Intn(len(s) + 1)
		j := i + r.Intn(len(s)-i+1)
		return s[:i] + "*" + s[j:]
	case 5:
		s := pick()
		return "*" + s[r.Intn(len(s)):]
	case 6:
		s := pick()
		return s[:r.Intn(len(s)+1)] + "*"
	case 7:
		s := pick()
		return "*" + string(s[r.Intn(len(s))]) + "*"
	case 8:
		return []string{"*.txt", "a*", "*a", "a*b", "*.*", "a*a*", "*a*b*", "**a"}[r.Intn(8)]
	case 9:
		// star-only / empty / dot segments: outside the property's domain when used as a directory
		return []string{"*", "**", "", ".", ".."}[r.Intn(5)]
	case 10:
		if last {
			return "*"
		}
		return pick()
	}
	n := 1 + r.Intn(3)
	b := make([]byte, n)
	for i := range b {
		b[i] = "ab.*"[r.Intn(4)]
	}
	return string(b)
}

// c20Paths: relative paths (as segment lists) of every entry of the tree
func c20Paths(nodes []*c20Node, prefix []string, out *[][]string) {
	for _, n := range nodes {
		p := append(append([]string{}, prefix...), n.name)
		*out = append(*out, p)
		if n.dir {
			c20Paths(n.children, p, out)
		}
	}
}

// c20Blur: a segment that still describes the name: the name itself, or with stretches
// replaced by stars
func c20Blur(r *rand.Rand, s string) string {
	switch r.Intn(6) {
	case 0, 1:
		return s
	case 2:
		i := r.Intn(len(s) + 1)
		j := i + r.Intn(len(s)-i+1)
		return s[:i] + "*" + s[j:]
	case 3:
		return "*" + s[r.Intn(len(s)):]
	case 4:
		return s[:1+r.Intn(len(s))] + "*"
	}
	// two stars around a kept stretch
	i := r.Intn(len(s))
	j := i + 1 + r.Intn(len(s)-i)
	return "*" + s[i:j] + "*"
}

func c20StarOnly(s string) bool { return strings.Trim(s, "*") == "" }

// c20InDomain: the hypotheses of the property on the pattern as given to ParsePath
func c20InDomain(pat string) bool {
	if pat == "" {
		return false
	}
	segs := strings.Split(strings.TrimPrefix(pat, "/"), "/")
	for _, s := range segs[:len(segs)-1] {
		if c20StarOnly(s) || s == "." || s == ".." {
			return false
		}
	}
	return true
}

func c20Patterns(alpha string, maxLen int, maxStars int) []string {
	out := []string{}
	for _, p := range c20Names(alpha, maxLen) {
		if strings.Count(p, "*") <= maxStars {
			out = append(out, p)
		}
	}
	return out
}

func init() {
	extraOps["pathmatch"] = opPathMatch
	extraOps["pathmatchrow"] = opPathMatchRow
	extraOps["filelist"] = opFileList
	same := func(c Case, impl string) (string, bool) { return c.line(), true }
	leanCaseExtra["pathmatch"] = same
	leanCaseExtra["pathmatchrow"] = same
	leanCaseExtra["filelist"] = same

	propGens["C20"] = func(r *rand.Rand, tier string, st *Stats) []Case {
		cases := []Case{}
		// 1. exhaustive: every pattern over {a,b,.,*} up to the length bound with at most three
		//    stars x every name over {a,b,.} up to the same length
		maxLen := sizes(tier, 4, 5)
		nNames := len(c20Names("ab.", maxLen))
		for i, p := range c20Patterns("ab.*", maxLen, 3) {
			cases = append(cases, Case{ID: fmt.Sprintf("row%d", i), Op: "pathmatchrow",
				Fields: []string{hx(p), hx("ab."), strconv.Itoa(maxLen)}, Meta: map[string]string{}})
			st.Counts["rows"]++
			st.Counts["row_pairs"] += nNames
			st.Features[fmt.Sprintf("row-stars=%d", strings.Count(p, "*"))]++
		}
		//    names that contain a star themselves (a star in a name is an ordinary byte)
		nStarNames := len(c20Names("a*.", 3))
		for i, p := range c20Patterns("a.*", 3, 3) {
			cases = append(cases, Case{ID: fmt.Sprintf("rowstar%d", i), Op: "pathmatchrow",
				Fields: []string{hx(p), hx("a*."), "3"}, Meta: map[string]string{}})
			st.Counts["rows"]++
			st.Counts["row_pairs"] += nStarNames
		}
		//    characters that are syntax in OTHER glob dialects (? [ ] \ { } ! ^ -) are ordinary bytes here, in names and in
		//    patterns: one such character at a time next to a letter and the star
		for ci, ch := range []string{"?", "[", "]", "\\", "{", "}", "!", "^", "-"} {
			nSpecial := len(c20Names("a"+ch, 3))
			for i, p := range c20Patterns("a"+ch+"*", 3, 2) {
				cases = append(cases, Case{ID: fmt.Sprintf("rowglob%d.%d", ci, i), Op: "pathmatchrow",
					Fields: []string{hx(p), hx("a" + ch), "3"}, Meta: map[string]string{}})
				st.Counts["rows"]++
				st.Counts["row_pairs"] += nSpecial
			}
		}
		for i, p := range []string{"a[1].txt", "[ab]", "[a-b]", "a?", "x[*", "back\\slash", "{a,b}", "[!a]", "[^a]"} {
			cases = append(cases, Case{ID: fmt.Sprintf("rowglobx%d", i), Op: "pathmatchrow",
				Fields: []string{hx(p), hx("ab1[].?\\{},!^-xt"), "1"}, Meta: map[string]string{}})
			st.Counts["rows"]++
		}
		//    case matters
		nCaseNames := len(c20Names("aA", 3))
		for i, p := range c20Patterns("aA*", 3, 3) {
			cases = append(cases, Case{ID: fmt.Sprintf("rowcase%d", i), Op: "pathmatchrow",
				Fields: []string{hx(p), hx("aA"), "3"}, Meta: map[string]string{}})
			st.Counts["rows"]++
			st.Counts["row_pairs"] += nCaseNames
		}
		// 2. longer random (name, pattern) pairs, the name derived from the pattern half of the time
		for i := 0; i < sizes(tier, 1500, 60000); i++ {
			n := 1 + r.Intn(9)
			pb := make([]byte, n)
			stars := 0
			for j := range pb {
				pb[j] = "aab.*"[r.Intn(5)]
				if pb[j] == '*' {
					stars++
				}
			}
			pat := string(pb)
			var name string
			if r.Intn(2) == 0 {
				// instantiate every star with a short run
				var sb strings.Builder
				for _, c := range pb {
					if c == '*' {
						k := r.Intn(4)
						for q := 0; q < k; q++ {
							sb.WriteByte("ab.*"[r.Intn(4)])
						}
					} else {
						sb.WriteByte(c)
					}
				}
				name = sb.String()
				if r.Intn(4) == 0 && len(name) > 0 { // and spoil it now and then
					k := r.Intn(len(name))
					name = name[:k] + name[k+1:]
				}
			} else {
				nb := make([]byte, r.Intn(10))
				for j := range nb {
					nb[j] = "aab."[r.Intn(4)]
				}
				name = string(nb)
			}
			cases = append(cases, Case{ID: fmt.Sprintf("pm%d", i), Op: "pathmatch",
				Fields: []string{hx(name), hx(pat)}, Meta: map[string]string{}})
			st.Counts["random_pairs"]++
			st.Features[fmt.Sprintf("pair-stars=%d", stars)]++
		}
		// 3. directory trees up to depth 3, relative and absolute patterns
		nTrees := sizes(tier, 150, 2500)
		perTree := sizes(tier, 14, 20)
		for t := 0; t < nTrees; t++ {
			tree := c20RandTree(r, 0, 3)
			toks := []string{}
			c20Encode(tree, &toks)
			enc := strings.Join(toks, " ")
			names := []string{}
			nfiles, ndirs, depth := 0, 0, 0
			c20Collect(tree, 0, &names, &nfiles, &ndirs, &depth)
			st.Counts["trees"]++
			st.Features[fmt.Sprintf("tree-depth=%d", depth)]++
			st.Counts["tree_files"] += nfiles
			st.Counts["tree_dirs"] += ndirs
			paths := [][]string{}
			c20Paths(tree, nil, &paths)
			for k := 0; k < perTree; k++ {
				nseg := 1 + r.Intn(4)
				segs := make([]string, nseg)
				for s := range segs {
					segs[s] = c20RandSegment(r, names, s == nseg-1)
				}
				if len(paths) > 0 && r.Intn(3) > 0 {
					// describe an entry that exists (file or directory), segment by segment
					p := paths[r.Intn(len(paths))]
					nseg = len(p)
					segs = make([]string, nseg)
					for s := range segs {
						segs[s] = c20Blur(r, p[s])
					}
					if r.Intn(8) == 0 { // and now and then spoil one segment
						segs[r.Intn(nseg)] = c20RandSegment(r, names, false)
					}
					st.Counts["filelist_pattern_from_entry"]++
				}
				pat := strings.Join(segs, "/")
				mode := "rel"
				if r.Intn(3) == 0 {
					mode = "abs"
				}
				if mode == "rel" && strings.HasPrefix(pat, "/") {
					// a relative-mode pattern must not address the real root of the machine
					pat = "a" + pat
				}
				cases = append(cases, Case{ID: fmt.Sprintf("fl%d.%d", t, k), Op: "filelist",
					Fields: []string{enc, hx(pat), mode}, Meta: map[string]string{}})
				st.Counts["filelist_cases"]++
				st.Features["mode="+mode]++
				st.Features[fmt.Sprintf("segments=%d", nseg)]++
				if (mode == "abs" && c20InDomain("x/"+pat)) || (mode == "rel" && c20InDomain(pat)) {
					st.Counts["filelist_in_domain"]++
				}
			}
		}
		return cases
	}
}
