package main

import (
	"fmt"
	"math/rand"
	"strings"
)

// Type-directed generator of vore sources and input texts. Every random choice comes
// from the one *rand.Rand it is given, so a (seed, index) pair replays exactly.

type GenCfg struct {
	MaxDepth    int
	NamedLoops  bool // allow `named` loops (outside C01's quantifier)
	Subs        bool // inline subroutines and calls
	Globals     bool // set .. to pattern definitions
	Predicates  bool // predicates on global patterns
	Replace     bool // replace commands
	Transforms  bool // set .. to transform + use in `with`
	Captures    bool
	Amounts     bool // amount clauses other than `all`
	MultiCmd    bool
	Anchors     bool
	Regex       bool
	LayoutNoise bool // random whitespace / comments / keyword case between tokens
}

type srcGen struct {
	r           *rand.Rand
	cfg         GenCfg
	inTransform bool     // generating the body of a transform (built-in names may be read)
	caps        []string // captures declared so far in this command
	subs        []string // inline subroutines declared so far in this command
	loops       []string // named loops declared so far in this command (table-valued variables)
	globals     []string // global patterns
	trans       []string // transforms
	nameCtr     int
	lits        []string // literal strings used (for text generation)
	inSub       string   // name of the subroutine being defined (for recursion)
	features    map[string]int
}

var alphabet = []string{"a", "b", "c"}

func (g *srcGen) feat(f string) { g.features[f]++ }

func (g *srcGen) pick(n int) int { return g.r.Intn(n) }

func (g *srcGen) chance(p float64) bool { return g.r.Float64() < p }

var builtinNames = []string{"matchLength", "match", "matchNumber", "startOffset", "endOffset", "value", "lineNumber",
	"columnNumber", "totalMatches", "filename"}

func (g *srcGen) fresh(prefix string) string {
	g.nameCtr++
	return fmt.Sprintf("%s%d", prefix, g.nameCtr)
}

func quote(s string) string {
	var b strings.Builder
	b.WriteByte('\'')
	for i := 0; i < len(s); i++ {
		c := s[i]
		switch {
		case c == '\'' || c == '\\':
			b.WriteByte('\\')
			b.WriteByte(c)
		case c == '\n':
			b.WriteString("\\n")
		case c == '\t':
			b.WriteString("\\t")
		case c == '\r':
			b.WriteString("\\r")
		case c < 0x20 || c >= 0x7f:
			b.WriteString(fmt.Sprintf("\\x%02x", c))
		default:
			b.WriteByte(c)
		}
	}
	b.WriteByte('\'')
	return b.String()
}

func (g *srcGen) litString() string {
	n := 1
	x := g.r.Float64()
	if x < 0.25 {
		n = 2
	} else if x < 0.32 {
		n = 3
	}
	var b strings.Builder
	for i := 0; i < n; i++ {
		if g.chance(0.06) {
			b.WriteString([]string{" ", "\n", "1", "A", "_"}[g.pick(5)])
		} else {
			b.WriteString(alphabet[g.pick(len(alphabet))])
		}
	}
	s := b.String()
	g.lits = append(g.lits, s)
	return s
}

var consumingClasses = []string{"any", "whitespace", "digit", "upper", "lower", "letter"}
var anchorClasses = []string{"line start", "line end", "file start", "file end", "word start", "word end"}
var wholeClasses = []string{"whole line", "whole word", "whole file"}

func (g *srcGen) classSrc() string {
	x := g.r.Float64()
	if g.cfg.Anchors && x < 0.35 {
		g.feat("anchor")
		return anchorClasses[g.pick(len(anchorClasses))]
	}
	if g.cfg.Anchors && x < 0.42 {
		g.feat("whole")
		return wholeClasses[g.pick(len(wholeClasses))]
	}
	g.feat("class")
	return consumingClasses[g.pick(len(consumingClasses))]
}

// literal: something that may stand left of `or` / `=`
func (g *srcGen) literal(depth int) string {
	x := g.r.Float64()
	switch {
	case x < 0.40:
		g.feat("string")
		return quote(g.litString())
	case x < 0.46:
		g.feat("not-string")
		return "not " + quote(g.litString())
	case x < 0.50:
		g.feat("caseless")
		s := g.litString()
		if g.chance(0.5) {
			s = strings.ToUpper(s)
		}
		return "caseless " + quote(s)
	case x < 0.62:
		return g.classSrc()
	case x < 0.67:
		g.feat("not-class")
		return "not " + g.classSrc()
	case x < 0.74 && len(g.caps) > 0:
		g.feat("backref")
		return g.caps[g.pick(len(g.caps))]
	case x < 0.80 && g.cfg.Subs && (len(g.subs) > 0 || g.inSub != ""):
		g.feat("call")
		if g.inSub != "" && (len(g.subs) == 0 || g.chance(0.5)) {
			g.feat("recursion")
			return g.inSub
		}
		return g.subs[g.pick(len(g.subs))]
	case x < 0.86 && g.cfg.Globals && len(g.globals) > 0:
		g.feat("global-ref")
		return g.globals[g.pick(len(g.globals))]
	default:
		if depth <= 0 {
			g.feat("string")
			return quote(g.litString())
		}
		g.feat("group")
		return "(" + g.body(depth-1, 1+g.pick(3)) + ")"
	}
}

func (g *srcGen) listItems() string {
	n := 1 + g.pick(3)
	items := []string{}
	for i := 0; i < n; i++ {
		x := g.r.Float64()
		switch {
		case x < 0.5:
			items = append(items, quote(g.litString()))
		case x < 0.7:
			lo := alphabet[g.pick(len(alphabet))]
			hi := alphabet[g.pick(len(alphabet))]
			if lo > hi {
				lo, hi = hi, lo
			}
			g.lits = append(g.lits, lo, hi)
			g.feat("range")
			items = append(items, quote(lo)+" to "+quote(hi))
		case x < 0.78:
			items = append(items, "caseless "+quote(g.litString()))
		default:
			items = append(items, consumingClasses[g.pick(len(consumingClasses))])
		}
	}
	return strings.Join(items, ", ")
}

func (g *srcGen) loopSuffix() string {
	s := ""
	if g.chance(0.3) {
		g.feat("fewest")
		s += " fewest"
	}
	if g.cfg.NamedLoops && g.chance(0.12) {
		g.feat("named-loop")
		ln := g.fresh("n")
		g.loops = append(g.loops, ln)
		s += " named " + ln
	}
	return s
}

func (g *srcGen) expr(depth int) string {
	x := g.r.Float64()
	if depth <= 0 {
		x = x * 0.45
	}
	switch {
	case x < 0.30:
		return g.literal(depth)
	case x < 0.38 && g.cfg.Captures:
		g.feat("capture")
		lit := g.literal(depth - 1)
		name := g.fresh("v")
		if g.cfg.Transforms && g.chance(0.07) {
			// a capture that carries the name of something the engine itself defines for process code and with lists
			g.feat("capture-named-like-builtin")
			name = builtinNames[g.pick(len(builtinNames))]
		}
		g.caps = append(g.caps, name)
		return lit + " = " + name
	case x < 0.45:
		g.feat("in")
		if g.chance(0.5) {
			g.feat("not-in")
			return "not in " + g.listItems()
		}
		return "in " + g.listItems()
	case x < 0.57:
		g.feat("or")
		n := 2 + g.pick(2)
		parts := []string{}
		for i := 0; i < n; i++ {
			parts = append(parts, g.literal(depth-1))
		}
		return strings.Join(parts, " or ")
	case x < 0.65:
		g.feat("maybe")
		s := "maybe " + g.loopBody(depth-1)
		if g.chance(0.3) {
			g.feat("fewest")
			s += " fewest"
		}
		return s
	case x < 0.75:
		g.feat("at-least")
		return fmt.Sprintf("at least %d %s%s", g.pick(3), g.loopBody(depth-1), g.loopSuffix())
	case x < 0.81:
		g.feat("at-most")
		return fmt.Sprintf("at most %d %s%s", 1+g.pick(3), g.loopBody(depth-1), g.loopSuffix())
	case x < 0.88:
		g.feat("between")
		lo := g.pick(3)
		hi := lo + g.pick(3)
		return fmt.Sprintf("between %d and %d %s%s", lo, hi, g.loopBody(depth-1), g.loopSuffix())
	case x < 0.92:
		g.feat("exactly")
		return fmt.Sprintf("exactly %d %s", 1+g.pick(3), g.loopBody(depth-1))
	case x < 0.97 && g.cfg.Subs && g.inSub == "":
		g.feat("subdec")
		name := g.fresh("s")
		g.inSub = name
		// a guarded body: starts with something that consumes
		body := quote(g.litString()) + " " + g.body(depth-1, 1+g.pick(2))
		g.inSub = ""
		g.subs = append(g.subs, name)
		return "{" + body + "} = " + name
	default:
		return g.literal(depth)
	}
}

// loop bodies: avoid declaring captures inside (unrolling makes them clash) most of the time
func (g *srcGen) loopBody(depth int) string {
	saved := g.cfg.Captures
	if !g.chance(0.1) {
		g.cfg.Captures = false
	}
	saveSub := g.cfg.Subs
	g.cfg.Subs = false
	s := g.expr(depth)
	g.cfg.Subs = saveSub
	g.cfg.Captures = saved
	return s
}

func (g *srcGen) body(depth int, n int) string {
	parts := []string{}
	for i := 0; i < n; i++ {
		parts = append(parts, g.expr(depth))
	}
	return strings.Join(parts, " ")
}

func (g *srcGen) amount() (string, string) {
	if !g.cfg.Amounts || g.chance(0.6) {
		return "all", "all"
	}
	switch g.pick(5) {
	case 0:
		return fmt.Sprintf("top %d", g.pick(4)), "top"
	case 1:
		return fmt.Sprintf("take %d", g.pick(4)), "take"
	case 2:
		return fmt.Sprintf("skip %d", g.pick(4)), "skip"
	case 3:
		return fmt.Sprintf("skip %d take %d", g.pick(3), g.pick(4)), "skiptake"
	default:
		return fmt.Sprintf("last %d", 1+g.pick(3)), "last"
	}
}

// process language ------------------------------------------------------------

func (g *srcGen) pexpr(depth int, want string, vars []string) string {
	// want: "string" | "number" | "boolean"
	x := g.r.Float64()
	if depth <= 0 {
		x *= 0.4
	}
	switch want {
	case "string":
		switch {
		case x < 0.2:
			if g.inTransform && g.chance(0.45) {
				// the per-match built-ins are in a transform's environment whether or not the with list names them
				g.feat("transform-reads-builtin")
				return []string{"startOffset", "endOffset", "lineNumber", "columnNumber", "totalMatches", "value", "filename", "matchNumber"}[g.pick(8)]
			}
			return []string{"match", "match", "'x'", "''", "'12'", "'-3'"}[g.pick(6)]
		case x < 0.4 && len(vars) > 0:
			return vars[g.pick(len(vars))]
		case x < 0.6:
			return g.pexpr(depth-1, "string", vars) + " + " + g.pexprAny(depth-1, vars)
		case x < 0.7:
			return "head " + g.pexprAtom("string", vars)
		case x < 0.8:
			return "tail " + g.pexprAtom("string", vars)
		default:
			return "(" + g.pexpr(depth-1, "string", vars) + ")"
		}
	case "number":
		switch {
		case x < 0.3:
			return []string{"0", "1", "2", "3", "7", "matchLength", "10"}[g.pick(7)]
		case x < 0.8:
			op := []string{"+", "-", "*", "/", "%"}[g.pick(5)]
			return g.pexpr(depth-1, "number", vars) + " " + op + " " + g.pexprAny(depth-1, vars)
		case x < 0.9:
			op := []string{"-", "*"}[g.pick(2)]
			return g.pexpr(depth-1, "string", vars) + " " + op + " " + g.pexpr(depth-1, "number", vars)
		default:
			return "(" + g.pexpr(depth-1, "number", vars) + ")"
		}
	default: // boolean
		switch {
		case x < 0.15:
			return []string{"true", "false"}[g.pick(2)]
		case x < 0.55:
			op := []string{"==", "!=", "<", ">", "<=", ">="}[g.pick(6)]
			t := []string{"string", "number", "boolean"}[g.pick(3)]
			return g.pexpr(depth-1, t, vars) + " " + op + " " + g.pexprAny(depth-1, vars)
		case x < 0.75:
			op := []string{"and", "or"}[g.pick(2)]
			return g.pexpr(depth-1, "boolean", vars) + " " + op + " " + g.pexprAny(depth-1, vars)
		case x < 0.85:
			return "not " + g.pexprAtom("boolean", vars)
		default:
			return "(" + g.pexpr(depth-1, "boolean", vars) + ")"
		}
	}
}

func (g *srcGen) pexprAtom(want string, vars []string) string {
	return "(" + g.pexpr(1, want, vars) + ")"
}

func (g *srcGen) pexprAny(depth int, vars []string) string {
	return g.pexpr(depth, []string{"string", "number", "boolean"}[g.pick(3)], vars)
}

func (g *srcGen) predicate() string {
	g.feat("predicate")
	return "begin return " + g.pexpr(2, "boolean", nil) + " end"
}

func (g *srcGen) transform(vars []string) string {
	g.feat("transform")
	g.inTransform = true
	defer func() { g.inTransform = false }()
	want := "string"
	if g.chance(0.4) {
		want = "number"
	}
	stmts := []string{}
	locals := append([]string{}, vars...)
	// transform-local assignments, including ones that consume `match` or accumulate into an unset name
	nset := g.pick(3)
	if g.chance(0.06) {
		// reads, in an operation only a number / a boolean allows, a name that OTHER bodies of the same source assign
		// (n, i: numbers) but this one has not assigned yet: ill-typed here (Compile must reject it, whatever was
		// compiled before), and a crash at run time if it is accepted
		g.feat("transform-reads-foreign-local")
		stmts = append(stmts, []string{"set q to n - 'b'", "set q to i * 'c'", "if i and true then return 'k' end"}[g.pick(3)])
	}
	for i := 0; i < nset; i++ {
		switch g.pick(7) {
		case 6:
			// built-in names in operations that only one of their possible types allows
			g.feat("transform-builtin-in-typed-operation")
			stmts = append(stmts, []string{"set q to match - matchLength", "set q to match * matchNumber", "set q to matchLength - 1",
				"set q to matchNumber * matchLength", "set q to match - startOffset"}[g.pick(5)])
		case 0:
			g.feat("transform-set-match")
			stmts = append(stmts, "set match to tail match")
		case 1:
			g.feat("transform-accumulate")
			stmts = append(stmts, "set acc to acc + head match")
			locals = append(locals, "acc")
		case 2:
			stmts = append(stmts, "set n to matchLength + "+fmt.Sprint(g.pick(3)))
		case 3:
			g.feat("transform-bounded-loop")
			stmts = append(stmts, "set i to 0 loop if i >= "+fmt.Sprint(1+g.pick(3))+" then break end set i to i + 1 set acc to acc + 'k' end")
			locals = append(locals, "acc")
		case 4:
			stmts = append(stmts, "set v1 to v1 + 'w'")
		default:
			stmts = append(stmts, "set s to "+g.pexpr(1, "string", locals))
			locals = append(locals, "s")
		}
	}
	if g.chance(0.3) {
		stmts = append(stmts, fmt.Sprintf("if %s then return %s else return %s end", g.pexpr(1, "boolean", locals), g.pexpr(2, want, locals), g.pexpr(1, want, locals)))
	} else {
		stmts = append(stmts, "return "+g.pexpr(2, want, locals))
	}
	return strings.Join(stmts, " ")
}

// program ---------------------------------------------------------------------

type GenProgram struct {
	Src      string
	Lits     []string
	Features map[string]int
}

func GenSource(r *rand.Rand, cfg GenCfg) GenProgram {
	g := &srcGen{r: r, cfg: cfg, features: map[string]int{}}
	cmds := []string{}
	if cfg.Globals && g.chance(0.45) {
		n := 1 + g.pick(2)
		for i := 0; i < n; i++ {
			g.caps = nil
			g.subs = nil
			name := g.fresh("p")
			saveCap := g.cfg.Captures
			g.cfg.Captures = false
			body := g.body(cfg.MaxDepth-1, 1+g.pick(2))
			g.cfg.Captures = saveCap
			s := "set " + name + " to pattern " + body
			if cfg.Predicates && g.chance(0.35) {
				s += " " + g.predicate()
			}
			g.globals = append(g.globals, name)
			g.feat("global-def")
			cmds = append(cmds, s)
		}
	}
	if cfg.Transforms && g.chance(0.6) {
		nt := 1 + g.pick(2)
		for i := 0; i < nt; i++ {
			name := g.fresh("t")
			cmds = append(cmds, "set "+name+" to transform "+g.transform([]string{"v1", "v2"})+" end")
			g.trans = append(g.trans, name)
		}
	}
	ncmd := 1
	if cfg.MultiCmd && g.chance(0.3) {
		ncmd = 2 + g.pick(2)
	}
	for i := 0; i < ncmd; i++ {
		g.caps = nil
		g.subs = nil
		g.loops = nil
		amt, kind := g.amount()
		g.feat("amount-" + kind)
		body := g.body(cfg.MaxDepth, 1+g.pick(3))
		if cfg.Replace && g.chance(0.4) {
			g.feat("replace")
			items := []string{}
			n := 1 + g.pick(4)
			for j := 0; j < n; j++ {
				x := g.r.Float64()
				switch {
				case x < 0.35:
					items = append(items, quote(g.litString()))
				case x < 0.50 && len(g.caps) > 0:
					items = append(items, g.caps[g.pick(len(g.caps))])
				case x < 0.55 && len(g.loops)+len(g.subs)+len(g.globals) > 0:
					// names that are not string captures: named loops (table-valued), subroutines, global patterns
					other := append(append(append([]string{}, g.loops...), g.subs...), g.globals...)
					g.feat("with-non-capture-name")
					items = append(items, other[g.pick(len(other))])
				case x < 0.7:
					items = append(items, []string{"value", "matchNumber", "startOffset", "endOffset", "lineNumber", "columnNumber", "totalMatches", "filename"}[g.pick(8)])
				case x < 0.9 && len(g.trans) > 0:
					items = append(items, g.trans[g.pick(len(g.trans))])
					if g.chance(0.4) {
						g.feat("two-transforms-in-with")
						items = append(items, "'|'", g.trans[g.pick(len(g.trans))])
					}
				default:
					items = append(items, "undefinedName")
				}
			}
			cmds = append(cmds, "replace "+amt+" "+body+" with "+strings.Join(items, " "))
		} else {
			cmds = append(cmds, "find "+amt+" "+body)
		}
	}
	src := strings.Join(cmds, "\n")
	if cfg.LayoutNoise {
		src = relayout(r, src)
	}
	return GenProgram{Src: src, Lits: g.lits, Features: g.features}
}

// relayout re-spaces a generated source at blanks (generated sources have a single blank
// between any two tokens that need one, and blanks never occur inside tokens except in
// string literals, which are skipped).
func relayout(r *rand.Rand, src string) string {
	var b strings.Builder
	inStr := false
	for i := 0; i < len(src); i++ {
		c := src[i]
		if inStr {
			b.WriteByte(c)
			if c == '\\' && i+1 < len(src) {
				i++
				b.WriteByte(src[i])
			} else if c == '\'' {
				inStr = false
			}
			continue
		}
		if c == '\'' {
			inStr = true
			b.WriteByte(c)
			continue
		}
		if c == ' ' || c == '\n' {
			switch r.Intn(8) {
			case 0:
				b.WriteString("\n")
			case 1:
				b.WriteString("  \t ")
			case 2:
				b.WriteString(" -- c\n")
			case 3:
				b.WriteString(" --(c)-- ")
			default:
				b.WriteByte(c)
			}
			continue
		}
		b.WriteByte(c)
	}
	return b.String()
}

// GenText builds an input from the program's literals and a few separators.
func GenText(r *rand.Rand, lits []string, maxLen int) string {
	var b strings.Builder
	n := r.Intn(maxLen + 1)
	for b.Len() < n {
		x := r.Float64()
		switch {
		case x < 0.45 && len(lits) > 0:
			b.WriteString(lits[r.Intn(len(lits))])
		case x < 0.85:
			b.WriteString(alphabet[r.Intn(len(alphabet))])
		case x < 0.90:
			b.WriteString("\n")
		case x < 0.93:
			b.WriteString(" ")
		case x < 0.95:
			b.WriteString("\r\n")
		case x < 0.97:
			b.WriteString([]string{"1", "9", "A", "Z", "_", "\t"}[r.Intn(6)])
		default:
			b.WriteString("d")
		}
	}
	s := b.String()
	if len(s) > maxLen {
		s = s[:maxLen]
	}
	return s
}
