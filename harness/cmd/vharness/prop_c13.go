package main

import (
	"fmt"
	"math/rand"
	"strings"
)

// C13: definitions are transparent; commands, runs and compilations are independent.

// opConcat: fields = defs (hex of newline-joined set commands), cmds (comma separated hex), text
// returns the result of the whole source, of each command alone with the definitions, of a second
// Run on the same program and of a fresh compilation.
func opConcat(fields []string) string {
	defs := unhx(fields[0])
	cmds := []string{}
	for _, c := range strings.Split(fields[1], ",") {
		cmds = append(cmds, unhx(c))
	}
	text := unhx(fields[2])
	full := defs + "\n" + strings.Join(cmds, "\n")
	v, class := safeCompile(full)
	if v == nil {
		return "COMPILE " + class
	}
	r1 := safeRun(v, text)
	r2 := safeRun(v, text)
	parts := []string{}
	for _, c := range cmds {
		pv, pclass := safeCompile(defs + "\n" + c)
		if pv == nil {
			parts = append(parts, "COMPILE "+strings.Split(pclass, " ")[0])
			continue
		}
		// interleave: run the other program in between
		safeRun(v, text)
		parts = append(parts, safeRun(pv, text))
	}
	v2, _ := safeCompile(full)
	r3 := "COMPILE"
	if v2 != nil {
		r3 = safeRun(v2, text)
	}
	r4 := safeRun(v, text)
	// compilations are independent also of compilations that FAILED half way (state left behind by an early return)
	for _, bad := range c13FailingSources {
		safeCompile(bad)
	}
	r5 := "COMPILE"
	if v3, _ := safeCompile(full); v3 != nil {
		r5 = safeRun(v3, text)
	}
	return "AST " + v.VerifAst() + "\tRES " + r1 + "\tAGAIN " + r2 + "\tRECOMPILED " + r3 + "\tAFTER " + r4 + "\tAFTERFAIL " + r5 + "\tPARTS " + strings.Join(parts, "|")
}

// sources that fail after part of them has been processed: in the lexer, in the parser after regex groups /
// subroutines / definitions were seen, in the semantic check, in the generator
var c13FailingSources = []string{
	"find all 'a' = v 'b' = v", "set g to pattern 'a'\nfind all g nosuchname", "find all \"abc", "find all @/(a)(b)(c)\\9/",
	"set t to transform return 1 +\nfind all 'a'", "set q to pattern {'a' = z find all q", "find all @/(x)/ with 'y'",
	// last: a parse error after two unnamed regex groups were numbered (nothing successful follows it)
	"find all @/(x)(y/",
}

func init() {
	extraOps["concat"] = opConcat
	leanCaseExtra["concat"] = func(c Case, impl string) (string, bool) {
		ast, res := "", ""
		for _, part := range strings.Split(impl, "\t") {
			if strings.HasPrefix(part, "AST ") {
				ast = part[4:]
			}
			if strings.HasPrefix(part, "RES ") {
				res = part[4:]
			}
		}
		if ast == "" {
			return "", false
		}
		line := c.ID + "\trun\t" + ast + "\t" + c.Fields[2]
		if strings.HasPrefix(res, "OK") {
			line += "\t" + res
		}
		return line, true
	}
	propGens["C13"] = func(r *rand.Rand, tier string, st *Stats) []Case {
		cases := []Case{}
		n := sizes(tier, 500, 12000)
		bodyCfg := GenCfg{MaxDepth: 2, Captures: false, Anchors: true}
		for i := 0; i < n; i++ {
			g := &srcGen{r: r, cfg: bodyCfg, features: map[string]int{}}
			body := g.body(2, 1+r.Intn(2))
			st.addFeatures(g.features)
			// a context with 1..3 holes
			nrefs := 1 + r.Intn(3)
			ctxKind := r.Intn(9)
			if ctxKind >= 6 && nrefs == 1 {
				nrefs = 2 + r.Intn(2)
			}
			ctxLit := quote(g.litString())
			mk := func(ref func(k int) string) string {
				refs := []string{}
				for k := 0; k < nrefs; k++ {
					refs = append(refs, ref(k))
				}
				switch ctxKind {
				case 0:
					return ctxLit + " " + strings.Join(refs, " ")
				case 1:
					return strings.Join(refs, " ") + " " + ctxLit
				case 2:
					return "at least 1 (" + strings.Join(refs, " ") + ")"
				case 3:
					return "(" + strings.Join(refs, ") or (") + ") or 'z'"
				case 4:
					return "exactly 2 (" + refs[0] + " maybe ',') " + strings.Join(refs[1:], " ")
				// the FIRST reference stands where no code is generated for it (a loop that runs zero times); the later
				// ones must still mean the body
				case 6:
					return "exactly 0 (" + refs[0] + ") " + ctxLit + " " + strings.Join(refs[1:], " ")
				case 7:
					return ctxLit + " at most 0 (" + refs[0] + " " + ctxLit + ") " + strings.Join(refs[1:], " ")
				case 8:
					return "between 0 and 0 " + refs[0] + " " + strings.Join(refs[1:], " ") + " " + ctxLit
				default:
					return "maybe (" + refs[0] + ") between 2 and 3 (" + strings.Join(refs, " ") + ")"
				}
			}
			inPlace := "find all " + mk(func(k int) string { return "(" + body + ")" })
			inline := "find all " + mk(func(k int) string {
				if k == 0 {
					return "{" + body + "} = s"
				}
				return "s"
			})
			global := "set s to pattern " + body + "\nfind all " + mk(func(k int) string { return "s" })
			if ctxKind >= 6 {
				// an inline definition inside a loop that runs zero times defines nothing (by construction of the
				// language): only the global spelling has a first reference there
				inline = global
			}
			st.Features[fmt.Sprintf("ctx-%d", ctxKind)]++
			st.Features[fmt.Sprintf("refs-%d", nrefs)]++
			text := GenText(r, g.lits, 16)
			for vi, src := range []string{inPlace, inline, global} {
				cases = append(cases, Case{ID: fmt.Sprintf("e%d.v%d", i, vi), Op: "run",
					Fields: []string{hx(src), hx(text)}, Meta: map[string]string{}})
			}
		}
		// names that are defined more than once: a global pattern redefined after another definition used it, an inline
		// subroutine (inside a stored pattern, or in the command) that shares its name with a global pattern, a name
		// referenced before and after the definition that shadows it.  Spelling v0 writes every body out.
		ns := sizes(tier, 240, 5000)
		for i := 0; i < ns; i++ {
			g := &srcGen{r: r, cfg: bodyCfg, features: map[string]int{}}
			A, B, Z := "("+g.body(1, 1)+")", "("+g.body(1, 1)+")", "("+g.body(1, 1)+")"
			sep := quote(g.litString())
			var named, written string
			switch i % 8 {
			case 0: // redefinition after use, reference order p q
				named = "set q to pattern " + A + "\nset p to pattern q " + sep + "\nset q to pattern " + B + "\nfind all p q"
				written = "find all " + A + " " + sep + " " + B
			case 1: // q p
				named = "set q to pattern " + A + "\nset p to pattern q " + sep + "\nset q to pattern " + B + "\nfind all q p"
				written = "find all " + B + " " + A + " " + sep
			case 2: // p q p
				named = "set q to pattern " + A + "\nset p to pattern q " + sep + "\nset q to pattern " + B + "\nfind all p q p"
				written = "find all " + A + " " + sep + " " + B + " " + A + " " + sep
			case 3: // inline subroutine inside a stored pattern shares its name with a global
				named = "set h to pattern " + Z + "\nset p to pattern {" + A + "} = h h\nfind all p h"
				written = "find all " + A + " " + A + " " + Z
			case 4: // the same, the global referenced first
				named = "set h to pattern " + Z + "\nset p to pattern {" + A + "} = h " + sep + "\nfind all h p h"
				written = "find all " + Z + " " + A + " " + sep + " " + Z
			case 5: // two levels of nesting, the innermost name redefined between the levels
				named = "set q to pattern " + A + "\nset p to pattern q " + sep + "\nset q to pattern " + B + "\nset r to pattern p q\nset q to pattern " + Z + "\nfind all r q"
				written = "find all " + A + " " + sep + " " + B + " " + Z
			case 6: // redefinition between two commands: each command sees the definition current at its place
				named = "set q to pattern " + A + "\nset p to pattern q q\nfind all at least 1 (p) q"
				written = "find all at least 1 (" + A + " " + A + ") " + A
			default: // inside loops and alternations
				named = "set q to pattern " + A + "\nset p to pattern maybe q " + sep + "\nset q to pattern " + B + "\nfind all (p or q) at least 0 q"
				written = "find all ((maybe " + A + " " + sep + ") or " + B + ") at least 0 " + B
			}
			st.Features[fmt.Sprintf("shadow-%d", i%8)]++
			text := GenText(r, g.lits, 16)
			for vi, src := range []string{written, named} {
				cases = append(cases, Case{ID: fmt.Sprintf("es%d.v%d", i, vi), Op: "run",
					Fields: []string{hx(src), hx(text)}, Meta: map[string]string{}})
			}
		}
		// commands sharing definitions: concatenation, repetition, recompilation
		m := sizes(tier, 400, 8000)
		cfg := GenCfg{MaxDepth: 2, Captures: true, Anchors: true, Subs: true}
		for i := 0; i < m; i++ {
			g := &srcGen{r: r, cfg: cfg, features: map[string]int{}}
			defs := []string{}
			nd := 1 + r.Intn(2)
			for d := 0; d < nd; d++ {
				name := g.fresh("p")
				saveC := g.cfg.Captures
				g.cfg.Captures = false
				defs = append(defs, "set "+name+" to pattern "+g.body(1, 1+r.Intn(2)))
				g.cfg.Captures = saveC
				g.globals = append(g.globals, name)
			}
			g.cfg.Globals = true
			nc := 1 + r.Intn(3)
			cmds := []string{}
			for c := 0; c < nc; c++ {
				g.caps, g.subs = nil, nil
				b := g.globals[r.Intn(len(g.globals))] + " " + g.body(2, 1+r.Intn(2))
				if r.Intn(2) == 0 {
					b = g.body(2, 1) + " " + g.globals[r.Intn(len(g.globals))] + " " + g.globals[r.Intn(len(g.globals))]
				}
				cmds = append(cmds, hx("find all "+b))
			}
			st.addFeatures(g.features)
			st.Features[fmt.Sprintf("cmds-%d", nc)]++
			text := GenText(r, g.lits, 16)
			cases = append(cases, Case{ID: fmt.Sprintf("k%d", i), Op: "concat",
				Fields: []string{hx(strings.Join(defs, "\n")), strings.Join(cmds, ","), hx(text)}, Meta: map[string]string{}})
		}
		// fixed programs whose results depend on state the front end keeps while compiling (numbered regex groups)
		for i, fx := range [][3]string{
			{"", "find all @/(a)(b)/", "ab abab"},
			{"", "find all @/(a)(b)\\2\\1/", "abba ab"},
			{"set p to pattern @/(\\d)-\\1/", "find all p", "1-1 2-3 4-4"},
			{"set p to pattern @/(x)(y)?/", "find all p 'z'|find all @/(q)/", "xyz xz q"},
		} {
			cmds := []string{}
			for _, c := range strings.Split(fx[1], "|") {
				cmds = append(cmds, hx(c))
			}
			cases = append(cases, Case{ID: fmt.Sprintf("kf%d", i), Op: "concat",
				Fields: []string{hx(fx[0]), strings.Join(cmds, ","), hx(fx[2])}, Meta: map[string]string{}})
		}
		return cases
	}
}
