package main

import (
	"fmt"
	"math/rand"
	"os"
	"runtime"
	"strings"
	"time"

	"github.com/jmeaster30/vore/libvore/ast"
)

// ---------------------------------------------------------------------------------------------
// C16 (string literals) and the token-level stream L1 (also used by C08/C15).
//
// ops (real-code side):
//   tokens <srchex>                    the real lexer (ast.VerifTokens):
//                                      TOKS KIND:x<lexeme>:start:end ... | LEXERR <Kind> <start> <end> | PANIC x<msg>
//                                      (the Lean case is `lex <srchex>`, same canonical line)
//   run <srchex> <texthex> [<bhex> <tag>]   (existing op) — C16 appends the bytes the literal must denote
// generators:
//   propGens["C16"]  literals: exhaustive single bytes x spellings x quotes, \x tails, random mixed strings
//   propGens["LEX"]  token-level stream: valid programs, every prefix, byte soups, token soups, NUL
// ---------------------------------------------------------------------------------------------

func lexOnce(src string) (out string) {
	defer func() {
		if r := recover(); r != nil {
			out = "PANIC " + hx(fmt.Sprint(r))
		}
	}()
	toks, err := ast.VerifTokens(src)
	if err != nil {
		if le, ok := err.(*ast.LexError); ok {
			t := le.Token()
			return fmt.Sprintf("LEXERR %s %d %d", strings.ReplaceAll(le.Message(), " ", ""), t.Offset.Start, t.Offset.End)
		}
		return "ERR " + hx(err.Error())
	}
	parts := []string{}
	for _, t := range toks {
		parts = append(parts, fmt.Sprintf("%s:%s:%d:%d", t.Name, hx(t.Lexeme), t.Start, t.End))
	}
	return "TOKS " + strings.Join(parts, " ")
}

// opTokens runs the lexer under a watchdog: a lexer that spins while allocating (the pinned
// commit on `@/abc`) cannot be stopped from inside the process, so the worker exits and the
// parent records CRASH for the case and starts a new worker.
func opTokens(fields []string) string {
	src := unhx(fields[0])
	done := make(chan string, 1)
	go func() { done <- lexOnce(src) }()
	select {
	case r := <-done:
		return r
	case <-time.After(20 * time.Millisecond):
	}
	deadline := time.After(5 * time.Second)
	tick := time.NewTicker(10 * time.Millisecond)
	defer tick.Stop()
	for {
		select {
		case r := <-done:
			return r
		case <-deadline:
			os.Exit(4)
		case <-tick.C:
			var ms runtime.MemStats
			runtime.ReadMemStats(&ms)
			if ms.HeapAlloc > 300<<20 {
				os.Exit(3)
			}
		}
	}
}

// ---- spellings ---------------------------------------------------------------------------------

var namedEscapes = map[byte]byte{7: 'a', 8: 'b', 9: 't', 10: 'n', 11: 'v', 12: 'f', 13: 'r'}
var namedLetters = map[byte]bool{'a': true, 'b': true, 't': true, 'n': true, 'v': true, 'f': true, 'r': true}

func isHexByte(c byte) bool {
	return ('0' <= c && c <= '9') || ('a' <= c && c <= 'f') || ('A' <= c && c <= 'F')
}

// spellings of one byte v (0x01..0x7f) inside a literal quoted with q; the hex spellings are
// context free, `esc` (backslash + the character) is offered for every character that is not an
// escape letter and not x.
func spellingsOf(v byte, q byte) map[string]string {
	m := map[string]string{}
	if v != q && v != '\\' && v != 0 {
		m["raw"] = string([]byte{v})
	}
	if l, ok := namedEscapes[v]; ok {
		m["named"] = "\\" + string([]byte{l})
	}
	lo := fmt.Sprintf("\\x%02x", v)
	up := fmt.Sprintf("\\x%02X", v)
	m["hexlower"] = lo
	if up != lo {
		m["hexupper"] = up
	}
	if !namedLetters[v] && v != 'x' && v != 0 {
		m["esc"] = "\\" + string([]byte{v})
	}
	return m
}

var spellingKinds = []string{"raw", "named", "hexlower", "hexupper", "esc"}

// reference decoder (the property's reading of a literal body, independent of lexer and model)
func specDecode(body string) string {
	out := []byte{}
	for i := 0; i < len(body); i++ {
		c := body[i]
		if c != '\\' {
			out = append(out, c)
			continue
		}
		i++
		if i >= len(body) {
			return string(out) // not produced by the generators
		}
		e := body[i]
		switch {
		case e == 'x' && i+2 < len(body) && isHexByte(body[i+1]) && isHexByte(body[i+2]):
			var v int
			fmt.Sscanf(body[i+1:i+3], "%x", &v)
			out = append(out, byte(v))
			i += 2
		case e == 'n':
			out = append(out, 10)
		case e == 't':
			out = append(out, 9)
		case e == 'r':
			out = append(out, 13)
		case e == 'a':
			out = append(out, 7)
		case e == 'b':
			out = append(out, 8)
		case e == 'f':
			out = append(out, 12)
		case e == 'v':
			out = append(out, 11)
		default:
			out = append(out, e)
		}
	}
	return string(out)
}

func isASCII(s string) bool {
	for i := 0; i < len(s); i++ {
		if s[i] >= 0x80 {
			return false
		}
	}
	return true
}

func litCase(id, lit, text, b, tag string) Case {
	return Case{ID: id, Op: "run", Fields: []string{hx("find all " + lit), hx(text), hx(b), tag}, Meta: map[string]string{}}
}

func tokCase(id, src, tag string) Case {
	return Case{ID: id, Op: "tokens", Fields: []string{hx(src), tag}, Meta: map[string]string{}}
}

func allBytes() string {
	b := make([]byte, 256)
	for i := range b {
		b[i] = byte(i)
	}
	return string(b)
}

func genC16(r *rand.Rand, tier string, st *Stats) []Case {
	cases := []Case{}
	every := allBytes()
	// 1. exhaustive: every byte x every spelling x both quotes; text = the byte itself, and the text of all
	//    256 byte values (every single-byte mutation of b at once: exactly one match, at offset v)
	for v := 1; v < 0x80; v++ {
		for _, q := range []byte{'\'', '"'} {
			sp := spellingsOf(byte(v), q)
			for _, k := range spellingKinds {
				s, ok := sp[k]
				if !ok {
					continue
				}
				lit := string([]byte{q}) + s + string([]byte{q})
				b := string([]byte{byte(v)})
				id := fmt.Sprintf("x%02x%c.%s", v, map[byte]rune{'\'': 's', '"': 'd'}[q], k)
				cases = append(cases, litCase(id+".self", lit, b, b, "byte-"+k))
				cases = append(cases, litCase(id+".all", lit, every, b, "byte-"+k))
				cases = append(cases, tokCase(id+".tok", lit, "lit"))
				st.Counts["spelling-"+k]++
			}
		}
	}
	// 1b. every ordered PAIR of bytes in the raw spelling (where both can be written raw), and raw next to the
	// named / hex spelling: anything the reader does to a character depending on its neighbour (CR LF folding, a
	// character swallowed after another, look-ahead that is not undone) shows here although every single byte is fine
	for a := 1; a < 0x80; a++ {
		for b := 1; b < 0x80; b++ {
			q := byte('\'')
			if a == '\'' || b == '\'' {
				q = '"'
			}
			spa, spb := spellingsOf(byte(a), q), spellingsOf(byte(b), q)
			ra, oka := spa["raw"]
			rb, okb := spb["raw"]
			if !oka || !okb {
				continue
			}
			val := string([]byte{byte(a), byte(b)})
			lit := string([]byte{q}) + ra + rb + string([]byte{q})
			cases = append(cases, litCase(fmt.Sprintf("pr%02x%02x", a, b), lit, "z"+val+val+"z", val, "pair-raw"))
			st.Counts["pair-raw"]++
			// the control characters and the quote/backslash neighbours also with one side escaped
			if a < 0x20 || b < 0x20 || a == '\\' || b == '\\' {
				lit2 := string([]byte{q}) + ra + spb["hexlower"] + string([]byte{q})
				lit3 := string([]byte{q}) + spa["hexlower"] + rb + string([]byte{q})
				cases = append(cases, litCase(fmt.Sprintf("pm%02x%02x", a, b), lit2, val, val, "pair-mixed"))
				cases = append(cases, litCase(fmt.Sprintf("pn%02x%02x", a, b), lit3, val, val, "pair-mixed"))
				st.Counts["pair-mixed"] += 2
			}
		}
	}
	// 1c. the literal next to a neighbour with other flags: directly after / before a `caseless` literal (in a sequence,
	// in a group, in a stored pattern).  The caseless neighbour is spelled in upper case and occurs in lower case in the
	// text; the literal under test must still match its own bytes exactly (the text also holds it with the letter case
	// swapped, which must NOT match)
	swap := func(x string) string {
		b := []byte(x)
		for i := range b {
			switch {
			case b[i] >= 'a' && b[i] <= 'z':
				b[i] -= 32
			case b[i] >= 'A' && b[i] <= 'Z':
				b[i] += 32
			}
		}
		return string(b)
	}
	for wi, w := range []string{"abc", "Ab", "zQ", "a", "x1y"} {
		for qi, q := range []string{"'", "\""} {
			for si, lit := range []string{q + w + q, q + fmt.Sprintf("\\x%02x", w[0]) + w[1:] + q} {
				id := fmt.Sprintf("nb%d.%d.%d", wi, qi, si)
				after, before := "id:"+w, w+"id:"
				cases = append(cases, litCase(id+".after", "caseless \"ID:\" "+lit, after+" id:"+swap(w)+" "+after, after, "next-to-caseless"))
				cases = append(cases, litCase(id+".before", lit+" caseless 'ID:'", before+" "+swap(w)+"id: "+before, before, "next-to-caseless"))
				cases = append(cases, litCase(id+".group", "(caseless \"ID:\" "+lit+")", after+" id:"+swap(w), after, "next-to-caseless"))
				cases = append(cases, Case{ID: id + ".stored", Op: "run", Fields: []string{hx("set p to pattern caseless 'ID:' " + lit + "\nfind all p"),
					hx(after + " id:" + swap(w)), hx(after), "next-to-caseless"}, Meta: map[string]string{}})
				st.Counts["next-to-caseless"] += 4
			}
		}
	}
	// 2. \x followed by 0, 1, 2 hex digits and arbitrary characters (all tails up to length 3 over a small alphabet)
	alpha := []string{"a", "F", "4", "0", "Z", "g", "x", " ", "\\\\", "\\n", "\\x41", "\\x"}
	var tails func(n int) []string
	tails = func(n int) []string {
		if n == 0 {
			return []string{""}
		}
		out := []string{}
		for _, t := range tails(n - 1) {
			for _, a := range alpha {
				out = append(out, t+a)
			}
		}
		return out
	}
	maxTail := sizes(tier, 2, 4)
	n := 0
	for l := 0; l <= maxTail; l++ {
		for _, t := range tails(l) {
			for _, q := range []string{"'", "\""} {
				for _, pre := range []string{"", "p"} {
					body := pre + "\\x" + t
					b := specDecode(body)
					if !isASCII(b) {
						// \xHH with HH >= 0x80 is outside the property (ASCII byte strings); the lexer
						// writes the rune U+00HH as two UTF-8 bytes there (recorded quirk)
						st.Counts["badhex-skipped-nonascii"]++
						continue
					}
					lit := q + body + q
					id := fmt.Sprintf("bx%d", n)
					n++
					cases = append(cases, litCase(id+".self", lit, b, b, "badhex"))
					cases = append(cases, tokCase(id+".tok", lit, "lit"))
					// near misses of the same length: drop-in replacements of one byte
					if len(b) > 0 {
						i := r.Intn(len(b))
						mb := []byte(b)
						mb[i] ^= 0x01
						cases = append(cases, litCase(id+".mut", lit, string(mb), b, "badhex"))
					}
					st.Counts["badhex"]++
				}
			}
		}
	}
	// 2b. \x followed by EVERY pair of printable ASCII characters (other than the quote and the backslash): the
	// decision "two hex digits follow" is exercised on its whole two-character domain, so a lenient test
	// (signs, underscores, spaces, digits-then-letter ...) cannot hide
	for c1 := byte(32); c1 < 127; c1++ {
		for c2 := byte(32); c2 < 127; c2++ {
			if c1 == '\\' || c2 == '\\' {
				continue
			}
			q := "'"
			if c1 == '\'' || c2 == '\'' {
				q = "\""
				if c1 == '"' || c2 == '"' {
					continue
				}
			} else if (int(c1)+int(c2))%2 == 0 && c1 != '"' && c2 != '"' {
				q = "\""
			}
			body := "\\x" + string([]byte{c1, c2}) + "z"
			b := specDecode(body)
			if !isASCII(b) {
				st.Counts["badhex-skipped-nonascii"]++
				continue
			}
			lit := q + body + q
			id := fmt.Sprintf("bp%d.%d", c1, c2)
			cases = append(cases, litCase(id+".self", lit, b, b, "badhex-pair"))
			st.Counts["badhex-pair"]++
		}
	}
	// 2c. EVERY escaped character (backslash + any printable ASCII character but x) followed by every pair of raw
	// characters from a small alphabet of digits, hex letters, signs and blanks: an escape is one character long,
	// whatever follows it (octal, unicode, decimal look-alikes: \101, \u0041, \065 ...)
	follow := "01789afAnux-+ "
	for c := byte(32); c < 127; c++ {
		if c == 'x' {
			continue
		}
		for i := 0; i < len(follow); i++ {
			for j := 0; j < len(follow); j++ {
				q := "'"
				if c == '\'' {
					q = "\""
				}
				body := "\\" + string([]byte{c, follow[i], follow[j]})
				b := specDecode(body)
				lit := q + body + q
				id := fmt.Sprintf("ef%d.%d.%d", c, i, j)
				cases = append(cases, litCase(id+".self", lit, "z"+b+"z", b, "escape-followers"))
				st.Counts["escape-followers"]++
			}
		}
	}
	// 3. random mixed ASCII strings with mixed spellings
	nr := sizes(tier, 1200, 80000)
	for i := 0; i < nr; i++ {
		q := []byte{'\'', '"'}[r.Intn(2)]
		ln := 1 + r.Intn(6)
		var body strings.Builder
		b := []byte{}
		for j := 0; j < ln; j++ {
			var v byte
			switch r.Intn(4) {
			case 0:
				v = byte(1 + r.Intn(0x7f))
			case 1:
				v = []byte{'\'', '"', '\\', 'x', 'n', ' ', '\n', '\t', 'a', 'f', 'A', 'F', '0', '9', 7, 13, 0x7f, 1, '-', '(', ')', '@', '/'}[r.Intn(23)]
			default:
				v = byte(0x20 + r.Intn(0x5f))
			}
			sp := spellingsOf(v, q)
			keys := []string{}
			for _, k := range spellingKinds {
				if _, ok := sp[k]; ok {
					keys = append(keys, k)
				}
			}
			k := keys[r.Intn(len(keys))]
			st.Counts["mixed-"+k]++
			body.WriteString(sp[k])
			b = append(b, v)
		}
		lit := string([]byte{q}) + body.String() + string([]byte{q})
		if specDecode(body.String()) != string(b) {
			panic("generator: spec decoder disagrees with the spelling: " + lit)
		}
		id := fmt.Sprintf("mx%d", i)
		cases = append(cases, litCase(id+".self", lit, string(b), string(b), "mixed"))
		cases = append(cases, tokCase(id+".tok", lit, "lit"))
		// b embedded in a longer text
		cases = append(cases, litCase(id+".emb", lit, "zz"+string(b)+"zz"+string(b), string(b), "mixed"))
		// single-byte mutations of b: every position, a few replacement values
		nm := sizes(tier, 2, 6)
		for j := 0; j < len(b); j++ {
			for k := 0; k < nm; k++ {
				mb := append([]byte{}, b...)
				switch k {
				case 0:
					mb[j] ^= 0x20
				case 1:
					mb[j] = mb[j] + 1
				default:
					mb[j] = byte(r.Intn(256))
				}
				if string(mb) == string(b) {
					continue
				}
				cases = append(cases, litCase(fmt.Sprintf("%s.m%d.%d", id, j, k), lit, string(mb), string(b), "mixed-mut"))
			}
		}
	}
	// 4. long literals: the source is read through a 4096-byte buffered reader and the \x look-ahead peeks into
	// it, so escapes are placed at every alignment relative to the 4096- and 8192-byte marks of the source (literals
	// of 1000..2100 bytes, all-hex and mixed spellings, 0..3 raw characters in front to shift the alignment)
	nl := 0
	for _, total := range []int{1019, 1022, 1030, 2045, 2100} {
		for shift := 0; shift < 4; shift++ {
			for _, q := range []byte{'\'', '"'} {
				for _, mixed := range []bool{false, true} {
					var body strings.Builder
					b := []byte{}
					for j := 0; j < shift; j++ {
						body.WriteByte('z')
						b = append(b, 'z')
					}
					for j := 0; j < total; j++ {
						v := byte('A' + (j*7+shift)%26)
						if mixed && j%3 == 1 {
							v = []byte{'\n', '\t', '\\', ' ', 'x', '4', '1', 7}[(j/3)%8]
						}
						sp := spellingsOf(v, q)
						k := "hexupper"
						if _, ok := sp[k]; !ok {
							k = "hexlower"
						}
						if mixed {
							keys := []string{}
							for _, kk := range spellingKinds {
								if _, ok := sp[kk]; ok {
									keys = append(keys, kk)
								}
							}
							k = keys[r.Intn(len(keys))]
						}
						body.WriteString(sp[k])
						b = append(b, v)
					}
					if specDecode(body.String()) != string(b) {
						panic("generator: spec decoder disagrees with a long spelling")
					}
					lit := string([]byte{q}) + body.String() + string([]byte{q})
					id := fmt.Sprintf("long%d", nl)
					nl++
					cases = append(cases, litCase(id+".self", lit, string(b), string(b), "long"))
					cases = append(cases, litCase(id+".emb", lit, "zz"+string(b)+"q", string(b), "long"))
					cases = append(cases, tokCase(id+".tok", lit, "lit"))
				}
			}
		}
	}
	st.Counts["long-literals"] = nl
	return cases
}

// ---- token-level stream ------------------------------------------------------------------------

var tokenSpellings = []string{"find", "FIND", "Replace", "with", "set", "to", "pattern", "matches", "transform", "function",
	"all", "skip", "take", "top", "last", "any", "whitespace", "digit", "upper", "lower", "letter", "whole", "line", "file",
	"word", "start", "end", "begin", "caseless", "not", "at", "least", "most", "between", "and", "exactly", "maybe", "fewest",
	"named", "in", "or", "if", "then", "else", "debug", "return", "head", "tail", "loop", "break", "continue", "true", "false",
	"x", "abc", "a1", "Z9z", "0", "12", "007", "'a'", "\"b\"", "'\\n'", "'\\x41'", "'\\xZ'", "\"\\\"\"", "'it\\'s'", "''",
	"=", "==", "!=", ":=", ":", "!", ",", "(", ")", "{", "}", "+", "-", "*", "/", "%", "<", ">", "<=", ">=",
	"--", "-- c", "--(", "--(c)--", "--()--", "--( a )-)--", "--)--", "@/a/", "@/[a-z]+/", "@//", "@", "@x", "#", "_", ".", "\\", "'", "\"",
	" ", "  ", "\n", "\t", "\r\n", " \n ", "\v", "\f"}

func genLex(r *rand.Rand, tier string, st *Stats) []Case {
	cases := []Case{}
	cfg := GenCfg{MaxDepth: 3, Subs: true, Globals: true, Predicates: true, Captures: true, Anchors: true, MultiCmd: true,
		NamedLoops: true, Replace: true, Transforms: true, Amounts: true, LayoutNoise: true}
	np := sizes(tier, 120, 4000)
	for i := 0; i < np; i++ {
		p := GenSource(r, cfg)
		st.addFeatures(p.Features)
		cases = append(cases, tokCase(fmt.Sprintf("p%d", i), p.Src, "program"))
		st.Counts["programs"]++
		// every prefix (quick: every prefix of the first programs, then a sample)
		for k := 0; k < len(p.Src); k++ {
			if i >= sizes(tier, 40, 1000) && r.Intn(8) != 0 {
				continue
			}
			cases = append(cases, tokCase(fmt.Sprintf("p%d.pre%d", i, k), p.Src[:k], "prefix"))
			st.Counts["prefixes"]++
		}
	}
	ns := sizes(tier, 3000, 400000)
	for i := 0; i < ns; i++ {
		ln := r.Intn(24)
		b := make([]byte, ln)
		for j := range b {
			if r.Intn(3) == 0 {
				pool := []byte("'\"\\x-()@/ \n!=:<>a1")
				b[j] = pool[r.Intn(len(pool))]
			} else {
				b[j] = byte(1 + r.Intn(0x7f))
			}
		}
		cases = append(cases, tokCase(fmt.Sprintf("soup%d", i), string(b), "bytesoup"))
	}
	st.Counts["bytesoups"] = ns
	nt := sizes(tier, 3000, 400000)
	for i := 0; i < nt; i++ {
		var b strings.Builder
		k := 1 + r.Intn(8)
		for j := 0; j < k; j++ {
			b.WriteString(tokenSpellings[r.Intn(len(tokenSpellings))])
			if r.Intn(3) == 0 {
				b.WriteString([]string{" ", "\n", "\t"}[r.Intn(3)])
			}
		}
		cases = append(cases, tokCase(fmt.Sprintf("tsoup%d", i), b.String(), "tokensoup"))
	}
	st.Counts["tokensoups"] = nt
	// every single token spelling alone, and every ordered pair (token boundaries / fusion)
	for i, a := range tokenSpellings {
		cases = append(cases, tokCase(fmt.Sprintf("one%d", i), a, "single"))
		for j, b := range tokenSpellings {
			if tier == "thorough" || (i*131+j*31)%5 == 0 {
				cases = append(cases, tokCase(fmt.Sprintf("pair%d.%d", i, j), a+b, "pair"))
				st.Counts["pairs"]++
			}
		}
	}
	// tokens and gaps longer than the 4096-byte read buffer of the lexer's bufio.Reader
	for _, n := range []int{4095, 4096, 4097, 8193} {
		for k, mk := range []func(int) string{
			func(n int) string { return strings.Repeat("a", n) + " x" },
			func(n int) string { return strings.Repeat("7", n) + " x" },
			func(n int) string { return "'" + strings.Repeat("b", n) + "' x" },
			func(n int) string { return "\"" + strings.Repeat("\\n", n/2) + "\" x" },
			func(n int) string { return "@/" + strings.Repeat("a", n) + "/ x" },
			func(n int) string { return strings.Repeat(" ", n) + "x" },
			func(n int) string { return "--" + strings.Repeat("c", n) + "\nx" },
			func(n int) string { return "-- " + strings.Repeat("'q' ", n/4) + "\nx" },
			func(n int) string { return "--(" + strings.Repeat("c", n) + ")--x" },
			func(n int) string { return strings.Repeat("(", n) },
			func(n int) string { return strings.Repeat("ab 12 ", n/6) },
		} {
			cases = append(cases, tokCase(fmt.Sprintf("long%d.%d", n, k), "find all "+mk(n), "long"))
			st.Counts["long-tokens"]++
		}
	}
	// sources that are not ASCII: runes of every class the lexer distinguishes (letters, decimal digits, spaces of
	// other scripts, symbols, astral, U+FFFD, malformed UTF-8) at token starts, inside tokens, in place of tokens and
	// alone; the two runes unicode.ToLower maps into ASCII (U+0130, U+212A) inside keywords; compared with the model
	// on the class image of the source (kinds and rune offsets)
	nu := sizes(tier, 1500, 60000)
	for i := 0; i < nu; i++ {
		cases = append(cases, tokCase(fmt.Sprintf("uni%d", i), unicodeInsert(r), "unicode"))
	}
	for i, kw := range []string{"f\u0130nd all 'a'", "find s\u212aip 1 'a'", "find all ma\u212a 'a'", "find all d\u0130git", "find all \u212a", "find all 'a' \u0130n 'b'",
		"find all l\u0130ne start", "find all whole f\u0130le", "find all '\u00e9' \u00e9 = \u00e9", "find all (letter) = \u03bb \u03bb", "find all \u0663 'a'", "find top \u0663 'a'",
		"find all 'a'\u00a0'b'", "find all 'a'\u2003--\u2003c\n'b'", "find all @/\u00e9+/", "find all '\\x\u00e9'", "find all '\\\u00e9'", "\ufeff find all 'a'",
		"find all \xff", "find all 'a\xffb'", "find all a\xc3", "find all \xe2\x82 'a'", "\xc0\x80", "\xed\xa0\x80find", "find all '\xf0\x9f\x98\x80' \xf0\x9f\x98\x80", "find \xf4\x90\x80\x80"} {
		cases = append(cases, tokCase(fmt.Sprintf("unik%d", i), kw, "unicode"))
	}
	st.Counts["unicode-sources"] = nu
	// every word of the keyword table, alone and between neighbours, in lower, UPPER and Capitalised form, plus the
	// word with one letter appended / removed (must be an identifier): the whole table through the real lexer
	for i, w := range keywordWords {
		for j, form := range []string{w, strings.ToUpper(w), strings.ToUpper(w[:1]) + w[1:], w + "x", w[:len(w)-1] + "_"} {
			cases = append(cases, tokCase(fmt.Sprintf("kw%d.%d", i, j), form, "keyword-table"))
			cases = append(cases, tokCase(fmt.Sprintf("kw%d.%dc", i, j), "'a' "+form+" (x)", "keyword-table"))
		}
	}
	st.Counts["keyword-table-words"] = len(keywordWords)
	// sources containing NUL bytes (the lexer treats NUL as end of input: quirk, modelled)
	nn := sizes(tier, 300, 30000)
	for i := 0; i < nn; i++ {
		ln := 1 + r.Intn(10)
		b := make([]byte, ln)
		for j := range b {
			switch r.Intn(4) {
			case 0:
				b[j] = 0
			case 1:
				pool := []byte("'\"\\x-(@/ a")
				b[j] = pool[r.Intn(len(pool))]
			default:
				b[j] = byte(0x20 + r.Intn(0x5f))
			}
		}
		cases = append(cases, tokCase(fmt.Sprintf("nul%d", i), string(b), "nul"))
	}
	st.Counts["nul"] = nn
	cases = append(cases, genItemCases(r, tier, st)...)
	return cases
}

// ---- item-level stream: the lexical grammar of lean/Vore/Spec/LexItems.lean as a generator --------
// A random well-separated item list (separators only where Item.sep demands one, plus random gaps);
// the case carries the tokens the specification assigns (kind + lexeme), so the real lexer is compared
// with the *specification* of theorem C15_lex_items, not only with the model.

type lexItem struct {
	render, kind, lexeme, class string
}

var keywordWords = []string{"find", "replace", "with", "set", "to", "pattern", "matches", "transform", "function", "all",
	"skip", "take", "top", "last", "any", "whitespace", "digit", "upper", "lower", "letter", "whole", "line", "file", "word",
	"start", "end", "begin", "caseless", "not", "at", "least", "most", "between", "and", "exactly", "maybe", "fewest", "named",
	"in", "or", "if", "then", "else", "debug", "return", "head", "tail", "loop", "break", "continue", "true", "false"}

func docKeywordKind(w string) string {
	l := strings.ToLower(w)
	if l == "function" {
		return "TRANSFORM"
	}
	for _, k := range keywordWords {
		if k == l {
			return strings.ToUpper(l)
		}
	}
	return "IDENTIFIER"
}

func randCase(r *rand.Rand, w string) string {
	b := []byte(w)
	for i := range b {
		if r.Intn(3) == 0 && b[i] >= 'a' && b[i] <= 'z' {
			b[i] -= 32
		}
	}
	return string(b)
}

func genItem(r *rand.Rand, st *Stats) lexItem {
	switch r.Intn(12) {
	case 0, 1:
		w := randCase(r, keywordWords[r.Intn(len(keywordWords))])
		return lexItem{w, docKeywordKind(w), w, "word"}
	case 2:
		n := 1 + r.Intn(5)
		b := make([]byte, n)
		b[0] = pick(r, "abcxyzABCXYZ")
		for i := 1; i < n; i++ {
			b[i] = pick(r, "abcxyzABCXYZ0189")
		}
		return lexItem{string(b), docKeywordKind(string(b)), string(b), "word"}
	case 3:
		n := 1 + r.Intn(4)
		b := make([]byte, n)
		for i := range b {
			b[i] = byte('0' + r.Intn(10))
		}
		return lexItem{string(b), "NUMBER", string(b), "number"}
	case 4, 5:
		q := []byte{'\'', '"'}[r.Intn(2)]
		var body strings.Builder
		val := []byte{}
		for j := r.Intn(5); j > 0; j-- {
			v := byte(0x20 + r.Intn(0x5f))
			if r.Intn(5) == 0 {
				v = []byte{'\n', '\t', '\'', '"', '\\', 'x', '-', 1, 0x7f}[r.Intn(9)]
			}
			sp := spellingsOf(v, q)
			keys := []string{}
			for _, k := range spellingKinds {
				if _, ok := sp[k]; ok {
					keys = append(keys, k)
				}
			}
			body.WriteString(sp[keys[r.Intn(len(keys))]])
			val = append(val, v)
		}
		return lexItem{string([]byte{q}) + body.String() + string([]byte{q}), "STRING", string(val), "str"}
	case 6:
		n := r.Intn(5)
		b := make([]byte, n)
		for i := range b {
			b[i] = pick(r, "ab[]+*\\. -'")
		}
		return lexItem{"@/" + string(b) + "/", "REGEXP", string(b), "regexp"}
	case 7:
		i := r.Intn(9)
		c := "(){},+*/%"[i : i+1]
		k := []string{"OPENPAREN", "CLOSEPAREN", "OPENCURLY", "CLOSECURLY", "COMMA", "PLUS", "MULT", "DIV", "MOD"}[i]
		return lexItem{c, k, c, "punct"}
	case 8:
		i := r.Intn(5)
		return lexItem{[]string{"==", "!=", ":=", "<=", ">="}[i], []string{"DEQUAL", "NEQUAL", "COLONEQ", "LESSEQ", "GREATEREQ"}[i],
			[]string{"==", "!=", ":=", "<=", ">="}[i], "op2"}
	case 9:
		i := r.Intn(4)
		return lexItem{[]string{"=", "<", ">", "-"}[i], []string{"EQUAL", "LESS", "GREATER", "MINUS"}[i], []string{"=", "<", ">", "-"}[i], "op1"}
	case 10:
		return genGapItem(r)
	default:
		return genGapItem(r)
	}
}

func pick(r *rand.Rand, s string) byte { return s[r.Intn(len(s))] }

func genGapItem(r *rand.Rand) lexItem {
	switch r.Intn(3) {
	case 0:
		n := 1 + r.Intn(3)
		b := make([]byte, n)
		for i := range b {
			b[i] = pick(r, " \t\n\r\v\f")
		}
		return lexItem{string(b), "WS", string(b), "blank"}
	case 1:
		n := r.Intn(5)
		b := make([]byte, n)
		for i := range b {
			b[i] = pick(r, "ab -()'x")
		}
		if n > 0 && b[0] == '(' {
			b[0] = 'c'
		}
		return lexItem{"--" + string(b), "COMMENT", "--" + string(b), "lineComment"}
	default:
		n := r.Intn(6)
		b := make([]byte, n)
		for i := range b {
			b[i] = pick(r, "ab -()\n")
		}
		body := string(b)
		for strings.Contains(body, ")--") {
			body = strings.Replace(body, ")--", ")- ", 1)
		}
		return lexItem{"--(" + body + ")--", "COMMENT", "--(" + body + ")--", "blockComment"}
	}
}

func isAlnumByte(c byte) bool {
	return (c >= '0' && c <= '9') || (c >= 'a' && c <= 'z') || (c >= 'A' && c <= 'Z')
}

func isSpaceByte(c byte) bool { return (c >= 9 && c <= 13) || c == ' ' }

// Item.sep of Vore/Spec/LexItems.lean: may `it` be followed directly by a text starting with c?
func sepOK(it lexItem, c byte) bool {
	switch it.class {
	case "word":
		return !isAlnumByte(c)
	case "number":
		return !(c >= '0' && c <= '9')
	case "blank":
		return !isSpaceByte(c)
	case "op1":
		if it.render == "-" {
			return c != '-'
		}
		return c != '='
	case "lineComment":
		return c == '\n'
	}
	return true
}

func genItemCases(r *rand.Rand, tier string, st *Stats) []Case {
	cases := []Case{}
	n := sizes(tier, 2500, 200000)
	for i := 0; i < n; i++ {
		k := 1 + r.Intn(8)
		items := []lexItem{}
		for j := 0; j < k; j++ {
			it := genItem(r, st)
			if len(items) > 0 {
				prev := items[len(items)-1]
				if !sepOK(prev, it.render[0]) {
					// a separator is needed here: a newline after a line comment, a blank otherwise
					// (two blank runs cannot be adjacent: drop the new one)
					if prev.class == "blank" {
						continue
					}
					sep := " "
					if prev.class == "lineComment" {
						sep = "\n"
					}
					if it.class == "blank" {
						it = lexItem{sep + it.render, "WS", sep + it.render, "blank"}
					} else {
						items = append(items, lexItem{sep, "WS", sep, "blank"})
					}
					st.Counts["items-separator-needed"]++
				} else {
					st.Counts["items-touching"]++
				}
			}
			items = append(items, it)
		}
		var src strings.Builder
		exp := []string{}
		for _, it := range items {
			src.WriteString(it.render)
			exp = append(exp, it.kind+":"+hx(it.lexeme))
			st.Counts["item-"+it.class]++
		}
		exp = append(exp, "EOF:x")
		cases = append(cases, Case{ID: fmt.Sprintf("items%d", i), Op: "tokens",
			Fields: []string{hx(src.String()), "items", strings.Join(exp, " ")}, Meta: map[string]string{}})
	}
	return cases
}

func init() {
	extraOps["tokens"] = opTokens
	propGens["C16"] = genC16
	propGens["LEX"] = genLex
	leanCaseExtra["tokens"] = func(c Case, impl string) (string, bool) {
		return c.ID + "\tlex\t" + c.Fields[0], true
	}
}
