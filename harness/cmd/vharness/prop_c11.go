package main

// C11 — process expressions evaluate as the documented operator table says.
//
// ops (real-code side):
//
//	proc <ctx> <body-hex> <env> <run>    ctx: t (transform) | p (predicate of a pattern)
//	    builds   set f to transform <body> end replace all 'X' with f        (ctx t)
//	    or       set p to pattern 'X' begin <body> end find all p            (ctx p)
//	    and reports  AST <dump>  COMPILE ok|ERR …|PANIC …  RUN <canonical matches>|PANIC …|SKIP
//	    on the text "aXb".  <env> is the run-time environment that body sees (for the model).
//	c11parse <kind> <tree|-> <expr-hex>
//	    the syntax tree the real parser builds for `return <expr>` and the real lexer's
//	    tokens after `return` (input of the Pratt model).
//
// generator: every (lhs type, op, rhs type) cell × boundary values, operands as literals and
// as variables, through a transform and through a predicate; unary cells; random well-typed
// trees of depth ≤ 3 rendered with minimal and with full parentheses; token soups.

import (
	"fmt"
	"math/rand"
	"strconv"
	"strings"

	"github.com/jmeaster30/vore/libvore"
	"github.com/jmeaster30/vore/libvore/ast"
)

const procText = "aXb"

func procProgram(ctx string, body string) string {
	if ctx == "p" {
		return "set p to pattern 'X' begin " + body + " end find all p"
	}
	return "set f to transform " + body + " end replace all 'X' with f"
}

func procEnv(ctx string) string {
	if ctx == "p" {
		return "match=s:x58,matchLength=n:1"
	}
	// executeReplaceProcess: every string entry of the replacer's table (captures and the per-match built-ins), then
	// match, matchLength and matchNumber (a number) — for `replace all 'X' with f` on "aXb"
	return "match=s:x58,matchLength=n:1,matchNumber=n:1,totalMatches=s:x31,startOffset=s:x31,endOffset=s:x32," +
		"lineNumber=s:x31,columnNumber=s:x32,value=s:x58,filename=s:x74657874"
}

func safeParse(src string) (out string) {
	defer func() {
		if r := recover(); r != nil {
			out = "PARSEPANIC " + hx(fmt.Sprint(r))
		}
	}()
	s, err := libvore.VerifParse(src)
	if err != nil {
		return "PARSEERR " + hx(err.Error())
	}
	return "AST " + s
}

func opProc(fields []string) string {
	ctx, body, run := fields[0], unhx(fields[1]), fields[3]
	src := procProgram(ctx, body)
	res := safeParse(src)
	if len(fields) > 5 && fields[5] != "" {
		// other process bodies compiled BEFORE the one under test, in the same source: each body is checked on its own
		// (variables typed by last assignment within the body, unknown names strings), so they must not matter
		src = unhx(fields[5]) + "\n" + src
	}
	v, class := safeCompile(src)
	if v == nil {
		return res + "\tCOMPILE " + class + "\tRUN SKIP"
	}
	if run != "T" {
		return res + "\tCOMPILE ok\tRUN SKIP"
	}
	return res + "\tCOMPILE ok\tRUN " + safeRun(v, procText)
}

func safeTokens(src string) (toks []ast.VerifToken, fail string) {
	defer func() {
		if r := recover(); r != nil {
			toks, fail = nil, "LEXPANIC "+hx(fmt.Sprint(r))
		}
	}()
	t, err := ast.VerifTokens(src)
	if err != nil {
		return nil, "LEXERR " + hx(err.Error())
	}
	return t, ""
}

func opC11Parse(fields []string) string {
	expr := unhx(fields[2])
	src := procProgram("t", "return "+expr)
	res := safeParse(src)
	toks, fail := safeTokens(src)
	if fail != "" {
		return res + "\tTOKENS " + fail
	}
	out := []string{}
	seenReturn := false
	for _, t := range toks {
		if !seenReturn {
			if t.Name == "RETURN" {
				seenReturn = true
			}
			continue
		}
		switch t.Name {
		case "STRING", "NUMBER", "IDENTIFIER":
			out = append(out, t.Name+":"+hx(t.Lexeme))
		default:
			out = append(out, t.Name)
		}
	}
	return res + "\tTOKENS " + strings.Join(out, " ")
}

// ---------------------------------------------------------------------------
// expression trees
// ---------------------------------------------------------------------------

type pnode struct {
	kind string // str num bool var un bin
	s    string
	n    int
	b    bool
	op   string // Go token name
	l, r *pnode
}

var opSpelling = map[string]string{
	"PLUS": "+", "MINUS": "-", "MULT": "*", "DIV": "/", "MOD": "%", "LESS": "<", "GREATER": ">",
	"LESSEQ": "<=", "GREATEREQ": ">=", "DEQUAL": "==", "NEQUAL": "!=", "AND": "and", "OR": "or",
	"NOT": "not", "HEAD": "head", "TAIL": "tail",
}

var binOpNames = []string{"PLUS", "MINUS", "MULT", "DIV", "MOD", "LESS", "GREATER", "LESSEQ", "GREATEREQ", "DEQUAL", "NEQUAL", "AND", "OR"}
var cmpOpNames = []string{"LESS", "GREATER", "LESSEQ", "GREATEREQ", "DEQUAL", "NEQUAL"}
var arithOpNames = []string{"PLUS", "MINUS", "MULT", "DIV", "MOD"}
var unOpNames = []string{"NOT", "HEAD", "TAIL"}

// documented strata (generator knowledge, mirrors Vore/Spec/Grammar.lean)
func opLevel(op string) int {
	switch op {
	case "AND", "OR":
		return 1
	case "DEQUAL", "NEQUAL":
		return 2
	case "LESS", "GREATER", "LESSEQ", "GREATEREQ":
		return 3
	case "PLUS", "MINUS":
		return 4
	case "MULT", "DIV", "MOD":
		return 5
	}
	return 0
}

func vnameHex(s string) string {
	if s == "" {
		return "_"
	}
	return "n" + hx(s)[1:]
}

func (p *pnode) sexp() string {
	switch p.kind {
	case "str":
		return "( pstr " + hx(p.s) + " )"
	case "num":
		return fmt.Sprintf("( pnum %d )", p.n)
	case "bool":
		if p.b {
			return "( pbool T )"
		}
		return "( pbool F )"
	case "var":
		return "( pvar " + vnameHex(p.s) + " )"
	case "un":
		return "( un " + p.op + " " + p.l.sexp() + " )"
	}
	return "( bin " + p.op + " " + p.l.sexp() + " " + p.r.sexp() + " )"
}

func (p *pnode) atom() string {
	switch p.kind {
	case "str":
		return quote(p.s)
	case "num":
		return strconv.Itoa(p.n)
	case "bool":
		if p.b {
			return "true"
		}
		return "false"
	}
	return p.s
}

func (p *pnode) renderFull() string {
	switch p.kind {
	case "un":
		return "( " + opSpelling[p.op] + " " + p.l.renderFull() + " )"
	case "bin":
		return "( " + p.l.renderFull() + " " + opSpelling[p.op] + " " + p.r.renderFull() + " )"
	}
	return p.atom()
}

// renderMin k: where an expression of level >= k is expected
func (p *pnode) renderMin(k int) string {
	switch p.kind {
	case "un":
		return opSpelling[p.op] + " " + p.l.renderMin(6)
	case "bin":
		lv := opLevel(p.op)
		body := p.l.renderMin(lv) + " " + opSpelling[p.op] + " " + p.r.renderMin(lv+1)
		if lv < k {
			return "( " + body + " )"
		}
		return body
	}
	return p.atom()
}

func (p *pnode) depth() int {
	switch p.kind {
	case "un":
		return 1 + p.l.depth()
	case "bin":
		a, b := p.l.depth(), p.r.depth()
		if b > a {
			a = b
		}
		return 1 + a
	}
	return 0
}

// documented result type of a binary operator (generator knowledge; "" = not in the table)
func docBinType(l, op, r string) string {
	isCmp := opLevel(op) == 2 || opLevel(op) == 3
	isArith := opLevel(op) == 4 || opLevel(op) == 5
	switch l {
	case "string":
		if op == "PLUS" {
			return "string"
		}
		if isCmp {
			return "boolean"
		}
		if isArith && r == "number" {
			return "number"
		}
	case "boolean":
		if op == "AND" || op == "OR" || isCmp {
			return "boolean"
		}
	case "number":
		if isCmp {
			return "boolean"
		}
		if isArith {
			return "number"
		}
	}
	return ""
}

// typed variables available to random trees; set before the return
var treeVars = []struct{ name, typ, init string }{
	{"vs", "string", "'ab'"}, {"vt", "string", "'12'"}, {"vn", "number", "7"}, {"vz", "number", "0"},
	{"vb", "boolean", "true"}, {"match", "string", ""}, {"matchLength", "number", ""},
}

func treeVarSets() string {
	parts := []string{}
	for _, v := range treeVars {
		if v.init != "" {
			parts = append(parts, "set "+v.name+" to "+v.init)
		}
	}
	return strings.Join(parts, " ")
}

var genStrings = []string{"", "abc", "12", "-3", "x1", "0", "b", "007"}
var genNumbers = []int{0, 1, 2, 3, 12, 100}

// leafVars: the typed variables genLeaf may use (switched by the C12 generator)
var leafVars = treeVars

func genLeaf(r *rand.Rand, typ string) *pnode {
	if r.Intn(3) == 0 {
		cands := []string{}
		for _, v := range leafVars {
			if v.typ == typ {
				cands = append(cands, v.name)
			}
		}
		if len(cands) > 0 {
			return &pnode{kind: "var", s: cands[r.Intn(len(cands))]}
		}
	}
	switch typ {
	case "string":
		return &pnode{kind: "str", s: genStrings[r.Intn(len(genStrings))]}
	case "number":
		return &pnode{kind: "num", n: genNumbers[r.Intn(len(genNumbers))]}
	}
	return &pnode{kind: "bool", b: r.Intn(2) == 0}
}

var allTypes3 = []string{"string", "number", "boolean"}

// genTree: a well-typed tree of the given type (by the documented table), depth <= d
func genTree(r *rand.Rand, typ string, d int) *pnode {
	if d == 0 || r.Intn(5) == 0 {
		return genLeaf(r, typ)
	}
	// candidate (lhs type, op, rhs type) with the wanted result, and unary forms
	type cand struct{ l, op, r string }
	cands := []cand{}
	for _, l := range allTypes3 {
		for _, op := range binOpNames {
			for _, rt := range allTypes3 {
				if docBinType(l, op, rt) == typ {
					cands = append(cands, cand{l, op, rt})
				}
			}
		}
	}
	switch typ {
	case "boolean":
		cands = append(cands, cand{"", "NOT", "boolean"}, cand{"", "NOT", "boolean"}, cand{"", "NOT", "boolean"})
	case "string":
		cands = append(cands, cand{"", "HEAD", "string"}, cand{"", "TAIL", "string"}, cand{"", "HEAD", "string"}, cand{"", "TAIL", "string"})
	}
	c := cands[r.Intn(len(cands))]
	if c.l == "" {
		return &pnode{kind: "un", op: c.op, l: genTree(r, c.r, d-1)}
	}
	return &pnode{kind: "bin", op: c.op, l: genTree(r, c.l, d-1), r: genTree(r, c.r, d-1)}
}

// ---------------------------------------------------------------------------
// cases
// ---------------------------------------------------------------------------

type c11gen struct {
	cases []Case
	st    *Stats
	n     int
}

func (g *c11gen) proc(prefix, ctx, body string, meta map[string]string) {
	g.n++
	if meta == nil {
		meta = map[string]string{}
	}
	meta["ctx"] = ctx
	meta["body"] = body
	g.cases = append(g.cases, Case{
		ID:     fmt.Sprintf("%s%d", prefix, g.n),
		Op:     "proc",
		Fields: []string{ctx, hx(body), procEnv(ctx), "T", cellOf(meta)},
		Meta:   meta,
	})
	g.st.Counts["proc_"+ctx]++
}

func (g *c11gen) parse(prefix, kind, tree, expr string) {
	g.n++
	g.cases = append(g.cases, Case{
		ID:     fmt.Sprintf("%s%d", prefix, g.n),
		Op:     "c11parse",
		Fields: []string{kind, tree, hx(expr)},
		Meta:   map[string]string{},
	})
	g.st.Counts["parse_"+kind]++
}

func cellOf(meta map[string]string) string {
	if c, ok := meta["cell"]; ok && c != "" {
		return c
	}
	return "-"
}

type bval struct {
	typ string
	lit string // literal spelling ("" = not expressible as a literal)
	set string // expression that yields it in a `set`
}

func boundaryValues(typ string) []bval {
	switch typ {
	case "string":
		out := []bval{}
		for _, s := range []string{"", "abc", "12", "-3", "x1", "0"} {
			out = append(out, bval{"string", quote(s), quote(s)})
		}
		return out
	case "number":
		return []bval{
			{"number", "0", "0"}, {"number", "1", "1"}, {"number", "", "0 - 1"}, {"number", "2", "2"},
			{"number", "12", "12"}, {"number", "", "0 - 3"},
		}
	}
	return []bval{{"boolean", "true", "true"}, {"boolean", "false", "false"}}
}

// emit one expression (over va / vb or literals) in the modes that observe its value
func (g *c11gen) observe(prefix string, sets string, expr string, resType string, cell string) {
	pre := ""
	if sets != "" {
		pre = sets + " "
	}
	meta := func() map[string]string { return map[string]string{"cell": cell} }
	switch resType {
	case "boolean":
		g.proc(prefix, "p", pre+"return "+expr, meta())
		g.proc(prefix, "t", pre+"if "+expr+" then return 'T' end return 'F'", meta())
	case "string", "number":
		g.proc(prefix, "t", pre+"return "+expr, meta())
		g.proc(prefix, "p", pre+"return ( "+expr+" ) <= '12'", meta())
	default:
		// not in the documented table: the checker must reject it (observed through Compile)
		g.proc(prefix, "t", pre+"return "+expr, meta())
	}
}

func genC11(r *rand.Rand, tier string, st *Stats) []Case {
	g := &c11gen{st: st}
	// (A) every binary cell x boundary values
	for _, lt := range allTypes3 {
		for _, op := range binOpNames {
			for _, rt := range allTypes3 {
				res := docBinType(lt, op, rt)
				cell := lt + "," + op + "," + rt
				st.Features["cell:"+cell]++
				lvals, rvals := boundaryValues(lt), boundaryValues(rt)
				if res == "" {
					lvals, rvals = lvals[:1], rvals[:2]
				}
				for _, lv := range lvals {
					for _, rv := range rvals {
						g.observe("cv", "set va to "+lv.set+" set vb to "+rv.set, "va "+opSpelling[op]+" vb", res, cell)
						if lv.lit != "" && rv.lit != "" {
							g.observe("cl", "", lv.lit+" "+opSpelling[op]+" "+rv.lit, res, cell)
						}
					}
				}
			}
		}
	}
	// unary cells
	for _, op := range unOpNames {
		for _, t := range allTypes3 {
			res := ""
			if op == "NOT" && t == "boolean" {
				res = "boolean"
			}
			if (op == "HEAD" || op == "TAIL") && t == "string" {
				res = "string"
			}
			cell := op + "," + t
			st.Features["cell:"+cell]++
			vals := boundaryValues(t)
			if t == "string" {
				vals = append(vals, bval{"string", "'a'", "'a'"}, bval{"string", "'\\xc3\\xa9z'", "'\\xc3\\xa9z'"})
			}
			for _, v := range vals {
				g.observe("uv", "set va to "+v.set, opSpelling[op]+" va", res, cell)
				if v.lit != "" {
					g.observe("ul", "", opSpelling[op]+" "+v.lit, res, cell)
				}
			}
		}
	}
	// the strconv.Atoi / Itoa model at its edges (sign, blanks, underscores, int64 range)
	for _, lit := range []string{"+5", "-0", " 7", "7 ", "1_0", "0x10", "1e3", "--1", "+", "-", "007",
		"9223372036854775807", "9223372036854775808", "-9223372036854775808", "-9223372036854775809"} {
		g.proc("at", "t", "return 0 + "+quote(lit), map[string]string{"cell": "number,PLUS,string"})
		g.proc("at", "t", "return "+quote(lit)+" * 1", map[string]string{"cell": "string,MULT,number"})
		g.proc("at", "p", "return 1 <= "+quote(lit), map[string]string{"cell": "number,LESSEQ,string"})
		g.proc("at", "t", "return "+quote(lit)+" + ( 0 - 12 )", map[string]string{"cell": "string,PLUS,number"})
	}
	// string -> boolean is "non-empty", whatever the text says: strings that LOOK like a truth value, a zero, a blank,
	// as the right operand of every operator whose left operand is a boolean (and as an `if` condition through `and`)
	for _, lit := range []string{"false", "true", "False", "FALSE", "0", "00", " ", "no", "nil", "null", "f", "-"} {
		for _, op := range []string{"and", "or", "==", "!=", "<", ">", "<=", ">="} {
			for _, lhs := range []string{"true", "false", "( 1 < 2 )"} {
				g.proc("sb", "p", "return "+lhs+" "+op+" "+quote(lit), map[string]string{"cell": "bool," + op + ",string"})
			}
		}
		g.proc("sb", "t", "set flag to '' + "+quote(lit)+" if true and flag then return 'T' end return 'F'", map[string]string{"cell": "vars"})
		g.proc("sb", "t", "set flag to '' + ( 1 > 2 ) if true != flag then return 'ne' end return 'eq'", map[string]string{"cell": "vars"})
	}
	// variables the checker does not know: `matchNumber` (a number at run time), unset names
	for _, e := range []string{"matchNumber + 1", "matchNumber + '1'", "matchNumber == 1", "matchNumber * 2", "head matchNumber",
		"nosuch + 'x'", "nosuch == ''", "matchLength + 1", "match + match", "matchLength * matchLength"} {
		g.proc("mv", "t", "if "+e+" == "+e+" then return "+e+" end return 'F'", map[string]string{"cell": "vars"})
	}
	// names that are NOT in the run-time environment (never set; a built-in of the other context), read AFTER earlier
	// statements have evaluated something else: an unset name is the empty string, whatever was evaluated before
	for _, pre := range []string{"set n to 5", "set b to 1 < 2", "set s to 'abc'", "debug 7", "if 1 < 2 then set q to 9 end",
		"if false then return 'no' end", "set n to 5 set m to n * 2", "loop set k to 3 break end"} {
		for _, e := range []string{"nosuch + 'x'", "nosuch - 1", "'<' + nosuch + '>'", "head nosuch", "nosuch == ''", "0 + nosuch",
			"nosuch + nosuch", "other * 3"} {
			g.proc("un", "t", pre+" if "+e+" == "+e+" then return "+e+" end return 'F'", map[string]string{"cell": "vars"})
			g.proc("un", "p", pre+" return ( "+e+" ) == ( "+e+" )", map[string]string{"cell": "vars"})
		}
	}
	// values are immutable: ONE value (itself the result of an operation, held in a variable) is used twice in two
	// different operations whose results are both kept and read afterwards — in two variables, or as the two operands of
	// one expression; also snapshots of an accumulator read after the accumulator has grown
	for _, mk := range []string{"match + 'ab'", "'q' + match + match", "match + 1", "tail ( match + 'abcdefgh' )", "matchLength * 3", "match + '' + 'z'"} {
		for _, use := range []string{
			"set a to x + '1' set b to x + '2' return a + b",
			"set a to x + '1' set b to x + '2' return b + a",
			"set a to x + 'one' set b to x + 'twotwo' set c to x + '3' return a + '|' + b + '|' + c",
			"if ( x + '1' ) == ( x + '2' ) then return 'same' end return 'diff'",
			"if ( x + 'a' ) != ( x + 'b' ) then return 'diff' end return 'same'",
			"set a to x + '1' set x to x + '2' return a + x",
			"set a to x set x to x + 'k' set b to x set x to x + 'm' return a + '|' + b + '|' + x",
			"set i to 0 set a to '' loop if i >= 3 then break end set i to i + 1 set y to x + i set a to a + y + ',' end return a + x",
		} {
			g.proc("im", "t", "set x to "+mk+" "+use, map[string]string{"cell": "vars"})
		}
		g.proc("im", "p", "set x to "+mk+" return ( x + '1' ) != ( x + '2' )", map[string]string{"cell": "vars"})
		g.proc("im", "p", "set x to "+mk+" set a to x + '1' set b to x + '2' return a < b", map[string]string{"cell": "vars"})
	}
	// (B) random well-typed trees, both renderings, value + syntax tree
	ntrees := sizes(tier, 1500, 100000)
	for i := 0; i < ntrees; i++ {
		typ := allTypes3[r.Intn(3)]
		t := genTree(r, typ, 1+r.Intn(3))
		st.Features[fmt.Sprintf("tree-depth-%d", t.depth())]++
		st.Features["tree-type-"+typ]++
		for _, kind := range []string{"min", "full"} {
			src := t.renderMin(1)
			if kind == "full" {
				src = t.renderFull()
			}
			g.parse("tp", kind, t.sexp(), src)
			meta := map[string]string{"cell": "tree", "tree": t.sexp(), "kind": kind}
			if typ == "boolean" {
				g.proc("tv", "p", treeVarSets()+" return "+src, meta)
			} else {
				g.proc("tv", "t", treeVarSets()+" return "+src, meta)
			}
		}
	}
	// (B2) ALL operator shapes of depth <= 2 (untyped, one leaf kind), both renderings: syntax tree only
	shapes := allShapes(2)
	st.Counts["shapes_depth2"] = len(shapes)
	for _, t := range shapes {
		g.parse("sh", "min", t.sexp(), t.renderMin(1))
		g.parse("sh", "full", t.sexp(), t.renderFull())
	}
	// (C) token soups: model vs real parser on arbitrary (mostly malformed) expressions
	soup := []string{"1", "2", "'a'", "x", "true", "(", ")", "+", "*", "-", "<", "==", "and", "or", "not", "head", "tail"}
	nsoup := sizes(tier, 600, 6000)
	for i := 0; i < nsoup; i++ {
		n := 1 + r.Intn(6)
		parts := []string{}
		for j := 0; j < n; j++ {
			parts = append(parts, soup[r.Intn(len(soup))])
		}
		g.parse("ts", "src", "-", strings.Join(parts, " "))
	}
	st.Counts["trees"] = ntrees
	return g.cases
}

// allShapes: every tree of depth <= d over all unary and binary operators with leaves `a`, 1, 2 …
func allShapes(d int) []*pnode {
	leaf := &pnode{kind: "var", s: "a"}
	if d == 0 {
		return []*pnode{leaf}
	}
	sub := allShapes(d - 1)
	out := []*pnode{leaf}
	for _, op := range unOpNames {
		for _, e := range sub {
			out = append(out, &pnode{kind: "un", op: op, l: e})
		}
	}
	for _, op := range binOpNames {
		for _, l := range sub {
			for _, r := range sub {
				out = append(out, &pnode{kind: "bin", op: op, l: l, r: r})
			}
		}
	}
	return out
}

func procLeanCase(c Case, impl string) (string, bool) {
	astd := ""
	for _, part := range strings.Split(impl, "\t") {
		if strings.HasPrefix(part, "AST ") {
			astd = part[4:]
		}
	}
	if astd == "" {
		return "", false
	}
	return c.ID + "\tproc\t" + c.Fields[0] + "\t" + astd + "\t" + c.Fields[2], true
}

func init() {
	extraOps["proc"] = opProc
	extraOps["c11parse"] = opC11Parse
	propGens["C11"] = genC11
	leanCaseExtra["proc"] = procLeanCase
	leanCaseExtra["c11parse"] = func(c Case, impl string) (string, bool) {
		toks := ""
		ok := false
		for _, part := range strings.Split(impl, "\t") {
			if strings.HasPrefix(part, "TOKENS ") {
				toks, ok = part[7:], true
			} else if part == "TOKENS" {
				ok = true
			}
		}
		if !ok || strings.HasPrefix(toks, "LEX") {
			return "", false
		}
		return c.ID + "\tc11parse\t" + c.Fields[0] + "\t" + c.Fields[1] + "\t" + toks, true
	}
}
