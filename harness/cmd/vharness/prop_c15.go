package main

import (
	"fmt"
	"math/rand"
	"strings"
	"unicode"

	"github.com/jmeaster30/vore/libvore/ast"
)

// ---------------------------------------------------------------------------
// C15: a re-laid-out source (a gap filled with blanks / comments, keywords re-cased) must be
// accepted iff the original is, parse to the same tree and give the same results.
//
// op `layout <orig> <variant> <text>...`
//   A <front(orig)>    \t-separated as in op `front`, each field prefixed with A: / B:
//   RUN same|diff <detail>|na
// ---------------------------------------------------------------------------

func classOf(f map[string]string) string {
	p := f["PARSE"]
	c := f["COMPILE"]
	switch {
	case strings.HasPrefix(p, "PANIC") || strings.HasPrefix(c, "PANIC"):
		return "PANIC"
	case c == "OK":
		return "OK"
	default:
		return "ERR"
	}
}

func runAll(src string, texts []string) []string {
	out := []string{}
	v, class := safeCompile(src)
	if v == nil {
		return []string{"COMPILE " + strings.Split(class, " ")[0]}
	}
	for _, t := range texts {
		out = append(out, safeRun(v, t))
	}
	return out
}

func opLayout(fields []string) string {
	a := opFront(fields[:1])
	b := opFront(fields[1:2])
	fa, fb := splitFields(a), splitFields(b)
	texts := []string{}
	for _, t := range fields[2:] {
		texts = append(texts, unhx(t))
	}
	run := "na"
	if classOf(fa) == "OK" && classOf(fb) == "OK" {
		ra, rb := runAll(unhx(fields[0]), texts), runAll(unhx(fields[1]), texts)
		run = "same"
		for i := range ra {
			if i >= len(rb) || ra[i] != rb[i] {
				run = fmt.Sprintf("diff text=%d", i)
				break
			}
		}
	}
	ast := "na"
	if strings.HasPrefix(fa["PARSE"], "AST ") || strings.HasPrefix(fb["PARSE"], "AST ") {
		if fa["PARSE"] == fb["PARSE"] {
			ast = "same"
		} else {
			ast = "diff"
		}
	}
	return "CLASSA " + classOf(fa) + "\tCLASSB " + classOf(fb) + "\tAST " + ast + "\tRUN " + run +
		"\tTOKSA " + fa["TOKS"] + "\tTOKSB " + fb["TOKS"] + "\tPARSEB " + fb["PARSE"]
}

func leanLayout(c Case, impl string) (string, bool) {
	f := splitFields(impl)
	if f["TOKSA"] == "" || f["TOKSB"] == "" {
		return "", false
	}
	p := f["PARSEB"]
	res := "NONE"
	switch {
	case strings.HasPrefix(p, "AST "):
		res = p
	case strings.HasPrefix(p, "ERR"):
		res = "ERR"
	case strings.HasPrefix(p, "PANIC"):
		res = "PANIC"
	}
	return c.ID + "\tlayoutpair\t" + f["TOKSA"] + "\t" + f["TOKSB"] + "\t" + res, true
}

var gapFillers = []struct{ name, text string }{
	{"space", " "}, {"newline", "\n"}, {"tabs", "\t\t"}, {"linecomment", " -- c\n"},
	// line comments whose text is empty or made of the characters the comment states look at (dash, paren, quote, CR)
	{"linecomment-empty", "--\n"}, {"linecomment-empty-blank", " --\n"}, {"linecomment-dash", "---\n"}, {"linecomment-dashes", "-----\n"},
	{"linecomment-blank", "-- \n"}, {"linecomment-crlf", "--\r\n"}, {"linecomment-late-paren", "--c(\n"}, {"linecomment-closer", "--)--\n"},
	{"linecomment-quote", "--'\n"},
	// a bare carriage return INSIDE the comment text (the comment ends at the line feed, nowhere else)
	{"linecomment-bare-cr", " -- a\rb c\n"}, {"linecomment-bare-cr-quote", "-- x\r'q' or\n"}, {"linecomment-cr-cr-lf", "--\r\r\n"}, {"linecomment-dquote", "--\"\n"}, {"two-empty-linecomments", "--\n--\n"},
	{"empty-linecomment-then-block", "--\n--(c)--"}, {"block-then-empty-linecomment", "--(c)----\n"},
	{"blockcomment", "--(c)--"}, {"blockcomment-blanks", " --(c)-- "},
	// comment texts made of the terminator's own characters: every proper prefix of `)--` directly before the real one
	{"blockcomment-tail-paren-dash", "--(c)-)--"}, {"blockcomment-tail-paren", "--(c))--"}, {"blockcomment-only-paren-dash", "--()-)--"},
	{"blockcomment-dashes", "--(--)--"}, {"blockcomment-tail-parens-dash", "--( x))-)--"}, {"blockcomment-opener-inside", "--(--(c)--"},
	// every other character the lexer's whitespace test (unicode.IsSpace) accepts: the remaining ASCII controls and the
	// Unicode White_Space characters, Latin-1 ones (U+0085, U+00A0) included
	{"cr-vt-ff", "\r\v\f"}, {"crlf", "\r\n"}, {"nel-nbsp", "\u0085\u00a0"}, {"ogham-enquad", "\u1680\u2000\u2003\u200a"},
	{"line-para-sep", "\u2028\u2029"}, {"nnbsp-mmsp-ideographic", "\u202f\u205f\u3000"},
}

// fillers longer than the lexer's 4096-byte read buffer (one sampled gap per program gets them)
var longGapFillers = []struct{ name, text string }{
	{"long-linecomment", " -- " + strings.Repeat("c", 4093) + "\n"},
	{"long-linecomment-words", " -- " + strings.Repeat("was 'b' or ", 800) + "\n"},
	{"long-blockcomment", "--(" + strings.Repeat("c ", 2100) + ")--"},
	{"long-blanks", strings.Repeat(" ", 4200)},
	{"long-newlines", strings.Repeat("\n", 4100)},
	{"long-mixed", strings.Repeat("\t \n", 1400) + "--(x)--" + strings.Repeat(" -- y\n", 700)},
}

type tokSpan struct {
	name       string
	start, end int
}

func allTokenSpans(src string) []tokSpan {
	var spans []tokSpan
	func() {
		defer func() { recover() }()
		toks, err := ast.VerifTokens(src)
		if err != nil {
			return
		}
		// token ends are recomputed from the next token's start: the lexer reports the end of a
		// token that is cut off by the end of input one byte short
		for i, t := range toks {
			if t.Name == "EOF" {
				continue
			}
			end := len(src)
			if i+1 < len(toks) && toks[i+1].Name != "EOF" {
				end = toks[i+1].Start
			}
			if t.Start < 0 || end > len(src) || t.Start > end {
				spans = nil
				return
			}
			spans = append(spans, tokSpan{t.Name, t.Start, end})
		}
	}()
	return spans
}

func isKeywordTok(name string) bool {
	switch name {
	case "IDENTIFIER", "NUMBER", "STRING", "REGEXP", "WS", "COMMENT", "EOF", "ERROR":
		return false
	}
	return true
}

func recase(r *rand.Rand, s string, mode int) string {
	switch mode {
	case 0:
		return strings.ToUpper(s)
	case 1:
		if len(s) > 0 {
			return strings.ToUpper(s[:1]) + s[1:]
		}
		return s
	default:
		b := []rune(s)
		for i := range b {
			if r.Intn(2) == 0 {
				b[i] = unicode.ToUpper(b[i])
			}
		}
		return string(b)
	}
}

// a boundary is "between two tokens" when neither side is inside a token: positions start/end of tokens
func boundaries(spans []tokSpan) []int {
	seen := map[int]bool{}
	out := []int{}
	for _, s := range spans {
		for _, p := range []int{s.start, s.end} {
			if !seen[p] {
				seen[p] = true
				out = append(out, p)
			}
		}
	}
	return out
}

func needsSeparator(src string, p int) bool {
	// a filler without blanks must not fuse with a neighbouring '-' (comment markers) — it cannot:
	// all fillers that start with '-' are only used where the previous byte is not '-'
	return p > 0 && src[p-1] == '-'
}

func genC15(r *rand.Rand, tier string, st *Stats) []Case {
	cases := []Case{}
	type prog struct {
		src   string
		texts []string
		kind  string
	}
	progs := []prog{}
	stdTexts := []string{"aaa bbb ccc 123 abc\nfoo bar\n", "a1b2 c3,d4;\tXYZ xyz\r\nline two ab ba"}
	for _, s := range corpusSources() {
		progs = append(progs, prog{s, stdTexts, "corpus"})
	}
	st.Counts["corpus-sources"] = len(progs)
	for i := 0; i < sizes(tier, 120, 600); i++ {
		p := genValid(r)
		st.addFeatures(p.Features)
		progs = append(progs, prog{p.Src, []string{GenText(r, p.Lits, 16), GenText(r, p.Lits, 24)}, "gen"})
	}
	// the sites this builder's analysis found, always
	for _, s := range []string{"find all 'a' ( ) 'b'", "find all {'a'} = s 'b' s", "find all in 'b', digit , 'a'",
		"find all in 'b', caseless 'c' , 'a'", "set t to transform return 1 + 2 end replace all 'a' with t",
		// a minus glued to the digit after it (no blank): still the binary operator, whatever stands in the gap before it
		"set t to transform return matchLength -1 end replace all 'a' with t", "set t to transform return matchLength-1 end replace all 'a' with t",
		"set t to transform return ( matchLength ) -1 end replace all 'a' with t", "set t to transform set n to 9 return n -1 -2 end replace all 'a' with t",
		"set p to pattern 'a' begin return matchLength -1 == 0 end find all p",
		"find all 'a' 'b'", "find all \"x\" \"y\" 'z'", "replace all 'a' with '<' '>' \"|\" \"|\"", "find all 'a' ('b') 'c' {'d'} = s",
		"find all in 'a' , 'b'", "find all '' 'a'",
		"find all", "replace all with 'x'", "set p to pattern 'a' begin return true end find all p",
		"set t to transform begin if 1 < 2 then return 'x' else return 'y' end end replace all 'a' with t",
		"find all at least 1 'a' fewest named n", "find all 'a' = x or 'b'", "find all not in 'a' to 'c' , 'x'",
		"set t to transform loop set i to 1 break end return 'z' end replace all 'a' with t"} {
		progs = append(progs, prog{s, stdTexts, "site"})
	}
	n := 0
	add := func(p prog, variant, what string) {
		if variant == p.src {
			return
		}
		n++
		fields := []string{hx(p.src), hx(variant)}
		for _, t := range p.texts {
			fields = append(fields, hx(t))
		}
		st.Counts["variant-"+what]++
		cases = append(cases, Case{ID: fmt.Sprintf("%s%d", p.kind, n), Op: "layout", Fields: fields, Meta: map[string]string{"what": what}})
	}
	for _, p := range progs {
		spans := allTokenSpans(p.src)
		if spans == nil {
			continue
		}
		st.Counts["programs"]++
		bs := boundaries(spans)
		pick := bs
		// quick: sampled gaps; thorough: every gap of every corpus program, 12 sampled gaps of generated ones
		perProg := sizes(tier, 5, 12)
		if p.kind == "site" || (p.kind == "corpus" && tier == "thorough") {
			perProg = 1 << 30
		}
		if len(pick) > perProg {
			pick = append([]int{}, bs...)
			r.Shuffle(len(pick), func(a, b int) { pick[a], pick[b] = pick[b], pick[a] })
			pick = pick[:perProg]
		}
		for _, b := range pick {
			for _, f := range gapFillers {
				if strings.HasPrefix(f.text, "-") && needsSeparator(p.src, b) {
					continue
				}
				add(p, p.src[:b]+f.text+p.src[b:], f.name)
			}
		}
		if len(pick) > 0 && (tier == "thorough" || st.Counts["programs"]%3 == 0) {
			b := pick[r.Intn(len(pick))]
			for _, f := range longGapFillers {
				if strings.HasPrefix(f.text, "-") && needsSeparator(p.src, b) {
					continue
				}
				add(p, p.src[:b]+f.text+p.src[b:], f.name)
			}
		}
		// squeeze: a blank run between two tokens that are not words is REMOVED (whitespace is needed only to separate
		// adjacent words): closing quote / bracket / comma on the left, opening quote / bracket / comma on the right
		for si := 1; si+1 < len(spans); si++ {
			w := spans[si]
			if w.name != "WS" || spans[si-1].end != w.start || spans[si+1].start != w.end || w.start == 0 || w.end >= len(p.src) {
				continue
			}
			lc, rc := p.src[w.start-1], p.src[w.end]
			if strings.IndexByte("'\")}],", lc) >= 0 && strings.IndexByte("'\"({[,", rc) >= 0 {
				add(p, p.src[:w.start]+p.src[w.end:], "squeeze")
			}
		}
		// keyword case: all keywords upper, each mode on one sampled keyword
		kws := []tokSpan{}
		for _, s := range spans {
			if isKeywordTok(s.name) && s.end > s.start && unicode.IsLetter(rune(p.src[s.start])) {
				kws = append(kws, s)
			}
		}
		if len(kws) > 0 {
			var b strings.Builder
			last := 0
			for _, k := range kws {
				b.WriteString(p.src[last:k.start])
				b.WriteString(strings.ToUpper(p.src[k.start:k.end]))
				last = k.end
			}
			b.WriteString(p.src[last:])
			add(p, b.String(), "case-all-upper")
			for mode := 1; mode <= 2; mode++ {
				k := kws[r.Intn(len(kws))]
				add(p, p.src[:k.start]+recase(r, p.src[k.start:k.end], mode)+p.src[k.end:], "case-one")
			}
		}
	}
	return cases
}

func init() {
	extraOps["layout"] = opLayout
	leanCaseExtra["layout"] = leanLayout
	propGens["C15"] = genC15
}
