package main

import (
	"fmt"
	"math/rand"
	"strings"
)

// search-property streams: (source, text) pairs run through Compile + Run

func searchCases(r *rand.Rand, st *Stats, n int, cfg GenCfg, textsPer int, maxText int, prefix string) []Case {
	cases := []Case{}
	for i := 0; i < n; i++ {
		p := GenSource(r, cfg)
		st.addFeatures(p.Features)
		for j := 0; j < textsPer; j++ {
			text := GenText(r, p.Lits, maxText)
			cases = append(cases, Case{
				ID:     fmt.Sprintf("%s%d.%d", prefix, i, j),
				Op:     "run",
				Fields: []string{hx(p.Src), hx(text)},
				Meta:   map[string]string{},
			})
		}
	}
	return cases
}

// bigTextCases: simple programs on texts around and beyond the 4096-byte windows of the file reader and the
// initial capacity of the in-memory output stream, each through Run and through a scratch file (RunFiles).
// Matches are sparse and placed at none / one early / only late / at window boundaries / many positions; some texts
// are a single line longer than a window.
func bigTextCases(r *rand.Rand, st *Stats, n int, prefix string) []Case {
	long := strings.Repeat("z", 5000)
	progs := []string{
		"find all whole file", "find all whole line", "find all 'x'", "find all digit", "find all at least 1 digit",
		"find all (at least 1 digit) = n", "find last 2 'x'", "find skip 1 take 2 'x'", "find all line start letter",
		"find all not in 'a' to 'w', ' ', '\n'",
		"replace all 'x' with 'y'", "replace all 'x' with ''", "replace all digit with '<' value '>'",
		"replace all 'x' with '" + long + "'", "replace all whole file with 'k'", "replace all whole line with value value",
		"replace top 1 'x' with matchNumber", "replace all 'nomatchatall' with 'q'", "replace last 1 at least 1 digit with 'N'",
		"replace all (letter = l) 'x' with l l",
		// patterns led by a literal of several bytes: an occurrence may straddle any internal block border
		"find all 'needle'", "find all 'needle' maybe digit", "replace all 'needle' with 'N'", "find all 'xy' or 'needle'",
		"find all caseless 'NEEDLE'", "find skip 1 'needle'",
	}
	sizesB := []int{4095, 4096, 4097, 4200, 5000, 6144, 6145, 8191, 8192, 8193} // the list model reads in O(offset): keep n^2 small
	out := []Case{}
	for i := 0; i < n; i++ {
		src := progs[i%len(progs)]
		size := sizesB[r.Intn(len(sizesB))]
		if strings.Contains(src, "whole") {
			// one consuming read as long as the text (or a line): always beyond one window
			size = sizesB[3+r.Intn(len(sizesB)-3)]
		}
		b := make([]byte, size)
		oneLine := r.Intn(3) == 0
		for k := range b {
			switch {
			case !oneLine && k%61 == 60:
				b[k] = '\n'
			case k%7 == 6:
				b[k] = ' '
			default:
				b[k] = byte('a' + r.Intn(23))
			}
		}
		put := func(pos int) {
			if pos >= 0 && pos < size {
				if r.Intn(2) == 0 {
					b[pos] = 'x'
				} else {
					b[pos] = byte('0' + r.Intn(10))
				}
			}
		}
		switch r.Intn(6) {
		case 0: // nothing to find
		case 1:
			put(10)
		case 2:
			if size > 4096 {
				put(4096 + r.Intn(size-4096))
			} else {
				put(size - 1)
			}
		case 3:
			for _, w := range []int{2047, 2048, 4095, 4096, 4097, 6143, 6144, 8191, 8192} {
				put(w)
			}
		case 4:
			put(10)
			put(size - 1)
		default:
			for k := 0; k < 40; k++ {
				put(r.Intn(size))
			}
		}
		if strings.Contains(strings.ToLower(src), "needle") {
			// words at every alignment around the 4096-byte marks (and one early, one at the very end)
			word := "needle"
			putWord := func(pos int) {
				if pos >= 0 && pos+len(word) <= size {
					copy(b[pos:], word)
				}
			}
			d := r.Intn(10) - 7
			switch r.Intn(4) {
			case 0:
				putWord(4096 + d)
			case 1:
				putWord(3)
				putWord(4096 + d + 1) // borders counted from the end of an earlier attempt
				putWord(8192 + d)
			case 2:
				for _, base := range []int{4096, 4097, 8192, 8193} {
					putWord(base + r.Intn(10) - 7)
				}
			default:
				putWord(size - len(word))
				putWord(4096 + d)
			}
			st.Features["big-text-word-at-block-border"]++
		}
		for _, via := range []string{"", "viafile"} {
			f := []string{hx(src), hx(string(b))}
			id := fmt.Sprintf("%s%d", prefix, i)
			if via != "" {
				f = append(f, via)
				id += "f"
			}
			out = append(out, Case{ID: id, Op: "run", Fields: f, Meta: map[string]string{}})
		}
	}
	st.Counts["big-text-cases"] = len(out)
	return out
}

// extremeCases: one dimension at a time pushed far beyond what the random generator draws — thousands of matches,
// dozens of loop iterations (named-loop keys "10" < "2"), counts in the hundreds, deep recursion, dozens of captures,
// commands, alternatives, definitions and with-items, long literals and names, a transform that loops thousands of times.
func extremeCases(st *Stats, prefix string) []Case {
	rep := strings.Repeat
	seq := func(n int, f func(i int) string, sep string) string {
		parts := []string{}
		for i := 0; i < n; i++ {
			parts = append(parts, f(i))
		}
		return strings.Join(parts, sep)
	}
	letters := func(n int) string {
		b := make([]byte, n)
		for i := range b {
			b[i] = byte('a' + i%26)
		}
		return string(b)
	}
	type pt struct{ src, text string }
	list := []pt{
		{"find all 'a'", rep("a", 3000)},
		{"find last 3 'a'", rep("a", 3000)},
		{"find skip 2990 take 5 'a'", rep("ab", 1500) + rep("a", 1500)},
		{"replace all 'a' with matchNumber '/' totalMatches", rep("a", 1200)},
		{"find all at least 1 (digit = d) named ds", "x" + rep("0123456789", 3) + "y"},
		{"find all at least 1 (at least 1 (digit = d) named inner ',') named outer", rep("12,3,456,", 5)},
		{"replace all at least 1 (letter = l) named ls with ls value", letters(40) + " " + letters(13)},
		{"find all at least 100 'a'", rep("a", 150) + "b" + rep("a", 99)},
		{"find all between 100 and 300 any", rep("xy", 260)},
		{"find all between 100 and 300 any fewest 'q'", rep("xy", 90) + "q" + rep("z", 350) + "q"},
		{"find all exactly 64 letter", letters(200)},
		{"find all {'(' maybe p ')'} = p", rep("(", 120) + rep(")", 120) + " " + rep("(", 5) + rep(")", 3)},
		{"find all {'a' maybe r} = r 'b'", rep("a", 400) + "b"},
		{"find all " + seq(30, func(i int) string { return fmt.Sprintf("(letter = c%d)", i) }, " "), letters(70)},
		{seq(30, func(i int) string { return fmt.Sprintf("find all '%c'", 'a'+i%26) }, "\n"), letters(30)},
		{"find all in " + seq(60, func(i int) string { return fmt.Sprintf("'%c%c'", 'a'+i%26, 'a'+(i/26)%26) }, ", "), letters(60) + "zaab"},
		{"find all " + seq(40, func(i int) string { return fmt.Sprintf("'x%d'", i) }, " or "), "x39 x3 x12x0 x40"},
		{"find all '" + letters(3000) + "'", "q" + letters(3000) + letters(3000) + "q"},
		{"replace all 'a' with " + seq(50, func(i int) string { return fmt.Sprintf("'%d'", i%10) }, " ") + " value", "banana"},
		{"find all (letter = " + rep("n", 300) + ") " + rep("n", 300), "aabbcd"},
		{seq(30, func(i int) string { return fmt.Sprintf("set p%d to pattern '%c'", i, 'a'+i%26) }, "\n") + "\nfind all p0 p29 or p7 p8", letters(30) + "ad hi"},
		{"set f to transform set i to 0 loop if i >= 5000 then break end set i to i + 1 end return i end replace all 'a' with f", "a-a"},
		{"set f to transform set s to '' set i to 0 loop if i >= 300 then break end set s to s + match set i to i + 1 end return s end replace all 'ab' with f", "ab ab"},
		{"find all @/" + rep("(a)", 25) + "\\25\\1/", rep("a", 27) + " " + rep("a", 26)},
		{"find all @/[a-c]{50,80}d/", rep("abc", 20) + "d" + rep("cab", 30) + "d"},
		{"find all line start at least 0 not '\\n' line end", rep("line of text\n", 300)},
		{"find all whole line", rep("x", 2500) + "\n" + rep("y", 2500)},
	}
	out := []Case{}
	for i, c := range list {
		out = append(out, Case{ID: fmt.Sprintf("%s%d", prefix, i), Op: "run", Fields: []string{hx(c.src), hx(c.text)}, Meta: map[string]string{}})
	}
	st.Counts["extreme-cases"] = len(out)
	return out
}

// viaFileClones: every k-th `run` case once more with the text in a scratch FILE (RunFiles, mode NOTHING); half of the
// clones get a text that starts with a UTF-8 byte order mark, a quarter one that starts with CR LF — whatever the
// reader does with the head of a file, offsets are offsets into the bytes of the file
func viaFileClones(r *rand.Rand, st *Stats, cs []Case, k int) []Case {
	out := []Case{}
	for i, c := range cs {
		if c.Op != "run" || len(c.Fields) != 2 || i%k != 0 {
			continue
		}
		text := unhx(c.Fields[1])
		switch r.Intn(4) {
		case 0, 1:
			text = "\xef\xbb\xbf" + text
		case 2:
			text = "\r\n" + text
		}
		out = append(out, Case{ID: c.ID + "F", Op: "run", Fields: []string{c.Fields[0], hx(text), "viafile"}, Meta: map[string]string{}})
	}
	st.Counts["via-file-clones"] = len(out)
	return out
}

func sizes(tier string, quick, thorough int) int {
	if tier == "thorough" {
		return thorough
	}
	return quick
}

func init() {
	core := GenCfg{MaxDepth: 3, Subs: true, Globals: true, Predicates: true, Captures: true, Anchors: true, MultiCmd: false}
	propGens["C01"] = func(r *rand.Rand, tier string, st *Stats) []Case {
		cfg := core
		cs := searchCases(r, st, sizes(tier, 1500, 40000), cfg, 4, 14, "g")
		cfg.MaxDepth = 4
		cfg.LayoutNoise = false
		cs = append(cs, searchCases(r, st, sizes(tier, 300, 8000), cfg, 4, 18, "d")...)
		// L5: the same kind of programs with the step sequence of the real VM loop fingerprinted (op trace)
		tcfg := core
		tcfg.NamedLoops = true
		tcfg.Replace = true
		tcfg.Amounts = true
		tcfg.MultiCmd = true
		for _, c := range searchCases(r, st, sizes(tier, 500, 12000), tcfg, 3, 14, "t") {
			c.Op = "trace"
			cs = append(cs, c)
		}
		st.Features["trace-cases"] = sizes(tier, 500, 12000) * 3
		// anchors and classes next to bytes that are not ASCII (UTF-8 letters, Latin-1 bytes, lone continuation bytes): word
		// characters are the ASCII letters, digits and the underscore, whatever stands in the other bytes
		for pi, prog := range []string{"'caf' word end", "word start 'te'", "word start at least 1 letter word end", "whole word",
			"not word start any", "at least 1 any word end '!'", "word end any", "not word end letter", "whole word '.'", "line start any word end",
			"letter", "not letter", "upper", "lower", "digit", "at least 1 not whitespace"} {
			for ti, text := range []string{"caf\xc3\xa9 cafe caf! ", " f\xc3\xaate te ", " d\xe9j\xe0 vu ", "\xaa a\xb5b \xff!", "na\xc3\xafve. caf\xe9.", "\xc3\x89t\xc3\xa9 te\xd6!"} {
				st.Features["anchors-next-to-high-bytes"]++
				cs = append(cs, Case{ID: fmt.Sprintf("hb%d.%d", pi, ti), Op: "run", Fields: []string{hx("find all " + prog), hx(text)}, Meta: map[string]string{}})
			}
		}
		// line classes on texts with carriage returns in every position: several before a line feed, alone, at the ends
		for pi, prog := range []string{"whole line", "whole line line end", "line start whole line", "line start any", "any line end", "not line end any",
			"at least 1 (not in '\n')", "whole line '\r\n'", "(whole line) = l maybe '\n' l"} {
			for ti, text := range []string{"ab\r\r\ncd\r\n", "\r\r\n", "a\r\rb\r\n", "ab\r", "\rab\n\r", "a\r\n\r\nb", "ab\r\r\r\n\r\r\ncd", "x\n\r\ny\r"} {
				st.Features["line-classes-with-carriage-returns"]++
				cs = append(cs, Case{ID: fmt.Sprintf("cr%d.%d", pi, ti), Op: "run", Fields: []string{hx("find all " + prog), hx(text)}, Meta: map[string]string{}})
			}
		}
		// texts beyond one 4096-byte block (the scan itself, not only the reader, may work block-wise)
		cs = append(cs, bigTextCases(r, st, sizes(tier, 52, 260), "big")...)
		return append(cs, extremeCases(st, "x")...)
	}
	propGens["C02"] = func(r *rand.Rand, tier string, st *Stats) []Case {
		cfg := core
		cfg.Globals = false
		cfg.Predicates = false
		cs := searchCases(r, st, sizes(tier, 1200, 30000), cfg, 4, 12, "g")
		cs = append(cs, reentrantCases(r, st, sizes(tier, 210, 4200), "re")...)
		cs = append(cs, staleBindingCases(r, st, sizes(tier, 120, 1200), "sb")...)
		cs = append(cs, ambiguousBackrefCases(st, "ab")...)
		cs = append(cs, namedScopeCases(st, "ns")...)
		return append(cs, bindFailCases(r, st, sizes(tier, 700, 15000), "b")...)
	}
	propGens["C03"] = func(r *rand.Rand, tier string, st *Stats) []Case {
		cfg := core
		cfg.NamedLoops = true
		cfg.Replace = true
		cfg.Transforms = true
		cfg.Amounts = true
		cfg.MultiCmd = true
		cs := searchCases(r, st, sizes(tier, 1300, 30000), cfg, 4, 20, "g")
		cs = append(cs, viaFileClones(r, st, cs, 7)...)
		cs = append(cs, bigTextCases(r, st, sizes(tier, 52, 260), "big")...)
		cs = append(cs, extremeCases(st, "x")...)
		return append(cs, bindFailCases(r, st, sizes(tier, 300, 6000), "b")...)
	}
	propGens["C05"] = func(r *rand.Rand, tier string, st *Stats) []Case {
		cfg := core
		cfg.Replace = true
		cfg.Transforms = true
		cfg.Amounts = true
		cfg.MaxDepth = 2
		cs := searchCases(r, st, sizes(tier, 1500, 30000), cfg, 4, 14, "g")
		// names of every kind in the with list: named loops (table-valued), subroutines, global patterns
		cfg.NamedLoops = true
		cs = append(cs, extremeCases(st, "x")...)
		cs = append(cs, declOrderCases(r, st, sizes(tier, 300, 4000))...)
		cs = append(cs, shadowCases(st)...)
		cs = append(cs, numericTextCases(st)...)
		cs = append(cs, loopFlowCases(st)...)
		return append(cs, withNameCases(r, st, sizes(tier, 400, 8000))...)
	}
	propGens["C09"] = func(r *rand.Rand, tier string, st *Stats) []Case {
		cfg := core
		cfg.NamedLoops = true
		cfg.Replace = true
		cfg.Transforms = true
		cfg.Amounts = true
		cfg.MultiCmd = true
		cs := searchCases(r, st, sizes(tier, 2000, 40000), cfg, 5, 10, "g")
		cs = append(cs, viaFileClones(r, st, cs, 11)...)
		cs = append(cs, extremeCases(st, "x")...)
		cs = append(cs, shadowCases(st)...)
		return append(cs, bigTextCases(r, st, sizes(tier, 20, 200), "big")...)
	}
}

// withNameCases: replace commands whose with list names something that is not a string capture —
// a named loop (a table at run time), an inline subroutine, a global pattern, a name bound only on
// some paths — next to ordinary captures and built-ins.
func withNameCases(r *rand.Rand, st *Stats, n int) []Case {
	// definitions placed before the replace command; their inner captures are bound at run time although the
	// command body never declares them
	defs := []struct{ def, call, names string }{
		{"set kv to pattern (at least 1 letter) = key '=' (at least 1 digit) = val", "kv", "key val kv"},
		{"set w to pattern (letter = first) at least 0 letter", "w ' ' w", "first w"},
		{"set d to pattern (digit = dg)\nset dd to pattern d (d = second)", "dd", "dg second d dd"},
		{"set opt to pattern maybe ('-' = sign) at least 1 digit", "opt", "sign opt"},
	}
	bodies := []struct{ body, names string }{
		{"at least 1 (digit = d) named parts", "parts d"},
		{"at least 0 ((letter = l) digit) named ps ';'", "ps l"},
		{"{'a' maybe q 'b'} = q", "q"},
		{"(at least 1 letter = w) named ws ' '", "ws w"},
		{"at least 1 (at least 1 (digit = d) named inner ',') named outer", "outer inner d"},
		{"('a' = x) or ('b' = y)", "x y"},
		{"maybe ('a' = x) 'b'", "x"},
	}
	texts := []string{"ab 123 cd 45", "a1b2; c3;", "aabb ab b", "foo bar baz ", "12,3,;4,", "ab ba b", "", "a=1 bb=22", "x=7 -5 12", "77 8"}
	out := []Case{}
	for i := 0; i < n; i++ {
		b := bodies[r.Intn(len(bodies))]
		names := strings.Fields(b.names)
		items := []string{}
		for j := 0; j < 1+r.Intn(4); j++ {
			switch r.Intn(4) {
			case 0:
				items = append(items, quote(string([]byte{byte('<' + r.Intn(3))})))
			case 1:
				items = append(items, []string{"value", "matchNumber", "startOffset"}[r.Intn(3)])
			default:
				items = append(items, names[r.Intn(len(names))])
			}
		}
		src := ""
		if r.Intn(4) == 0 {
			src = "set g to pattern 'a'\n"
			items = append(items, "g")
		}
		body := b.body
		if r.Intn(3) == 0 {
			// the body is (or starts with) a reference to a global pattern whose captures the with list names
			d := defs[r.Intn(len(defs))]
			src += d.def + "\n"
			dn := strings.Fields(d.names)
			items = nil
			for j := 0; j < 1+r.Intn(4); j++ {
				if r.Intn(4) == 0 {
					items = append(items, quote(":"))
				} else {
					items = append(items, dn[r.Intn(len(dn))])
				}
			}
			body = d.call
			if r.Intn(3) == 0 {
				body = d.call + " maybe (" + b.body + ")"
				items = append(items, names[r.Intn(len(names))])
			}
			st.Features["with-names-capture-inside-global-pattern"]++
		}
		src += "replace all " + body + " with " + strings.Join(items, " ")
		text := texts[r.Intn(len(texts))]
		if r.Intn(3) == 0 {
			text = text + texts[r.Intn(len(texts))]
		}
		st.Features["with-name-template"]++
		out = append(out, Case{ID: fmt.Sprintf("w%d", i), Op: "run", Fields: []string{hx(src), hx(text)}, Meta: map[string]string{}})
	}
	return out
}

// declOrderCases: multi-command sources in which the ORDER of declarations and uses matters for what a with item is —
// a transform declared after the replace that names it (the name is then a capture, or nothing), declared again
// between two replaces (each replace runs the function in force where it stands), a transform sharing the name of a
// capture / a global pattern / a named loop declared before or after it.
func declOrderCases(r *rand.Rand, st *Stats, n int) []Case {
	tf := func(name, open, close string) string {
		return "set " + name + " to transform\n  return " + quote(open) + " + match + " + quote(close) + "\nend\n"
	}
	tfn := func(name, tag string) string {
		return "set " + name + " to transform\n  return " + quote(tag) + " + matchNumber\nend\n"
	}
	bodies := []struct{ body, capt string }{
		{"(at least 1 digit) = NAME", "NAME"},
		{"at least 1 letter", ""},
		{"digit", ""},
		{"maybe ('-' = NAME) at least 1 digit", "NAME"},
		{"(letter = NAME) or digit", "NAME"},
		{"at least 1 (digit = d) named NAME", "NAME"},
	}
	texts := []string{"a12 b7", "4 2", "ab cd", "-5 6 x", "", "a1b22c333", "77"}
	names := []string{"tag", "wrap", "f", "fmt"}
	out := []Case{}
	for i := 0; i < n; i++ {
		nm := names[r.Intn(len(names))]
		b := bodies[r.Intn(len(bodies))]
		body := strings.ReplaceAll(b.body, "NAME", nm)
		rep := "replace all " + body + " with " + quote("<") + " " + nm + " " + quote(">") + "\n"
		other := "replace all " + strings.ReplaceAll(bodies[r.Intn(3)+0].body, "NAME", "other") + " with " + nm + " " + quote(";") + "\n"
		var src string
		shape := r.Intn(7)
		switch shape {
		case 0: // use, then declaration
			src = rep + tf(nm, "[", "]")
		case 1: // use, declaration, use
			src = rep + tfn(nm, "T") + rep
		case 2: // declaration, use, redeclaration, use
			src = tf(nm, "(", ")") + rep + tf(nm, "{", "}") + rep
		case 3: // declaration, use, redeclaration (nothing after it)
			src = tf(nm, "(", ")") + other + tfn(nm, "#")
		case 4: // two declarations in a row, then the use
			src = tf(nm, "(", ")") + tf(nm, "{", "}") + other
		case 5: // find first, then declaration, then replace
			src = "find all " + body + "\n" + tf(nm, "[", "]") + rep
		default: // a transform and a global pattern of one name, pattern declared after the transform
			src = tf(nm, "(", ")") + other + "set " + nm + " to pattern 'a'\n" + other
		}
		st.Features[fmt.Sprintf("decl-order-shape-%d", shape)]++
		text := texts[r.Intn(len(texts))]
		out = append(out, Case{ID: fmt.Sprintf("do%d", i), Op: "run", Fields: []string{hx(src), hx(text)}, Meta: map[string]string{}})
	}
	return out
}

// shadowCases: a capture (always / sometimes bound) that carries the name of a value the engine defines itself for
// process code and with lists, read by a transform in operations that only one type allows, and named in the with list.
// Exhaustive over names x bodies x transform bodies x with lists; two texts each.
func shadowCases(st *Stats) []Case {
	bodies := []string{"(at least 1 digit) = NAME", "'a' maybe ('b' = NAME)", "(letter = NAME) or digit"}
	tbodies := []string{"return match - NAME", "return NAME - 1", "return NAME + 'x'", "return match * NAME",
		"if NAME == '' then return 'e' end return NAME", "set q to NAME * 2 return q + matchNumber"}
	withs := []string{"t", "NAME", "t NAME ':' t"}
	texts := []string{"a ab a 12 7", "b3 ab"}
	out := []Case{}
	i := 0
	for _, nm := range builtinNames {
		for _, b := range bodies {
			for _, tb := range tbodies {
				for _, w := range withs {
					src := "set t to transform\n  " + strings.ReplaceAll(tb, "NAME", nm) + "\nend\nreplace all " +
						strings.ReplaceAll(b, "NAME", nm) + " with " + strings.ReplaceAll(w, "NAME", nm)
					for _, text := range texts {
						i++
						st.Features["capture-shadows-builtin-template"]++
						out = append(out, Case{ID: fmt.Sprintf("sh%d", i), Op: "run", Fields: []string{hx(src), hx(text)}, Meta: map[string]string{}})
					}
				}
			}
		}
	}
	return out
}

// numericTextCases: transforms that use the matched text or a capture AS A NUMBER, on texts whose digit runs are not
// in canonical decimal form — leading zeros, signs, hex/octal/binary-looking prefixes, digit separators, too long for
// 64 bits, empty.  The documented coercion is "decimal parse or 0".
func numericTextCases(st *Stats) []Case {
	tbodies := []string{"return match * 1", "return match % 15", "return n * 1 + 1", "if n * 1 > 9 then return 'big' end return 'small'",
		"return 0 + match", "return matchLength + n"}
	bodies := []string{"(at least 1 in '0' to '9', 'x', 'b', 'o', '_', 'a' to 'f') = n", "(maybe in '+', '-' at least 1 digit) = n"}
	texts := []string{"015 08 0010 7 00", "0x10 0b101 0o17 1_000 1e3", "-5 +5 -0 +015", "99999999999999999999 9223372036854775808 0",
		"12 012 0012", "0xff 0XFF 0b2 09"}
	out := []Case{}
	i := 0
	for _, tb := range tbodies {
		for _, b := range bodies {
			for _, text := range texts {
				i++
				src := "set t to transform\n  " + tb + "\nend\nreplace all " + b + " with '<' t '>'"
				st.Features["transform-number-of-noncanonical-digits"]++
				out = append(out, Case{ID: fmt.Sprintf("nt%d", i), Op: "run", Fields: []string{hx(src), hx(text)}, Meta: map[string]string{}})
			}
		}
	}
	return out
}

// loopFlowCases: transforms whose control flow leaves a loop (break / continue / return) and then goes on — nested
// loops, a loop inside an if branch with statements after it, a loop followed by if / loop bodies of several
// statements, two loops in a row.  What a loop hands to the statement after it must be "carry on".
func loopFlowCases(st *Stats) []Case {
	bodies := []string{
		// nested: the inner break must not end the outer loop
		"set r to '' set i to 0 loop if i >= 3 then break end set i to i + 1 set j to 0 loop if j >= i then break end set j to j + 1 set r to r + 'a' end set r to r + '|' end return r",
		// loop inside an if branch, statements after it in the same branch
		"set r to 'x' if matchLength > 0 then set i to 0 loop if i >= 2 then break end set i to i + 1 end set r to r + i set r to r + '!' end return r + match",
		// top-level loop, then an if whose body has several statements
		"set i to 0 loop if i >= matchLength then break end set i to i + 1 end set r to '' if i > 0 then set r to r + 'p' set r to r + 'q' set r to r + i end return r",
		// two loops in a row, the second must run all its iterations
		"set i to 0 loop if i >= 2 then break end set i to i + 1 end set k to 0 set r to '' loop if k >= 3 then break end set k to k + 1 set r to r + k end return r + '/' + i",
		// continue, then the statements of the next iteration
		"set i to 0 set r to '' loop set i to i + 1 if i > 4 then break end if i % 2 == 0 then continue end set r to r + i end return r",
		// continue in an inner loop, break in the outer one
		"set i to 0 set r to '' loop set i to i + 1 if i > 2 then break end set j to 0 loop set j to j + 1 if j > 3 then break end if j == 2 then continue end set r to r + j end set r to r + ';' end return r",
		// break inside else, statements after the loop inside a later loop body
		"set i to 0 loop if i < 2 then set i to i + 1 else break end end set r to '' set k to 0 loop if k >= 2 then break end set r to r + match set k to k + 1 end return r + i",
		// return from inside a loop inside an if
		"if matchLength > 1 then set i to 0 loop set i to i + 1 if i == matchLength then return 'L' + i end end end return 'S' + match",
	}
	texts := []string{"ab c defgh ij klm", "x yy zzz"}
	out := []Case{}
	for bi, b := range bodies {
		for ti, text := range texts {
			src := "set t to transform\n  " + b + "\nend\nreplace all (at least 1 letter) = w with '<' w ':' t '#' matchNumber '>'"
			st.Features["transform-loop-flow"]++
			out = append(out, Case{ID: fmt.Sprintf("lf%d.%d", bi, ti), Op: "run", Fields: []string{hx(src), hx(text)}, Meta: map[string]string{}})
		}
	}
	return out
}
