package main

import (
	"fmt"
	"math/rand"
)

// search-property streams: (source, text) pairs run through Compile + Run

func searchCases(r *rand.Rand, st *Stats, n int, cfg GenCfg, textsPer int, maxText int, prefix string) []Case {
	cases := []Case{}
	for i := 0; i < n; i++ {
		p := GenSource(r, cfg)
		st.addFeatures(p.Features)
		for j := 0; j < textsPer; j++ {
			text := GenText(r, p.Lits, maxText)
			cases = append(cases, Case{
				ID:     fmt.Sprintf("%s%d.%d", prefix, i, j),
				Op:     "run",
				Fields: []string{hx(p.Src), hx(text)},
				Meta:   map[string]string{},
			})
		}
	}
	return cases
}

func sizes(tier string, quick, thorough int) int {
	if tier == "thorough" {
		return thorough
	}
	return quick
}

func init() {
	core := GenCfg{MaxDepth: 3, Subs: true, Globals: true, Predicates: true, Captures: true, Anchors: true, MultiCmd: false}
	propGens["C01"] = func(r *rand.Rand, tier string, st *Stats) []Case {
		cfg := core
		cs := searchCases(r, st, sizes(tier, 1500, 40000), cfg, 4, 14, "g")
		cfg.MaxDepth = 4
		cfg.LayoutNoise = false
		cs = append(cs, searchCases(r, st, sizes(tier, 300, 8000), cfg, 4, 18, "d")...)
		return cs
	}
	propGens["C02"] = func(r *rand.Rand, tier string, st *Stats) []Case {
		cfg := core
		cfg.Globals = false
		cfg.Predicates = false
		cs := searchCases(r, st, sizes(tier, 1200, 30000), cfg, 4, 12, "g")
		return append(cs, bindFailCases(r, st, sizes(tier, 700, 15000), "b")...)
	}
	propGens["C03"] = func(r *rand.Rand, tier string, st *Stats) []Case {
		cfg := core
		cfg.NamedLoops = true
		cfg.Replace = true
		cfg.Transforms = true
		cfg.Amounts = true
		cfg.MultiCmd = true
		cs := searchCases(r, st, sizes(tier, 1300, 30000), cfg, 4, 20, "g")
		return append(cs, bindFailCases(r, st, sizes(tier, 300, 6000), "b")...)
	}
	propGens["C05"] = func(r *rand.Rand, tier string, st *Stats) []Case {
		cfg := core
		cfg.Replace = true
		cfg.Transforms = true
		cfg.Amounts = true
		cfg.MaxDepth = 2
		return searchCases(r, st, sizes(tier, 1500, 30000), cfg, 4, 14, "g")
	}
	propGens["C09"] = func(r *rand.Rand, tier string, st *Stats) []Case {
		cfg := core
		cfg.NamedLoops = true
		cfg.Replace = true
		cfg.Transforms = true
		cfg.Amounts = true
		cfg.MultiCmd = true
		return searchCases(r, st, sizes(tier, 2000, 40000), cfg, 5, 10, "g")
	}
}
