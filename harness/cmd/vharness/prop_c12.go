package main

// C12 — Compile rejects exactly the ill-typed process code.
//
// Uses the `proc` op of prop_c11.go: accept/reject of the real libvore.Compile (and, for
// accepted bodies whose loops provably terminate, a run on "aXb") against checkBody /
// runProcess of the Lean model.
//
// generator:
//   * `return e` / `if e then … end` / `set x to e` over ALL expression trees of depth <= 2
//     over typed leaves (thorough; a random sample in quick), in both contexts;
//   * all statement lists up to a size over a representative expression set, with nesting
//     (if/else, loop, break, continue) in both contexts (thorough: exhaustive up to the cap;
//     quick: random sample);
//   * random statement lists over random expression trees of depth <= 2.

import (
	"fmt"
	"math/rand"
	"strings"
)

// leaves of the exhaustive expression enumeration: one literal per type + an unknown name
var c12Leaves = []string{"'a'", "1", "true", "u"}

func enumExprs(depth int) []string { return enumExprsOver(depth, c12Leaves) }

// all fully parenthesised expression trees of depth <= depth over the given leaves
func enumExprsOver(depth int, leaves []string) []string {
	if depth == 0 {
		return leaves
	}
	sub := enumExprsOver(depth-1, leaves)
	out := append([]string{}, leaves...)
	seen := map[string]bool{}
	for _, l := range leaves {
		seen[l] = true
	}
	add := func(s string) {
		if !seen[s] {
			seen[s] = true
			out = append(out, s)
		}
	}
	for _, op := range unOpNames {
		for _, e := range sub {
			add("( " + opSpelling[op] + " " + e + " )")
		}
	}
	for _, op := range binOpNames {
		for _, l := range sub {
			for _, r := range sub {
				add("( " + l + " " + opSpelling[op] + " " + r + " )")
			}
		}
	}
	return out
}

// representative expressions for the statement enumeration: a literal of each type, an
// unknown name, a variable assigned in the code, a well-typed compound of each type and an
// ill-typed compound
var c12Repr = []string{"'a'", "1", "true", "u", "x", "x + 'b'", "1 + 2", "not true", "true + 1"}

type stmtT struct {
	src      string
	runnable bool // every loop in it provably terminates
	size     int
}

// statement lists with at most n statements (counting nested ones), nesting depth <= d
func enumStmtLists(n int, d int, exprs []string, inLoopBody bool) []stmtT {
	out := []stmtT{{"", true, 0}}
	if n == 0 {
		return out
	}
	firsts := enumStmts(n, d, exprs)
	for _, f := range firsts {
		for _, rest := range enumStmtLists(n-f.size, d, exprs, inLoopBody) {
			src := f.src
			if rest.src != "" {
				src += " " + rest.src
			}
			out = append(out, stmtT{src, f.runnable && rest.runnable, f.size + rest.size})
		}
	}
	return out
}

func enumStmts(n int, d int, exprs []string) []stmtT {
	out := []stmtT{}
	if n == 0 {
		return out
	}
	for _, e := range exprs {
		out = append(out, stmtT{"set x to " + e, true, 1}, stmtT{"return " + e, true, 1})
	}
	out = append(out, stmtT{"debug " + exprs[0], true, 1}, stmtT{"debug " + exprs[len(exprs)-1], true, 1})
	out = append(out, stmtT{"break", true, 1}, stmtT{"continue", true, 1})
	if d > 0 && n > 1 {
		conds := []string{"true", "1", "u == 'a'", "true + 1"}
		for _, c := range conds {
			for _, tb := range enumStmtLists(n-1, d-1, exprs, false) {
				out = append(out, stmtT{"if " + c + " then " + tb.src + " end", tb.runnable, 1 + tb.size})
				if n-1-tb.size > 0 {
					for _, fb := range enumStmtLists(n-1-tb.size, d-1, exprs, false) {
						if fb.size == 0 {
							continue
						}
						out = append(out, stmtT{"if " + c + " then " + tb.src + " else " + fb.src + " end", tb.runnable && fb.runnable, 1 + tb.size + fb.size})
					}
				}
			}
		}
		for _, b := range enumStmtLists(n-1, d-1, exprs, true) {
			out = append(out, stmtT{"loop " + b.src + " end", b.runnable && loopTerminates(b.src), 1 + b.size})
		}
	}
	return out
}

// a loop body terminates for sure when its last top-level statement is `break` or `return`
// and it contains no `continue` (conservative)
func loopTerminates(body string) bool {
	return !strings.Contains(body, "continue") && topLevelLastIsBreak(body)
}

func topLevelLastIsBreak(body string) bool {
	// walk the tokens keeping the nesting depth; report whether the last top-level statement is break
	toks := strings.Fields(body)
	depth := 0
	last := ""
	for _, t := range toks {
		switch t {
		case "if", "loop":
			if depth == 0 {
				last = t
			}
			depth++
		case "end":
			depth--
		case "break", "continue", "return", "set", "debug":
			if depth == 0 {
				last = t
			}
		}
	}
	return last == "break" || last == "return"
}

type c12gen struct {
	cases []Case
	st    *Stats
	n     int
}

func (g *c12gen) add(prefix, ctx, body string, run bool, class string) {
	g.n++
	r := "F"
	if run {
		r = "T"
	}
	g.cases = append(g.cases, Case{
		ID:     fmt.Sprintf("%s%d", prefix, g.n),
		Op:     "proc",
		Fields: []string{ctx, hx(body), procEnv(ctx), r, class},
		Meta:   map[string]string{"class": class},
	})
	g.st.Counts["c12_"+class+"_"+ctx]++
	// every third body also after unrelated, accepted process bodies that give the names it uses other types
	if g.n%3 == 0 {
		pre := c12Preludes[(g.n/3)%len(c12Preludes)]
		g.cases = append(g.cases, Case{
			ID:     fmt.Sprintf("%s%d.after", prefix, g.n),
			Op:     "proc",
			Fields: []string{ctx, hx(body), procEnv(ctx), r, class, hx(pre)},
			Meta:   map[string]string{"class": class},
		})
		g.st.Counts["c12_after_other_bodies"]++
	}
}

// accepted definitions placed before the body under test; they assign the names the generated bodies use
// (u: unknown name, x, y, acc, i) values of other types
var c12Preludes = []string{
	"set f0 to transform set u to 1 set x to true set y to 2 return 'k' end",
	"set p0 to pattern 'Y' begin set u to 2 set x to 3 set acc to true return true end",
	"set f0 to transform set u to true set i to 'q' return i end\nset f1 to transform set x to 'w' set u to 5 return x end",
	"set p0 to pattern 'Y' begin set u to 'z' set x to 1 return x == 1 end\nset f0 to transform set u to 7 return u + 1 end",
}

// random statement list over random expression trees (typed or not) of depth <= 2
func randStmts(r *rand.Rand, n int, d int, inLoop bool) (string, bool) {
	parts := []string{}
	runnable := true
	for i := 0; i < n; i++ {
		switch k := r.Intn(12); {
		case k < 3:
			parts = append(parts, "set "+[]string{"x", "y", "vn"}[r.Intn(3)]+" to "+randExpr(r, 2))
		case k < 5:
			parts = append(parts, "return "+randExpr(r, 2))
		case k < 6:
			parts = append(parts, "debug "+randExpr(r, 1))
		case k < 7:
			parts = append(parts, "break")
		case k < 8:
			parts = append(parts, "continue")
			if inLoop {
				runnable = false
			}
		case k < 10 && d > 0:
			tb, r1 := randStmts(r, r.Intn(3), d-1, inLoop)
			s := "if " + randExpr(r, 2) + " then " + tb
			if r.Intn(2) == 0 {
				fb, r2 := randStmts(r, 1+r.Intn(2), d-1, inLoop)
				s += " else " + fb
				r1 = r1 && r2
			}
			parts = append(parts, s+" end")
			runnable = runnable && r1
		case d > 0:
			b, r1 := randStmts(r, r.Intn(3), d-1, true)
			if r.Intn(3) > 0 {
				b += " break"
			}
			parts = append(parts, "loop "+b+" end")
			runnable = runnable && r1 && loopTerminates(b)
		default:
			parts = append(parts, "set x to "+randExpr(r, 1))
		}
	}
	return strings.Join(parts, " "), runnable
}

// the names the run-time environments define (match, matchLength everywhere; matchNumber and the per-match built-ins
// for transforms only) are leaves too: to the checker every name but match/matchLength is an unassigned string
var c12RandLeaves = []string{"'a'", "''", "'12'", "1", "0", "2", "true", "false", "u", "x", "y", "vn", "match", "matchLength",
	"matchNumber", "matchNumber", "startOffset", "totalMatches", "value", "filename", "lineNumber"}

// random expression tree, NOT necessarily well typed, fully parenthesised
func randExpr(r *rand.Rand, d int) string {
	if d == 0 || r.Intn(3) == 0 {
		return c12RandLeaves[r.Intn(len(c12RandLeaves))]
	}
	if r.Intn(5) == 0 {
		return "( " + opSpelling[unOpNames[r.Intn(3)]] + " " + randExpr(r, d-1) + " )"
	}
	return "( " + randExpr(r, d-1) + " " + opSpelling[binOpNames[r.Intn(len(binOpNames))]] + " " + randExpr(r, d-1) + " )"
}

// variables of the well-typed stream: every one keeps the type the checker assumes from the
// start (unknown names and `match` are strings, `matchLength` is a number), so bodies that only
// assign strings to the string variables are SingleTyped
var c12TypedVars = []struct{ name, typ, init string }{
	{"x", "string", ""}, {"y", "string", ""}, {"match", "string", ""}, {"matchLength", "number", ""},
}

// random body that is well typed by the documented rules (generator knowledge); `single`
// = no assignment changes the type of a variable
func typedStmts(r *rand.Rand, ctx string, n int, d int, inLoop bool, single *bool) string {
	parts := []string{}
	for i := 0; i < n; i++ {
		switch k := r.Intn(10); {
		case k < 3:
			v := []string{"x", "y"}[r.Intn(2)]
			if r.Intn(6) == 0 {
				// a deliberate change of type (outside SingleTyped); the variable is not read afterwards
				// with its new type by this generator, so the body stays accepted
				*single = false
				parts = append(parts, "set w to "+genTree(r, allTypes3[1+r.Intn(2)], 2).renderMin(1))
			} else {
				parts = append(parts, "set "+v+" to "+genTree(r, "string", 2).renderMin(1))
			}
		case k < 4:
			parts = append(parts, "debug "+genTree(r, allTypes3[r.Intn(3)], 1).renderMin(1))
		case k < 6 && d > 0:
			s := "if " + genTree(r, "boolean", 2).renderMin(1) + " then " + typedStmts(r, ctx, r.Intn(3), d-1, inLoop, single)
			if r.Intn(2) == 0 {
				s += " else " + typedStmts(r, ctx, 1+r.Intn(2), d-1, inLoop, single)
			}
			parts = append(parts, s+" end")
		case k < 7 && d > 0:
			parts = append(parts, "loop "+typedStmts(r, ctx, r.Intn(3), d-1, true, single)+" break end")
		case k < 8 && inLoop:
			parts = append(parts, "if "+genTree(r, "boolean", 1).renderMin(1)+" then break end")
		default:
			typ := "boolean"
			if ctx == "t" {
				typ = allTypes3[r.Intn(2)]
			}
			parts = append(parts, "return "+genTree(r, typ, 2).renderMin(1))
		}
	}
	return strings.Join(parts, " ")
}

func genC12(r *rand.Rand, tier string, st *Stats) []Case {
	g := &c12gen{st: st}
	thorough := tier == "thorough"
	// (1) one statement over ALL expression trees of depth <= 1 over a literal of each type and an
	// unknown name; depth 2: exhaustively over the three typed literals in thorough (an unknown name
	// is a string to the checker, like 'a'), a random sample over the four leaves in quick
	exprs := enumExprs(1)
	st.Counts["enum_exprs_depth1"] = len(exprs)
	for _, e := range exprs {
		for _, ctx := range []string{"t", "p"} {
			g.add("e", ctx, "return "+e, true, "expr")
		}
		g.add("e", "t", "if "+e+" then return 'T' end return 'F'", true, "expr")
		g.add("e", "t", "set x to "+e+" return x", true, "expr")
	}
	if thorough {
		d2 := enumExprsOver(2, c12Leaves[:3])
		st.Counts["enum_exprs_depth2"] = len(d2)
		for _, e := range d2 {
			g.add("f", "t", "return "+e, true, "expr2")
			g.add("f", "p", "return "+e, true, "expr2")
		}
	} else {
		d2 := enumExprs(2)
		st.Counts["enum_exprs_depth2_total"] = len(d2)
		for i := 0; i < 1500; i++ {
			e := d2[r.Intn(len(d2))]
			ctx := []string{"t", "p"}[r.Intn(2)]
			g.add("s", ctx, "return "+e, true, "expr2")
		}
	}
	// (2) statement lists over the representative expressions
	maxN := 3
	lists := enumStmtLists(maxN, 2, c12Repr, false)
	st.Counts["enum_stmt_lists_total"] = len(lists)
	capN := sizes(tier, 2500, 400000)
	if len(lists) <= capN {
		for _, l := range lists {
			for _, ctx := range []string{"t", "p"} {
				g.add("l", ctx, l.src, l.runnable, "stmts")
			}
		}
	} else {
		for i := 0; i < capN; i++ {
			l := lists[r.Intn(len(lists))]
			g.add("l", []string{"t", "p"}[r.Intn(2)], l.src, l.runnable, "stmts")
		}
	}
	// (3) random statement lists over random expression trees
	nrand := sizes(tier, 2500, 60000)
	for i := 0; i < nrand; i++ {
		body, runnable := randStmts(r, 1+r.Intn(4), 2, false)
		g.add("r", []string{"t", "p"}[r.Intn(2)], body, runnable, "random")
	}
	// (3b) random WELL-TYPED bodies (mostly single-typed): the soundness half on the real evaluator
	leafVars = c12TypedVars
	ntyped := sizes(tier, 2500, 60000)
	for i := 0; i < ntyped; i++ {
		ctx := []string{"t", "p"}[r.Intn(2)]
		single := true
		body := typedStmts(r, ctx, 1+r.Intn(4), 2, false, &single)
		cls := "typed"
		if !single {
			cls = "typedmulti"
		}
		g.add("w", ctx, body, true, cls)
	}
	leafVars = treeVars
	// (4) the documented shapes of known issues, so that they stay visible
	for _, b := range []string{
		"loop loop break end break end return 'a'",
		"if match == 'X' then set w to 'a' else set w to true end return w and true",
		"if match == 'q' then set w to true end return w and true",
		"return 1 / 0",
		"return 1 % 0",
		"return '5' / 0",
		"break",
		"if true then continue end",
		"loop if true then break end break end",
	} {
		for _, ctx := range []string{"t", "p"} {
			g.add("k", ctx, b, true, "known")
		}
	}
	return g.cases
}

func init() {
	propGens["C12"] = genC12
}
