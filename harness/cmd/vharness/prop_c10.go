package main

import (
	"fmt"
	"math/rand"
	"strings"

	"github.com/jmeaster30/vore/libvore/engine"
)

// C10: exhaustive nullable nests x all short texts over {a, b, \n}; one program, many texts per case.

// opRunMany: fields = srchex, comma separated text hexes
func opRunMany(fields []string) string {
	src := unhx(fields[0])
	texts := strings.Split(fields[1], ",")
	v, class := safeCompile(src)
	if v == nil {
		return "COMPILE " + class
	}
	results := []string{}
	maxSteps := 0
	for _, th := range texts {
		text := unhx(th)
		steps := 0
		res := func() (out string) {
			engine.VerifStepHook = func(pc, pos, nbt, nloops, ncalls int) {
				steps++
				if steps > stepBudget {
					panic(budgetExceeded{})
				}
			}
			defer func() {
				engine.VerifStepHook = nil
				if r := recover(); r != nil {
					if _, ok := r.(budgetExceeded); ok {
						out = "DIVERGE"
					} else {
						out = "PANIC " + hx(fmt.Sprint(r))
					}
				}
			}()
			return canonMatches(v.Run(text))
		}()
		if steps > maxSteps {
			maxSteps = steps
		}
		results = append(results, res)
	}
	return "AST " + v.VerifAst() + "\tSTEPS " + fmt.Sprint(maxSteps) + "\tRES " + strings.Join(results, "|")
}

func allTexts(alpha []string, maxLen int) []string {
	out := []string{""}
	level := []string{""}
	for l := 0; l < maxLen; l++ {
		next := []string{}
		for _, s := range level {
			for _, a := range alpha {
				next = append(next, s+a)
			}
		}
		out = append(out, next...)
		level = next
	}
	return out
}

func nullableBase() []string {
	return []string{"line start", "line end", "word start", "not word end", "file end", "not file start",
		"maybe 'a'", "at least 0 'b'", "maybe 'ab' fewest", "at least 0 not 'a'", "not in 'a'", "'a'", "any", "whole line",
		// every remaining class/anchor of the language, plain and negated: the ones that loop inside ONE instruction
		// (whole word / whole line / whole file) can spin without the step hook ever ticking
		"whole word", "whole file", "not whole word", "not whole line", "word end", "file start", "not line end"}
}

func wrapAll(xs []string, ys []string, r *rand.Rand, limit int) []string {
	out := []string{}
	for _, x := range xs {
		out = append(out,
			"at least 0 ("+x+")", "maybe ("+x+")", "at least 1 ("+x+")", "between 0 and 2 ("+x+")",
			"at least 0 ("+x+") fewest", "at most 2 ("+x+") fewest", "at least 2 ("+x+")")
	}
	pairs := 0
	for _, x := range xs {
		for _, y := range ys {
			if limit > 0 && pairs >= limit {
				break
			}
			if limit > 0 && r.Intn(len(xs)*len(ys)) > 2*limit {
				continue
			}
			out = append(out, "("+x+") or ("+y+")", "("+x+") ("+y+")")
			pairs++
		}
	}
	return out
}

func init() {
	extraOps["runmany"] = opRunMany
	leanCaseExtra["runmany"] = func(c Case, impl string) (string, bool) {
		ast, res := "", ""
		for _, part := range strings.Split(impl, "\t") {
			if strings.HasPrefix(part, "AST ") {
				ast = part[4:]
			}
			if strings.HasPrefix(part, "RES ") {
				res = part[4:]
			}
		}
		if ast == "" {
			return "", false
		}
		return c.ID + "\trunmany\t" + ast + "\t" + c.Fields[1] + "\t" + res, true
	}
	propGens["C10"] = func(r *rand.Rand, tier string, st *Stats) []Case {
		base := nullableBase()
		d1 := wrapAll(base, base, r, 0)
		var progs []string
		progs = append(progs, base...)
		progs = append(progs, d1...)
		// depth 2: every unary wrapper of depth 1, a sample (quick) / many (thorough) of the binary ones
		d2 := wrapAll(d1, d1, r, sizes(tier, 400, 20000))
		if tier != "thorough" && len(d2) > 2600 {
			r.Shuffle(len(d2), func(i, j int) { d2[i], d2[j] = d2[j], d2[i] })
			d2 = d2[:2600]
		}
		progs = append(progs, d2...)
		if tier == "thorough" {
			d3 := wrapAll(d2[:3000], base, r, 3000)
			progs = append(progs, d3...)
		}
		texts := allTexts([]string{"a", "b", "\n"}, sizes(tier, 3, 4))
		th := []string{}
		for _, t := range texts {
			th = append(th, hx(t))
		}
		joined := strings.Join(th, ",")
		cases := []Case{}
		for i, p := range progs {
			cases = append(cases, Case{ID: fmt.Sprintf("n%d", i), Op: "runmany",
				Fields: []string{hx("find all " + p), joined}, Meta: map[string]string{}})
		}
		st.Counts["programs"] = len(progs)
		st.Counts["texts_per_program"] = len(texts)
		st.Counts["depth1"] = len(d1)
		st.Counts["depth2"] = len(d2)
		// programs with guarded recursion and calls: random stream, compared with the model
		cfg := GenCfg{MaxDepth: 3, Subs: true, Globals: true, Captures: false, Anchors: true}
		cases = append(cases, searchCases(r, st, sizes(tier, 500, 8000), cfg, 3, 10, "g")...)
		// guarded recursion whose recursive call (or a call of an earlier definition) stands INSIDE a counted loop that is
		// unrolled (minimum >= 1), after a consuming prefix: every copy of the body must call the same subroutine
		rtexts := []string{"x", "xx", "((x)x) (x)", "(x)", "((x))", "xxx(", "(", "a1,2,3", "1,2,3"}
		rth := []string{}
		for _, t := range rtexts {
			rth = append(rth, hx(t))
		}
		for i, p := range []string{
			"{ 'x' at least 1 (maybe s) } = s", "{ 'x' at least 2 (maybe s) } = s", "{ 'x' between 1 and 3 (maybe s) } = s", "{ 'x' exactly 2 (maybe s) } = s",
			"{ '(' at least 1 (s or 'x') ')' } = s", "{ '(' between 1 and 2 (s or 'x') ')' } = s", "{ '(' at least 1 (s or 'x') fewest ')' } = s",
			"{digit} = d at least 1 (',' d)", "{digit} = d exactly 2 (',' d)", "{ 'x' at least 1 ((maybe s) 'x') } = s",
		} {
			st.Features["recursive-call-inside-unrolled-loop"]++
			cases = append(cases, Case{ID: fmt.Sprintf("nr%d", i), Op: "runmany",
				Fields: []string{hx("find all " + p), strings.Join(rth, ",")}, Meta: map[string]string{}})
		}
		for i, p := range []string{"set d to pattern digit\nfind all d at least 1 (',' d)", "set d to pattern digit\nfind all d exactly 2 (',' d) maybe d"} {
			cases = append(cases, Case{ID: fmt.Sprintf("nrg%d", i), Op: "runmany", Fields: []string{hx(p), strings.Join(rth, ",")}, Meta: map[string]string{}})
		}
		// the outer scan on texts that are not ASCII: valid multi-byte characters, matches and failed attempts that end
		// or start INSIDE a character, continuation bytes first, Latin-1 bytes, truncated sequences, 0xFF
		bprogs := []string{"'b'", "'a' any", "any", "not 'x'", "in 'a' to 'z'", "not in 'a' to 'z'", "at least 1 any fewest 'q'",
			"'\\xc3'", "any any", "letter", "not letter", "whitespace", "maybe 'a' 'b'", "at least 0 'a' 'b'", "line start any", "any file end"}
		// (no literal of several bytes here: the engine counts columns per character inside one consuming read and per
		// byte elsewhere, the model per byte; columns of non-ASCII texts are outside every property's claim, and this
		// stream is about the scan advancing)
		btexts := []string{"a\xa3b", "\x80b", "xa\u00e9x", "\u00e9", "\u00e9\u00e9b", "a\xc3", "\xc3", "\xa9\xa9\xa9", "\xff\xfeb", "\u20acb a\u20ac",
			"\U0001F600b", "\xf0\x9f b", "ab\xe2\x82", "\x80", "a\u00a0b\n\u00e9\nb"}
		bth := []string{}
		for _, t := range btexts {
			bth = append(bth, hx(t))
		}
		for i, p := range bprogs {
			st.Features["scan-over-non-ascii-text"]++
			cases = append(cases, Case{ID: fmt.Sprintf("nb%d", i), Op: "runmany",
				Fields: []string{hx("find all " + p), strings.Join(bth, ",")}, Meta: map[string]string{}})
		}
		return cases
	}
}
