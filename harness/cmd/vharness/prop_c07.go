package main

// C07 — searching a file gives the same result as searching its bytes in memory.
//
// Real-code side of the C07 line protocol:
//
//	c07hist <content> <ops>     a history of files.Reader calls, run on files.ReaderFromFile over
//	                            a real file holding <content> AND on files.ReaderFromString
//	c07eng  <source>  <content> (*Vore).RunFiles([f], NOTHING, false) vs (*Vore).Run(string(content))
//
// <content>: x<hex> | g:<seed>:<size> (c07GenBytes, same function in lean/Vore/Driver/OpsC07.lean)
//            | t:<seed>:<size> (c07GenText: words, digits, line breaks; Go side only)
//            | u:<seed>:<size> (the same with few line breaks: lines longer than the window)
// <ops>:     ,-separated: s<off> = Seek(off), r<len> = Read(len), a<len>:<off> = ReadAt(len, off)
//
// Files are created in a scratch directory made with os.MkdirTemp (under $C07_SCRATCH if set —
// the check sets it to a fresh temporary directory outside /repo and /verif and removes it —
// else under the system temp dir) and removed before the operation returns.

import (
	"crypto/sha1"
	"encoding/hex"
	"fmt"
	"math/rand"
	"os"
	"path/filepath"
	"strconv"
	"strings"
	"sync"
	"sync/atomic"
	"time"

	"github.com/jmeaster30/vore/libvore/engine"
	"github.com/jmeaster30/vore/libvore/files"
)

func c07GenBytes(seed, size int) []byte {
	b := make([]byte, size)
	for i := range b {
		x := uint32(i+seed*7919+1) * 2654435761
		b[i] = byte((x >> 24) ^ (x >> 11))
	}
	return b
}

// text with words over a small alphabet, capitals, digits, blanks, \n and \r\n line breaks and
// the rare markers QQ / ZZ (so that anchors, loops and long backtracks all have work to do)
func c07GenText(seed, size int) []byte {
	r := rand.New(rand.NewSource(int64(seed)*2654435761 + 17))
	var b []byte
	for len(b) < size {
		switch k := r.Intn(40); {
		case k < 22:
			n := 1 + r.Intn(6)
			for i := 0; i < n; i++ {
				b = append(b, byte('a'+r.Intn(5)))
			}
		case k < 25:
			n := 1 + r.Intn(3)
			for i := 0; i < n; i++ {
				b = append(b, byte('A'+r.Intn(3)))
			}
		case k < 29:
			n := 1 + r.Intn(4)
			for i := 0; i < n; i++ {
				b = append(b, byte('0'+r.Intn(10)))
			}
		case k < 35:
			b = append(b, ' ')
		case k < 37:
			b = append(b, '\n')
		case k < 38:
			b = append(b, '\r', '\n')
		case k < 39:
			b = append(b, '_', '-', '.')
		default:
			if r.Intn(6) == 0 {
				if r.Intn(2) == 0 {
					b = append(b, 'Q', 'Q')
				} else {
					b = append(b, 'Z', 'Z')
				}
			} else {
				b = append(b, '\t')
			}
		}
	}
	return b[:size]
}

func c07Content(desc string) []byte {
	if strings.HasPrefix(desc, "b:") || strings.HasPrefix(desc, "c:") || strings.HasPrefix(desc, "h:") || strings.HasPrefix(desc, "z:") {
		// the generated text of that seed and size with a head a file reader might treat specially (a UTF-8 byte order
		// mark, a CR LF) written over its first bytes, or with bytes >= 0x80 (UTF-8 and Latin-1) written into it
		b := c07Content("t" + desc[1:])
		switch desc[0] {
		case 'b':
			copy(b, "\xef\xbb\xbf")
		case 'c':
			copy(b, "\r\n")
		case 'z': // NUL bytes: an ordinary byte to the engine, "binary" to many tools
			for i := 3; i < len(b); i += 113 {
				b[i] = 0
			}
		default:
			for i := 5; i+2 < len(b); i += 97 {
				copy(b[i:], []string{"\xc3\xa9", "\xe9", "\xe2\x82\xac", "\xff"}[(i/97)%4])
			}
		}
		return b
	}
	if strings.HasPrefix(desc, "g:") || strings.HasPrefix(desc, "t:") || strings.HasPrefix(desc, "u:") {
		p := strings.Split(desc, ":")
		seed, _ := strconv.Atoi(p[1])
		size, _ := strconv.Atoi(p[2])
		switch desc[0] {
		case 'g':
			return c07GenBytes(seed, size)
		case 'u': // the same text with most line breaks blanked: lines longer than the read window
			b := c07GenText(seed, size)
			r := rand.New(rand.NewSource(int64(seed) + 99))
			for i := range b {
				if (b[i] == '\n' || b[i] == '\r') && r.Intn(50) != 0 {
					b[i] = ' '
				}
			}
			return b
		}
		return c07GenText(seed, size)
	}
	return []byte(unhx(desc))
}

type c07Op struct {
	kind byte // 's', 'r', 'a'
	a, b int  // s: off | r: len | a: len, off
}

func c07ParseOps(s string) []c07Op {
	ops := []c07Op{}
	if s == "-" || s == "" {
		return ops
	}
	for _, p := range strings.Split(s, ",") {
		op := c07Op{kind: p[0]}
		if p[0] == 'a' {
			q := strings.Split(p[1:], ":")
			op.a, _ = strconv.Atoi(q[0])
			op.b, _ = strconv.Atoi(q[1])
		} else {
			op.a, _ = strconv.Atoi(p[1:])
		}
		ops = append(ops, op)
	}
	return ops
}

func c07OpsString(ops []c07Op) string {
	if len(ops) == 0 {
		return "-"
	}
	parts := make([]string, len(ops))
	for i, op := range ops {
		if op.kind == 'a' {
			parts[i] = fmt.Sprintf("a%d:%d", op.a, op.b)
		} else {
			parts[i] = fmt.Sprintf("%c%d", op.kind, op.a)
		}
	}
	return strings.Join(parts, ",")
}

func c07Fnv(s string) uint32 {
	h := uint32(2166136261)
	for i := 0; i < len(s); i++ {
		h = (h ^ uint32(s[i])) * 16777619
	}
	return h
}

func c07ObsStr(s string) string {
	if len(s) <= 16 {
		return hx(s)
	}
	return fmt.Sprintf("h%d:%d", len(s), c07Fnv(s))
}

func c07PanicClass(r interface{}) string {
	msg := fmt.Sprint(r)
	switch {
	case msg == "EOF":
		return "PANIC:eof"
	case strings.Contains(msg, "negative file offset"), strings.Contains(msg, "negative position"):
		return "PANIC:negseek"
	case strings.Contains(msg, "index out of range"), strings.Contains(msg, "slice bounds out of range"):
		return "PANIC:index"
	case strings.Contains(msg, "makeslice"):
		return "PANIC:makeslice"
	}
	return "PANIC:other:" + hx(msg)
}

// one call; (observation, stop)
func c07Apply(r *files.Reader, op c07Op) (obs string, stop bool) {
	defer func() {
		if p := recover(); p != nil {
			obs, stop = c07PanicClass(p), true
		}
	}()
	switch op.kind {
	case 's':
		r.Seek(op.a)
		return "-", false
	case 'r':
		return c07ObsStr(r.Read(op.a)), false
	case 'a':
		return c07ObsStr(r.ReadAt(op.a, op.b)), false
	}
	return "BADOP", true
}

// the history stops at the first panic; a call that does not return within the deadline is
// reported as HANG (the goroutine is abandoned; the parent's per-case deadline is the backstop)
func c07RunHist(mk func() *files.Reader, ops []c07Op, deadline time.Duration) string {
	var mu sync.Mutex
	obs := []string{}
	done := make(chan struct{})
	go func() {
		defer close(done)
		var r *files.Reader
		func() {
			defer func() {
				if p := recover(); p != nil {
					mu.Lock()
					obs = append(obs, "OPEN-"+c07PanicClass(p))
					mu.Unlock()
					r = nil
				}
			}()
			r = mk()
		}()
		if r == nil {
			return
		}
		defer func() {
			defer func() { recover() }()
			r.Close()
		}()
		for _, op := range ops {
			o, stop := c07Apply(r, op)
			mu.Lock()
			obs = append(obs, o)
			mu.Unlock()
			if stop {
				return
			}
		}
	}()
	select {
	case <-done:
	case <-time.After(deadline):
		mu.Lock()
		obs = append(obs, "HANG")
		mu.Unlock()
	}
	mu.Lock()
	defer mu.Unlock()
	return strings.Join(obs, ";")
}

// scratch file holding content; cleanup removes the directory
func c07Scratch(content []byte) (path string, cleanup func()) {
	dir, err := os.MkdirTemp(os.Getenv("C07_SCRATCH"), "c07-")
	if err != nil {
		panic(err)
	}
	abs, _ := filepath.Abs(dir)
	if strings.HasPrefix(abs, "/repo/") || strings.HasPrefix(abs, "/verif/") {
		os.RemoveAll(dir)
		panic("scratch directory inside /repo or /verif: " + abs)
	}
	path = filepath.Join(dir, "input.txt")
	if err := os.WriteFile(path, content, 0o644); err != nil {
		os.RemoveAll(dir)
		panic(err)
	}
	return path, func() { os.RemoveAll(dir) }
}

// Circuit breaker: every HANG leaves a spinning goroutine behind in this worker process. On a
// tree where the reader spins on ordinary calls that would be hundreds of them, so after a few
// the worker stops running C07 cases (SKIPPED: counted by the check, never a verdict; the
// hangs already seen are the violations).  Never triggers on a tree without hangs.
var c07Hangs int32

const c07MaxHangs = 3

func c07NoteHang(res string) {
	if strings.Contains(res, "HANG") {
		atomic.AddInt32(&c07Hangs, 1)
	}
}

func opC07Hist(fields []string) string {
	if atomic.LoadInt32(&c07Hangs) >= c07MaxHangs {
		return "SKIPPED after hangs in this worker"
	}
	content := c07Content(fields[0])
	ops := c07ParseOps(fields[1])
	path, cleanup := c07Scratch(content)
	defer cleanup()
	fileObs := c07RunHist(func() *files.Reader { return files.ReaderFromFile(path) }, ops, 4*time.Second*innerDeadlineFactor())
	strObs := c07RunHist(func() *files.Reader { return files.ReaderFromString(string(content)) }, ops, 4*time.Second*innerDeadlineFactor())
	c07NoteHang(fileObs)
	c07NoteHang(strObs)
	return "FILE " + fileObs + "\tSTR " + strObs
}

func c07Head(s string) string {
	if len(s) > 400 {
		return s[:400] + "…"
	}
	return s
}

// withBudget (VM step budget -> DIVERGE, panics -> PANIC) plus a wall-clock deadline -> HANG:
// a reader that spins inside one VM step never reaches the step hook
func c07Deadline(f func() string) string { return c07DeadlineN(f, 1) }

func c07DeadlineN(f func() string, n int) string {
	done := make(chan string, 1)
	go func() {
		defer func() {
			if p := recover(); p != nil {
				done <- "PANIC " + hx(fmt.Sprint(p))
			}
		}()
		done <- withBudgetN(f, n)
	}()
	select {
	case r := <-done:
		return r
	case <-time.After(9 * time.Second * innerDeadlineFactor()):
		return "HANG"
	}
}

func opC07Eng(fields []string) string {
	if atomic.LoadInt32(&c07Hangs) >= c07MaxHangs {
		return "SKIPPED after hangs in this worker"
	}
	src := unhx(fields[0])
	content := c07Content(fields[1])
	v, class := safeCompile(src)
	if v == nil {
		return "COMPILE " + class
	}
	path, cleanup := c07Scratch(content)
	defer cleanup()
	paths := []string{path}
	if len(fields) > 2 && fields[2] == "link" {
		// the path handed to RunFiles is a symbolic link to the file (the CLI's file list keeps link entries): same bytes
		link := filepath.Join(filepath.Dir(path), "ln")
		if err := os.Symlink(filepath.Base(path), link); err == nil {
			paths = []string{link}
		}
	}
	twice := len(fields) > 2 && fields[2] == "twice" && !strings.Contains(src, "\n")
	if twice {
		// the same path listed twice: a single-command program must report its matches twice
		paths = []string{path, path}
	}
	fileRes := c07DeadlineN(func() string {
		return canonMatches(v.RunFiles(paths, engine.NOTHING, false))
	}, len(paths))
	strRes := c07Deadline(func() string {
		ms := v.Run(string(content))
		if twice {
			ms = append(append(engine.Matches{}, ms...), ms...)
		}
		return canonMatches(ms)
	})
	c07NoteHang(fileRes)
	c07NoteHang(strRes)
	if fileRes == strRes {
		if !strings.HasPrefix(fileRes, "OK") {
			return "BOTH " + c07Head(fileRes)
		}
		n := 0
		if len(fileRes) > 3 {
			n = strings.Count(fileRes, ";") + 1
		}
		sum := sha1.Sum([]byte(fileRes))
		return fmt.Sprintf("EQ n=%d sha=%s", n, hex.EncodeToString(sum[:6]))
	}
	// first differing match
	fm, sm := strings.Split(strings.TrimPrefix(fileRes, "OK "), ";"), strings.Split(strings.TrimPrefix(strRes, "OK "), ";")
	if strings.HasPrefix(fileRes, "OK") && strings.HasPrefix(strRes, "OK") {
		i := 0
		for i < len(fm) && i < len(sm) && fm[i] == sm[i] {
			i++
		}
		f, s := "END", "END"
		if i < len(fm) {
			f = fm[i]
		}
		if i < len(sm) {
			s = sm[i]
		}
		return fmt.Sprintf("DIFF at=%d nfile=%d nstr=%d\tFILE %s\tSTR %s", i, len(fm), len(sm), c07Head(f), c07Head(s))
	}
	return "DIFF\tFILE " + c07Head(fileRes) + "\tSTR " + c07Head(strRes)
}

// ---------------------------------------------------------------------------
// generator
// ---------------------------------------------------------------------------

const c07Buf = 4096

func c07Clamp(x, lo, hi int) int {
	if x < lo {
		return lo
	}
	if x > hi {
		return hi
	}
	return x
}

// an offset worth visiting in a file of n bytes when the engine is at cur
func c07Pos(r *rand.Rand, n, cur int, st *Stats) int {
	switch r.Intn(12) {
	case 0:
		return 0
	case 1:
		st.Features["pos.end"]++
		return n
	case 2:
		return c07Clamp(n-1, 0, n)
	case 3, 4: // around a multiple of half a buffer: the edges of every possible window
		st.Features["pos.window-edge"]++
		k := r.Intn(n/(c07Buf/2) + 2)
		return c07Clamp(k*(c07Buf/2)+r.Intn(5)-2, 0, n)
	case 5: // one byte back (anchors)
		st.Features["pos.one-back"]++
		return c07Clamp(cur-1-r.Intn(2), 0, n)
	case 6: // far back (backtracking)
		st.Features["pos.far-back"]++
		return c07Clamp(cur-(c07Buf/2-2)-r.Intn(c07Buf+4), 0, n)
	case 7:
		return c07Clamp(cur+r.Intn(5), 0, n)
	case 8: // just beyond the current window if it is centred on cur
		st.Features["pos.far-forward"]++
		return c07Clamp(cur+c07Buf/2-3+r.Intn(6), 0, n)
	case 9: // around the last full window
		return c07Clamp(n-c07Buf+r.Intn(5)-2, 0, n)
	}
	return r.Intn(n + 1)
}

func c07Len(r *rand.Rand, n, pos int, st *Stats) int {
	switch r.Intn(16) {
	case 0, 1, 2, 3, 4:
		return 1
	case 5, 6:
		return 2
	case 7, 8:
		return 1 + r.Intn(8)
	case 9:
		return c07Clamp(n-pos, 0, n) // the rest of the file
	case 10:
		st.Features["len.whole-file"]++
		return n // CONSUME(reader.Size())
	case 11:
		return c07Buf/2 + r.Intn(5) - 2
	case 12:
		st.Features["len.buffer"]++
		return c07Buf + r.Intn(5) - 2
	case 13:
		st.Features["len.multi-buffer"]++
		return r.Intn(3*c07Buf + 10)
	case 14:
		return 0
	}
	return 1 + r.Intn(40)
}

// a history as the engine issues them (every Read right after a Seek; ReadAt for the splice and
// the skip byte), wandering over the interesting offsets
func c07EngineHistory(r *rand.Rand, n int, st *Stats) []c07Op {
	ops := []c07Op{}
	cur := 0
	stack := []int{}
	steps := 8 + r.Intn(40)
	for i := 0; i < steps; i++ {
		switch k := r.Intn(20); {
		case k < 9: // READ(len) at cur, maybe CONSUME it
			l := c07Len(r, n, cur, st)
			ops = append(ops, c07Op{'s', cur, 0}, c07Op{'r', l, 0})
			if l > 0 && cur+l <= n && r.Intn(3) > 0 {
				cur += l
			}
		case k < 11: // READAT(cur-1, 1)
			if cur > 0 {
				ops = append(ops, c07Op{'s', cur - 1, 0}, c07Op{'r', 1, 0})
			}
		case k < 13: // Reader.ReadAt
			ops = append(ops, c07Op{'a', c07Len(r, n, cur, st), c07Pos(r, n, cur, st)})
		case k < 15: // checkpoint / backtrack
			if len(stack) > 0 && r.Intn(2) == 0 {
				cur = stack[len(stack)-1]
				stack = stack[:len(stack)-1]
				st.Features["hist.backtrack"]++
			} else {
				stack = append(stack, cur)
			}
		default:
			cur = c07Pos(r, n, cur, st)
		}
	}
	return ops
}

// any sequence of calls: Reads without a Seek in between (the bounds check then uses a stale
// offset), seeks beyond the end, zero lengths, and — last, because the history ends there —
// sometimes a call that must panic (negative offset or length, read at the end of the input)
func c07RawHistory(r *rand.Rand, n int, st *Stats) []c07Op {
	ops := []c07Op{}
	cur := 0
	steps := 4 + r.Intn(24)
	for i := 0; i < steps; i++ {
		switch r.Intn(6) {
		case 0:
			cur = c07Pos(r, n, cur, st)
			if r.Intn(4) == 0 {
				cur = n + r.Intn(c07Buf+2) // beyond the end
				st.Features["raw.seek-beyond-end"]++
			}
			ops = append(ops, c07Op{'s', cur, 0})
		case 1, 2, 3: // sequential read, kept inside the file
			l := 1 + r.Intn(6)
			if r.Intn(5) == 0 {
				l = c07Len(r, n, cur, st)
			}
			if cur+l > n {
				l = 0
			}
			ops = append(ops, c07Op{'r', l, 0})
			st.Features["raw.read-without-seek"]++
			cur += l
		case 4:
			l, p := c07Len(r, n, cur, st), c07Pos(r, n, cur, st)
			ops = append(ops, c07Op{'a', l, p})
			if l > 0 && p+l <= n {
				cur = p + l
			} else if l > 0 {
				// refused by the bounds check before the Seek: nothing moves
			}
		case 5:
			ops = append(ops, c07Op{'r', 0, 0})
		}
	}
	switch r.Intn(8) {
	case 0:
		st.Features["raw.negative-seek"]++
		ops = append(ops, c07Op{'s', -1 - r.Intn(3), 0}, c07Op{'r', 1, 0})
	case 1:
		st.Features["raw.negative-seek"]++
		ops = append(ops, c07Op{'s', -(r.Intn(3 * c07Buf)) - 1, 0}, c07Op{'r', 1, 0})
	case 2:
		st.Features["raw.negative-readat"]++
		ops = append(ops, c07Op{'a', 1 + r.Intn(3), -1 - r.Intn(3)}, c07Op{'r', 1, 0})
	case 3:
		st.Features["raw.negative-length"]++
		if r.Intn(2) == 0 {
			ops = append(ops, c07Op{'r', -1 - r.Intn(3), 0})
		} else {
			ops = append(ops, c07Op{'a', -1 - r.Intn(3), r.Intn(n + 1)})
		}
	case 4: // Read up to the end, then Read again behind the stale bounds check
		if n > 0 {
			st.Features["raw.read-at-end"]++
			p := c07Clamp(n-1-r.Intn(6), 0, n-1)
			ops = append(ops, c07Op{'s', p, 0}, c07Op{'r', n - p, 0}, c07Op{'r', 1, 0})
		}
	case 5: // a Read that straddles the end behind the stale bounds check: short read -> ""
		if n > 2 {
			st.Features["raw.read-across-end"]++
			p := c07Clamp(n-3-r.Intn(6), 0, n-3)
			ops = append(ops, c07Op{'s', p, 0}, c07Op{'r', 2, 0}, c07Op{'r', n - p - 1, 0}, c07Op{'r', 1, 0})
		}
	}
	return ops
}

// Far-back seeks come from `whole file` / `whole line` followed by a failing literal (one big
// forward read, then a backtrack to the start) — a greedy loop of thousands of iterations would
// do the same but the engine copies its stacks at every iteration (seconds per match attempt).
var c07Programs = []string{
	"find all line start at least 1 letter",
	"find all letter word end",
	"find all word start at least 1 letter word end",
	"find all whole line",
	"find all whole file",
	"find all whole word",
	"find all 'QQ' between 0 and 300 any 'ZZ'",
	"find all 'QQ' between 0 and 300 any fewest 'ZZ'",
	"find all (line start whole line 'x') or 'QQ'",
	"find all (whole file 'x') or (at least 1 digit)",
	"find all (whole word 'x') or upper",
	"find all digit line end",
	"replace all (at least 1 digit) = d with '<' d '>'",
	"find all (at least 1 lower) = w ' ' w",
	"find last 3 at least 2 upper",
	"find all caseless 'qq' or caseless 'zz'",
	"find all file start any",
	"find all any file end",
	"find skip 2 take 3 at least 1 whitespace",
	"find all @/[a-c]+d?e/",
	"find all at least 1 (not in 'a' to 'e', ' ') line end",
	"find all between 2 and 4 letter not letter",
	"find all line start whole line",
	// matches, captures and replacements that are the result of exactly ONE read (a value that aliases the reader's
	// window instead of copying it goes wrong only here: concatenation copies)
	"find all digit",
	"find all 'QQ'",
	"find all upper",
	"find all (letter = l)",
	"find all ('ZZ' = z) or (digit = d)",
	"replace all digit with value",
	"replace all 'QQ' with value matchNumber",
	"find all any",
	"find last 5 lower",
	// several commands over the same file: every command reads the file afresh
	"replace all 'QQ' with 'q'\nfind all 'ZZ'",
	"replace all (at least 1 digit) = d with d d\nreplace all upper with '_'",
	"find all 'QQ'\nreplace all 'ZZ' with ''\nfind all at least 1 digit",
	"set w to pattern at least 1 letter\nfind all w ' ' w\nfind all w line end",
	"replace top 2 'QQ' with 'x'\nreplace last 1 'ZZ' with 'y'\nfind all whole line",
}

func c07Sizes(r *rand.Rand, tier string) []int {
	sizes := []int{0, 1, 2, 2047, 2048, 2049, 4095, 4096, 4097, 6143, 6144, 6145, 8191, 8192, 8193,
		3*c07Buf - 1, 3 * c07Buf, 3*c07Buf + 1}
	extra := 4
	if tier == "thorough" {
		sizes = append(sizes, 3, 7, 100, 2046, 2050, 4094, 4098, 6142, 6146, 8190, 8194, 10239, 10240, 10241,
			3*c07Buf+2047, 3*c07Buf+2048, 3*c07Buf+2049, 4*c07Buf-1, 4*c07Buf, 4*c07Buf+1, 5*c07Buf+7, 8*c07Buf)
		extra = 8
	}
	for i := 0; i < extra; i++ {
		sizes = append(sizes, 2+r.Intn(5*c07Buf))
	}
	return sizes
}

func init() {
	extraOps["c07hist"] = opC07Hist
	extraOps["c07eng"] = opC07Eng
	leanCaseExtra["c07hist"] = func(c Case, impl string) (string, bool) { return c.line(), true }
	propGens["C07"] = func(r *rand.Rand, tier string, st *Stats) []Case {
		cases := []Case{}
		sizes := c07Sizes(r, tier)
		perSize := c07Tier(tier, 150, 2000)
		for si, n := range sizes {
			st.Features[fmt.Sprintf("size.%d", n)]++
			for j := 0; j < perSize; j++ {
				var ops []c07Op
				if r.Intn(8) == 0 {
					ops = c07RawHistory(r, n, st)
					st.Counts["hist-raw"]++
				} else {
					ops = c07EngineHistory(r, n, st)
					st.Counts["hist-engine-shaped"]++
				}
				st.Counts["hist-calls"] += len(ops)
				content := fmt.Sprintf("g:%d:%d", r.Intn(1000), n)
				cases = append(cases, Case{
					ID:     fmt.Sprintf("h%d.%d", si, j),
					Op:     "c07hist",
					Fields: []string{content, c07OpsString(ops)},
					Meta:   map[string]string{},
				})
			}
		}
		// engine-driven: every program over every size (thorough: several texts per pair)
		texts := c07Tier(tier, 1, 4)
		k := 0
		for pi, src := range c07Programs {
			for si, n := range sizes {
				for t := 0; t < texts; t++ {
					// quick tier: a rotating third of the (program, size) grid, all sizes and all
					// programs still occur
					if tier != "thorough" && (pi+si)%3 != 0 {
						continue
					}
					kind := "t"
					switch r.Intn(8) {
					case 0, 1:
						kind = "u"
					case 2:
						kind = "b"
					case 3:
						kind = "c"
					case 4:
						kind = "h"
					case 5:
						kind = "z"
					}
					st.Counts["engine-content-kind-"+kind]++
					fl := []string{hx(src), fmt.Sprintf("%s:%d:%d", kind, r.Intn(100000), n)}
					if r.Intn(5) == 0 {
						fl = append(fl, "twice")
						st.Counts["engine-runs-path-twice"]++
					} else if k%4 == 1 {
						fl = append(fl, "link")
						st.Counts["engine-runs-through-symlink"]++
					}
					cases = append(cases, Case{
						ID:     fmt.Sprintf("e%d", k),
						Op:     "c07eng",
						Fields: fl,
						Meta:   map[string]string{},
					})
					k++
				}
			}
		}
		st.Counts["engine-runs"] = k
		return cases
	}
}

func c07Tier(tier string, quick, thorough int) int {
	if tier == "thorough" {
		return thorough
	}
	return quick
}

// inner wall-clock deadlines are short for the pooled run (a tree where the reader spins must not take hours) and
// five times as long when `finish` re-runs a case with little company (VERIF_RERUN=1), so that a loaded machine
// cannot turn a slow call into a HANG verdict
func innerDeadlineFactor() time.Duration {
	if os.Getenv("VERIF_RERUN") == "1" {
		return 5
	}
	return 1
}
