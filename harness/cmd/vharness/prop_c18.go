package main

// C18 — The CLI delivers the library's results under every documented flag combination.
//
// op `cli` <binary> <vector> : runs /repo's BUILT main package (the binary is built from the
// current working tree by checklib/prop_C18.py into a temporary directory) with one flag
// vector of the full cross product, in a fresh scratch directory made with os.MkdirTemp
// under os.TempDir() (outside /repo and /verif) and removed afterwards.  Captures exit
// status, stdout, stderr and the directory before/after, and compares them with what the
// library itself (in-process libvore on identical copies of the directory) returns and does.
//
// vector: `com=1 src=0 files=one json=0 fjson=0 jf=1 fjf=0 mode=absent noout=0 prog=find hits=1 pre=0 set=0`

import (
	"bytes"
	"context"
	"fmt"
	"io"
	"math/rand"
	"os"
	"os/exec"
	"path/filepath"
	"regexp"
	"sort"
	"strconv"
	"strings"
	"time"

	"github.com/jmeaster30/vore/libvore"
	"github.com/jmeaster30/vore/libvore/engine"
	"github.com/jmeaster30/vore/libvore/files"
)

type c18Vec map[string]string

func c18ParseVec(s string) c18Vec {
	v := c18Vec{}
	for _, kv := range strings.Fields(s) {
		if i := strings.Index(kv, "="); i > 0 {
			v[kv[:i]] = kv[i+1:]
		}
	}
	return v
}

// ---- scenarios ------------------------------------------------------------------------

type c18Scenario struct {
	find, replace, findNone, replaceNone, failing string
	files                                         map[string]string
}

var c18Scenarios = []c18Scenario{
	{
		find:        "find all 'ab' = x",
		replace:     "replace all 'ab' with 'X' value",
		findNone:    "find all 'zzzz'",
		replaceNone: "replace all 'zzzz' with 'y'",
		failing:     "find all (",
		files: map[string]string{
			"a1.txt": "ab cd ab\nq\"uote\\ \xc3\xa9 ab\n", "a2.txt": "xxab\n",
			"d1/n1.txt": "ab\n", "d2/n2.txt": "zab ab\n",
			"b.log": "ab ab ab\n", "d1/other.md": "ab",
		},
	},
	{
		// two statements: the library's list is statement-major over the files (all matches of the first statement in every file,
		// then the second statement's)
		find:        "find all at least 1 ((in 'a', 'b') = c) named lp\nfind all digit",
		replace:     "replace all (at least 1 digit) = n with '<' n '>' matchNumber",
		findNone:    "find all 'q' 'q' 'q'",
		replaceNone: "replace all 'qqq' with ''",
		failing:     "replace all 'a' with",
		files: map[string]string{
			"a1.txt": "ab 12 \xc3\xa9\xff 7 <&>\n\tba\n", "a2.txt": "b 3\n",
			"d1/n1.txt": "a1\n", "d2/n2.txt": "22 bab\n",
			"b.log": "a 1\n", "d1/other.md": "b 2",
		},
	},
	{
		find:        "find all (whole line) = l",
		replace:     "replace all 'a' with ''",
		findNone:    "find all 'nope' = x",
		replaceNone: "replace all 'nope' with 'x'",
		failing:     "find all 'unterminated",
		files: map[string]string{
			"a1.txt": "a\x01b\n\"\\\n", "a2.txt": "aaa\nbbb\n",
			"d1/n1.txt": "\xe6\xbc\xa2a\n", "d2/n2.txt": "a\n",
			"b.log": "a\n", "d1/other.md": "a",
		},
	},
	{
		// text that looks like a format verb, a JSON escape or markup once it is inside the JSON document
		find:        "find all (at least 1 not whitespace) = w",
		replace:     "replace all '%' (any = c) with '%%' c '%s'",
		findNone:    "find all '%q%q%q'",
		replaceNone: "replace all 'zz%zz' with '%d'",
		failing:     "find all '%d",
		files: map[string]string{
			"a1.txt": "100% %d %s %v\n\\u003cb\\u003e \\u0026 \\n \\\" </script>\n15%\n", "a2.txt": "%!d(MISSING) %%\n",
			"d1/n1.txt": "%x %[1]d\n", "d2/n2.txt": "50%\n",
			"b.log": "%\n", "d1/other.md": "%d",
		},
	},
}

var c18Patterns = map[string]string{"one": "a1.txt", "several": "a*", "glob": "*/n*.txt", "noneMatching": "zz*.none"}

const (
	c18JsonFile  = "out.json"
	c18FJsonFile = "fout.json"
	c18SrcFile   = "prog.vore"
)

var c18Garbage = strings.Repeat("G", 16384) + "\n"

func c18Program(sc c18Scenario, v c18Vec) string {
	switch v["prog"] {
	case "failing":
		return sc.failing
	case "replace":
		if v["hits"] == "1" {
			return sc.replace
		}
		return sc.replaceNone
	}
	if v["hits"] == "1" {
		return sc.find
	}
	return sc.findNone
}

func c18Populate(dir string, sc c18Scenario, v c18Vec, prog string) error {
	for name, content := range sc.files {
		p := filepath.Join(dir, name)
		if err := os.MkdirAll(filepath.Dir(p), 0o755); err != nil {
			return err
		}
		if err := os.WriteFile(p, []byte(content), 0o644); err != nil {
			return err
		}
	}
	if err := os.WriteFile(filepath.Join(dir, c18SrcFile), []byte(prog), 0o644); err != nil {
		return err
	}
	// one more name the patterns select: a symbolic link to a1.txt (a path that names a file is searched like a file)
	if _, err := os.Stat(filepath.Join(dir, "a1.txt")); err == nil {
		if err := os.Symlink("a1.txt", filepath.Join(dir, "a1link.txt")); err != nil {
			return err
		}
	}
	// ... and the output of an earlier NEW-mode run that the "several" pattern also selects: a *.vored file is a file
	// like any other to a later invocation, whatever its mode
	if data, err := os.ReadFile(filepath.Join(dir, "a2.txt")); err == nil {
		if err := os.WriteFile(filepath.Join(dir, "a0.txt.vored"), append([]byte("ab 9 "), data...), 0o644); err != nil {
			return err
		}
	}
	if v["pre"] == "1" {
		for _, n := range []string{c18JsonFile, c18FJsonFile} {
			if err := os.WriteFile(filepath.Join(dir, n), []byte(c18Garbage), 0o644); err != nil {
				return err
			}
		}
	}
	return nil
}

func c18Snapshot(dir string) map[string]string {
	snap := map[string]string{}
	filepath.Walk(dir, func(p string, info os.FileInfo, err error) error {
		if err != nil || info.IsDir() {
			return nil
		}
		rel, _ := filepath.Rel(dir, p)
		data, _ := os.ReadFile(p)
		snap[rel] = string(data)
		return nil
	})
	return snap
}

func c18Without(snap map[string]string, names ...string) map[string]string {
	out := map[string]string{}
	for k, v := range snap {
		skip := false
		for _, n := range names {
			if k == n {
				skip = true
			}
		}
		if !skip {
			out[k] = v
		}
	}
	return out
}

func c18SameSnap(a, b map[string]string) bool {
	if len(a) != len(b) {
		return false
	}
	for k, v := range a {
		if w, ok := b[k]; !ok || w != v {
			return false
		}
	}
	return true
}

func c18Diff(before, after map[string]string) string {
	parts := []string{}
	for k, v := range after {
		if w, ok := before[k]; !ok {
			parts = append(parts, "+"+k)
		} else if w != v {
			parts = append(parts, "~"+k)
		}
	}
	for k := range before {
		if _, ok := after[k]; !ok {
			parts = append(parts, "-"+k)
		}
	}
	sort.Strings(parts)
	if len(parts) == 0 {
		return "-"
	}
	return strings.Join(parts, ",")
}

// ---- the library, in-process, on a copy of the directory --------------------------------

type c18Lib struct {
	ok                     bool
	note                   string
	n                      int
	compact, formatted, pr string
	snaps                  map[string]map[string]string // mode -> directory afterwards (paths relative)
}

func c18CapturePrint(ms engine.Matches) string {
	r, w, err := os.Pipe()
	if err != nil {
		return ""
	}
	saved := os.Stdout
	os.Stdout = w
	done := make(chan string)
	go func() {
		b, _ := io.ReadAll(r)
		done <- string(b)
	}()
	func() {
		defer func() { recover() }()
		ms.Print()
	}()
	os.Stdout = saved
	w.Close()
	s := <-done
	r.Close()
	return s
}

func c18RunLib(base string, sc c18Scenario, v c18Vec, prog string, realDir string) (lib c18Lib) {
	lib.snaps = map[string]map[string]string{}
	modes := []struct {
		name string
		m    engine.ReplaceMode
	}{{"new", engine.NEW}, {"overwrite", engine.OVERWRITE}, {"nothing", engine.NOTHING}}
	docMode := map[string]string{"absent": "new", "NEW": "new", "NOTHING": "nothing", "OVERWRITE": "overwrite", "empty": "new"}[v["mode"]]
	for _, md := range modes {
		dir := filepath.Join(base, "lib-"+md.name)
		if err := os.MkdirAll(dir, 0o755); err != nil {
			lib.note = err.Error()
			return
		}
		if err := c18Populate(dir, sc, v, prog); err != nil {
			lib.note = err.Error()
			return
		}
		var ms engine.Matches
		var perr string
		func() {
			defer func() {
				if r := recover(); r != nil {
					perr = fmt.Sprint(r)
				}
			}()
			vo, err := libvore.Compile(prog)
			if err != nil {
				perr = "compile: " + err.Error()
				return
			}
			// the files the pattern describes, computed WITHOUT the library's path code (filepath.Glob on these simple
			// patterns; both orders are by name): a file list the CLI gets wrong is then a difference, not a shared one
			list, _ := filepath.Glob(filepath.Join(dir, c18Patterns[v["files"]]))
			if lib2 := files.ParsePath(c18Patterns[v["files"]]).GetFileList(dir); strings.Join(lib2, "|") != strings.Join(list, "|") {
				lib.note += "file list of the library differs from the glob: " + strings.Join(lib2, "|") + " vs " + strings.Join(list, "|") + "; "
			}
			if len(list) == 0 {
				perr = "no files"
				return
			}
			ms = vo.RunFiles(list, md.m, false)
		}()
		if perr != "" {
			lib.note = "library (" + md.name + "): " + perr
			return
		}
		lib.snaps[md.name] = c18Without(c18Snapshot(dir), c18JsonFile, c18FJsonFile)
		if md.name == docMode || (docMode == "" && md.name == "new") {
			lib.n = len(ms)
			fix := func(s string) string { return strings.ReplaceAll(s, dir, realDir) }
			j, p1 := c17Call(ms.Json)
			f, p2 := c17Call(ms.FormattedJson)
			if p1 != "" {
				lib.note += "library Json() panics: " + p1 + "; "
			} else {
				lib.compact = fix(j)
				// "the library's result" is the MATCH LIST, not whatever the same build renders: the rendered document must
				// carry every field of every match (filename, numbers, value, variables, and for replace commands the
				// replacement — also when it is the empty string).  If it does not, no output of the tool can equal it.
				if d, err := c17Decode(j); err != nil {
					lib.compact = "\x00the library's JSON does not parse: " + err.Error()
				} else if msg := c17CheckDoc(d, ms); msg != "" {
					lib.compact = "\x00the library's JSON does not carry the match data: " + msg
				}
			}
			if p2 != "" {
				lib.note += "library FormattedJson() panics: " + p2 + "; "
			} else {
				lib.formatted = fix(f)
				if d, err := c17Decode(f); err != nil {
					lib.formatted = "\x00the library's formatted JSON does not parse: " + err.Error()
				} else if msg := c17CheckDoc(d, ms); msg != "" {
					lib.formatted = "\x00the library's formatted JSON does not carry the match data: " + msg
				}
			}
			lib.pr = fix(c18CapturePrint(ms))
		}
	}
	lib.ok = true
	return
}

// ---- classification of what the binary did ------------------------------------------------

var c18Msgs = []struct{ tag, text string }{
	{"noFilesArg", "Please supply some files to search O.O\n"},
	{"bothSrcCom", "Cannot use both a source file and a command at the same time.\n"},
	{"neitherSrcCom", "Must supply either a source file or a command.\n"},
	{"bothJson", "Can't output both json and formatted json to stdout.\n"},
	{"noFilesFound", "No files to search :(\n"},
	{"noMatches", "There were no matches :(\n"},
}

var c18CountRe = regexp.MustCompile(`^There were (\d+) matches :\)\n`)

func c18Stdout(s string, lib c18Lib) string {
	items := []string{}
	for len(s) > 0 {
		matched := false
		for _, m := range c18Msgs {
			if strings.HasPrefix(s, m.text) {
				items = append(items, "msg:"+m.tag)
				s = s[len(m.text):]
				matched = true
				break
			}
		}
		if matched {
			continue
		}
		if m := c18CountRe.FindStringSubmatch(s); m != nil {
			if n, _ := strconv.Atoi(m[1]); lib.ok && n == lib.n {
				items = append(items, "count")
				s = s[len(m[0]):]
				continue
			}
		}
		if lib.ok && lib.n > 0 {
			if lib.compact != "" && strings.HasPrefix(s, lib.compact+"\n") {
				items = append(items, "doc:compact")
				s = s[len(lib.compact)+1:]
				continue
			}
			if lib.formatted != "" && strings.HasPrefix(s, lib.formatted+"\n") {
				items = append(items, "doc:formatted")
				s = s[len(lib.formatted)+1:]
				continue
			}
			if lib.pr != "" && strings.HasPrefix(s, lib.pr) {
				items = append(items, "printed")
				s = s[len(lib.pr):]
				continue
			}
		}
		items = append(items, "junk")
		break
	}
	if len(items) == 0 {
		return "-"
	}
	return strings.Join(items, ",")
}

var c18FatalRe = regexp.MustCompile(`^\d{4}/\d{2}/\d{2} \d{2}:\d{2}:\d{2} \S`)

func c18Stderr(s string) string {
	switch {
	case s == "":
		return "none"
	case strings.Contains(s, "panic:") || strings.Contains(s, "goroutine 1 ["):
		return "panic"
	case strings.HasPrefix(s, "invalid value ") && strings.Contains(s, "Usage of "):
		return "flagError"
	case strings.HasPrefix(s, "  -com string\n"):
		return "usage"
	case c18FatalRe.MatchString(s):
		return "fatal"
	}
	return "other"
}

func c18FileState(given bool, name string, before, after map[string]string, lib c18Lib) string {
	if !given {
		return "notNamed"
	}
	b, bok := before[name]
	a, aok := after[name]
	switch {
	case bok == aok && a == b:
		return "untouched"
	case aok && lib.ok && lib.n > 0 && lib.compact != "" && a == lib.compact:
		return "holds:compact"
	case aok && lib.ok && lib.n > 0 && lib.formatted != "" && a == lib.formatted:
		return "holds:formatted"
	}
	return "garbled"
}

func c18Args(v c18Vec, prog string) []string {
	args := []string{}
	if v["com"] == "1" {
		args = append(args, "-com", prog)
	}
	if v["src"] == "1" {
		args = append(args, "-src", c18SrcFile)
	}
	if v["files"] != "absent" {
		args = append(args, "-files", c18Patterns[v["files"]])
	}
	if v["json"] == "1" {
		args = append(args, "-json")
	}
	if v["fjson"] == "1" {
		args = append(args, "-formatted-json")
	}
	if v["jf"] == "1" {
		args = append(args, "-json-file", c18JsonFile)
	}
	if v["fjf"] == "1" {
		args = append(args, "-formatted-json-file", c18FJsonFile)
	}
	if v["mode"] != "absent" {
		// the text handed to the flag: the three documented names as they are; "bogus"; an EMPTY value; a documented
		// name in lower case; the name of an engine mode that is not a mode of the tool
		text, special := map[string]string{"empty": "", "lower": "new", "confirm": "CONFIRM"}[v["mode"]]
		if !special {
			text = v["mode"]
		}
		args = append(args, "-replace-mode", text)
	}
	if v["noout"] == "1" {
		args = append(args, "-no-output")
	}
	return args
}

func c18Trunc(s string, n int) string {
	if len(s) > n {
		return s[:n]
	}
	return s
}

func opCli(fields []string) string {
	bin, v := unhx(fields[0]), c18ParseVec(unhx(fields[1]))
	set, _ := strconv.Atoi(v["set"])
	sc := c18Scenarios[set%len(c18Scenarios)]
	prog := c18Program(sc, v)
	base, err := os.MkdirTemp(os.TempDir(), "verif-c18-")
	if err != nil {
		return "HARNESS mkdtemp " + hx(err.Error())
	}
	defer os.RemoveAll(base)
	if strings.HasPrefix(base, "/repo") || strings.HasPrefix(base, "/verif") {
		return "HARNESS scratch directory inside /repo or /verif"
	}
	dir := filepath.Join(base, "run")
	if err := os.MkdirAll(dir, 0o755); err != nil {
		return "HARNESS " + hx(err.Error())
	}
	if err := c18Populate(dir, sc, v, prog); err != nil {
		return "HARNESS " + hx(err.Error())
	}
	before := c18Snapshot(dir)

	// the library on identical copies (only meaningful when the program compiles and files are selected)
	var lib c18Lib
	// (needed only for documented invocations: for the others the specification asks that nothing changed)
	documented := (v["com"] == "1") != (v["src"] == "1") && !(v["json"] == "1" && v["fjson"] == "1")
	if documented && v["prog"] != "failing" && v["files"] != "absent" && v["files"] != "noneMatching" && v["mode"] != "bogus" && v["mode"] != "lower" && v["mode"] != "confirm" {
		lib = c18RunLib(base, sc, v, prog, dir)
	}

	args := c18Args(v, prog)
	ctx, cancel := context.WithTimeout(context.Background(), 15*time.Second)
	defer cancel()
	cmd := exec.CommandContext(ctx, bin, args...)
	cmd.Dir = dir
	cmd.Env = []string{"PATH=/usr/bin:/bin", "HOME=" + base, "TMPDIR=" + base}
	var so, se bytes.Buffer
	cmd.Stdout, cmd.Stderr = &so, &se
	runErr := cmd.Run()
	exit := 0
	if runErr != nil {
		if ee, ok := runErr.(*exec.ExitError); ok {
			exit = ee.ExitCode()
		} else {
			return "HARNESS exec " + hx(runErr.Error())
		}
	}
	if ctx.Err() != nil {
		exit = -2
	}
	after := c18Snapshot(dir)
	stderrKind := c18Stderr(se.String())
	panicked := "0"
	if stderrKind == "panic" {
		panicked = "1"
	}
	rest0, rest1 := c18Without(before, c18JsonFile, c18FJsonFile), c18Without(after, c18JsonFile, c18FJsonFile)
	as := []string{}
	if lib.ok {
		for _, m := range []string{"new", "overwrite", "nothing"} {
			if c18SameSnap(rest1, lib.snaps[m]) {
				as = append(as, m)
			}
		}
	}
	asS := "-"
	if len(as) > 0 {
		asS = strings.Join(as, ",")
	}
	eqBefore := "0"
	if c18SameSnap(rest0, rest1) {
		eqBefore = "1"
	}
	obs := fmt.Sprintf("exit=%d panic=%s stdout=%s stderr=%s jf=%s fjf=%s eqBefore=%s as=%s", exit, panicked,
		c18Stdout(so.String(), lib), stderrKind,
		c18FileState(v["jf"] == "1", c18JsonFile, before, after, lib),
		c18FileState(v["fjf"] == "1", c18FJsonFile, before, after, lib), eqBefore, asS)
	libNote := "ok"
	if !lib.ok {
		libNote = "none"
	}
	if lib.note != "" {
		libNote = lib.note
	}
	return strings.Join([]string{
		"OBS " + obs,
		"ARGS " + hx(strings.Join(args, "\x00")),
		"FSDIFF " + c18Diff(before, after),
		"LIB " + hx(libNote),
		"N " + strconv.Itoa(lib.n),
		"STDOUT " + hx(c18Trunc(so.String(), 600)),
		"STDERR " + hx(c18Trunc(se.String(), 300)),
	}, "\t")
}

func init() {
	extraOps["cli"] = opCli
	leanCaseExtra["cli"] = func(c Case, impl string) (string, bool) {
		obs := ""
		for _, part := range strings.Split(impl, "\t") {
			if strings.HasPrefix(part, "OBS ") {
				obs = part[4:]
			}
		}
		if obs == "" {
			obs = "-"
		}
		return c.ID + "\tcli\t" + unhx(c.Fields[1]) + "\t" + obs, true
	}
	propGens["C18"] = func(r *rand.Rand, tier string, st *Stats) []Case {
		bin := os.Getenv("VERIF_CLI_BIN")
		if bin == "" {
			panic("VERIF_CLI_BIN is not set (checklib/prop_C18.py builds the CLI and sets it)")
		}
		cases := []Case{}
		b2 := []string{"0", "1"}
		i := 0
		for _, com := range b2 {
			for _, src := range b2 {
				for _, fs := range []string{"absent", "one", "several", "glob", "noneMatching"} {
					for _, js := range b2 {
						for _, fj := range b2 {
							for _, jf := range b2 {
								for _, fjf := range b2 {
									for _, mode := range []string{"absent", "NEW", "NOTHING", "OVERWRITE", "bogus", "empty", "lower", "confirm"} {
										for _, no := range b2 {
											for _, prog := range []string{"find", "replace", "failing"} {
												// the two extra scenario bits: quick tier draws them (seeded), thorough enumerates
												type hp struct{ hits, pre string }
												var extra []hp
												if tier == "thorough" {
													extra = []hp{{"1", "0"}, {"1", "1"}, {"0", "0"}, {"0", "1"}}
												} else {
													h := "1"
													if r.Intn(5) == 0 {
														h = "0"
													}
													extra = []hp{{h, b2[r.Intn(2)]}}
												}
												for _, e := range extra {
													set := r.Intn(len(c18Scenarios))
													vec := fmt.Sprintf("com=%s src=%s files=%s json=%s fjson=%s jf=%s fjf=%s mode=%s noout=%s prog=%s hits=%s pre=%s set=%d",
														com, src, fs, js, fj, jf, fjf, mode, no, prog, e.hits, e.pre, set)
													cases = append(cases, Case{ID: fmt.Sprintf("v%d", i), Op: "cli",
														Fields: []string{hx(bin), hx(vec)}, Meta: map[string]string{}})
													i++
													st.Features["files:"+fs]++
													st.Features["mode:"+mode]++
													st.Features["prog:"+prog]++
													st.Features["hits:"+e.hits]++
													st.Features["pre:"+e.pre]++
													st.Features[fmt.Sprintf("set:%d", set)]++
												}
											}
										}
									}
								}
							}
						}
					}
				}
			}
		}
		st.Counts["flag_vectors"] = 3200
		return cases
	}
}
