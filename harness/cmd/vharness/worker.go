package main

import (
	"bufio"
	"encoding/hex"
	"fmt"
	"os"
	"os/exec"
	"sort"
	"strings"
	"sync"
	"sync/atomic"
	"syscall"
	"time"

	"github.com/jmeaster30/vore/libvore"
	"github.com/jmeaster30/vore/libvore/ds"
	"github.com/jmeaster30/vore/libvore/engine"
)

// ---------------------------------------------------------------------------
// worker: runs the real code in-process, one case per line, one result per line.
// Every call into vore is wrapped in recover; a step budget (via the verif step
// hook) turns a spinning VM into DIVERGE. A hang or a crash of the whole process
// is handled by the parent (deadline + restart).
// ---------------------------------------------------------------------------

const stepBudget = 400000

type budgetExceeded struct{}

func hx(s string) string { return "x" + hex.EncodeToString([]byte(s)) }

func unhx(s string) string {
	if !strings.HasPrefix(s, "x") {
		panic("bad hex field " + s)
	}
	b, err := hex.DecodeString(s[1:])
	if err != nil {
		panic(err)
	}
	return string(b)
}

func canonValue(v engine.Value) string {
	switch x := v.(type) {
	case engine.ValueString:
		return "s:" + hx(x.Value)
	case engine.ValueHashMap:
		return "m:" + canonMap(x)
	}
	return fmt.Sprintf("?%T", v)
}

func canonMap(m engine.ValueHashMap) string {
	keys := m.Keys()
	sort.Strings(keys)
	parts := []string{}
	for _, k := range keys {
		v, _ := m.Get(k)
		parts = append(parts, k+"="+canonValue(v))
	}
	return "{" + strings.Join(parts, ",") + "}"
}

func canonMatch(m engine.Match) string {
	r := "-"
	if m.Replacement.HasValue() {
		r = "r" + hx(m.Replacement.GetValue())
	}
	return fmt.Sprintf("%d,%d,%d,%d,%d,%d,%d,%s,%s,%s", m.MatchNumber, m.Offset.Start, m.Offset.End,
		m.Line.Start, m.Line.End, m.Column.Start, m.Column.End, hx(m.Value), r, canonMap(m.Variables))
}

func canonMatches(ms engine.Matches) string {
	parts := []string{}
	for _, m := range ms {
		parts = append(parts, canonMatch(m))
	}
	return "OK " + strings.Join(parts, ";")
}

// safeCompile returns (program, "" ) or (nil, class) where class is ERR:<type> or PANIC
func safeCompile(src string) (v *libvore.Vore, class string) {
	defer func() {
		if r := recover(); r != nil {
			v = nil
			class = "PANIC " + hx(fmt.Sprint(r))
		}
	}()
	p, err := libvore.Compile(src)
	if err != nil {
		msg := err.Error()
		kind := "ERR"
		if i := strings.Index(msg, ":"); i > 0 {
			kind = msg[:i]
		}
		return nil, "ERR " + kind + " " + hx(msg)
	}
	return p, ""
}

func withBudget(f func() string) (out string) { return withBudgetN(f, 1) }

// withBudgetN: the step budget times n (a call that runs the program over n inputs)
func withBudgetN(f func() string, n int) (out string) {
	steps := 0
	engine.VerifStepHook = func(pc, pos, nbt, nloops, ncalls int) {
		steps++
		if steps > stepBudget*n {
			panic(budgetExceeded{})
		}
	}
	defer func() {
		engine.VerifStepHook = nil
		if r := recover(); r != nil {
			if _, ok := r.(budgetExceeded); ok {
				out = "DIVERGE"
			} else {
				out = "PANIC " + hx(fmt.Sprint(r))
			}
		}
	}()
	return f()
}

func safeRun(v *libvore.Vore, text string) string {
	return withBudget(func() string { return canonMatches(v.Run(text)) })
}

func opRun(fields []string) string {
	src, text := unhx(fields[0]), unhx(fields[1])
	v, class := safeCompile(src)
	if v == nil {
		return "COMPILE " + class
	}
	var res string
	if len(fields) == 3 && fields[2] == "viafile" {
		// the same program on a scratch FILE holding the text (RunFiles, mode NOTHING): the matches must be the same
		// located slices of the same bytes (C03, C09 quantify over files too)
		path, cleanup := c07Scratch([]byte(text))
		defer cleanup()
		res = withBudget(func() string {
			ms := v.RunFiles([]string{path}, engine.NOTHING, false)
			// the built-in `filename` is the scratch path here and "text" under Run: not a difference of the engine
			for i := range ms {
				if ms[i].Replacement.HasValue() {
					ms[i].Replacement = ds.Some(strings.ReplaceAll(ms[i].Replacement.GetValue(), path, "text"))
				}
			}
			return canonMatches(ms)
		})
	} else {
		res = safeRun(v, text)
	}
	return "AST " + v.VerifAst() + "\tCODE " + v.VerifBytecode() + "\tRES " + res
}

// opRunBig: like `run` with 50 times the step budget (20 M steps) — used to decide whether a DIVERGE of the
// ordinary budget is a search that is merely long (exponential backtracking) or one that does not end
func opRunBig(fields []string) string {
	src, text := unhx(fields[0]), unhx(fields[1])
	v, class := safeCompile(src)
	if v == nil {
		return "COMPILE " + class
	}
	return "RES " + withBudgetN(func() string { return canonMatches(v.Run(text)) }, 50)
}

// opTrace: step count and fingerprint of the real VM loop's step sequence (pc, offset, backtrack depth, loop
// depth, call depth per executed instruction) — the same FNV-style fold the Lean model computes (Model/Trace.lean)
func opTrace(fields []string) (out string) {
	src, text := unhx(fields[0]), unhx(fields[1])
	v, class := safeCompile(src)
	if v == nil {
		return "COMPILE " + class
	}
	n := 0
	h := uint64(1469598103934665603)
	mix := func(x int) { h = (h ^ uint64(x)) * 1099511628211 }
	engine.VerifStepHook = func(pc, pos, nbt, nloops, ncalls int) {
		n++
		if n > stepBudget {
			panic(budgetExceeded{})
		}
		mix(pc)
		mix(pos)
		mix(nbt)
		mix(nloops)
		mix(ncalls)
	}
	defer func() {
		engine.VerifStepHook = nil
		if r := recover(); r != nil {
			if _, ok := r.(budgetExceeded); ok {
				out = "AST " + v.VerifAst() + "\tTR DIVERGE"
			} else {
				out = "AST " + v.VerifAst() + "\tTR PANIC " + hx(fmt.Sprint(r))
			}
		}
	}()
	v.Run(text)
	return fmt.Sprintf("AST %s\tTR n=%d h=%d", v.VerifAst(), n, h)
}

func workerMain() {
	in := bufio.NewReaderSize(os.Stdin, 1<<20)
	out := bufio.NewWriter(os.Stdout)
	// debug output of the library (ParsePath prints, `debug` statements) must not
	// reach the protocol stream
	devnull, _ := os.OpenFile(os.DevNull, os.O_WRONLY, 0)
	realStdout := os.Stdout
	os.Stdout = devnull
	out = bufio.NewWriter(realStdout)
	for {
		line, err := in.ReadString('\n')
		if len(line) == 0 && err != nil {
			break
		}
		line = strings.TrimRight(line, "\n")
		parts := strings.Split(line, "\t")
		if len(parts) < 2 {
			fmt.Fprintln(out, "BADLINE")
			out.Flush()
			continue
		}
		id, op, fields := parts[0], parts[1], parts[2:]
		var res string
		func() {
			defer func() {
				if r := recover(); r != nil {
					res = "HARNESS-PANIC " + hx(fmt.Sprint(r))
				}
			}()
			res = dispatch(op, fields)
		}()
		fmt.Fprintln(out, id+"\t"+res)
		out.Flush()
	}
}

// ---------------------------------------------------------------------------
// parent: a pool of worker processes with per-case deadline and restart
// ---------------------------------------------------------------------------

type wproc struct {
	cmd *exec.Cmd
	in  *bufio.Writer
	out *bufio.Reader
}

func startWorker() (*wproc, error) {
	self, err := os.Executable()
	if err != nil {
		return nil, err
	}
	// a hard cap on the address space: a source like `exactly 99999999999 'a'` makes Compile allocate without
	// bound (recorded finding); the worker then dies with "out of memory" (= CRASH) instead of eating the machine
	cmd := exec.Command("/bin/sh", "-c", "ulimit -v 4000000; exec \"$0\" worker", self)
	cmd.Env = append(os.Environ(), "GOMEMLIMIT=1500MiB", "GOMAXPROCS=2")
	cmd.Stderr = nil
	cmd.SysProcAttr = &syscall.SysProcAttr{Setpgid: true}
	stdin, err := cmd.StdinPipe()
	if err != nil {
		return nil, err
	}
	stdout, err := cmd.StdoutPipe()
	if err != nil {
		return nil, err
	}
	if err := cmd.Start(); err != nil {
		return nil, err
	}
	return &wproc{cmd: cmd, in: bufio.NewWriter(stdin), out: bufio.NewReaderSize(stdout, 1<<20)}, nil
}

func (w *wproc) kill() {
	if w.cmd.Process != nil {
		syscall.Kill(-w.cmd.Process.Pid, syscall.SIGKILL)
		w.cmd.Process.Kill()
	}
	w.cmd.Wait()
}

type Case struct {
	ID     string
	Op     string
	Fields []string
	Meta   map[string]string // not sent to the worker: generator bookkeeping
}

func (c Case) line() string { return c.ID + "\t" + c.Op + "\t" + strings.Join(c.Fields, "\t") }

// adaptive: the deadline of one case in the pooled pass.  A tree in which something really spins can make hundreds
// of cases hang; waiting the full deadline for each would take hours, so after 16 hangs the deadline drops to 4 s
// and after 100 to 1 s.  Every HANG is re-examined by `finish` before it is believed, so a false HANG caused by the
// shorter deadline cannot become a verdict by itself.
func adaptive(deadline time.Duration, hangs *int64) time.Duration {
	n := atomic.LoadInt64(hangs)
	switch {
	case n >= 100 && deadline > time.Second:
		return time.Second
	case n >= 16 && deadline > 4*time.Second:
		return 4 * time.Second
	}
	return deadline
}

// runCases executes all cases on the real code, returning id -> result line (without id)
func runCases(cases []Case, nworkers int, deadline time.Duration) map[string]string {
	var hangs int64
	results := make(map[string]string, len(cases))
	var mu sync.Mutex
	ch := make(chan Case, len(cases))
	for _, c := range cases {
		ch <- c
	}
	close(ch)
	var wg sync.WaitGroup
	for i := 0; i < nworkers; i++ {
		wg.Add(1)
		go func() {
			defer wg.Done()
			var w *wproc
			defer func() {
				if w != nil {
					w.kill()
				}
			}()
			for c := range ch {
				if w == nil {
					var err error
					w, err = startWorker()
					if err != nil {
						panic(err)
					}
				}
				type resp struct {
					line string
					err  error
				}
				rc := make(chan resp, 1)
				ww := w
				go func() {
					_, err := ww.in.WriteString(c.line() + "\n")
					if err == nil {
						err = ww.in.Flush()
					}
					if err != nil {
						rc <- resp{"", err}
						return
					}
					l, err := ww.out.ReadString('\n')
					rc <- resp{l, err}
				}()
				var res string
				select {
				case r := <-rc:
					if r.err != nil {
						res = "CRASH"
						w.kill()
						w = nil
					} else {
						l := strings.TrimRight(r.line, "\n")
						if j := strings.Index(l, "\t"); j >= 0 && l[:j] == c.ID {
							res = l[j+1:]
						} else {
							res = "PROTOCOL " + l
						}
					}
				case <-time.After(adaptive(deadline, &hangs)):
					atomic.AddInt64(&hangs, 1)
					res = "HANG"
					w.kill()
					w = nil
				}
				mu.Lock()
				results[c.ID] = res
				mu.Unlock()
			}
		}()
	}
	wg.Wait()
	return results
}
