package main

import (
	"fmt"
	"math/rand"
	"strings"
)

// bind-then-fail templates (C02): an alternative binds a name and is then abandoned, under
// optional / repeated groups, named loops (nested maps) and unnamed loops above named ones.

func bindFailSource(r *rand.Rand, st *Stats) (string, []string) {
	lit := func() string { return alphabet[r.Intn(len(alphabet))] }
	classes := []string{"digit", "letter", "lower", "any", "'a'", "'b'"}
	a := classes[r.Intn(len(classes))]
	b, c := "'x'", "'y'"
	if r.Intn(3) == 0 {
		b, c = quote(lit()), quote(lit()+lit())
	}
	v := fmt.Sprintf("d%d", r.Intn(3))
	var core string
	switch r.Intn(4) {
	case 0:
		core = fmt.Sprintf("(%s = %s %s) or (%s %s)", a, v, b, a, c)
	case 1:
		core = fmt.Sprintf("((%s = %s) %s) or ((%s = %s) %s) or %s", a, v, b, a, v, c, a)
	case 2:
		core = fmt.Sprintf("(maybe (%s = %s) %s) or (%s %s)", a, v, b, a, c)
	default:
		core = fmt.Sprintf("(%s = %s (%s or %s) %s) or (%s %s)", a, v, b, c, b, a, c)
	}
	sep := []string{"';'", "' '", "''", "line end"}[r.Intn(4)]
	if sep == "''" {
		sep = "';'"
	}
	k := fmt.Sprintf("k%d", r.Intn(2))
	opt := []string{"maybe", "at least 0", "at most 2", "between 0 and 1"}[r.Intn(4)]
	var body string
	kind := r.Intn(8)
	switch kind {
	case 0:
		body = core
		st.Features["bf-plain"]++
	case 1:
		body = fmt.Sprintf("%s (%s) %s", opt, core, sep)
		st.Features["bf-optional"]++
	case 2:
		body = fmt.Sprintf("at least 1 ((%s) %s)", core, sep)
		st.Features["bf-loop"]++
	case 3:
		body = fmt.Sprintf("at least 1 ((%s) %s) named lp", core, sep)
		st.Features["bf-named"]++
	case 4:
		body = fmt.Sprintf("at least 1 (letter = %s %s (%s) %s) named lp", k, opt, core, sep)
		st.Features["bf-named-over-unnamed"]++
	case 5:
		body = fmt.Sprintf("at least 1 (%s (at least 1 (%s = %s) named inner %s) %s) named outer", opt, a, v, b, sep)
		st.Features["bf-nested-named"]++
	case 6:
		body = fmt.Sprintf("at least 1 ((%s) %s) fewest named lp %s", core, sep, c)
		st.Features["bf-named-fewest"]++
	default:
		body = fmt.Sprintf("at least 1 (at least 0 (letter = %s %s (%s)) %s) named lp", k, opt, core, sep)
		st.Features["bf-named-deep"]++
	}
	src := "find all " + body
	if r.Intn(4) == 0 {
		src = "replace all " + body + " with '<' " + v + " '>'"
	}
	lits := []string{"1", "2", "3", "a", "b", "x", "y", ";", " ", "\n", "1x;", "2y;", "a1y;", "b2x;", "c;", "12", "123;"}
	_ = strings.Join
	return src, lits
}

func bindFailCases(r *rand.Rand, st *Stats, n int, prefix string) []Case {
	cases := []Case{}
	for i := 0; i < n; i++ {
		src, lits := bindFailSource(r, st)
		for j := 0; j < 4; j++ {
			text := GenText(r, lits, 14)
			cases = append(cases, Case{ID: fmt.Sprintf("%s%d.%d", prefix, i, j), Op: "run",
				Fields: []string{hx(src), hx(text)}, Meta: map[string]string{}})
		}
	}
	return cases
}

// re-entrant captures (C02): a binding that is opened again while it is still open — it encloses a recursive call of
// the subroutine it lives in, or a reference to a global pattern that binds the same name — with text matched BEFORE
// the outermost binding opens (so "the binding starts where the match starts" cannot hide a wrong start offset).
func reentrantCases(r *rand.Rand, st *Stats, n int, prefix string) []Case {
	cases := []Case{}
	for i := 0; i < n; i++ {
		pi := r.Intn(5)
		p := []string{"'x'", "'xy'", "digit", "at least 1 'z'", "'-' '-'"}[pi]
		psample := []string{"x", "xy", "7", "zz", "--"}[pi]
		o, c := "'a'", "'b'"
		os, cs := "a", "b"
		if r.Intn(3) == 0 {
			o, c = "'('", "')'"
			os, cs = "(", ")"
		}
		var body string
		switch i % 7 {
		case 0:
			body = fmt.Sprintf("%s {(%s maybe s %s) = v} = s", p, o, c)
		case 1:
			body = fmt.Sprintf("%s {(%s maybe s %s) = v} = s '-' v", p, o, c)
		case 2:
			body = fmt.Sprintf("%s {(%s (s or 'm') %s) = v} = s", p, o, c)
		case 3:
			body = fmt.Sprintf("%s {at least 1 ((%s maybe s %s) = g)} = s", p, o, c)
		case 4:
			body = fmt.Sprintf("%s {%s ((maybe s) = inner) %s} = s maybe ('=' inner)", p, o, c)
		case 5:
			body = fmt.Sprintf("%s {(%s maybe (s s) %s) = v} = s", p, o, c)
		default:
			body = fmt.Sprintf("%s {((%s = h) maybe s %s) = v} = s h", p, o, c)
		}
		src := "find all " + body
		if i%14 >= 7 {
			// the same shape through a global pattern that binds the name the command has open
			src = fmt.Sprintf("set q to pattern (%s = v) maybe %s\nfind all %s ((q %s) = v)", o, c, p, c)
			if r.Intn(2) == 0 {
				src += " '-' v"
			}
		}
		st.Features[fmt.Sprintf("reentrant-%d", i%14)]++
		lits := []string{"x", "xy", "z", "7", "--", "a", "b", "ab", "aabb", "aaabbb", "(", ")", "(())", "m", "amb", "-", "=", "aabb-aabb", "ab-ab", " "}
		for j := 0; j < 4; j++ {
			text := GenText(r, lits, 10)
			if j < 3 {
				// a text the shape matches: prefix, k nested pairs, and what the suffix of the shape asks for
				k := 1 + r.Intn(3)
				nest := strings.Repeat(os, k) + strings.Repeat(cs, k)
				text = []string{"", " ", cs}[r.Intn(3)] + psample + nest + []string{"", "-" + nest, "=" + nest, os, "-" + os + cs, nest}[r.Intn(6)] + " " + psample + os + cs + cs
			}
			cases = append(cases, Case{ID: fmt.Sprintf("%s%d.%d", prefix, i, j), Op: "run",
				Fields: []string{hx(src), hx(text)}, Meta: map[string]string{}})
		}
	}
	return cases
}

// bindings of an attempt that FAILED at an earlier start offset (C02): the last path tried there completes a binding
// (right side of an `or`, an optional group, a lazy loop's body), the attempt fails as a whole, and a later start
// offset matches along a path that does not bind the name — the match must not report it, a back-reference to it
// must not match.  Texts are built so that the failing occurrence comes first and nothing is reported in between.
func staleBindingCases(r *rand.Rand, st *Stats, n int, prefix string) []Case {
	cases := []Case{}
	for i := 0; i < n; i++ {
		v := fmt.Sprintf("d%d", r.Intn(2))
		term := []string{"'!'", "'-'", "';'"}[r.Intn(3)]
		termS := strings.Trim(term, "'")
		var body, failing, matching string
		switch i % 6 {
		case 0: // binding on the right of an or
			body = fmt.Sprintf("(letter or (digit = %s)) %s", v, term)
			failing, matching = "1?", "a"+termS
		case 1: // … with a back-reference after it
			body = fmt.Sprintf("('x' or (digit = %s)) %s %s", v, term, v)
			failing, matching = "1+", "x"+termS+"1"
		case 2: // optional group tried after the empty path failed? no: greedy maybe binds first, then fails, then skips
			body = fmt.Sprintf("'a' maybe (digit = %s) fewest %s", v, term)
			failing, matching = "a7?", "a"+termS
		case 3: // lazy loop body binds, then the attempt fails
			body = fmt.Sprintf("'a' at least 0 (letter = %s) fewest %s", v, term)
			failing, matching = "abc?", "a"+termS
		case 4: // named loop: the stale value would be a table
			body = fmt.Sprintf("'a' (at least 0 (digit = %s) fewest named lp) %s", v, term)
			failing, matching = "a12?", "a"+termS
		default: // two names, one rebound by the match, one not
			body = fmt.Sprintf("((letter = k) or (digit = %s)) %s", v, term)
			failing, matching = "1?", "a"+termS
		}
		st.Features[fmt.Sprintf("stale-binding-%d", i%6)]++
		src := "find all " + body
		if r.Intn(4) == 0 {
			src = "replace all " + body + " with '<' " + v + " '>'"
		}
		gaps := []string{" ", "", "\n", "  "}
		texts := []string{
			failing + gaps[r.Intn(len(gaps))] + matching,
			failing + failing + " " + matching + " " + matching,
			matching + " " + failing + " " + matching,
			failing,
		}
		for j, text := range texts {
			cases = append(cases, Case{ID: fmt.Sprintf("%s%d.%d", prefix, i, j), Op: "run",
				Fields: []string{hx(src), hx(text)}, Meta: map[string]string{}})
		}
	}
	return cases
}

// ambiguous bindings read by a back-reference (C02): two paths reach the same instruction at the same offset with
// DIFFERENT text bound to the name (a variable-length piece after the binding compensates for the binding's length),
// the first one fails later, the second one is the match.  Exhaustive over shapes x pieces x ends x text lengths.
func ambiguousBackrefCases(st *Stats, prefix string) []Case {
	cases := []Case{}
	i := 0
	for _, p := range []string{"a", "ab"} {
		P, PP := quote(p), quote(p+p)
		for _, end := range []string{"file end", "'!'", ""} {
			shapes := []string{
				fmt.Sprintf("(%s or %s) = x (%s or %s) x %s", P, PP, PP, P, end),
				fmt.Sprintf("(%s or %s) = x (%s or %s) x %s", PP, P, P, PP, end),
				fmt.Sprintf("file start (at least 0 %s fewest) = x (at most 1 %s) x x %s", P, P, end),
				fmt.Sprintf("((%s or %s) = x) ((%s or %s) = y) x y %s", P, PP, P, PP, end),
				fmt.Sprintf("(maybe %s) = x (maybe %s) x %s %s", P, P, P, end),
				fmt.Sprintf("(at most 2 %s) = x (at least 0 %s fewest) x %s", P, P, end),
				fmt.Sprintf("(at least 1 %s fewest) = x at most 2 (%s) x %s", P, P, end),
			}
			for si, body := range shapes {
				for k := 1; k <= 7; k++ {
					text := strings.Repeat(p, k)
					if end == "'!'" {
						text += "!"
					}
					for _, pre := range []string{"", "z"} {
						i++
						st.Features[fmt.Sprintf("ambiguous-backref-%d", si)]++
						cases = append(cases, Case{ID: fmt.Sprintf("%s%d", prefix, i), Op: "run",
							Fields: []string{hx("find all " + body), hx(pre + text)}, Meta: map[string]string{}})
					}
				}
			}
		}
	}
	return cases
}

// where a binding lands when named loops are open (C02): bindings in later iterations of a lazy named loop, after a
// named loop inside a later unnamed loop / optional group, between nested named loops, after backtracking out of an
// inner named loop — the table a `= name` writes to must be that of the innermost named loop OPEN ON THAT PATH.
func namedScopeCases(st *Stats, prefix string) []Case {
	shapes := []string{
		"at least 1 (letter = c) fewest named L '!'",
		"at least 1 (letter = c) named L '!'",
		"(at least 1 (digit = d) named L) maybe (letter = c)",
		"(at least 1 (digit = d) named L) at least 0 (letter = c)",
		"at least 1 ((at least 1 digit named inner) (letter = c)) named outer",
		"at least 1 ((at least 1 (digit = d) named inner) (letter = c)) named outer",
		"at least 1 ((at least 0 (digit = d) fewest named inner) (letter = c)) fewest named outer '!'",
		"(at least 1 ((letter = c) or (digit = d)) named L) (any = e)",
		"at least 1 (maybe (at least 1 (digit = d) named inner) (letter = c)) named outer",
		"(at least 1 (letter = c) named A) (at least 1 (digit = d) named B) maybe ('!' = e)",
		"at least 1 ((letter = c) at most 2 (digit = d)) named L maybe ('!' = e)",
	}
	texts := []string{"ab!", "12a", "1a22b", "a1b22c!", "ab1!", "12", "a!", "1a2b3c!x", "abc", "a12b!"}
	cases := []Case{}
	i := 0
	for si, sh := range shapes {
		for _, text := range texts {
			for _, kind := range []string{"find all ", "replace all "} {
				i++
				src := kind + sh
				if kind == "replace all " {
					src += " with '<' c '>'"
				}
				st.Features[fmt.Sprintf("named-scope-%d", si)]++
				cases = append(cases, Case{ID: fmt.Sprintf("%s%d", prefix, i), Op: "run",
					Fields: []string{hx(src), hx(text)}, Meta: map[string]string{}})
			}
		}
	}
	return cases
}
