package main

// C14 — a regex literal finds what that regular expression finds.
//
// Streams (propGens["C14"]):
//
//	c14      one regular expression of the supported subset (as a tree, and printed as the body
//	         of a regex literal) x several short ASCII texts without \r and \f.  Real side: the
//	         tree the real front end builds for `find all @/re/` (VerifParse), Compile, Run on
//	         every text (spans + variables), and the ARBITER: Go's regexp package
//	         (leftmost-first) evaluated position by position on the same text (see c14Arbiter).
//	         Lean side (driver op `c14`): RegexParser.parse of the pattern against the real tree
//	         and against Re.toExpr, Regex.findAll on every text (the arbiter when the regex has
//	         back-references, which Go's regexp does not support), Spec.findAll of the tree.
//	reparse  arbitrary bytes as the lexeme of a REGEXP token through the real sub-parser
//	         (VerifParseRegexp) and, when the bytes can stand between `@/` and `/`, through the
//	         whole Compile: no panic, no hang, accept/reject (and tree) equal to the model.
//
// Every random choice comes from the *rand.Rand handed to the generator.

import (
	"fmt"
	"math/rand"
	"regexp"
	"sort"
	"strconv"
	"strings"
	"time"

	"github.com/jmeaster30/vore/libvore"
	"github.com/jmeaster30/vore/libvore/ast"
)

// ---------------------------------------------------------------------------
// regex trees
// ---------------------------------------------------------------------------

type c14Item struct {
	rng    bool
	lo, hi byte
}

type c14Re struct {
	k     byte // E S C . ^ $ D W K G N M B R Q A
	c     byte
	neg   bool
	items []c14Item
	n     int
	name  string
	a, b  *c14Re
	qk    byte // * + ? e l b
	qm    int
	qn    int
	lazy  bool
}

func b01(b bool) string {
	if b {
		return "1"
	}
	return "0"
}

// prefix encoding understood by the Lean driver (Vore/Driver/OpsC14.lean)
func (r *c14Re) enc(sb *strings.Builder) {
	switch r.k {
	case 'E':
		sb.WriteString("E ")
	case 'S', 'A':
		sb.WriteByte(r.k)
		sb.WriteByte(' ')
		r.a.enc(sb)
		r.b.enc(sb)
	case 'C':
		fmt.Fprintf(sb, "C %d ", r.c)
	case '.', '^', '$':
		sb.WriteByte(r.k)
		sb.WriteByte(' ')
	case 'D', 'W':
		fmt.Fprintf(sb, "%c %s ", r.k, b01(r.neg))
	case 'K':
		fmt.Fprintf(sb, "K %s %d ", b01(r.neg), len(r.items))
		for _, it := range r.items {
			if it.rng {
				fmt.Fprintf(sb, "r%d-%d ", it.lo, it.hi)
			} else {
				fmt.Fprintf(sb, "s%d ", it.lo)
			}
		}
	case 'G':
		fmt.Fprintf(sb, "G %d ", r.n)
		r.a.enc(sb)
	case 'N':
		sb.WriteString("N ")
		r.a.enc(sb)
	case 'M':
		fmt.Fprintf(sb, "M %s ", hx(r.name))
		r.a.enc(sb)
	case 'B':
		fmt.Fprintf(sb, "B %d ", r.n)
	case 'R':
		fmt.Fprintf(sb, "R %s ", hx(r.name))
	case 'Q':
		fmt.Fprintf(sb, "Q %c %d %d %s ", r.qk, r.qm, r.qn, b01(r.lazy))
		r.a.enc(sb)
	}
}

func (r *c14Re) encode() string {
	var sb strings.Builder
	r.enc(&sb)
	return strings.TrimRight(sb.String(), " ")
}

const c14Special = "^$\\.*+?()[]{}|"

func (r *c14Re) quantText() string {
	s := ""
	switch r.qk {
	case '*', '+', '?':
		s = string(r.qk)
	case 'e':
		s = fmt.Sprintf("{%d}", r.qm)
	case 'l':
		s = fmt.Sprintf("{%d,}", r.qm)
	case 'b':
		s = fmt.Sprintf("{%d,%d}", r.qm, r.qn)
	}
	if r.lazy {
		s += "?"
	}
	return s
}

// the body of the vore regex literal (conventional syntax; independent re-implementation of
// Re.show — the Lean side checks that both agree)
func (r *c14Re) show(sb *strings.Builder) {
	switch r.k {
	case 'E':
	case 'S':
		r.a.show(sb)
		r.b.show(sb)
	case 'A':
		r.a.show(sb)
		sb.WriteByte('|')
		r.b.show(sb)
	case 'C':
		if strings.IndexByte(c14Special, r.c) >= 0 {
			sb.WriteByte('\\')
		}
		sb.WriteByte(r.c)
	case '.', '^', '$':
		sb.WriteByte(r.k)
	case 'D':
		if r.neg {
			sb.WriteString("\\D")
		} else {
			sb.WriteString("\\d")
		}
	case 'W':
		if r.neg {
			sb.WriteString("\\S")
		} else {
			sb.WriteString("\\s")
		}
	case 'K':
		sb.WriteByte('[')
		if r.neg {
			sb.WriteByte('^')
		}
		for _, it := range r.items {
			sb.WriteByte(it.lo)
			if it.rng {
				sb.WriteByte('-')
				sb.WriteByte(it.hi)
			}
		}
		sb.WriteByte(']')
	case 'G':
		sb.WriteByte('(')
		r.a.show(sb)
		sb.WriteByte(')')
	case 'N':
		sb.WriteString("(?:")
		r.a.show(sb)
		sb.WriteByte(')')
	case 'M':
		sb.WriteString("(?<" + r.name + ">")
		r.a.show(sb)
		sb.WriteByte(')')
	case 'B':
		fmt.Fprintf(sb, "\\%d", r.n)
	case 'R':
		sb.WriteString("\\k<" + r.name + ">")
	case 'Q':
		r.a.show(sb)
		sb.WriteString(r.quantText())
	}
}

func (r *c14Re) pattern() string {
	var sb strings.Builder
	r.show(&sb)
	return sb.String()
}

func c14GoClassByte(sb *strings.Builder, c byte) {
	if (c >= '0' && c <= '9') || (c >= 'a' && c <= 'z') || (c >= 'A' && c <= 'Z') {
		sb.WriteByte(c)
	} else {
		fmt.Fprintf(sb, "\\x%02x", c)
	}
}

// the same expression in Go regexp syntax; caps collects, in Go's group order, the vore name
// of every capturing group (`_n` for the n-th unnamed one)
func (r *c14Re) goSyntax(sb *strings.Builder, caps *[]string) {
	switch r.k {
	case 'E':
	case 'S':
		r.a.goSyntax(sb, caps)
		r.b.goSyntax(sb, caps)
	case 'A':
		sb.WriteString("(?:")
		r.a.goSyntax(sb, caps)
		sb.WriteByte('|')
		r.b.goSyntax(sb, caps)
		sb.WriteByte(')')
	case 'C':
		sb.WriteString(regexp.QuoteMeta(string([]byte{r.c})))
	case '.', '^', '$':
		sb.WriteByte(r.k)
	case 'D':
		if r.neg {
			sb.WriteString("[^0-9]")
		} else {
			sb.WriteString("[0-9]")
		}
	case 'W':
		if r.neg {
			sb.WriteString("[^ \\t\\n\\r\\f]")
		} else {
			sb.WriteString("[ \\t\\n\\r\\f]")
		}
	case 'K':
		sb.WriteByte('[')
		if r.neg {
			sb.WriteByte('^')
		}
		for _, it := range r.items {
			c14GoClassByte(sb, it.lo)
			if it.rng {
				sb.WriteByte('-')
				c14GoClassByte(sb, it.hi)
			}
		}
		sb.WriteByte(']')
	case 'G':
		*caps = append(*caps, fmt.Sprintf("_%d", r.n))
		sb.WriteByte('(')
		r.a.goSyntax(sb, caps)
		sb.WriteByte(')')
	case 'N':
		sb.WriteString("(?:")
		r.a.goSyntax(sb, caps)
		sb.WriteByte(')')
	case 'M':
		*caps = append(*caps, r.name)
		sb.WriteString("(?P<" + r.name + ">")
		r.a.goSyntax(sb, caps)
		sb.WriteByte(')')
	case 'Q':
		r.a.goSyntax(sb, caps)
		sb.WriteString(r.quantText())
	case 'B', 'R':
		sb.WriteString("(?:BACKREF)")
	}
}

func (r *c14Re) hasBackref() bool {
	switch r.k {
	case 'B', 'R':
		return true
	case 'S', 'A':
		return r.a.hasBackref() || r.b.hasBackref()
	case 'G', 'N', 'M', 'Q':
		return r.a.hasBackref()
	}
	return false
}

func (r *c14Re) nullable() bool {
	switch r.k {
	case 'E', '^', '$', 'B', 'R':
		return true
	case 'S':
		return r.a.nullable() && r.b.nullable()
	case 'A':
		return r.a.nullable() || r.b.nullable()
	case 'G', 'N', 'M':
		return r.a.nullable()
	case 'Q':
		return r.qminimum() == 0 || r.a.nullable()
	}
	return false
}

func (r *c14Re) qminimum() int {
	switch r.qk {
	case '+':
		return 1
	case 'e', 'l', 'b':
		return r.qm
	}
	return 0
}

// a capturing group below a quantifier whose minimum is >= 1 (GenError "name clash" before
// fixes/C14-group-under-quantifier.diff)
func (r *c14Re) groupUnderMin1(under bool) bool {
	switch r.k {
	case 'S', 'A':
		return r.a.groupUnderMin1(under) || r.b.groupUnderMin1(under)
	case 'G', 'M':
		return under || r.a.groupUnderMin1(under)
	case 'N':
		return r.a.groupUnderMin1(under)
	case 'Q':
		// the body is generated min times, plus once more unless the count is exact
		copies := r.qminimum()
		if r.qk != 'e' {
			copies++
		}
		return r.a.groupUnderMin1(under || copies >= 2)
	}
	return false
}

func (r *c14Re) features(f map[string]int, depth int) {
	if depth > f["maxdepth"] {
		f["maxdepth"] = depth
	}
	switch r.k {
	case 'S':
		r.a.features(f, depth)
		r.b.features(f, depth)
	case 'A':
		f["alt"]++
		if r.a.k == 'Q' || r.b.k == 'Q' {
			f["quantified-arm"]++
		}
		if r.a.k == 'G' || r.a.k == 'N' || r.a.k == 'M' || r.b.k == 'G' || r.b.k == 'N' || r.b.k == 'M' {
			f["group-arm"]++
		}
		r.a.features(f, depth)
		r.b.features(f, depth)
	case 'C':
		f["chr"]++
		if strings.IndexByte(c14Special, r.c) >= 0 {
			f["escaped-chr"]++
		}
	case '.':
		f["dot"]++
	case '^':
		f["bol"]++
	case '$':
		f["eol"]++
	case 'D':
		f["digit"+b01(r.neg)]++
	case 'W':
		f["space"+b01(r.neg)]++
	case 'K':
		f["class"+b01(r.neg)]++
		for _, it := range r.items {
			if it.rng {
				f["class-range"]++
			}
		}
	case 'G':
		f["group"]++
		r.a.features(f, depth+1)
	case 'N':
		f["ncgroup"]++
		r.a.features(f, depth+1)
	case 'M':
		f["named"]++
		r.a.features(f, depth+1)
	case 'B':
		f["backref"]++
	case 'R':
		f["backref-named"]++
	case 'Q':
		f["quant"+string(r.qk)]++
		if r.lazy {
			f["lazy"]++
		}
		if r.a.k == 'G' || r.a.k == 'N' || r.a.k == 'M' {
			f["quantified-group"]++
			if c14HasAlt(r.a.a) {
				f["alt-in-quantified-group"]++
			}
		}
		r.a.features(f, depth)
	}
}

func c14HasAlt(r *c14Re) bool {
	switch r.k {
	case 'A':
		return true
	case 'S':
		return c14HasAlt(r.a) || c14HasAlt(r.b)
	case 'G', 'N', 'M', 'Q':
		return c14HasAlt(r.a)
	}
	return false
}

// ---------------------------------------------------------------------------
// generator
// ---------------------------------------------------------------------------

type c14Gen struct {
	r       *rand.Rand
	groups  int      // unnamed groups opened so far
	names   int      // named groups opened so far
	closedN []int    // numbers of the unnamed groups already closed
	closedM []string // names of the named groups already closed
	budget  int      // remaining nodes
}

var c14Chars = []byte("aaaabbbccx1 \n-.*?")
var c14ClassChars = []byte("abcd019 x")

func (g *c14Gen) seqOf(items []*c14Re) *c14Re {
	out := &c14Re{k: 'E'}
	for i := len(items) - 1; i >= 0; i-- {
		out = &c14Re{k: 'S', a: items[i], b: out}
	}
	return out
}

func (g *c14Gen) atom(depth int) *c14Re {
	g.budget--
	x := g.r.Intn(100)
	switch {
	case x < 34:
		return &c14Re{k: 'C', c: c14Chars[g.r.Intn(len(c14Chars))]}
	case x < 41:
		return &c14Re{k: '.'}
	case x < 46:
		return &c14Re{k: 'D', neg: g.r.Intn(3) == 0}
	case x < 51:
		return &c14Re{k: 'W', neg: g.r.Intn(3) == 0}
	case x < 60:
		n := 1 + g.r.Intn(3)
		its := []c14Item{}
		for i := 0; i < n; i++ {
			if g.r.Intn(3) == 0 {
				lo := []byte("ab0")[g.r.Intn(3)]
				its = append(its, c14Item{rng: true, lo: lo, hi: lo + byte(g.r.Intn(4))})
			} else {
				its = append(its, c14Item{lo: c14ClassChars[g.r.Intn(len(c14ClassChars))]})
			}
		}
		return &c14Re{k: 'K', neg: g.r.Intn(3) == 0, items: its}
	case x < 80 && (len(g.closedN) > 0 || len(g.closedM) > 0):
		if len(g.closedM) > 0 && (len(g.closedN) == 0 || g.r.Intn(2) == 0) {
			return &c14Re{k: 'R', name: g.closedM[g.r.Intn(len(g.closedM))]}
		}
		return &c14Re{k: 'B', n: g.closedN[g.r.Intn(len(g.closedN))]}
	case depth > 0 && g.budget > 0:
		y := g.r.Intn(10)
		switch {
		case y < 5:
			g.groups++
			n := g.groups
			body := g.body(depth-1, false)
			g.closedN = append(g.closedN, n)
			return &c14Re{k: 'G', n: n, a: body}
		case y < 8:
			return &c14Re{k: 'N', a: g.body(depth-1, false)}
		default:
			g.names++
			name := []string{"x", "y1", "Zed", "n", "q2"}[(g.names-1)%5]
			if g.names > 5 {
				name += strconv.Itoa(g.names)
			}
			body := g.body(depth-1, false)
			g.closedM = append(g.closedM, name)
			return &c14Re{k: 'M', name: name, a: body}
		}
	}
	return &c14Re{k: 'C', c: c14Chars[g.r.Intn(len(c14Chars))]}
}

func (r *c14Re) hasCapture() bool {
	switch r.k {
	case 'G', 'M':
		return true
	case 'S', 'A':
		return r.a.hasCapture() || r.b.hasCapture()
	case 'N', 'Q':
		return r.a.hasCapture()
	}
	return false
}

// A count whose maximum is 0 (`{0}`, `{0,0}`) is not put on an atom that contains a capturing
// group: generateLoop emits no code at all for such a loop, so the group is never declared and a
// later back-reference to it is a GenError ("identifier '_1' is not defined"), where a
// conventional engine has a group that never takes part.  Outside the generated domain; noted in
// the builder's report.
func (g *c14Gen) quant(a *c14Re) *c14Re {
	q := &c14Re{k: 'Q', a: a, lazy: g.r.Intn(4) == 0}
	lowest := 0
	if a.hasCapture() {
		lowest = 1
	}
	if a.nullable() {
		// only an exact count may repeat a body that can match the empty string
		q.qk, q.qm = 'e', lowest+g.r.Intn(3-lowest)
		return q
	}
	switch g.r.Intn(9) {
	case 0, 1:
		q.qk = '*'
	case 2, 3:
		q.qk = '+'
	case 4:
		q.qk = '?'
	case 5:
		q.qk, q.qm = 'e', lowest+g.r.Intn(4-lowest)
	case 6:
		q.qk, q.qm = 'l', g.r.Intn(3)
	default:
		q.qk, q.qm = 'b', g.r.Intn(3)
		q.qn = q.qm + g.r.Intn(3)
		if q.qn < lowest {
			q.qn = lowest
		}
	}
	return q
}

func (g *c14Gen) item(depth int) *c14Re {
	x := g.r.Intn(100)
	if x < 6 {
		g.budget--
		return &c14Re{k: '^'}
	}
	if x < 12 {
		g.budget--
		return &c14Re{k: '$'}
	}
	a := g.atom(depth)
	if g.r.Intn(100) < 38 {
		g.budget--
		return g.quant(a)
	}
	return a
}

func c14StartsWithDigit(r *c14Re) bool {
	p := r.pattern()
	return p != "" && p[0] >= '0' && p[0] <= '9'
}

func (g *c14Gen) body(depth int, top bool) *c14Re {
	if g.r.Intn(100) < 22 && g.budget > 1 {
		// one alternation of single items
		n := 2 + g.r.Intn(2)
		arms := []*c14Re{}
		for i := 0; i < n; i++ {
			arms = append(arms, g.item(depth))
		}
		alt := arms[n-1]
		for i := n - 2; i >= 0; i-- {
			alt = &c14Re{k: 'A', a: arms[i], b: alt}
		}
		g.budget--
		return g.seqOf([]*c14Re{alt})
	}
	n := g.r.Intn(4)
	if top {
		n = 1 + g.r.Intn(4)
	}
	items := []*c14Re{}
	for i := 0; i < n && (g.budget > 0 || i == 0); i++ {
		it := g.item(depth)
		for tries := 0; len(items) > 0 && items[len(items)-1].k == 'B' && items[len(items)-1].n < 10 && c14StartsWithDigit(it) && tries < 20; tries++ {
			it = &c14Re{k: 'C', c: 'a'}
		}
		items = append(items, it)
	}
	return g.seqOf(items)
}

func c14GenRe(r *rand.Rand, depth, budget int) *c14Re {
	g := &c14Gen{r: r, budget: budget}
	return g.body(depth, true)
}

// literal bytes of the pattern, for building texts that have a chance to match
func (r *c14Re) alphabet(set map[byte]bool) {
	switch r.k {
	case 'C':
		set[r.c] = true
	case 'K':
		for _, it := range r.items {
			set[it.lo] = true
			if it.rng {
				set[it.hi] = true
				set[it.lo+(it.hi-it.lo)/2] = true
			}
		}
	case 'D':
		set['1'] = true
		set['7'] = true
	case 'W':
		set[' '] = true
		set['\n'] = true
		set['\t'] = true
		// bytes that are white space to OTHER definitions (C isspace, unicode.IsSpace) but not to \s of the reference
		// engine nor to the `whitespace` class: vertical tab, the information separators
		set['\v'] = true
		set[0x1c] = true
		set[0x1f] = true
	case '^', '$':
		set['\n'] = true
	case 'S', 'A':
		r.a.alphabet(set)
		r.b.alphabet(set)
	case 'G', 'N', 'M', 'Q':
		r.a.alphabet(set)
	}
}

func c14Texts(r *rand.Rand, re *c14Re, n, maxLen int) []string {
	set := map[byte]bool{}
	re.alphabet(set)
	alpha := []byte{}
	for c := range set {
		if c != '\r' && c != '\f' && c != 0 && c < 128 {
			alpha = append(alpha, c)
		}
	}
	sort.Slice(alpha, func(i, j int) bool { return alpha[i] < alpha[j] })
	if len(alpha) == 0 {
		alpha = []byte("a")
	}
	extra := []byte("ab \n1z")
	seen := map[string]bool{}
	out := []string{}
	for tries := 0; len(out) < n && tries < 4*n; tries++ {
		l := r.Intn(maxLen + 1)
		b := make([]byte, l)
		for i := range b {
			if r.Intn(6) == 0 {
				b[i] = extra[r.Intn(len(extra))]
			} else {
				b[i] = alpha[r.Intn(len(alpha))]
			}
		}
		// repeat a chunk now and then: back-references need repeated text
		if l >= 4 && r.Intn(3) == 0 {
			h := l / 2
			copy(b[h:], b[:l-h])
		}
		s := string(b)
		if !seen[s] {
			seen[s] = true
			out = append(out, s)
		}
	}
	return out
}

// ---------------------------------------------------------------------------
// exhaustive small regexes (thorough tier)
// ---------------------------------------------------------------------------

func c14SmallAtoms() []*c14Re {
	return []*c14Re{
		{k: 'C', c: 'a'}, {k: 'C', c: 'b'}, {k: '.'}, {k: 'D'}, {k: 'D', neg: true},
		{k: 'K', items: []c14Item{{lo: 'a'}, {rng: true, lo: 'b', hi: 'c'}}},
		{k: 'K', neg: true, items: []c14Item{{lo: 'a'}}},
	}
}

type c14Quant struct {
	k    byte
	m, n int
	lazy bool
}

func c14SmallQuants() []c14Quant {
	return []c14Quant{{k: '*'}, {k: '+'}, {k: '?'}, {k: 'e', m: 2}, {k: 'l', m: 1}, {k: 'b', m: 1, n: 2},
		{k: '*', lazy: true}, {k: '+', lazy: true}, {k: '?', lazy: true}, {k: 'b', m: 0, n: 2, lazy: true}}
}

// all item lists with `size` leaves/groups in total, nesting depth <= depth
func c14EnumItems(size, depth int) []*c14Re {
	if size <= 0 {
		return nil
	}
	out := []*c14Re{}
	atoms := []*c14Re{}
	if size == 1 {
		atoms = append(atoms, c14SmallAtoms()...)
		out = append(out, &c14Re{k: '^'}, &c14Re{k: '$'})
	}
	if depth > 0 && size >= 2 {
		for _, body := range c14EnumBodies(size-1, depth-1) {
			atoms = append(atoms, &c14Re{k: 'G', a: body}, &c14Re{k: 'N', a: body})
		}
	}
	for _, a := range atoms {
		out = append(out, a)
		for _, q := range c14SmallQuants() {
			if a.nullable() && q.k != 'e' {
				continue
			}
			out = append(out, &c14Re{k: 'Q', a: a, qk: q.k, qm: q.m, qn: q.n, lazy: q.lazy})
		}
	}
	return out
}

func c14EnumBodies(size, depth int) []*c14Re {
	out := []*c14Re{}
	g := &c14Gen{}
	// sequences: compositions of size
	var seqs func(rem int, acc []*c14Re)
	seqs = func(rem int, acc []*c14Re) {
		if rem == 0 {
			out = append(out, g.seqOf(append([]*c14Re{}, acc...)))
			return
		}
		for s := 1; s <= rem; s++ {
			for _, it := range c14EnumItems(s, depth) {
				seqs(rem-s, append(acc, it))
			}
		}
	}
	seqs(size, nil)
	// one alternation of two items
	for s := 1; s < size; s++ {
		for _, a := range c14EnumItems(s, depth) {
			for _, b := range c14EnumItems(size-s, depth) {
				out = append(out, g.seqOf([]*c14Re{{k: 'A', a: a, b: b}}))
			}
		}
	}
	return out
}

// deep copy with unnamed groups numbered by opening parenthesis
func c14Number(r *c14Re, ctr *int) *c14Re {
	c := *r
	if r.k == 'G' {
		*ctr++
		c.n = *ctr
	}
	if r.a != nil {
		c.a = c14Number(r.a, ctr)
	}
	if r.b != nil {
		c.b = c14Number(r.b, ctr)
	}
	return &c
}

// ---------------------------------------------------------------------------
// the arbiter: Go's regexp, position by position
// ---------------------------------------------------------------------------

type c14Span struct {
	start, end int
	vars       map[string]string
}

func c14SpanStr(s c14Span) string {
	keys := []string{}
	for k := range s.vars {
		keys = append(keys, k)
	}
	sort.Strings(keys)
	parts := []string{}
	for _, k := range keys {
		parts = append(parts, k+"=s:"+hx(s.vars[k]))
	}
	return fmt.Sprintf("%d,%d,{%s}", s.start, s.end, strings.Join(parts, ","))
}

func c14SpansStr(ss []c14Span) string {
	parts := []string{}
	for _, s := range ss {
		parts = append(parts, c14SpanStr(s))
	}
	return "OK " + strings.Join(parts, ";")
}

// c14Arbiter evaluates Go's regexp (leftmost-first; (?m) so that ^ $ are line anchors; (?s) off
// so that . excludes \n) exactly as the property's scan does: at start position p the match
// that STARTS at p is the match of
//
//	\A(?s:.{p})(?m:(?:re))
//
// on the whole text: the prefix consumes exactly the first p bytes (ASCII texts: one byte = one
// character) whatever they are, so the expression can only match from p on, it sees the text
// before p (for ^) and after it (for $), and leftmost-first priority among the ways `re` can
// match at p is Go's.  An empty match or no match advances one byte; a non-empty match is
// reported and the scan continues at its end; the scan stops at the end of the text.
// Second opinion, counted by the check: FindAllStringSubmatchIndex with the empty matches
// removed must give the same spans.
func c14Arbiter(goRe string, caps []string, text string) (string, string) {
	compiled := map[int]*regexp.Regexp{}
	at := func(p int) (*regexp.Regexp, error) {
		if re, ok := compiled[p]; ok {
			return re, nil
		}
		re, err := regexp.Compile(fmt.Sprintf(`\A(?s:.{%d})(?m:(?:%s))`, p, goRe))
		if err != nil {
			return nil, err
		}
		compiled[p] = re
		return re, nil
	}
	spans := []c14Span{}
	p := 0
	for p < len(text) {
		re, err := at(p)
		if err != nil {
			return "GOERR " + hx(err.Error()), ""
		}
		loc := re.FindStringSubmatchIndex(text)
		if loc == nil || loc[1] <= p {
			p++
			continue
		}
		vars := map[string]string{}
		for i, name := range caps {
			if 2*(i+1)+1 < len(loc) && loc[2*(i+1)] >= 0 {
				vars[name] = text[loc[2*(i+1)]:loc[2*(i+1)+1]]
			}
		}
		spans = append(spans, c14Span{p, loc[1], vars})
		p = loc[1]
	}
	// second opinion
	second := "same"
	whole, err := regexp.Compile("(?m:" + goRe + ")")
	if err != nil {
		second = "goerr"
	} else {
		all := whole.FindAllStringSubmatchIndex(text, -1)
		got := []string{}
		for _, loc := range all {
			if loc[1] > loc[0] {
				got = append(got, fmt.Sprintf("%d,%d", loc[0], loc[1]))
			}
		}
		want := []string{}
		for _, s := range spans {
			want = append(want, fmt.Sprintf("%d,%d", s.start, s.end))
		}
		if strings.Join(got, ";") != strings.Join(want, ";") {
			second = "diff " + strings.Join(got, ";")
		}
	}
	return c14SpansStr(spans), second
}

// ---------------------------------------------------------------------------
// real side
// ---------------------------------------------------------------------------

func c14RealSpans(v *libvore.Vore, text string) string {
	return withBudget(func() string {
		ms := v.Run(text)
		spans := []string{}
		for _, m := range ms {
			spans = append(spans, fmt.Sprintf("%d,%d,%s", m.Offset.Start, m.Offset.End, canonMap(m.Variables)))
		}
		return "OK " + strings.Join(spans, ";")
	})
}

// fields: tree, pattern x-hex, texts x-hex comma separated, go syntax x-hex ("-" = has
// back-references, no Go arbiter), go capture names comma separated
func opC14(fields []string) string {
	pattern := unhx(fields[1])
	texts := []string{}
	if fields[2] != "" {
		for _, t := range strings.Split(fields[2], ",") {
			texts = append(texts, unhx(t))
		}
	}
	src := "find all @/" + pattern + "/"
	if len(pattern)%3 == 0 {
		// history: sources the front end rejects AFTER it has opened unnamed groups are compiled first; whatever state
		// a failed parse leaves behind must not reach the next Compile (group numbers start at 1 again)
		for _, bad := range []string{"find all @/(a)(?=b)/", "find all @/(a)(b/", "find all @/(x)(y)/ oops = ", "find all @/((q))/ 'unending"} {
			safeCompile(bad)
		}
	}
	// Compile first: it is the call a user makes, and it must not profit from a parse made just before it
	v, class := safeCompile(src)
	parse := opParse([]string{hx(src)})
	out := "PARSE " + parse
	runs := []string{}
	if v == nil {
		out += "\tCOMPILE " + class
	} else {
		out += "\tCOMPILE ok"
		for _, t := range texts {
			runs = append(runs, c14RealSpans(v, t))
		}
	}
	out += "\tRUN " + strings.Join(runs, "|")
	if fields[3] == "-" {
		out += "\tARB na\tARB2 na"
	} else {
		goRe := unhx(fields[3])
		caps := []string{}
		if fields[4] != "" {
			caps = strings.Split(fields[4], ",")
		}
		arbs, seconds := []string{}, []string{}
		for _, t := range texts {
			a, s := c14Arbiter(goRe, caps, t)
			arbs = append(arbs, a)
			seconds = append(seconds, s)
		}
		out += "\tARB " + strings.Join(arbs, "|") + "\tARB2 " + strings.Join(seconds, "|")
	}
	return out
}

// reparse: fields: lexeme x-hex
func opReparse(fields []string) string {
	lexeme := unhx(fields[0])
	res := ""
	func() {
		defer func() {
			if r := recover(); r != nil {
				res = "PANIC " + hx(fmt.Sprint(r))
			}
		}()
		d, err := ast.VerifParseRegexp(lexeme, true)
		if err != nil {
			res = "ERR " + hx(err.Error())
		} else {
			res = "AST " + d
		}
	}()
	out := "SUB " + res
	// through the whole front end when the bytes can stand between `@/` and `/`
	lexable := !strings.ContainsAny(lexeme, "/\x00")
	for i := 0; i < len(lexeme); i++ {
		if lexeme[i] >= 0x80 {
			lexable = false
		}
	}
	if lexable {
		v, class := safeCompile("find all @/" + lexeme + "/")
		if v != nil {
			out += "\tCOMPILE ok"
		} else {
			out += "\tCOMPILE " + class
		}
	} else {
		out += "\tCOMPILE na"
	}
	return out
}

func c14Case(id string, re *c14Re, texts []string) Case {
	goSyn, capNames := "-", ""
	if !re.hasBackref() {
		var sb strings.Builder
		caps := []string{}
		re.goSyntax(&sb, &caps)
		goSyn = hx(sb.String())
		capNames = strings.Join(caps, ",")
	}
	hts := []string{}
	for _, t := range texts {
		hts = append(hts, hx(t))
	}
	return Case{ID: id, Op: "c14", Fields: []string{re.encode(), hx(re.pattern()), strings.Join(hts, ","), goSyn, capNames},
		Meta: map[string]string{}}
}

// regexes every run starts with: the defects found while building the check, and one of each form
var c14Fixed = []string{
	"(a)+", "(a){2}", "((a)b)", "a\\D", "(a)|b", "(?:(a)|b)+c", "(a*?)b\\1", "(?<x>a+)-\\k<x>", "^a$", "a+?b?",
	"[a-c]{1,2}?", "[^ab]+", "\\d+\\s\\S", "(?:ab)*", "((a)|(b))+", "(a|b)*c", "a{2,}", "\\.\\*\\(", "(a)(b)\\2\\1", "x.y",
}

var c14MalformedSeeds = []string{
	"", "a{", "(", "\\k", "[\\d]", "[a", "a\\", "a{1", "a{1,", "a{1,2", "a{1,2x", "a{1x", "a{,3}", "(?", "(?<", "(?<a", "(?<a>",
	"(?=a)", "(?!a)", "(?<=a)", "(?<!a)", "(?x)", "a|", "|a", "a)b", "a)", "()", "(?:)", "[]", "[^]", "[^", "[a-", "[a-]",
	"[-a]", "[a-c-e]", "\\k<a", "\\k<a>", "\\k<>", "\\ka", "\\1", "\\12", "\\123", "\\0", "a**", "a+*", "^*", "$+", "{", "}", "]",
	"a{99999999999999999999}", "a{2}{3}", "\\b\\B\\w\\W", "(a", "((a)", "(a))", "a{0}", "a{0,0}", "a{2,1}", "\\", "[\\", "[\\]",
	"(?:a", "(?<n>a", "a|b|", "a||b", "(|a)", "(a|)", ".*+", "[[]", "[]]", "\\d{2,3}?x",
}

func c14Mutate(r *rand.Rand, s string) string {
	b := []byte(s)
	pool := []byte("()[]{}\\|*+?.^$,-<>:=!kdDsSwWbB019a]")
	switch r.Intn(5) {
	case 0: // truncate
		if len(b) > 0 {
			b = b[:r.Intn(len(b))]
		}
	case 1: // delete one byte
		if len(b) > 0 {
			i := r.Intn(len(b))
			b = append(b[:i:i], b[i+1:]...)
		}
	case 2: // insert
		i := r.Intn(len(b) + 1)
		c := pool[r.Intn(len(pool))]
		b = append(b[:i:i], append([]byte{c}, b[i:]...)...)
	case 3: // replace
		if len(b) > 0 {
			b[r.Intn(len(b))] = pool[r.Intn(len(pool))]
		}
	default: // duplicate a slice
		if len(b) > 1 {
			i := r.Intn(len(b))
			j := i + r.Intn(len(b)-i)
			b = append(b[:j:j], append(append([]byte{}, b[i:j]...), b[j:]...)...)
		}
	}
	return string(b)
}

func init() {
	extraOps["c14"] = opC14
	extraOps["reparse"] = opReparse
	leanCaseExtra["c14"] = func(c Case, impl string) (string, bool) {
		parse := "NONE"
		for _, part := range strings.Split(impl, "\t") {
			if strings.HasPrefix(part, "PARSE ") {
				parse = part[6:]
			}
		}
		return c.ID + "\tc14\t" + c.Fields[0] + "\t" + c.Fields[1] + "\t" + c.Fields[2] + "\t" + parse, true
	}
	leanCaseExtra["reparse"] = func(c Case, impl string) (string, bool) {
		sub := "NONE"
		for _, part := range strings.Split(impl, "\t") {
			if strings.HasPrefix(part, "SUB ") {
				sub = part[4:]
			}
		}
		return c.ID + "\treparse\t" + c.Fields[0] + "\t" + sub, true
	}

	propGens["C14"] = func(r *rand.Rand, tier string, st *Stats) []Case {
		start := time.Now()
		cases := []Case{}
		seen := map[string]bool{}
		add := func(id string, re *c14Re, nTexts, maxLen int) {
			p := re.pattern()
			if seen[p] {
				return
			}
			seen[p] = true
			f := map[string]int{}
			re.features(f, 0)
			st.addFeatures(f)
			st.Features[fmt.Sprintf("depth=%d", f["maxdepth"])]++
			if re.hasBackref() {
				st.Counts["with-backref"]++
			} else {
				st.Counts["go-arbitrated"]++
			}
			if re.groupUnderMin1(false) {
				st.Counts["group-under-min1-quantifier"]++
			}
			texts := c14Texts(r, re, nTexts, maxLen)
			cases = append(cases, c14Case(id, re, texts))
			st.Counts["regexes"]++
			st.Counts["pairs"] += len(texts)
		}
		// 1. fixed regexes (defects found, one of each form): parsed from a tiny table of trees
		for i, re := range c14FixedTrees() {
			add(fmt.Sprintf("fix%d", i), re, 6, 8)
		}
		// 1b. ten or more groups and two-digit back-references (\10 … \NN): the digits of a reference are read by
		// separate tests in the real parser; texts contain both the repeated group text and the look-alike
		// "group ⌊NN/10⌋ followed by the digit NN mod 10"
		letters := "abcdefghijklmnopqrstuvw"
		for ng := 10; ng <= sizes(tier, 13, 21); ng++ {
			for ref := 10; ref <= ng; ref++ {
				var sb strings.Builder
				for g := 0; g < ng; g++ {
					sb.WriteString("(" + string(letters[g]) + ")")
				}
				pat := sb.String() + "\\" + strconv.Itoa(ref)
				rd := &c14Reader{s: pat}
				re := rd.body()
				if rd.i != len(pat) || re.pattern() != pat {
					panic("c14: cannot build the many-groups regex " + pat)
				}
				if seen[pat] {
					continue
				}
				seen[pat] = true
				all := letters[:ng]
				texts := []string{
					all + string(letters[ref-1]),
					all + string(letters[ref/10-1]) + strconv.Itoa(ref%10),
					all + string(letters[ref-1]) + " " + all + string(letters[ref/10-1]) + strconv.Itoa(ref%10),
					"x" + all + string(letters[ref/10-1]) + strconv.Itoa(ref%10) + all + string(letters[ref-1]),
					all,
				}
				cases = append(cases, c14Case(fmt.Sprintf("mg%d.%d", ng, ref), re, texts))
				st.Counts["regexes"]++
				st.Counts["pairs"] += len(texts)
				st.Counts["with-backref"]++
				st.Features["two-digit-backref"]++
			}
		}
		// 2. random regexes of the subset
		n := sizes(tier, 24000, 80000)
		for i := 0; i < n; i++ {
			depth := 1 + r.Intn(3)
			budget := 2 + r.Intn(sizes(tier, 5, 8))
			add(fmt.Sprintf("g%d", i), c14GenRe(r, depth, budget), sizes(tier, 5, 6), sizes(tier, 10, 12))
		}
		// 3. exhaustive small regexes (thorough: sizes 1..3 with one level of groups; quick: 1..2)
		maxSize := sizes(tier, 2, 3)
		k := 0
		for size := 1; size <= maxSize; size++ {
			for _, body := range c14EnumBodies(size, 1) {
				ctr := 0
				add(fmt.Sprintf("e%d", k), c14Number(body, &ctr), sizes(tier, 3, 4), 6)
				k++
			}
		}
		st.Counts["exhaustive"] = k
		// 4. malformed bodies
		mal := map[string]bool{}
		addMal := func(s string) {
			if mal[s] || len(s) > 60 {
				return
			}
			mal[s] = true
			cases = append(cases, Case{ID: fmt.Sprintf("m%d", len(mal)), Op: "reparse", Fields: []string{hx(s)}, Meta: map[string]string{}})
		}
		for _, s := range c14MalformedSeeds {
			addMal(s)
			for i := 0; i <= len(s); i++ {
				addMal(s[:i])
			}
		}
		nm := sizes(tier, 2500, 40000)
		patterns := []string{}
		for p := range seen {
			patterns = append(patterns, p)
		}
		sort.Strings(patterns)
		for i := 0; i < nm; i++ {
			var s string
			switch r.Intn(4) {
			case 0: // random bytes, biased to the metacharacters
				l := r.Intn(10)
				b := make([]byte, l)
				pool := []byte("()[]{}\\|*+?.^$,-<>:=!kdDsSwWbB019a")
				for j := range b {
					if r.Intn(12) == 0 {
						b[j] = byte(r.Intn(256))
					} else {
						b[j] = pool[r.Intn(len(pool))]
					}
				}
				s = string(b)
			case 1:
				s = c14Mutate(r, c14MalformedSeeds[r.Intn(len(c14MalformedSeeds))])
			default: // a mutated / truncated well-formed pattern
				s = patterns[r.Intn(len(patterns))]
				for k := 0; k <= r.Intn(2); k++ {
					s = c14Mutate(r, s)
				}
			}
			addMal(s)
		}
		st.Counts["malformed"] = len(mal)
		st.Counts["gen_only_ms"] = int(time.Since(start).Milliseconds())
		return cases
	}
}

// the fixed regexes as trees: a tiny reader for exactly the syntax Re.show prints
func c14FixedTrees() []*c14Re {
	out := []*c14Re{}
	for _, s := range c14Fixed {
		p := &c14Reader{s: s}
		re := p.body()
		if p.i != len(s) {
			panic("c14Fixed: cannot read " + s)
		}
		if re.pattern() != s {
			panic("c14Fixed: " + s + " prints as " + re.pattern())
		}
		out = append(out, re)
	}
	return out
}

type c14Reader struct {
	s      string
	i      int
	groups int
}

func (p *c14Reader) peek() byte {
	if p.i < len(p.s) {
		return p.s[p.i]
	}
	return 0
}

func (p *c14Reader) body() *c14Re {
	items := []*c14Re{}
	for p.i < len(p.s) && p.peek() != ')' {
		it := p.item()
		if p.peek() == '|' {
			arms := []*c14Re{it}
			for p.peek() == '|' {
				p.i++
				arms = append(arms, p.item())
			}
			alt := arms[len(arms)-1]
			for i := len(arms) - 2; i >= 0; i-- {
				alt = &c14Re{k: 'A', a: arms[i], b: alt}
			}
			it = alt
		}
		items = append(items, it)
	}
	return (&c14Gen{}).seqOf(items)
}

func (p *c14Reader) num() int {
	j := p.i
	for p.peek() >= '0' && p.peek() <= '9' {
		p.i++
	}
	n, _ := strconv.Atoi(p.s[j:p.i])
	return n
}

func (p *c14Reader) item() *c14Re {
	c := p.peek()
	p.i++
	var a *c14Re
	switch c {
	case '^', '$':
		return &c14Re{k: c}
	case '.':
		a = &c14Re{k: '.'}
	case '\\':
		e := p.peek()
		p.i++
		switch {
		case e == 'd' || e == 'D':
			a = &c14Re{k: 'D', neg: e == 'D'}
		case e == 's' || e == 'S':
			a = &c14Re{k: 'W', neg: e == 'S'}
		case e >= '1' && e <= '9':
			p.i--
			a = &c14Re{k: 'B', n: p.num()}
		case e == 'k':
			p.i++ // <
			j := p.i
			for p.peek() != '>' {
				p.i++
			}
			a = &c14Re{k: 'R', name: p.s[j:p.i]}
			p.i++
		default:
			a = &c14Re{k: 'C', c: e}
		}
	case '[':
		a = &c14Re{k: 'K'}
		if p.peek() == '^' {
			a.neg = true
			p.i++
		}
		for p.peek() != ']' {
			lo := p.peek()
			p.i++
			if p.peek() == '-' {
				p.i++
				a.items = append(a.items, c14Item{rng: true, lo: lo, hi: p.peek()})
				p.i++
			} else {
				a.items = append(a.items, c14Item{lo: lo})
			}
		}
		p.i++
	case '(':
		if strings.HasPrefix(p.s[p.i:], "?:") {
			p.i += 2
			a = &c14Re{k: 'N', a: p.body()}
		} else if strings.HasPrefix(p.s[p.i:], "?<") {
			p.i += 2
			j := p.i
			for p.peek() != '>' {
				p.i++
			}
			name := p.s[j:p.i]
			p.i++
			a = &c14Re{k: 'M', name: name, a: p.body()}
		} else {
			p.groups++
			n := p.groups
			a = &c14Re{k: 'G', n: n, a: p.body()}
		}
		p.i++ // )
	default:
		a = &c14Re{k: 'C', c: c}
	}
	q := &c14Re{k: 'Q', a: a}
	switch p.peek() {
	case '*', '+', '?':
		q.qk = p.peek()
		p.i++
	case '{':
		p.i++
		q.qm = p.num()
		if p.peek() == ',' {
			p.i++
			if p.peek() == '}' {
				q.qk = 'l'
			} else {
				q.qk = 'b'
				q.qn = p.num()
			}
		} else {
			q.qk = 'e'
		}
		p.i++ // }
	default:
		return a
	}
	if p.peek() == '?' {
		q.lazy = true
		p.i++
	}
	return q
}
