package main

import (
	"fmt"
	"math/rand"
	"regexp"
	"strings"
)

// C04: the same body under every amount clause, with s,t,n straddling len(A)

var amtRe = regexp.MustCompile(`\( (find|replace) ([TF]) (\d+) (\d+) (\d+) `)

// opWindow: fields = kind(find|replace as hex), bodyhex (everything after the amount), texthex
func opWindow(fields []string) string {
	kind, body, text := unhx(fields[0]), unhx(fields[1]), unhx(fields[2])
	runOne := func(clause string) (string, string) {
		src := kind + " " + clause + " " + body
		if strings.HasSuffix(clause, "\x00") {
			src = kind + " " + strings.TrimSuffix(clause, "\x00") + body // glued
		}
		v, class := safeCompile(src)
		if v == nil {
			return "COMPILE " + strings.Split(class, " ")[0], "-"
		}
		amt := "-"
		// the amount tuple of the LAST command in the dump (definitions may precede it)
		all := amtRe.FindAllStringSubmatch(v.VerifAst(), -1)
		if len(all) > 0 {
			m := all[len(all)-1]
			amt = m[2] + "," + m[3] + "," + m[4] + "," + m[5]
		}
		return safeRun(v, text), amt
	}
	allRes, allAmt := runOne("all")
	out := []string{"ALL " + allRes + "|" + allAmt}
	if !strings.HasPrefix(allRes, "OK") {
		return strings.Join(out, "\t")
	}
	n := 0
	if len(allRes) > 3 {
		n = strings.Count(allRes, ";") + 1
	}
	lim := n + 2
	if lim > 5 {
		lim = 5
	}
	add := func(desc, clause string) {
		r, a := runOne(clause)
		out = append(out, "CL "+desc+"|"+r+"|"+a)
	}
	// the clause GLUED to the body (no blank between the count and a body that starts with a quote, bracket or brace): the
	// same clause as with a blank.  runOne puts a blank after the clause; a trailing \x00 asks for none.
	if len(body) > 0 && strings.IndexByte("'\"({", body[0]) >= 0 {
		for i := 0; i <= 2; i++ {
			add(fmt.Sprintf("top:%d", i), fmt.Sprintf("top %d\x00", i))
			add(fmt.Sprintf("take:%d", i), fmt.Sprintf("take %d\x00", i))
			add(fmt.Sprintf("skip:%d", i), fmt.Sprintf("skip %d\x00", i))
			add(fmt.Sprintf("last:%d", i+1), fmt.Sprintf("last %d\x00", i+1))
			add(fmt.Sprintf("skiptake:%d:1", i), fmt.Sprintf("skip %d take 1\x00", i))
		}
	}
	for i := 0; i <= lim; i++ {
		add(fmt.Sprintf("top:%d", i), fmt.Sprintf("top %d", i))
		add(fmt.Sprintf("take:%d", i), fmt.Sprintf("take %d", i))
		add(fmt.Sprintf("skip:%d", i), fmt.Sprintf("skip %d", i))
		if i >= 1 {
			add(fmt.Sprintf("last:%d", i), fmt.Sprintf("last %d", i))
		}
		for j := 0; j <= lim; j++ {
			add(fmt.Sprintf("skiptake:%d:%d", i, j), fmt.Sprintf("skip %d take %d", i, j))
		}
	}
	if n >= 9 {
		// counts of two digits, and the same counts SPELLED with leading zeros (a count is a decimal numeral)
		for _, sp := range [][2]string{{"10", "10"}, {"10", "010"}, {"10", "0010"}, {"9", "09"}, {"8", "008"}, {"12", "012"}, {"11", "11"}} {
			add("top:"+sp[0], "top "+sp[1])
			add("take:"+sp[0], "take "+sp[1])
			add("skip:"+sp[0], "skip "+sp[1])
			add("last:"+sp[0], "last "+sp[1])
			add("skiptake:1:"+sp[0], "skip 1 take "+sp[1])
			add("skiptake:"+sp[0]+":2", "skip "+sp[1]+" take 2")
		}
	}
	return strings.Join(out, "\t")
}

func init() {
	extraOps["window"] = opWindow
	leanCaseExtra["window"] = func(c Case, impl string) (string, bool) {
		if !strings.HasPrefix(impl, "ALL OK") {
			return "", false
		}
		return c.ID + "\twindow\t" + c.Fields[2] + "\t" + impl, true
	}
	propGens["C04"] = func(r *rand.Rand, tier string, st *Stats) []Case {
		cases := []Case{}
		n := sizes(tier, 250, 5000)
		cfg := GenCfg{MaxDepth: 2, Captures: true, Anchors: true, Subs: false}
		for i := 0; i < n; i++ {
			g := &srcGen{r: r, cfg: cfg, features: map[string]int{}}
			var body string
			if r.Intn(4) == 0 {
				// overlapping occurrences of a repeated literal
				ch := alphabet[r.Intn(len(alphabet))]
				body = quote(strings.Repeat(ch, 2+r.Intn(2)))
				g.lits = append(g.lits, ch, ch+ch)
				g.feat("overlap-literal")
			} else {
				body = g.body(cfg.MaxDepth, 1+r.Intn(2))
			}
			kind := "find"
			if r.Intn(3) == 0 {
				kind = "replace"
				switch {
				case i%5 == 0:
					// a capture that only some matches bind, named in the with list: the replacement of a match must
					// not depend on which earlier matches were inside the window
					a, b := alphabet[r.Intn(len(alphabet))], alphabet[r.Intn(len(alphabet))]
					body = []string{
						"maybe (" + quote(b) + " = v) " + quote(a) + " with '<' v '>'",
						"((" + quote(a) + " = v) or " + quote(b) + ") with v '|' matchNumber",
						"at least 0 (" + quote(b) + " = v) " + quote(a) + " with v v value",
					}[r.Intn(3)]
					g.lits = append(g.lits, a, b, b+a, a+a)
					g.feat("replace-optional-capture")
				case len(g.caps) > 0:
					body += " with '<' " + g.caps[r.Intn(len(g.caps))] + " '>' value"
					g.feat("replace-capture")
				default:
					body += " with 'R' value"
				}
				g.feat("replace")
			}
			st.addFeatures(g.features)
			text := GenText(r, g.lits, 6+r.Intn(14))
			cases = append(cases, Case{ID: fmt.Sprintf("w%d", i), Op: "window",
				Fields: []string{hx(kind), hx(body), hx(text)}, Meta: map[string]string{}})
		}
		// non-ASCII texts whose characters are consumed by ONE read (a literal of several bytes, whole line, a
		// back-reference): every clause against the window of the implementation's own `all` result, columns included
		nbodies := []string{"('\u00e9' or 'e')", "'\u00e9'", "'cr\u00e8me'", "(letter = l) '\u00e9'", "whole line", "('\u00e9' = x) maybe x",
			"'\u20ac' at least 1 digit", "in '\u00e9', 'e', 't'", "caseless 'error'", "caseless 'K'", "caseless 'i' any", "'error'"}
		ntexts := []string{"\u00e9t\u00e9 de m\u00e9m\u00e9", "\u00e9\n\u00e9 \u00e9", "cr\u00e8me cr\u00e8me\ncr\u00e8me", "\u20ac12 \u20ac7 x\u20ac3", "\u00e9\u00e9\u00e9\u00e9\u00e9",
			// characters whose lower / upper case form has another length in UTF-8 (U+212A, U+0130, U+2126, U+1E9E, U+023A) and bytes
			// that are not UTF-8, in front of and between the occurrences
			"300 \u212a: error, Error, ERROR\nerror again k K", "\u0130i error I\u0130 ERROR \u2126 error", "\u1e9e\u023a error \xff ERROR \xc3 error k"}
		for bi, nb := range nbodies {
			for ti, nt := range ntexts {
				for ki, kind := range []string{"find", "replace"} {
					body := nb
					if kind == "replace" {
						body += " with '<' value '>' columnNumber"
					}
					st.Features["window-non-ascii-single-read"]++
					cases = append(cases, Case{ID: fmt.Sprintf("wn%d.%d.%d", bi, ti, ki), Op: "window",
						Fields: []string{hx(kind), hx(body), hx(nt)}, Meta: map[string]string{}})
				}
			}
		}
		// texts with a dozen matches and more: the op then also runs two-digit counts and counts spelled with leading zeros
		for i, bt := range [][2]string{{"'ab'", strings.Repeat("ab ", 12)}, {"digit", "0123456789012 345"}, {"(letter = l) 'x'", strings.Repeat("ax bx ", 7)},
			{"whole line", strings.Repeat("l\n", 13)}} {
			for ki, kind := range []string{"find", "replace"} {
				body := bt[0]
				if kind == "replace" {
					body += " with '<' matchNumber '>'"
				}
				st.Features["window-many-matches"]++
				cases = append(cases, Case{ID: fmt.Sprintf("wm%d.%d", i, ki), Op: "window", Fields: []string{hx(kind), hx(body), hx(bt[1])}, Meta: map[string]string{}})
			}
		}
		// the general stream too: programs with amount clauses, model vs implementation
		scfg := GenCfg{MaxDepth: 2, Captures: true, Anchors: true, Amounts: true, Replace: true}
		cases = append(cases, searchCases(r, st, sizes(tier, 600, 10000), scfg, 3, 16, "g")...)
		// the containers behind the window and the VM stacks, as written (libvore/ds) against Model/Ds.lean
		cases = append(cases, dsHistCases(r, st, sizes(tier, 600, 20000))...)
		return cases
	}
}
