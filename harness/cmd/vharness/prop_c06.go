package main

import (
	"fmt"
	"math/rand"
	"os"
	"path/filepath"
	"strings"

	"github.com/jmeaster30/vore/libvore/engine"
)

// C06: RunFiles on a real scratch directory, every mode; the directory is compared before/after.

func snapshotDir(dir string) string {
	entries, err := os.ReadDir(dir)
	if err != nil {
		return "ERR"
	}
	parts := []string{}
	for _, e := range entries {
		if e.IsDir() {
			parts = append(parts, e.Name()+"=DIR")
			continue
		}
		b, err := os.ReadFile(filepath.Join(dir, e.Name()))
		if err != nil {
			parts = append(parts, e.Name()+"=ERR")
			continue
		}
		parts = append(parts, e.Name()+"="+hx(string(b)))
	}
	return strings.Join(parts, ",") // os.ReadDir returns entries sorted by name
}

func modeOf(s string) engine.ReplaceMode {
	switch s {
	case "NEW":
		return engine.NEW
	case "NOTHING":
		return engine.NOTHING
	case "OVERWRITE":
		return engine.OVERWRITE
	}
	return engine.CONFIRM
}

// opFiles: fields = srchex, mode, fsbefore (name=xhex,...) [, searched files a,b,...] ; default searched file f.txt
func opFiles(fields []string) string {
	src, mode, fsb := unhx(fields[0]), fields[1], fields[2]
	v, class := safeCompile(src)
	if v == nil {
		return "COMPILE " + class
	}
	dir, err := os.MkdirTemp("", "vorec06-")
	if err != nil {
		return "HARNESS-ERR " + hx(err.Error())
	}
	defer os.RemoveAll(dir)
	isDir := len(fields) > 3 && fields[3] == "DIR"
	root := dir
	if isDir {
		// the argument of RunFiles is the DIRECTORY `d` (relative to the working directory): the engine lists it
		// for every command and opens `d/<entry>`
		dir = filepath.Join(root, "d")
		if err := os.Mkdir(dir, 0o755); err != nil {
			return "HARNESS-ERR " + hx(err.Error())
		}
	}
	if fsb != "" {
		for _, kv := range strings.Split(fsb, ",") {
			p := strings.SplitN(kv, "=", 2)
			if err := os.WriteFile(filepath.Join(dir, p[0]), []byte(unhx(p[1])), 0o644); err != nil {
				return "HARNESS-ERR " + hx(err.Error())
			}
		}
	}
	cwd, _ := os.Getwd()
	os.Chdir(root)
	defer os.Chdir(cwd)
	searched := []string{"f.txt"}
	if len(fields) > 3 && fields[3] != "" {
		searched = strings.Split(fields[3], ",")
	}
	if isDir {
		searched = []string{"d"}
		res := withBudgetN(func() string { return canonMatches(v.RunFiles(searched, modeOf(mode), false)) }, 8)
		snap := snapshotDir(dir)
		if snap != "" && snap != "ERR" {
			parts := strings.Split(snap, ",")
			for i := range parts {
				parts[i] = "d/" + parts[i]
			}
			snap = strings.Join(parts, ",")
		}
		return "AST " + v.VerifAst() + "\tRES " + res + "\tFS " + snap
	}
	res := withBudgetN(func() string { return canonMatches(v.RunFiles(searched, modeOf(mode), false)) }, len(searched))
	return "AST " + v.VerifAst() + "\tRES " + res + "\tFS " + snapshotDir(dir)
}

func init() {
	extraOps["files"] = opFiles
	leanCaseExtra["files"] = func(c Case, impl string) (string, bool) {
		ast := ""
		for _, part := range strings.Split(impl, "\t") {
			if strings.HasPrefix(part, "AST ") {
				ast = part[4:]
			}
		}
		if ast == "" {
			return "", false
		}
		searched := "f.txt"
		if len(c.Fields) > 3 && c.Fields[3] != "" {
			searched = c.Fields[3]
		}
		fsb := c.Fields[2]
		if searched == "DIR" && fsb != "" {
			parts := strings.Split(fsb, ",")
			for i := range parts {
				parts[i] = "d/" + parts[i]
			}
			fsb = strings.Join(parts, ",")
		}
		return c.ID + "\tfiles\t" + ast + "\t" + c.Fields[1] + "\t" + searched + "\t" + fsb, true
	}
	propGens["C06"] = func(r *rand.Rand, tier string, st *Stats) []Case {
		cases := []Case{}
		n := sizes(tier, 350, 6000)
		cfg := GenCfg{MaxDepth: 2, Captures: true, Anchors: true, Replace: true, Transforms: true, Amounts: true, MultiCmd: true}
		for i := 0; i < n; i++ {
			p := GenSource(r, cfg)
			if i%3 == 0 {
				// force a replace command with longer / shorter / empty replacements
				lit := alphabet[r.Intn(len(alphabet))]
				rep := []string{"''", "'" + strings.Repeat("Z", 1+r.Intn(5)) + "'", "value value", "'<' value '>'", ""}[r.Intn(5)]
				p.Src = fmt.Sprintf("replace all %s with %s", quote(strings.Repeat(lit, 1+r.Intn(2))), rep)
				p.Lits = []string{lit, lit + lit}
				p.Features = map[string]int{"forced-replace": 1}
			}
			st.addFeatures(p.Features)
			text := GenText(r, p.Lits, 24)
			if len(text) == 0 && r.Intn(4) != 0 {
				text = "a"
			}
			fs := []string{"f.txt=" + hx(text), "other.txt=" + hx("bystander")}
			if r.Intn(2) == 0 {
				fs = append(fs, "f.txt.vored="+hx("STALE STALE STALE STALE STALE STALE STALE STALE"))
				st.Features["stale-vored"]++
			}
			// which paths are searched: usually f.txt; sometimes a file that is itself named *.vored (a second
			// pass over earlier output), the same path twice, or two files one of which is the other's .vored
			searched := ""
			switch r.Intn(8) {
			case 0:
				fs = append(fs, "g.vored="+hx(text))
				searched = "g.vored"
				st.Features["searched-file-named-vored"]++
			case 1:
				searched = "f.txt,f.txt"
				st.Features["searched-path-twice"]++
			case 2:
				if !strings.Contains(strings.Join(fs, ","), "f.txt.vored=") {
					fs = append(fs, "f.txt.vored="+hx(text+"a"))
				}
				searched = "f.txt,f.txt.vored"
				st.Features["searched-file-and-its-vored"]++
			case 3:
				searched = "f.txt,other.txt"
				st.Features["searched-two-files"]++
			case 4, 5:
				// the DIRECTORY is the argument: every command lists it again; a stale f.txt.vored (shorter or longer
				// than what this run writes) is itself searched after f.txt rewrote it
				searched = "DIR"
				if r.Intn(2) == 0 && !strings.Contains(strings.Join(fs, ","), "f.txt.vored=") {
					fs = append(fs, "f.txt.vored="+hx("x"))
				}
				st.Features["searched-directory"]++
			}
			for _, mode := range []string{"NEW", "NOTHING", "OVERWRITE"} {
				cases = append(cases, Case{ID: fmt.Sprintf("f%d.%s", i, mode), Op: "files",
					Fields: []string{hx(p.Src), mode, strings.Join(fs, ","), searched}, Meta: map[string]string{}})
			}
		}
		// replacements whose length differences CANCEL: the output is as long as the input although matches grow and shrink
		// (and variants where they almost cancel), every mode, with and without a stale .vored
		for i, ct := range [][2]string{
			{"replace all at least 1 'a' with 'xx'", "a bbb aaa"}, {"replace all at least 1 'a' with 'xx'", "aaa a"},
			{"replace all (at least 1 digit) = n with '<' '>'", "1 234 5 67"}, {"replace all letter or (digit digit digit) with 'ZZ'", "a123b456"},
			{"replace all 'ab' or 'c' with matchNumber matchNumber", "ab c ab c c"}, {"replace all at least 1 'a' with 'xx'", "a bbb aaaa"},
			{"replace all whole line with 'LL'", "a\nbbb\ncc"}, {"replace all (maybe 'x') = o 'y' with o o 'z'", "xy y xy"}} {
			for _, stale := range []bool{false, true} {
				fs := []string{"f.txt=" + hx(ct[1]), "other.txt=" + hx("bystander")}
				if stale {
					fs = append(fs, "f.txt.vored="+hx("STALE STALE STALE"))
				}
				st.Features["length-differences-cancel"]++
				for _, mode := range []string{"NEW", "NOTHING", "OVERWRITE"} {
					cases = append(cases, Case{ID: fmt.Sprintf("lc%d.%v.%s", i, stale, mode), Op: "files",
						Fields: []string{hx(ct[0]), mode, strings.Join(fs, ","), ""}, Meta: map[string]string{}})
				}
			}
		}
		// large files: unmatched stretches longer than the 4096-byte read window, sizes around its multiples
		nbig := sizes(tier, 24, 300)
		for i := 0; i < nbig; i++ {
			size := []int{4095, 4096, 4097, 5000, 8191, 8192, 8193, 9000, 12288, 12289}[r.Intn(10)] + r.Intn(3)
			b := make([]byte, size)
			for j := range b {
				b[j] = "qrs\n"[r.Intn(4)]
				if r.Intn(40) != 0 && b[j] == '\n' {
					b[j] = 'q'
				}
			}
			nm := r.Intn(4)
			for j := 0; j < nm; j++ {
				pos := r.Intn(size - 2)
				if r.Intn(3) == 0 {
					pos = []int{0, 4094, 4095, 4096, size - 2}[r.Intn(5)]
				}
				if pos > size-2 {
					pos = size - 2
				}
				b[pos], b[pos+1] = 'Z', 'Z'
			}
			src := "replace all 'ZZ' with " + []string{"'<>'", "'y'", "''", "'0123456789'"}[r.Intn(4)]
			if r.Intn(5) == 0 {
				src = "find all 'ZZ'"
			}
			st.Features["large-file"]++
			fs := []string{"f.txt=" + hx(string(b)), "other.txt=" + hx("bystander")}
			for _, mode := range []string{"NEW", "NOTHING", "OVERWRITE"} {
				cases = append(cases, Case{ID: fmt.Sprintf("big%d.%s", i, mode), Op: "files",
					Fields: []string{hx(src), mode, strings.Join(fs, ",")}, Meta: map[string]string{}})
			}
		}
		cases = append(cases, msHistCases(r, st, sizes(tier, 600, 20000))...)
		return cases
	}
}
