package main

import (
	"fmt"
	"math/rand"
	"strconv"
	"strings"

	"github.com/jmeaster30/vore/libvore/ds"
)

// qhist / shist: histories of calls on the real containers of libvore/ds against Vore.Ds.qRun / sRun
// (lean/Vore/Model/Ds.lean).  Operation letters: see lean/Vore/Driver/OpsDs.lean.

func showOptInt(p *int) string {
	if p == nil {
		return "nil"
	}
	return strconv.Itoa(*p)
}

func showInts(l []int) string {
	parts := make([]string, len(l))
	for i, v := range l {
		parts[i] = strconv.Itoa(v)
	}
	return "[" + strings.Join(parts, ",") + "]"
}

func opQHist(fields []string) (out string) {
	answers := []string{}
	defer func() {
		if r := recover(); r != nil {
			out = strings.Join(append(answers, "PANIC"), ";")
		}
	}()
	q := ds.NewQueue[int]()
	if fields[0] != "-" {
		for _, op := range strings.Split(fields[0], ",") {
			n, _ := strconv.Atoi(op[1:])
			switch op[0] {
			case 'u':
				q.Push(n)
				answers = append(answers, "ok")
			case 'f':
				q.PushFront(n)
				answers = append(answers, "ok")
			case 'o':
				answers = append(answers, showOptInt(q.Pop()))
			case 'k':
				answers = append(answers, showOptInt(q.Peek()))
			case 'l':
				q.Limit(n)
				answers = append(answers, "ok")
			case 'z':
				answers = append(answers, strconv.FormatUint(q.Size(), 10))
			case 'c':
				answers = append(answers, showInts(q.Contents()))
			default:
				return "BADCASE"
			}
		}
	}
	return strings.Join(answers, ";")
}

func opSHist(fields []string) (out string) {
	answers := []string{}
	defer func() {
		if r := recover(); r != nil {
			out = strings.Join(append(answers, "PANIC"), ";")
		}
	}()
	s := ds.NewStack[int]()
	contents := func(x *ds.Stack[int]) []int {
		l := []int{}
		for i := 0; uint64(i) < x.Size(); i++ {
			l = append(l, *x.Index(i))
		}
		return l
	}
	if fields[0] != "-" {
		for _, op := range strings.Split(fields[0], ",") {
			n, _ := strconv.Atoi(op[1:])
			switch op[0] {
			case 'u':
				s.Push(n)
				answers = append(answers, "ok")
			case 'o':
				answers = append(answers, showOptInt(s.Pop()))
			case 'k':
				answers = append(answers, showOptInt(s.Peek()))
			case 'i':
				answers = append(answers, showOptInt(s.Index(n)))
			case 'z':
				answers = append(answers, strconv.FormatUint(s.Size(), 10))
			case 'y':
				// Copy(), push on the copy, push something else on the original, look at BOTH, pop the original again
				c := s.Copy()
				c.Push(n)
				s.Push(n + 1000)
				answers = append(answers, showInts(contents(s))+showInts(contents(c)))
				s.Pop()
			default:
				return "BADCASE"
			}
		}
	}
	return strings.Join(answers, ";")
}

// dsHistCases: random histories; Limit amounts around the current size, zero and negative; pops and peeks on empty
// containers; copies taken at every depth (slices with spare capacity are where aliasing would show)
func dsHistCases(r *rand.Rand, st *Stats, n int) []Case {
	cases := []Case{}
	for i := 0; i < n; i++ {
		k := r.Intn(14)
		size := 0
		ops := []string{}
		queue := i%2 == 0
		for j := 0; j < k; j++ {
			x := r.Intn(10)
			switch {
			case x < 4:
				ops = append(ops, fmt.Sprintf("u%d", r.Intn(50)))
				size++
			case x == 4:
				ops = append(ops, "o")
				if size > 0 {
					size--
				}
			case x == 5:
				ops = append(ops, "k")
			case x == 6:
				ops = append(ops, "z")
			case queue && x == 7:
				ops = append(ops, fmt.Sprintf("f%d", r.Intn(50)))
				size++
			case queue && x == 8:
				l := []int{0, 1, size - 1, size, size + 1, 2, -1, -5}[r.Intn(8)]
				ops = append(ops, fmt.Sprintf("l%d", l))
				if l >= 0 && l < size {
					size = l
				}
			case queue:
				ops = append(ops, "c")
			case x == 7:
				ops = append(ops, fmt.Sprintf("i%d", []int{-1, 0, size - 1, size, size + 1, 1}[r.Intn(6)]))
			default:
				ops = append(ops, fmt.Sprintf("y%d", r.Intn(50)))
			}
		}
		f := "-"
		if len(ops) > 0 {
			f = strings.Join(ops, ",")
		}
		op := "shist"
		if queue {
			op = "qhist"
			// the engine's own use: push then Limit(n) after every push, contents at the end
			if i%6 == 0 {
				nlast := 1 + r.Intn(4)
				ops = nil
				for j := 0; j < 2+r.Intn(10); j++ {
					ops = append(ops, fmt.Sprintf("u%d", j), fmt.Sprintf("l%d", nlast))
				}
				f = strings.Join(append(ops, "c"), ",")
			}
		}
		cases = append(cases, Case{ID: fmt.Sprintf("ds%d", i), Op: op, Fields: []string{f}, Meta: map[string]string{}})
	}
	st.Counts["container-histories"] = n
	return cases
}

func init() {
	extraOps["qhist"] = opQHist
	extraOps["shist"] = opSHist
	leanCaseExtra["qhist"] = func(c Case, impl string) (string, bool) { return c.ID + "\tqhist\t" + c.Fields[0], true }
	leanCaseExtra["shist"] = func(c Case, impl string) (string, bool) { return c.ID + "\tshist\t" + c.Fields[0], true }
}
