// extractlex: regenerate the lexer's finite decision tables from /repo's current source
// (libvore/ast/lexer.go) as Lean data (lean/Vore/ExtractedLex.lean).
//
//	extractlex <repo> <out.lean>
//
// go/ast only (no type checker). Fails closed: any shape it does not recognise in a function it
// is asked to read is an error (exit 1, nothing written).
//
// Extracted:
//
//	goStates      the TokenState constants of getNextToken, in order
//	goFinal       the final `switch current_state`: state -> token kind / error / keyword or operator lookup
//	goKeywords    the keyword `switch lexeme` under SIDENTIFIER (+ goKeywordsLower: lexeme lower-cased first)
//	goOperators   the operator `switch lexeme` under SOPERATOR
//	goEscapes     getEscapedRune's `if ch == 'x' { return rune(n) }` chain
//	goHexRanges   IsHex's ranges
//	goUnreads     the constant argument of every s.unread(n) call in the file
package main

import (
	"fmt"
	"go/ast"
	"go/parser"
	"go/token"
	"os"
	"path/filepath"
	"strconv"
	"strings"
)

func fail(format string, args ...interface{}) {
	fmt.Fprintf(os.Stderr, "extractlex: "+format+"\n", args...)
	os.Exit(1)
}

var fset = token.NewFileSet()

func at(n ast.Node) string { return fset.Position(n.Pos()).String() }

// Lean constructor of Vore.Tok for a Go TokenType constant
var leanReserved = map[string]bool{"with": true, "end": true, "begin": true, "in": true, "if": true, "then": true,
	"else": true, "return": true, "break": true, "continue": true, "true": true, "false": true}

var knownToks = map[string]bool{}

func init() {
	for _, t := range strings.Fields(`ERROR EOF WS COMMENT IDENTIFIER NUMBER STRING REGEXP EQUAL COLONEQ COMMA OPENPAREN
		CLOSEPAREN OPENCURLY CLOSECURLY PLUS MINUS MULT DIV LESS GREATER LESSEQ GREATEREQ DEQUAL NEQUAL MOD FIND REPLACE
		WITH SET TO PATTERN MATCHES TRANSFORM ALL SKIP TAKE TOP LAST ANY WHITESPACE DIGIT UPPER LOWER LETTER WHOLE LINE
		FILE WORD START END BEGIN CASELESS NOT AT LEAST MOST BETWEEN AND EXACTLY MAYBE FEWEST NAMED IN OR IF THEN ELSE
		DEBUG RETURN HEAD TAIL LOOP BREAK CONTINUE TRUE FALSE`) {
		knownToks[t] = true
	}
}

func leanTok(name string, n ast.Node) string {
	if !knownToks[name] {
		fail("%s: token type %s is not known to the model (Vore.Tok)", at(n), name)
	}
	l := strings.ToLower(name)
	if leanReserved[l] {
		l += "_"
	}
	return "." + l
}

var leanStates = map[string]string{
	"SSTART": "start", "SWHITESPACE": "whitespace", "SSTRING_DOUBLE": "stringDouble", "SSTRING_SINGLE": "stringSingle",
	"SSTRING_END": "stringEnd", "SSTRING_D_ESCAPE": "stringDEscape", "SSTRING_S_ESCAPE": "stringSEscape",
	"SNUMBER": "number", "SEQUAL_1": "equal1", "SDEQUAL": "dequal", "SEXCL": "excl", "SNEQUAL": "nequal",
	"SCOLON": "colon", "SCOLONEQ": "coloneq", "SIDENTIFIER": "identifier", "SCOMMA": "comma",
	"SOPENPAREN": "openparen", "SCLOSEPAREN": "closeparen", "SOPENCURLY": "opencurly", "SCLOSECURLY": "closecurly",
	"SCOMMENT": "comment", "SCOMMENTSTART": "commentStart", "SBLOCKCOMMENT": "blockComment",
	"SBLOCKCOMMENTSTARTEND": "blockCommentStartEnd", "SBLOCKCOMMENTENDEND": "blockCommentEndEnd",
	"SBLOCKCOMMENTFINAL": "blockCommentFinal", "SDASH": "dash", "SOPERATOR": "operator",
	"SOPERATORSTART": "operatorStart", "SREGEXP": "regexp", "SREGEXP_UNENDING": "regexpUnending",
	"SERROR": "error", "SEND": "end_",
}

func leanState(name string, n ast.Node) string {
	l, ok := leanStates[name]
	if !ok {
		fail("%s: lexer state %s is not known to the model (Vore.Lex.St)", at(n), name)
	}
	return "." + l
}

var leanErrKinds = map[string]string{
	"Unknown token": ".unknownToken", "Unending string": ".unendingString",
	"Unending block comment": ".unendingBlockComment", "Unending regexp": ".unendingRegexp",
}

func funcDecl(f *ast.File, name string) *ast.FuncDecl {
	for _, d := range f.Decls {
		if fd, ok := d.(*ast.FuncDecl); ok && fd.Name.Name == name {
			return fd
		}
	}
	fail("function %s not found", name)
	return nil
}

func byteList(s string) string {
	parts := []string{}
	for i := 0; i < len(s); i++ {
		parts = append(parts, strconv.Itoa(int(s[i])))
	}
	return "[" + strings.Join(parts, ", ") + "]"
}

func isIdent(e ast.Expr, name string) bool {
	id, ok := e.(*ast.Ident)
	return ok && id.Name == name
}

// token.TokenType = X
func tokenTypeAssign(s ast.Stmt) (string, bool) {
	as, ok := s.(*ast.AssignStmt)
	if !ok || as.Tok != token.ASSIGN || len(as.Lhs) != 1 || len(as.Rhs) != 1 {
		return "", false
	}
	sel, ok := as.Lhs[0].(*ast.SelectorExpr)
	if !ok || !isIdent(sel.X, "token") || sel.Sel.Name != "TokenType" {
		return "", false
	}
	id, ok := as.Rhs[0].(*ast.Ident)
	if !ok {
		return "", false
	}
	return id.Name, true
}

// flag = true
func flagAssign(s ast.Stmt) (string, bool) {
	as, ok := s.(*ast.AssignStmt)
	if !ok || as.Tok != token.ASSIGN || len(as.Lhs) != 1 || len(as.Rhs) != 1 {
		return "", false
	}
	id, ok := as.Lhs[0].(*ast.Ident)
	if !ok || !isIdent(as.Rhs[0], "true") {
		return "", false
	}
	return id.Name, true
}

func stringLit(e ast.Expr) (string, bool) {
	bl, ok := e.(*ast.BasicLit)
	if !ok || bl.Kind != token.STRING {
		return "", false
	}
	s, err := strconv.Unquote(bl.Value)
	if err != nil {
		return "", false
	}
	return s, true
}

func charLit(e ast.Expr) (int, bool) {
	bl, ok := e.(*ast.BasicLit)
	if !ok || bl.Kind != token.CHAR {
		return 0, false
	}
	s, err := strconv.Unquote(bl.Value)
	if err != nil {
		return 0, false
	}
	r := []rune(s)
	if len(r) != 1 || r[0] > 255 {
		return 0, false
	}
	return int(r[0]), true
}

// a `switch lexeme { case "x": token.TokenType = X ... }` table
func lexemeSwitch(sw *ast.SwitchStmt) []string {
	if !isIdent(sw.Tag, "lexeme") || sw.Init != nil {
		fail("%s: expected `switch lexeme`", at(sw))
	}
	rows := []string{}
	for _, c := range sw.Body.List {
		cc := c.(*ast.CaseClause)
		if cc.List == nil {
			fail("%s: default clause in a lexeme switch is not modelled", at(cc))
		}
		if len(cc.Body) != 1 {
			fail("%s: lexeme case must be a single token.TokenType assignment", at(cc))
		}
		tt, ok := tokenTypeAssign(cc.Body[0])
		if !ok {
			fail("%s: lexeme case must be a single token.TokenType assignment", at(cc))
		}
		for _, l := range cc.List {
			s, ok := stringLit(l)
			if !ok {
				fail("%s: lexeme case label must be a string literal", at(l))
			}
			for i := 0; i < len(s); i++ {
				if s[i] >= 0x80 {
					fail("%s: non-ASCII lexeme", at(l))
				}
			}
			rows = append(rows, fmt.Sprintf("  (%s, %s) /- %q -/", byteList(s), leanTok(tt, cc), s))
		}
	}
	return rows
}

func main() {
	if len(os.Args) != 3 {
		fail("usage: extractlex <repo> <out.lean>")
	}
	src := filepath.Join(os.Args[1], "libvore", "ast", "lexer.go")
	f, err := parser.ParseFile(fset, src, nil, 0)
	if err != nil {
		fail("%v", err)
	}

	// ---- getNextToken: states, final switch, error messages ---------------------------------
	gnt := funcDecl(f, "getNextToken")
	var states []string
	var final *ast.SwitchStmt
	flagMsg := map[string]string{} // unendingX -> message
	defaultMsg := ""
	ast.Inspect(gnt.Body, func(n ast.Node) bool {
		switch x := n.(type) {
		case *ast.GenDecl:
			if x.Tok == token.CONST && states == nil {
				for _, sp := range x.Specs {
					vs := sp.(*ast.ValueSpec)
					for _, nm := range vs.Names {
						states = append(states, leanState(nm.Name, nm))
					}
				}
			}
		case *ast.SwitchStmt:
			if isIdent(x.Tag, "current_state") {
				if final != nil {
					fail("%s: second `switch current_state`", at(x))
				}
				final = x
			}
		}
		return true
	})
	if states == nil {
		fail("TokenState constants not found")
	}
	if final == nil {
		fail("final `switch current_state` not found")
	}
	// the if / else-if chain that turns ERROR + flag into a LexError
	for _, st := range gnt.Body.List {
		ifs, ok := st.(*ast.IfStmt)
		if !ok {
			continue
		}
		for cur := ifs; cur != nil; {
			cond := cur.Cond
			// token.TokenType == ERROR [&& flag]
			flag := ""
			if be, ok := cond.(*ast.BinaryExpr); ok && be.Op == token.LAND {
				id, ok := be.Y.(*ast.Ident)
				if !ok {
					fail("%s: unrecognised error condition", at(cond))
				}
				flag = id.Name
				cond = be.X
			}
			be, ok := cond.(*ast.BinaryExpr)
			if !ok || be.Op != token.EQL || !isIdent(be.Y, "ERROR") {
				break
			}
			if len(cur.Body.List) != 1 {
				fail("%s: unrecognised error branch", at(cur))
			}
			ret, ok := cur.Body.List[0].(*ast.ReturnStmt)
			if !ok || len(ret.Results) != 2 {
				fail("%s: unrecognised error branch", at(cur))
			}
			call, ok := ret.Results[1].(*ast.CallExpr)
			if !ok || !isIdent(call.Fun, "NewLexError") {
				fail("%s: unrecognised error branch", at(cur))
			}
			msg, _ := stringLit(call.Args[1])
			if _, ok := leanErrKinds[msg]; !ok {
				fail("%s: lex error %q is not known to the model", at(call), msg)
			}
			if flag == "" {
				defaultMsg = msg
			} else {
				if _, dup := flagMsg[flag]; dup {
					fail("%s: flag %s tested twice", at(cur), flag)
				}
				flagMsg[flag] = msg
			}
			next, _ := cur.Else.(*ast.IfStmt)
			if cur.Else != nil && next == nil {
				fail("%s: unrecognised else in the error chain", at(cur))
			}
			cur = next
		}
	}
	if defaultMsg == "" {
		fail("the `token.TokenType == ERROR` error chain was not found")
	}

	var finalRows, kwRows, opRows []string
	kwLower := "false"
	clauses := final.Body.List
	// resolve fallthrough chains: action of clause i = action of the first later clause with a real body
	type action struct {
		lean string
	}
	acts := make([]*action, len(clauses))
	for i := len(clauses) - 1; i >= 0; i-- {
		cc := clauses[i].(*ast.CaseClause)
		if cc.List == nil { // default
			if len(cc.Body) != 1 {
				fail("%s: default of the final switch must be a single panic", at(cc))
			}
			es, ok := cc.Body[0].(*ast.ExprStmt)
			if !ok {
				fail("%s: default of the final switch must be a single panic", at(cc))
			}
			call, ok := es.X.(*ast.CallExpr)
			if !ok || !isIdent(call.Fun, "panic") {
				fail("%s: default of the final switch must be a single panic", at(cc))
			}
			if i != len(clauses)-1 {
				fail("%s: default must be the last clause", at(cc))
			}
			continue
		}
		if len(cc.Body) == 1 {
			if bs, ok := cc.Body[0].(*ast.BranchStmt); ok && bs.Tok == token.FALLTHROUGH {
				if i+1 >= len(clauses) || acts[i+1] == nil {
					fail("%s: fallthrough into nothing", at(cc))
				}
				acts[i] = acts[i+1]
				continue
			}
		}
		// body: [flag = true]* token.TokenType = X [lexeme := ...; switch lexeme {...}]
		flags := []string{}
		tt := ""
		var sw *ast.SwitchStmt
		lower := false
		sawLexeme := false
		for _, s := range cc.Body {
			if fl, ok := flagAssign(s); ok && tt == "" {
				flags = append(flags, fl)
				continue
			}
			if t, ok := tokenTypeAssign(s); ok && tt == "" {
				tt = t
				continue
			}
			if as, ok := s.(*ast.AssignStmt); ok && as.Tok == token.DEFINE && len(as.Lhs) == 1 && isIdent(as.Lhs[0], "lexeme") && tt != "" && !sawLexeme {
				// lexeme := buf.String()  |  lexeme := strings.ToLower(buf.String())
				e := as.Rhs[0]
				if call, ok := e.(*ast.CallExpr); ok {
					if sel, ok := call.Fun.(*ast.SelectorExpr); ok && isIdent(sel.X, "strings") && sel.Sel.Name == "ToLower" && len(call.Args) == 1 {
						lower = true
						e = call.Args[0]
					}
				}
				call, ok := e.(*ast.CallExpr)
				if !ok || len(call.Args) != 0 {
					fail("%s: unrecognised lexeme expression", at(as))
				}
				sel, ok := call.Fun.(*ast.SelectorExpr)
				if !ok || !isIdent(sel.X, "buf") || sel.Sel.Name != "String" {
					fail("%s: unrecognised lexeme expression", at(as))
				}
				sawLexeme = true
				continue
			}
			if x, ok := s.(*ast.SwitchStmt); ok && sawLexeme && sw == nil {
				sw = x
				continue
			}
			fail("%s: unrecognised statement in a case of the final switch", at(s))
		}
		if tt == "" {
			fail("%s: case does not assign token.TokenType", at(cc))
		}
		a := &action{}
		switch {
		case sw != nil && tt == "IDENTIFIER":
			if kwRows != nil {
				fail("%s: second keyword switch", at(sw))
			}
			kwRows = lexemeSwitch(sw)
			if lower {
				kwLower = "true"
			}
			a.lean = ".keywords"
		case sw != nil && tt == "ERROR":
			if opRows != nil {
				fail("%s: second operator switch", at(sw))
			}
			if lower {
				fail("%s: operator lexeme is lower-cased (not modelled)", at(sw))
			}
			opRows = lexemeSwitch(sw)
			a.lean = ".operators"
		case sw != nil:
			fail("%s: lexeme switch with default type %s is not modelled", at(sw), tt)
		case tt == "ERROR":
			if len(flags) > 1 {
				fail("%s: more than one error flag in one case", at(cc))
			}
			msg := defaultMsg
			if len(flags) == 1 {
				m, ok := flagMsg[flags[0]]
				if !ok {
					fail("%s: flag %s has no error message", at(cc), flags[0])
				}
				msg = m
			}
			a.lean = ".err " + leanErrKinds[msg]
		default:
			if len(flags) != 0 {
				fail("%s: error flag set on a non-ERROR case", at(cc))
			}
			a.lean = ".tok " + leanTok(tt, cc)
		}
		acts[i] = a
	}
	for i, c := range clauses {
		cc := c.(*ast.CaseClause)
		if cc.List == nil {
			continue
		}
		for _, l := range cc.List {
			id, ok := l.(*ast.Ident)
			if !ok {
				fail("%s: case label must be a state constant", at(l))
			}
			finalRows = append(finalRows, fmt.Sprintf("  (%s, %s)", leanState(id.Name, id), acts[i].lean))
		}
	}
	if kwRows == nil || opRows == nil {
		fail("keyword or operator switch not found in the final switch")
	}

	// ---- getEscapedRune ---------------------------------------------------------------------
	ger := funcDecl(f, "getEscapedRune")
	if len(ger.Type.Params.List) != 1 || len(ger.Type.Params.List[0].Names) != 1 {
		fail("getEscapedRune: unexpected signature")
	}
	param := ger.Type.Params.List[0].Names[0].Name
	escRows := []string{}
	runeConst := func(e ast.Expr) (int, bool) { // rune(10) | 10 | '\n'
		if call, ok := e.(*ast.CallExpr); ok && isIdent(call.Fun, "rune") && len(call.Args) == 1 {
			e = call.Args[0]
		}
		if bl, ok := e.(*ast.BasicLit); ok && bl.Kind == token.INT {
			v, err := strconv.Atoi(bl.Value)
			return v, err == nil && v >= 0 && v < 256
		}
		return charLit(e)
	}
	isParam := func(e ast.Expr) bool {
		if call, ok := e.(*ast.CallExpr); ok && isIdent(call.Fun, "rune") && len(call.Args) == 1 {
			e = call.Args[0]
		}
		return isIdent(e, param)
	}
	if len(ger.Body.List) != 2 {
		fail("getEscapedRune: expected one if-chain and a final return")
	}
	ifs, ok := ger.Body.List[0].(*ast.IfStmt)
	if !ok {
		fail("getEscapedRune: expected an if-chain")
	}
	for cur := ifs; cur != nil; {
		be, ok := cur.Cond.(*ast.BinaryExpr)
		if !ok || be.Op != token.EQL || !isIdent(be.X, param) {
			fail("%s: getEscapedRune: unrecognised condition", at(cur))
		}
		c, ok := charLit(be.Y)
		if !ok {
			fail("%s: getEscapedRune: unrecognised condition", at(cur))
		}
		if len(cur.Body.List) != 1 {
			fail("%s: getEscapedRune: unrecognised branch", at(cur))
		}
		ret, ok := cur.Body.List[0].(*ast.ReturnStmt)
		if !ok || len(ret.Results) != 1 {
			fail("%s: getEscapedRune: unrecognised branch", at(cur))
		}
		v, ok := runeConst(ret.Results[0])
		if !ok {
			fail("%s: getEscapedRune: unrecognised result", at(ret))
		}
		escRows = append(escRows, fmt.Sprintf("  (%d, %d) /- \\%c -/", c, v, rune(c)))
		next, _ := cur.Else.(*ast.IfStmt)
		if cur.Else != nil && next == nil {
			fail("%s: getEscapedRune: unrecognised else", at(cur))
		}
		cur = next
	}
	ret, ok := ger.Body.List[1].(*ast.ReturnStmt)
	if !ok || len(ret.Results) != 1 || !isParam(ret.Results[0]) {
		fail("getEscapedRune: the final return must be the character itself")
	}

	// ---- IsHex ------------------------------------------------------------------------------
	ih := funcDecl(f, "IsHex")
	hparam := ih.Type.Params.List[0].Names[0].Name
	if len(ih.Body.List) != 1 {
		fail("IsHex: expected a single return")
	}
	hret, ok := ih.Body.List[0].(*ast.ReturnStmt)
	if !ok || len(hret.Results) != 1 {
		fail("IsHex: expected a single return")
	}
	hexRows := []string{}
	var collect func(e ast.Expr)
	collect = func(e ast.Expr) {
		if p, ok := e.(*ast.ParenExpr); ok {
			e = p.X
		}
		be, ok := e.(*ast.BinaryExpr)
		if !ok {
			fail("%s: IsHex: unrecognised expression", at(e))
		}
		switch be.Op {
		case token.LOR:
			collect(be.X)
			collect(be.Y)
		case token.LAND: // lo <= ch && ch <= hi
			l, ok1 := be.X.(*ast.BinaryExpr)
			r, ok2 := be.Y.(*ast.BinaryExpr)
			if !ok1 || !ok2 || l.Op != token.LEQ || r.Op != token.LEQ || !isIdent(l.Y, hparam) || !isIdent(r.X, hparam) {
				fail("%s: IsHex: unrecognised range", at(be))
			}
			lo, ok1 := charLit(l.X)
			hi, ok2 := charLit(r.Y)
			if !ok1 || !ok2 {
				fail("%s: IsHex: unrecognised range", at(be))
			}
			hexRows = append(hexRows, fmt.Sprintf("  (%d, %d) /- %c-%c -/", lo, hi, rune(lo), rune(hi)))
		default:
			fail("%s: IsHex: unrecognised expression", at(be))
		}
	}
	collect(hret.Results[0])

	// ---- every s.unread(n) ------------------------------------------------------------------
	unreads := []string{}
	ast.Inspect(f, func(n ast.Node) bool {
		call, ok := n.(*ast.CallExpr)
		if !ok {
			return true
		}
		sel, ok := call.Fun.(*ast.SelectorExpr)
		if !ok || sel.Sel.Name != "unread" {
			return true
		}
		if len(call.Args) != 1 {
			fail("%s: unread with %d arguments", at(call), len(call.Args))
		}
		bl, ok := call.Args[0].(*ast.BasicLit)
		if !ok || bl.Kind != token.INT {
			fail("%s: unread with a non-constant argument", at(call))
		}
		unreads = append(unreads, bl.Value)
		return true
	})
	if len(unreads) == 0 {
		fail("no s.unread(n) call found")
	}

	var b strings.Builder
	b.WriteString("import Vore.Model.LexTypes\n")
	b.WriteString("/-!\n# Vore.ExtractedLex — GENERATED by /verif/harness/cmd/extractlex from libvore/ast/lexer.go. Do not edit.\n\n")
	b.WriteString("Regenerated from /repo's current source on every check (checklib/extract_lex.py); the committed\ncopy is what the current tree yields.\n-/\n")
	b.WriteString("namespace Vore.ExtractedLex\nopen Vore Vore.Lex\n\n")
	list := func(name, typ, doc string, rows []string) {
		b.WriteString("/-- " + doc + " -/\n")
		b.WriteString("def " + name + " : List " + typ + " := [\n" + strings.Join(rows, ",\n") + "]\n\n")
	}
	srows := []string{}
	for _, s := range states {
		srows = append(srows, "  "+s)
	}
	list("goStates", "St", "`TokenState` constants of `getNextToken`, in order", srows)
	list("goFinal", "(St × FinalAct)", "the final `switch current_state`, one row per case label (states without a row reach `default: panic`)", finalRows)
	list("goKeywords", "(Bytes × Tok)", "the keyword `switch lexeme` (case label bytes, token type)", kwRows)
	b.WriteString("/-- the keyword switch is applied to `strings.ToLower(buf.String())` -/\ndef goKeywordsLower : Bool := " + kwLower + "\n\n")
	list("goOperators", "(Bytes × Tok)", "the operator `switch lexeme`", opRows)
	list("goEscapes", "(UInt8 × UInt8)", "`getEscapedRune`: (character after the backslash, result); anything else is itself", escRows)
	list("goHexRanges", "(UInt8 × UInt8)", "`IsHex`: inclusive ranges", hexRows)
	b.WriteString("/-- the constant argument of every `s.unread(n)` call in lexer.go, in source order -/\n")
	b.WriteString("def goUnreads : List Nat := [" + strings.Join(unreads, ", ") + "]\n\n")
	b.WriteString("end Vore.ExtractedLex\n")
	if err := os.WriteFile(os.Args[2], []byte(b.String()), 0o644); err != nil {
		fail("%v", err)
	}
}
