// cliextract: regenerates the finite facts of /repo's main.go that the C18 theorems use
// into Lean data (lean/Vore/CliExtracted.lean).
//
//	cliextract [-o out.lean] [repo]        (repo defaults to $VERIF_REPO or /repo)
//
// go/parser + go/ast only.  FAILS CLOSED: anything it does not recognise in the pieces it
// is asked to extract is an error (exit 1), never skipped.
//
// Extracted from main.go:
//   - `var replaceModeArg = engine.X`                     -> goModeDefault
//   - the switch of `func replaceMode(value string) error` -> goModeCases (value -> mode), in source order;
//     `fallthrough` is resolved; the default clause must return an error
//   - every `flag.String/Bool/Func(...)` in main()          -> goFlags (name, kind, default)
//   - the `(default: X)` text of the -replace-mode usage     -> goModeUsageDefault
//   - `os.OpenFile(filename, FLAGS, PERM)` in OpenFile       -> goOpenFlags, goOpenPerm
//   - whether `Truncate(f)` is called before each `f.WriteString(results.…Json())` -> goTruncateCalled
package main

import (
	"flag"
	"fmt"
	"go/ast"
	"go/parser"
	"go/token"
	"os"
	"path/filepath"
	"regexp"
	"strconv"
	"strings"
)

var fset = token.NewFileSet()

func fail(n ast.Node, format string, args ...interface{}) {
	pos := ""
	if n != nil {
		pos = fset.Position(n.Pos()).String() + ": "
	}
	fmt.Fprintln(os.Stderr, "cliextract: "+pos+fmt.Sprintf(format, args...))
	os.Exit(1)
}

func sel(e ast.Expr) (string, string, bool) {
	s, ok := e.(*ast.SelectorExpr)
	if !ok {
		return "", "", false
	}
	x, ok := s.X.(*ast.Ident)
	if !ok {
		return "", "", false
	}
	return x.Name, s.Sel.Name, true
}

func strLit(e ast.Expr) (string, bool) {
	b, ok := e.(*ast.BasicLit)
	if !ok || b.Kind != token.STRING {
		return "", false
	}
	s, err := strconv.Unquote(b.Value)
	if err != nil {
		return "", false
	}
	return s, true
}

func leanStr(s string) string {
	var b strings.Builder
	b.WriteByte('"')
	for _, c := range s {
		switch {
		case c == '"' || c == '\\':
			b.WriteByte('\\')
			b.WriteRune(c)
		case c == '\n':
			b.WriteString("\\n")
		case c < 0x20 || c > 0x7e:
			fail(nil, "non-printable character in extracted string %q", s)
		default:
			b.WriteRune(c)
		}
	}
	b.WriteByte('"')
	return b.String()
}

func main() {
	out := flag.String("o", "", "output file (default stdout)")
	flag.Parse()
	repo := os.Getenv("VERIF_REPO")
	if repo == "" {
		repo = "/repo"
	}
	if flag.NArg() > 0 {
		repo = flag.Arg(0)
	}
	path := filepath.Join(repo, "main.go")
	file, err := parser.ParseFile(fset, path, nil, 0)
	if err != nil {
		fail(nil, "%v", err)
	}

	modeDefault := ""
	var modeCases [][2]string
	modeDefaultIsError := false
	type fl struct{ name, kind, def string }
	var flags []fl
	usageDefault := ""
	var openFlags []string
	openPerm := ""
	truncateCalled := -1 // number of results.*Json() writes preceded by Truncate(f); -1 = none seen
	writes := 0

	for _, d := range file.Decls {
		switch x := d.(type) {
		case *ast.GenDecl:
			if x.Tok != token.VAR {
				continue
			}
			for _, sp := range x.Specs {
				vs := sp.(*ast.ValueSpec)
				for i, n := range vs.Names {
					if n.Name != "replaceModeArg" {
						continue
					}
					if i >= len(vs.Values) {
						fail(vs, "replaceModeArg has no initialiser")
					}
					pkg, name, ok := sel(vs.Values[i])
					if !ok || pkg != "engine" {
						fail(vs, "replaceModeArg initialiser is not engine.X")
					}
					modeDefault = name
				}
			}
		case *ast.FuncDecl:
			switch x.Name.Name {
			case "replaceMode":
				extractReplaceMode(x, &modeCases, &modeDefaultIsError)
			case "OpenFile":
				ast.Inspect(x.Body, func(n ast.Node) bool {
					c, ok := n.(*ast.CallExpr)
					if !ok {
						return true
					}
					if p, f, ok := sel(c.Fun); ok && p == "os" && f == "OpenFile" {
						if len(c.Args) != 3 {
							fail(c, "os.OpenFile with %d arguments", len(c.Args))
						}
						if openPerm != "" {
							fail(c, "second os.OpenFile call in OpenFile")
						}
						openFlags = orList(c.Args[1])
						switch a := c.Args[2].(type) {
						case *ast.BasicLit:
							openPerm = a.Value
						case *ast.SelectorExpr:
							p, f, ok := sel(a)
							if !ok {
								fail(a, "unrecognised permission argument")
							}
							openPerm = p + "." + f
						case *ast.CallExpr: // os.FileMode(0666)
							if len(a.Args) == 1 {
								if b, ok := a.Args[0].(*ast.BasicLit); ok {
									openPerm = b.Value
									break
								}
							}
							fail(a, "unrecognised permission argument")
						default:
							fail(c.Args[2], "unrecognised permission argument")
						}
					}
					return true
				})
			case "main":
				ast.Inspect(x.Body, func(n ast.Node) bool {
					c, ok := n.(*ast.CallExpr)
					if !ok {
						return true
					}
					p, f, ok := sel(c.Fun)
					if !ok || p != "flag" {
						return true
					}
					// flag.StringVar(&v, name, default, usage) / flag.BoolVar(...) are the same declarations
					if (f == "StringVar" || f == "BoolVar") && len(c.Args) == 4 {
						f = strings.TrimSuffix(f, "Var")
						c = &ast.CallExpr{Fun: c.Fun, Lparen: c.Lparen, Args: c.Args[1:], Rparen: c.Rparen}
					}
					switch f {
					case "String", "Bool":
						if len(c.Args) != 3 {
							fail(c, "flag.%s with %d arguments", f, len(c.Args))
						}
						name, ok := strLit(c.Args[0])
						if !ok {
							fail(c, "flag name is not a string literal")
						}
						def := ""
						switch a := c.Args[1].(type) {
						case *ast.BasicLit:
							if s, ok := strLit(a); ok {
								def = s
							} else {
								def = a.Value
							}
						case *ast.Ident:
							def = a.Name
						default:
							fail(c, "unrecognised flag default")
						}
						flags = append(flags, fl{name, f, def})
					case "Func":
						if len(c.Args) != 3 {
							fail(c, "flag.Func with %d arguments", len(c.Args))
						}
						name, ok := strLit(c.Args[0])
						usage, ok2 := strLit(c.Args[1])
						fn, ok3 := c.Args[2].(*ast.Ident)
						if !ok || !ok2 || !ok3 {
							fail(c, "unrecognised flag.Func call")
						}
						flags = append(flags, fl{name, "Func:" + fn.Name, ""})
						if name == "replace-mode" {
							m := regexp.MustCompile(`\(default: ([A-Z]+)\)`).FindStringSubmatch(usage)
							if m == nil {
								fail(c, "-replace-mode usage text has no (default: X)")
							}
							usageDefault = m[1]
						}
					case "Parse", "PrintDefaults":
					default:
						fail(c, "unrecognised flag.%s call in main", f)
					}
					return true
				})
				// Truncate(f) before f.WriteString(results.Json()/FormattedJson())
				ast.Inspect(x.Body, func(n ast.Node) bool {
					b, ok := n.(*ast.BlockStmt)
					if !ok {
						return true
					}
					truncated := false
					for _, st := range b.List {
						es, ok := st.(*ast.ExprStmt)
						if !ok {
							if _, isAssign := st.(*ast.AssignStmt); isAssign {
								// `f := OpenFile(...)` starts a new file
								if as := st.(*ast.AssignStmt); len(as.Rhs) == 1 {
									if c, ok := as.Rhs[0].(*ast.CallExpr); ok {
										if id, ok := c.Fun.(*ast.Ident); ok && id.Name == "OpenFile" {
											truncated = false
										}
									}
								}
							}
							continue
						}
						c, ok := es.X.(*ast.CallExpr)
						if !ok {
							continue
						}
						if id, ok := c.Fun.(*ast.Ident); ok && id.Name == "Truncate" {
							truncated = true
						}
						if _, f, ok := sel(c.Fun); ok && f == "WriteString" && len(c.Args) == 1 {
							if inner, ok := c.Args[0].(*ast.CallExpr); ok {
								if r, m, ok := sel(inner.Fun); ok && r != "" && (m == "Json" || m == "FormattedJson") {
									writes++
									if truncateCalled < 0 {
										truncateCalled = 0
									}
									if truncated {
										truncateCalled++
									}
								}
							}
						}
					}
					return true
				})
			}
		}
	}
	if modeDefault == "" {
		fail(nil, "var replaceModeArg not found")
	}
	if len(modeCases) == 0 || !modeDefaultIsError {
		fail(nil, "replaceMode switch not found or its default clause does not return an error")
	}
	if len(flags) == 0 {
		fail(nil, "no flags found in main()")
	}
	if openPerm == "" || len(openFlags) == 0 {
		fail(nil, "os.OpenFile call not found in OpenFile")
	}
	if usageDefault == "" {
		fail(nil, "flag.Func(\"replace-mode\", …) not found")
	}
	if writes != 2 {
		fail(nil, "expected two f.WriteString(results.…Json()) statements in main, found %d", writes)
	}

	var b strings.Builder
	b.WriteString("/-! GENERATED by /verif/harness/cmd/cliextract from main.go — do not edit. -/\n")
	b.WriteString("namespace Vore.CliExtracted\n\n")
	b.WriteString("/-- `var replaceModeArg = engine.X` -/\n")
	b.WriteString("def goModeDefault : String := " + leanStr(modeDefault) + "\n\n")
	b.WriteString("/-- the `switch value` of `replaceMode`: flag value ↦ `engine.X` (default clause: error) -/\n")
	b.WriteString("def goModeCases : List (String × String) := [")
	for i, c := range modeCases {
		if i > 0 {
			b.WriteString(", ")
		}
		b.WriteString("(" + leanStr(c[0]) + ", " + leanStr(c[1]) + ")")
	}
	b.WriteString("]\n\n")
	b.WriteString("/-- the `(default: X)` of the -replace-mode usage text -/\n")
	b.WriteString("def goModeUsageDefault : String := " + leanStr(usageDefault) + "\n\n")
	b.WriteString("/-- flags registered in `main()`: name, kind, default -/\n")
	b.WriteString("def goFlags : List (String × String × String) := [")
	for i, f := range flags {
		if i > 0 {
			b.WriteString(", ")
		}
		b.WriteString("(" + leanStr(f.name) + ", " + leanStr(f.kind) + ", " + leanStr(f.def) + ")")
	}
	b.WriteString("]\n\n")
	b.WriteString("/-- `os.OpenFile(filename, FLAGS, PERM)` in `OpenFile` -/\n")
	b.WriteString("def goOpenFlags : List String := [")
	for i, f := range openFlags {
		if i > 0 {
			b.WriteString(", ")
		}
		b.WriteString(leanStr(f))
	}
	b.WriteString("]\n")
	b.WriteString("def goOpenPerm : String := " + leanStr(openPerm) + "\n\n")
	b.WriteString("/-- both `f.WriteString(results.…Json())` are preceded by `Truncate(f)` -/\n")
	b.WriteString(fmt.Sprintf("def goTruncateCalled : Bool := %v\n\n", truncateCalled == 2))
	b.WriteString("end Vore.CliExtracted\n")

	if *out == "" {
		fmt.Print(b.String())
		return
	}
	if err := os.WriteFile(*out, []byte(b.String()), 0o644); err != nil {
		fail(nil, "%v", err)
	}
}

func orList(e ast.Expr) []string {
	switch x := e.(type) {
	case *ast.BinaryExpr:
		if x.Op != token.OR {
			fail(x, "unrecognised operator in OpenFile flags")
		}
		return append(orList(x.X), orList(x.Y)...)
	case *ast.SelectorExpr:
		p, f, ok := sel(x)
		if !ok || p != "os" {
			fail(x, "OpenFile flag is not os.X")
		}
		return []string{f}
	case *ast.ParenExpr:
		return orList(x.X)
	}
	fail(e, "unrecognised OpenFile flags expression")
	return nil
}

func extractReplaceMode(fn *ast.FuncDecl, cases *[][2]string, defaultIsError *bool) {
	if len(fn.Body.List) != 2 {
		fail(fn, "replaceMode: expected `switch` followed by `return nil`")
	}
	sw, ok := fn.Body.List[0].(*ast.SwitchStmt)
	if !ok || sw.Init != nil {
		fail(fn, "replaceMode: first statement is not a plain switch")
	}
	if id, ok := sw.Tag.(*ast.Ident); !ok || id.Name != "value" {
		fail(sw, "replaceMode: switch tag is not `value`")
	}
	ret, ok := fn.Body.List[1].(*ast.ReturnStmt)
	if !ok || len(ret.Results) != 1 {
		fail(fn, "replaceMode: last statement is not `return nil`")
	}
	if id, ok := ret.Results[0].(*ast.Ident); !ok || id.Name != "nil" {
		fail(ret, "replaceMode: last statement is not `return nil`")
	}
	type clause struct {
		values []string
		target string // "" = fallthrough
	}
	var cls []clause
	for _, st := range sw.Body.List {
		cc := st.(*ast.CaseClause)
		if cc.List == nil {
			// default: must return a non-nil error
			if len(cc.Body) != 1 {
				fail(cc, "replaceMode: default clause is not a single return")
			}
			r, ok := cc.Body[0].(*ast.ReturnStmt)
			if !ok || len(r.Results) != 1 {
				fail(cc, "replaceMode: default clause is not a single return")
			}
			if id, ok := r.Results[0].(*ast.Ident); ok && id.Name == "nil" {
				fail(cc, "replaceMode: default clause returns nil")
			}
			*defaultIsError = true
			cls = append(cls, clause{nil, "!"})
			continue
		}
		var vals []string
		for _, e := range cc.List {
			s, ok := strLit(e)
			if !ok {
				fail(e, "replaceMode: case value is not a string literal")
			}
			vals = append(vals, s)
		}
		if len(cc.Body) != 1 {
			fail(cc, "replaceMode: case body is not a single statement")
		}
		switch b := cc.Body[0].(type) {
		case *ast.BranchStmt:
			if b.Tok != token.FALLTHROUGH {
				fail(b, "replaceMode: unrecognised branch statement")
			}
			cls = append(cls, clause{vals, ""})
		case *ast.AssignStmt:
			if len(b.Lhs) != 1 || len(b.Rhs) != 1 || b.Tok != token.ASSIGN {
				fail(b, "replaceMode: unrecognised assignment")
			}
			if id, ok := b.Lhs[0].(*ast.Ident); !ok || id.Name != "replaceModeArg" {
				fail(b, "replaceMode: assignment target is not replaceModeArg")
			}
			p, f, ok := sel(b.Rhs[0])
			if !ok || p != "engine" {
				fail(b, "replaceMode: assigned value is not engine.X")
			}
			cls = append(cls, clause{vals, f})
		default:
			fail(cc, "replaceMode: unrecognised case body")
		}
	}
	for i, c := range cls {
		if c.values == nil {
			continue
		}
		t := c.target
		for j := i + 1; t == "" && j < len(cls); j++ {
			t = cls[j].target
		}
		if t == "" || t == "!" {
			fail(sw, "replaceMode: fallthrough into the default clause or off the end")
		}
		for _, v := range c.values {
			*cases = append(*cases, [2]string{v, t})
		}
	}
}
