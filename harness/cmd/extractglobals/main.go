// extractglobals — regenerated shared-state facts for property C19.
//
//	extractglobals [-o ExtractedGlobals.lean] [repo root, default /repo]
//
// A small go/ast program (no type checker). It reads the production sources of the libvore
// packages (root, ast, bytecode, engine, files, ds, algo; `_test.go` files and files whose
// build constraint needs the `verif` tag are skipped) and emits Lean *data*:
//
//	goFuncs       every function / method ("pkg.Func", "pkg.Recv.Method"); id = position
//	goCalls       per function, the functions its body mentions (by name: an over-approximated
//	              call graph; a method name matches every method of that name)
//	goEntries     libvore.Compile, CompileFile, (*Vore).Run, (*Vore).RunFiles
//	goGlobals     every package-level `var`: type, whether scalar, and the functions that
//	              assign it / increment it / take its address / read it
//	goGoStmts     functions containing a `go` statement
//	goMutexDecls  sync.Mutex / sync.RWMutex declarations (package-level vars and struct fields)
//	goLockCalls   (function, receiver expression) of every Lock/Unlock/RLock/RUnlock call
//	goSyncUses    every other use of packages sync and sync/atomic
//	goRandCalls   (function, name) of every call of a math/rand top-level function (these use
//	              the locked global source; `rand.New`/`NewSource` are listed too)
//	goCodeWrites  (engine function, target) of assignments through a value whose declared type
//	              comes from package bytecode or ast (the compiled program a Run shares)
//	goLockHolders (function, mutex): the function's first two statements are `M.Lock()` and
//	              `defer M.Unlock()` for the package-level mutex M (position in goGlobals), so it
//	              holds M for its whole body, panics included
//	goInitFirst   (holder function, variable): after that prologue the function assigns the
//	              package-level variable (position in goGlobals) a value that does not depend on
//	              it, before any statement that mentions the variable or any libvore function
//
// It fails closed: a package-level variable it cannot classify (non-scalar type that is passed
// around, a composite-literal key that may name it, a method call on it …) is an error, never
// silently skipped.
package main

import (
	"bytes"
	"encoding/json"
	"flag"
	"fmt"
	"go/ast"
	"go/build/constraint"
	"go/parser"
	"go/printer"
	"go/token"
	"os"
	"path/filepath"
	"sort"
	"strings"
)

var pkgDirs = []struct{ label, dir string }{
	{"libvore", "libvore"},
	{"ast", "libvore/ast"},
	{"bytecode", "libvore/bytecode"},
	{"engine", "libvore/engine"},
	{"files", "libvore/files"},
	{"ds", "libvore/ds"},
	{"algo", "libvore/algo"},
}

const modPrefix = "github.com/jmeaster30/vore/"

var entryNames = []string{"libvore.Compile", "libvore.CompileFile", "libvore.Vore.Run", "libvore.Vore.RunFiles"}

var fset = token.NewFileSet()
var problems []string

func fail(pos token.Pos, format string, args ...interface{}) {
	problems = append(problems, fmt.Sprintf("%s: %s", fset.Position(pos), fmt.Sprintf(format, args...)))
}

func exprString(e ast.Node) string {
	var b bytes.Buffer
	printer.Fprint(&b, fset, e)
	return strings.Join(strings.Fields(b.String()), " ")
}

type global struct {
	pkg, name, typ, file              string
	line                              int
	scalar, mutex, init               bool
	idx, lockCalls                    int
	spec                              *ast.ValueSpec
	assigned, incremented, addr, read map[int]bool
}

type fn struct {
	id     int
	pkg    string
	name   string // pkg.Func or pkg.Recv.Method
	short  string
	method bool
	decl   *ast.FuncDecl
	file   *ast.File
	calls  map[int]bool
}

type pkgInfo struct {
	label   string
	files   []*ast.File
	names   []string
	globals map[string]*global
	funcs   map[string][]*fn // short name -> plain functions of this package
}

var (
	pkgs        = map[string]*pkgInfo{}
	funcs       []*fn
	methodsBy   = map[string][]*fn{} // method short name -> all methods, all packages
	globalsAll  []*global
	lockHolders [][2]int
	initFirst   [][2]int
	goStmts     = map[int]bool{}
	mutexDecls  []string
	lockCalls   [][2]string
	syncUses    [][2]string
	randCalls   [][2]string
	codeWrites  [][2]string
	skipped     []string
)

func buildOK(f *ast.File) bool {
	for _, cg := range f.Comments {
		if cg.Pos() >= f.Package {
			break
		}
		for _, c := range cg.List {
			if constraint.IsGoBuild(c.Text) {
				x, err := constraint.Parse(c.Text)
				if err != nil {
					fail(c.Pos(), "unparsable build constraint")
					return false
				}
				// the production build: every tag except `verif`
				return x.Eval(func(tag string) bool { return tag != "verif" })
			}
		}
	}
	return true
}

var scalarTypes = map[string]bool{"int": true, "int8": true, "int16": true, "int32": true, "int64": true,
	"uint": true, "uint8": true, "uint16": true, "uint32": true, "uint64": true, "uintptr": true, "byte": true, "rune": true,
	"float32": true, "float64": true, "bool": true, "string": true, "complex64": true, "complex128": true}

func isScalar(spec *ast.ValueSpec, idx int) bool {
	if spec.Type != nil {
		switch t := spec.Type.(type) {
		case *ast.Ident:
			return scalarTypes[t.Name]
		case *ast.FuncType:
			return true // a function value is immutable; only rebinding the variable writes
		}
		return false
	}
	if idx < len(spec.Values) {
		if _, ok := spec.Values[idx].(*ast.BasicLit); ok {
			return true
		}
		if id, ok := spec.Values[idx].(*ast.Ident); ok && (id.Name == "true" || id.Name == "false") {
			return true
		}
	}
	return false
}

func isMutexType(e ast.Expr) bool {
	if e == nil {
		return false
	}
	s := exprString(e)
	return s == "sync.Mutex" || s == "sync.RWMutex" || s == "*sync.Mutex" || s == "*sync.RWMutex"
}

func recvName(e ast.Expr) string {
	switch t := e.(type) {
	case *ast.StarExpr:
		return recvName(t.X)
	case *ast.IndexExpr:
		return recvName(t.X)
	case *ast.IndexListExpr:
		return recvName(t.X)
	case *ast.Ident:
		return t.Name
	}
	return exprString(e)
}

func load(root string) {
	for _, pd := range pkgDirs {
		dir := filepath.Join(root, pd.dir)
		ents, err := os.ReadDir(dir)
		if err != nil {
			fail(token.NoPos, "cannot read %s: %v", dir, err)
			continue
		}
		p := &pkgInfo{label: pd.label, globals: map[string]*global{}, funcs: map[string][]*fn{}}
		pkgs[pd.label] = p
		for _, e := range ents {
			n := e.Name()
			if e.IsDir() || !strings.HasSuffix(n, ".go") || strings.HasSuffix(n, "_test.go") {
				continue
			}
			path := filepath.Join(dir, n)
			f, err := parser.ParseFile(fset, path, nil, parser.ParseComments)
			if err != nil {
				fail(token.NoPos, "parse error %v", err)
				continue
			}
			if !buildOK(f) {
				skipped = append(skipped, pd.dir+"/"+n)
				continue
			}
			p.files = append(p.files, f)
			p.names = append(p.names, pd.dir+"/"+n)
		}
	}
	// declarations
	for _, pd := range pkgDirs {
		p := pkgs[pd.label]
		if p == nil {
			continue
		}
		for fi, f := range p.files {
			for _, d := range f.Decls {
				switch d := d.(type) {
				case *ast.GenDecl:
					if d.Tok == token.VAR {
						for _, s := range d.Specs {
							vs := s.(*ast.ValueSpec)
							for i, nm := range vs.Names {
								if nm.Name == "_" {
									continue
								}
								g := &global{pkg: p.label, name: nm.Name, file: p.names[fi], line: fset.Position(nm.Pos()).Line,
									scalar: isScalar(vs, i), mutex: isMutexType(vs.Type), init: len(vs.Values) > 0, spec: vs,
									assigned: map[int]bool{}, incremented: map[int]bool{}, addr: map[int]bool{}, read: map[int]bool{}}
								if vs.Type != nil {
									g.typ = exprString(vs.Type)
								} else if i < len(vs.Values) {
									g.typ = "= " + exprString(vs.Values[i])
								}
								if g.mutex {
									mutexDecls = append(mutexDecls, p.label+"."+nm.Name+" "+g.typ)
								}
								p.globals[nm.Name] = g
								g.idx = len(globalsAll)
								globalsAll = append(globalsAll, g)
							}
						}
					}
					if d.Tok == token.TYPE {
						for _, s := range d.Specs {
							ts := s.(*ast.TypeSpec)
							if st, ok := ts.Type.(*ast.StructType); ok {
								for _, fld := range st.Fields.List {
									if isMutexType(fld.Type) {
										nm := "(embedded)"
										if len(fld.Names) > 0 {
											nm = fld.Names[0].Name
										}
										mutexDecls = append(mutexDecls, p.label+"."+ts.Name.Name+"."+nm+" "+exprString(fld.Type))
									}
								}
							}
						}
					}
				case *ast.FuncDecl:
					x := &fn{id: len(funcs), pkg: p.label, short: d.Name.Name, decl: d, file: f, calls: map[int]bool{}}
					if d.Recv != nil && len(d.Recv.List) > 0 {
						x.method = true
						x.name = p.label + "." + recvName(d.Recv.List[0].Type) + "." + d.Name.Name
						methodsBy[x.short] = append(methodsBy[x.short], x)
					} else {
						x.name = p.label + "." + d.Name.Name
						p.funcs[x.short] = append(p.funcs[x.short], x)
					}
					funcs = append(funcs, x)
				}
			}
		}
	}
}

// imports of one file: local name -> import path
func importsOf(f *ast.File) map[string]string {
	m := map[string]string{}
	for _, is := range f.Imports {
		path := strings.Trim(is.Path.Value, "\"")
		name := path[strings.LastIndex(path, "/")+1:]
		if path == "math/rand/v2" {
			name = "rand"
		}
		if is.Name != nil {
			name = is.Name.Name
		}
		m[name] = path
	}
	return m
}

func libLabel(path string) string {
	if !strings.HasPrefix(path, modPrefix) {
		return ""
	}
	rest := strings.TrimPrefix(path, modPrefix)
	for _, pd := range pkgDirs {
		if pd.dir == rest {
			return pd.label
		}
	}
	return ""
}

var randGlobalFuncs = map[string]bool{"Int63": true, "Uint32": true, "Uint64": true, "Int31": true, "Int": true, "Int63n": true,
	"Int31n": true, "Intn": true, "Float64": true, "Float32": true, "Perm": true, "Shuffle": true, "Read": true,
	"NormFloat64": true, "ExpFloat64": true, "Seed": true, "N": true, "IntN": true, "Int32": true, "Int32N": true,
	"Int64": true, "Int64N": true, "Uint32N": true, "Uint64N": true, "UintN": true, "Uint": true}

var lockMethods = map[string]bool{"Lock": true, "Unlock": true, "RLock": true, "RUnlock": true, "TryLock": true, "TryRLock": true}

// root identifier of an lvalue / operand: x, x.f, x[i], *x, (x)
func rootIdent(e ast.Expr) (*ast.Ident, bool) {
	direct := true
	for {
		switch t := e.(type) {
		case *ast.Ident:
			return t, direct
		case *ast.ParenExpr:
			e = t.X
		case *ast.SelectorExpr:
			e, direct = t.X, false
		case *ast.IndexExpr:
			e, direct = t.X, false
		case *ast.StarExpr:
			e, direct = t.X, false
		case *ast.SliceExpr:
			e, direct = t.X, false
		default:
			return nil, false
		}
	}
}

type walker struct {
	f       *fn
	p       *pkgInfo
	imports map[string]string
	tainted map[*ast.Object]bool // engine: values whose declared type comes from bytecode / ast
	// identifier occurrences already classified by their context
	done map[*ast.Ident]bool
}

func (w *walker) globalOf(id *ast.Ident) *global {
	g := w.p.globals[id.Name]
	if g == nil {
		return nil
	}
	if id.Obj == nil {
		return g // declared in another file of the package
	}
	if id.Obj.Decl == g.spec {
		return g
	}
	return nil // shadowed by a local declaration
}

// pkg.Name where pkg is an imported libvore package and Name one of its package-level vars
func (w *walker) foreignGlobal(se *ast.SelectorExpr) *global {
	x, ok := se.X.(*ast.Ident)
	if !ok || x.Obj != nil {
		return nil
	}
	if lbl := libLabel(w.imports[x.Name]); lbl != "" && pkgs[lbl] != nil {
		return pkgs[lbl].globals[se.Sel.Name]
	}
	return nil
}

func (w *walker) lvalueGlobal(e ast.Expr) (*global, *ast.Ident) {
	if pe, ok := e.(*ast.ParenExpr); ok {
		return w.lvalueGlobal(pe.X)
	}
	if se, ok := e.(*ast.SelectorExpr); ok {
		if g := w.foreignGlobal(se); g != nil {
			return g, se.Sel
		}
	}
	// strip one level at a time so that pkg.G.f / pkg.G[i] are found too
	switch t := e.(type) {
	case *ast.SelectorExpr:
		return w.lvalueGlobal(t.X)
	case *ast.IndexExpr:
		return w.lvalueGlobal(t.X)
	case *ast.StarExpr:
		return w.lvalueGlobal(t.X)
	case *ast.SliceExpr:
		return w.lvalueGlobal(t.X)
	case *ast.Ident:
		if g := w.globalOf(t); g != nil {
			return g, t
		}
	}
	return nil, nil
}

func (w *walker) isTainted(e ast.Expr) bool {
	id, _ := rootIdent(e)
	return id != nil && id.Obj != nil && w.tainted[id.Obj]
}

// functions of the standard library that write through their slice argument
var sliceMutators = map[string]map[string]bool{
	"sort":   {"Sort": true, "Stable": true, "Slice": true, "SliceStable": true, "Ints": true, "Strings": true, "Float64s": true},
	"slices": {"Sort": true, "SortFunc": true, "SortStableFunc": true, "Reverse": true},
}

// mentionsTainted: some identifier inside e is a value of a bytecode / ast type (or derived from one)
func (w *walker) mentionsTainted(e ast.Expr) bool {
	found := false
	ast.Inspect(e, func(n ast.Node) bool {
		if id, ok := n.(*ast.Ident); ok && id.Obj != nil && w.tainted[id.Obj] {
			found = true
		}
		return !found
	})
	return found
}

func typeIsCode(t ast.Expr) bool {
	if t == nil {
		return false
	}
	s := exprString(t)
	return strings.Contains(s, "bytecode.") || strings.Contains(s, "ast.")
}

func (w *walker) taintFields(fl *ast.FieldList) {
	if fl == nil {
		return
	}
	for _, f := range fl.List {
		if typeIsCode(f.Type) {
			for _, n := range f.Names {
				if n.Obj != nil {
					w.tainted[n.Obj] = true
				}
			}
		}
	}
}

func (w *walker) noteWrite(lhs ast.Expr, incr bool) {
	if g, id := w.lvalueGlobal(lhs); g != nil {
		w.done[id] = true
		g.assigned[w.f.id] = true
		if incr {
			g.incremented[w.f.id] = true
		}
	}
	if w.f.pkg == "engine" {
		if id, direct := rootIdent(lhs); id != nil && !direct && id.Obj != nil && w.tainted[id.Obj] {
			codeWrites = append(codeWrites, [2]string{w.f.name, exprString(lhs)})
		}
	}
}

func (w *walker) Visit(n ast.Node) ast.Visitor {
	switch t := n.(type) {
	case *ast.FuncLit:
		if w.f.pkg == "engine" {
			w.taintFields(t.Type.Params)
		}
	case *ast.GoStmt:
		goStmts[w.f.id] = true
	case *ast.AssignStmt:
		for _, l := range t.Lhs {
			if t.Tok == token.DEFINE {
				// a new local; it aliases the program if it is derived from a tainted value
				if id, ok := l.(*ast.Ident); ok && id.Obj != nil && w.f.pkg == "engine" {
					for _, r := range t.Rhs {
						if w.isTainted(r) {
							w.tainted[id.Obj] = true
						}
						if ta, ok := r.(*ast.TypeAssertExpr); ok && w.isTainted(ta.X) {
							w.tainted[id.Obj] = true
						}
						if ue, ok := r.(*ast.UnaryExpr); ok && ue.Op == token.AND && w.isTainted(ue.X) {
							w.tainted[id.Obj] = true
						}
					}
				}
				continue
			}
			w.noteWrite(l, t.Tok != token.ASSIGN)
		}
	case *ast.IncDecStmt:
		w.noteWrite(t.X, true)
	case *ast.RangeStmt:
		if t.Tok == token.ASSIGN {
			if t.Key != nil {
				w.noteWrite(t.Key, false)
			}
			if t.Value != nil {
				w.noteWrite(t.Value, false)
			}
		}
		if t.Tok == token.DEFINE && w.f.pkg == "engine" && w.isTainted(t.X) {
			for _, kv := range []ast.Expr{t.Key, t.Value} {
				if id, ok := kv.(*ast.Ident); ok && id.Obj != nil {
					w.tainted[id.Obj] = true
				}
			}
		}
	case *ast.TypeSwitchStmt:
		if as, ok := t.Assign.(*ast.AssignStmt); ok && w.f.pkg == "engine" && len(as.Rhs) == 1 {
			if ta, ok := as.Rhs[0].(*ast.TypeAssertExpr); ok && w.isTainted(ta.X) {
				if id, ok := as.Lhs[0].(*ast.Ident); ok && id.Obj != nil {
					w.tainted[id.Obj] = true
				}
			}
		}
	case *ast.UnaryExpr:
		if t.Op == token.AND {
			if g, id := w.lvalueGlobal(t.X); g != nil {
				w.done[id] = true
				g.addr[w.f.id] = true
			}
		}
	case *ast.CompositeLit:
		for _, el := range t.Elts {
			if kv, ok := el.(*ast.KeyValueExpr); ok {
				if id, ok := kv.Key.(*ast.Ident); ok {
					if w.p.globals[id.Name] != nil && id.Obj == nil {
						// either a struct field name or a reference to the variable: cannot tell without types
						fail(id.Pos(), "composite-literal key %q may name the package-level variable %s.%s: cannot classify",
							id.Name, w.p.label, id.Name)
					}
					w.done[id] = true
				}
			}
		}
	case *ast.CallExpr:
		// library calls that write through a slice argument (an in-place sort or reversal, the builtin copy / clear):
		// when the slice is reachable from a bytecode value this is a write to the program a Run shares
		if w.f.pkg == "engine" {
			mut := false
			args := t.Args
			if id, ok := t.Fun.(*ast.Ident); ok && id.Obj == nil && (id.Name == "copy" || id.Name == "clear") && len(args) > 0 {
				mut, args = true, args[:1]
			}
			if se, ok := t.Fun.(*ast.SelectorExpr); ok {
				if x, ok := se.X.(*ast.Ident); ok && x.Obj == nil && sliceMutators[w.imports[x.Name]][se.Sel.Name] {
					mut = true
				}
			}
			if mut {
				for _, a := range args {
					if w.mentionsTainted(a) {
						codeWrites = append(codeWrites, [2]string{w.f.name, exprString(t)})
						break
					}
				}
			}
		}
		if se, ok := t.Fun.(*ast.SelectorExpr); ok {
			if x, ok := se.X.(*ast.Ident); ok && x.Obj == nil {
				switch w.imports[x.Name] {
				case "math/rand", "math/rand/v2":
					kind := se.Sel.Name
					if !randGlobalFuncs[kind] {
						kind += " (constructor)"
					}
					randCalls = append(randCalls, [2]string{w.f.name, kind})
				}
			}
			if lockMethods[se.Sel.Name] {
				lockCalls = append(lockCalls, [2]string{w.f.name, exprString(se.X) + "." + se.Sel.Name})
				if g, id := w.lvalueGlobal(se.X); g != nil && g.mutex {
					w.done[id] = true
					g.read[w.f.id] = true
					g.lockCalls++
				}
			}
		}
	case *ast.SelectorExpr:
		if x, ok := t.X.(*ast.Ident); ok && x.Obj == nil {
			switch w.imports[x.Name] {
			case "sync", "sync/atomic":
				syncUses = append(syncUses, [2]string{w.f.name, x.Name + "." + t.Sel.Name})
			}
			if lbl := libLabel(w.imports[x.Name]); lbl != "" && pkgs[lbl] != nil {
				for _, c := range pkgs[lbl].funcs[t.Sel.Name] {
					w.f.calls[c.id] = true
				}
				if g := pkgs[lbl].globals[t.Sel.Name]; g != nil && !w.done[t.Sel] {
					w.done[t.Sel] = true
					w.readGlobal(g, t, t.Sel)
				}
				w.done[t.Sel] = true
				return w
			}
		}
		// x.Name: a method of any libvore type, or a field
		for _, c := range methodsBy[t.Sel.Name] {
			w.f.calls[c.id] = true
		}
		w.done[t.Sel] = true
	case *ast.Ident:
		if w.done[t] {
			return w
		}
		if t.Obj == nil || t.Obj.Kind == ast.Fun {
			for _, c := range w.p.funcs[t.Name] {
				w.f.calls[c.id] = true
			}
		}
		if g := w.globalOf(t); g != nil {
			w.readGlobal(g, t, t)
		}
	}
	return w
}

// parents are not tracked by ast.Walk; non-scalar globals are classified by a second pass
func (w *walker) readGlobal(g *global, at ast.Node, id *ast.Ident) {
	g.read[w.f.id] = true
	if !g.scalar && !g.mutex {
		fail(at.Pos(), "package-level variable %s.%s has the non-scalar type %q and is used in %s: "+
			"it may be aliased or mutated through; cannot classify", g.pkg, g.name, g.typ, w.f.name)
	}
}

// mentionsCode: does the node mention the variable g, any other package-level variable, or
// anything that may be a libvore function or method (i.e. may run code that touches g)?
func (w *walker) mentionsCode(n ast.Node, allow *ast.Ident) bool {
	found := false
	ast.Inspect(n, func(x ast.Node) bool {
		switch t := x.(type) {
		case *ast.FuncLit:
			found = true
		case *ast.SelectorExpr:
			if len(methodsBy[t.Sel.Name]) > 0 {
				found = true
			}
			if xi, ok := t.X.(*ast.Ident); ok && xi.Obj == nil {
				if lbl := libLabel(w.imports[xi.Name]); lbl != "" {
					found = true
				}
			}
		case *ast.Ident:
			if t == allow {
				return true
			}
			if (t.Obj == nil || t.Obj.Kind == ast.Fun) && len(w.p.funcs[t.Name]) > 0 {
				found = true
			}
			if w.globalOf(t) != nil {
				found = true
			}
		}
		return !found
	})
	return found
}

// lockPrologue: `M.Lock()` then `defer M.Unlock()` as the first two statements
func (w *walker) lockPrologue(body *ast.BlockStmt) *global {
	if len(body.List) < 2 {
		return nil
	}
	es, ok := body.List[0].(*ast.ExprStmt)
	if !ok {
		return nil
	}
	call, ok := es.X.(*ast.CallExpr)
	if !ok || len(call.Args) != 0 {
		return nil
	}
	se, ok := call.Fun.(*ast.SelectorExpr)
	if !ok || se.Sel.Name != "Lock" {
		return nil
	}
	mid, ok := se.X.(*ast.Ident)
	if !ok {
		return nil
	}
	g := w.globalOf(mid)
	if g == nil || !g.mutex || strings.HasPrefix(g.typ, "*") {
		return nil
	}
	ds, ok := body.List[1].(*ast.DeferStmt)
	if !ok || len(ds.Call.Args) != 0 {
		return nil
	}
	se2, ok := ds.Call.Fun.(*ast.SelectorExpr)
	if !ok || se2.Sel.Name != "Unlock" {
		return nil
	}
	mid2, ok := se2.X.(*ast.Ident)
	if !ok || w.globalOf(mid2) != g {
		return nil
	}
	return g
}

func (w *walker) holderFacts() {
	body := w.f.decl.Body
	m := w.lockPrologue(body)
	if m == nil {
		return
	}
	lockHolders = append(lockHolders, [2]int{w.f.id, m.idx})
	for _, st := range body.List[2:] {
		if as, ok := st.(*ast.AssignStmt); ok && as.Tok == token.ASSIGN && len(as.Lhs) == 1 && len(as.Rhs) == 1 {
			if id, ok := as.Lhs[0].(*ast.Ident); ok {
				if g := w.globalOf(id); g != nil && !w.mentionsCode(as.Rhs[0], nil) {
					initFirst = append(initFirst, [2]int{w.f.id, g.idx})
					continue
				}
			}
		}
		if w.mentionsCode(st, nil) {
			break
		}
	}
}

func leanStr(s string) string {
	var b strings.Builder
	b.WriteByte('"')
	for _, r := range s {
		switch {
		case r == '"' || r == '\\':
			b.WriteByte('\\')
			b.WriteRune(r)
		case r == '\n':
			b.WriteString("\\n")
		case r == '\t':
			b.WriteString("\\t")
		default:
			b.WriteRune(r)
		}
	}
	b.WriteByte('"')
	return b.String()
}

func natList(m map[int]bool) string {
	xs := []int{}
	for k := range m {
		xs = append(xs, k)
	}
	sort.Ints(xs)
	parts := []string{}
	for _, x := range xs {
		parts = append(parts, fmt.Sprint(x))
	}
	return "[" + strings.Join(parts, ", ") + "]"
}

func main() {
	out := flag.String("o", "", "output file (default stdout)")
	jsonOut := flag.String("json", "", "also write the facts as JSON (diagnostics for the check driver)")
	flag.Parse()
	root := "/repo"
	if flag.NArg() > 0 {
		root = flag.Arg(0)
	}
	load(root)
	for _, f := range funcs {
		if f.decl.Body == nil {
			continue
		}
		w := &walker{f: f, p: pkgs[f.pkg], imports: importsOf(f.file), tainted: map[*ast.Object]bool{}, done: map[*ast.Ident]bool{}}
		if f.pkg == "engine" {
			w.taintFields(f.decl.Recv)
			w.taintFields(f.decl.Type.Params)
		}
		ast.Walk(w, f.decl.Body)
		w.holderFacts()
	}
	// a holder holds M for its whole body only if nobody else locks or unlocks M: the two
	// calls of each prologue must be the only Lock/Unlock calls on M in the package
	for _, g := range globalsAll {
		if !g.mutex {
			continue
		}
		n := 0
		for _, h := range lockHolders {
			if h[1] == g.idx {
				n++
			}
		}
		if g.lockCalls != 2*n {
			kept := [][2]int{}
			for _, h := range lockHolders {
				if h[1] != g.idx {
					kept = append(kept, h)
				}
			}
			lockHolders = kept
			fmt.Fprintf(os.Stderr, "extractglobals: note: %s.%s is locked/unlocked outside a `Lock(); defer Unlock()` prologue: no function counts as holding it for its whole body\n", g.pkg, g.name)
		}
	}
	// package-level initialisers run before main (Go's init order happens-before every goroutine);
	// they are recorded (`initialised`) but are not writes of a call
	byName := map[string]int{}
	for _, f := range funcs {
		if _, dup := byName[f.name]; dup {
			fail(f.decl.Pos(), "duplicate function name %s", f.name)
		}
		byName[f.name] = f.id
	}
	entries := []string{}
	for _, e := range entryNames {
		id, ok := byName[e]
		if !ok {
			fail(token.NoPos, "entry point %s not found", e)
			continue
		}
		entries = append(entries, fmt.Sprint(id))
	}
	if len(problems) > 0 {
		for _, p := range problems {
			fmt.Fprintln(os.Stderr, "extractglobals: "+p)
		}
		os.Exit(1)
	}

	var b strings.Builder
	b.WriteString("/-\n  GENERATED by /verif/harness/cmd/extractglobals from the Go sources — do not edit.\n")
	b.WriteString("  Shared-state facts of the libvore packages (production build: no _test.go, no `verif`-tagged files).\n")
	if len(skipped) > 0 {
		b.WriteString("  skipped (build constraint): " + strings.Join(skipped, ", ") + "\n")
	}
	b.WriteString("-/\nnamespace Vore.ExtractedGlobals\n\n")
	b.WriteString("structure GoGlobal where\n  pkg : String\n  name : String\n  typ : String\n  scalar : Bool\n  isMutex : Bool\n  initialised : Bool\n  file : String\n  line : Nat\n")
	b.WriteString("  assignedBy : List Nat\n  incrementedBy : List Nat\n  addrTakenBy : List Nat\n  readBy : List Nat\nderiving Repr\n\n")
	b.WriteString("/-- every function and method; a function's id is its position in this list -/\ndef goFuncs : List String := [\n")
	for i, f := range funcs {
		sep := ","
		if i == len(funcs)-1 {
			sep = ""
		}
		fmt.Fprintf(&b, "  %s%s\n", leanStr(f.name), sep)
	}
	b.WriteString("]\n\n/-- `goCalls[i]`: functions mentioned in the body of function `i` (over-approximated call graph) -/\ndef goCalls : List (List Nat) := [\n")
	for i, f := range funcs {
		sep := ","
		if i == len(funcs)-1 {
			sep = ""
		}
		fmt.Fprintf(&b, "  %s%s\n", natList(f.calls), sep)
	}
	fmt.Fprintf(&b, "]\n\n/-- %s -/\ndef goEntries : List Nat := [%s]\n\n", strings.Join(entryNames, ", "), strings.Join(entries, ", "))
	b.WriteString("def goGlobals : List GoGlobal := [\n")
	for i, g := range globalsAll {
		sep := ","
		if i == len(globalsAll)-1 {
			sep = ""
		}
		fmt.Fprintf(&b, "  { pkg := %s, name := %s, typ := %s, scalar := %v, isMutex := %v, initialised := %v, file := %s, line := %d,\n    assignedBy := %s, incrementedBy := %s, addrTakenBy := %s, readBy := %s }%s\n",
			leanStr(g.pkg), leanStr(g.name), leanStr(g.typ), g.scalar, g.mutex, g.init, leanStr(g.file), g.line,
			natList(g.assigned), natList(g.incremented), natList(g.addr), natList(g.read), sep)
	}
	b.WriteString("]\n\n/-- functions containing a `go` statement -/\ndef goGoStmts : List Nat := " + natList(goStmts) + "\n\n")
	strList := func(xs []string) string {
		ps := []string{}
		for _, x := range xs {
			ps = append(ps, leanStr(x))
		}
		return "[" + strings.Join(ps, ", ") + "]"
	}
	pairList := func(xs [][2]string) string {
		ps := []string{}
		for _, x := range xs {
			ps = append(ps, "("+leanStr(x[0])+", "+leanStr(x[1])+")")
		}
		return "[" + strings.Join(ps, ",\n  ") + "]"
	}
	b.WriteString("def goMutexDecls : List String := " + strList(mutexDecls) + "\n\n")
	b.WriteString("def goLockCalls : List (String × String) := " + pairList(lockCalls) + "\n\n")
	b.WriteString("def goSyncUses : List (String × String) := " + pairList(syncUses) + "\n\n")
	b.WriteString("/-- calls of math/rand package-level functions (the locked global source) -/\ndef goRandCalls : List (String × String) := " + pairList(randCalls) + "\n\n")
	b.WriteString("/-- engine functions assigning through a value of a bytecode / ast type -/\ndef goCodeWrites : List (String × String) := " + pairList(codeWrites) + "\n\n")
	intPairs := func(xs [][2]int) string {
		ps := []string{}
		for _, x := range xs {
			ps = append(ps, fmt.Sprintf("(%d, %d)", x[0], x[1]))
		}
		return "[" + strings.Join(ps, ", ") + "]"
	}
	b.WriteString("/-- (function, mutex): the body starts with `M.Lock(); defer M.Unlock()`; mutex = position in `goGlobals` -/\ndef goLockHolders : List (Nat × Nat) := " + intPairs(lockHolders) + "\n\n")
	b.WriteString("/-- (holder, variable): right after that prologue the holder assigns the variable (position in `goGlobals`) -/\ndef goInitFirst : List (Nat × Nat) := " + intPairs(initFirst) + "\n\n")
	b.WriteString("end Vore.ExtractedGlobals\n")
	if *jsonOut != "" {
		type jg struct {
			Pkg, Name, Type, File                          string
			Line                                           int
			Scalar, Mutex                                  bool
			AssignedBy, IncrementedBy, AddrTakenBy, ReadBy []int
		}
		ids := func(m map[int]bool) []int {
			xs := []int{}
			for k := range m {
				xs = append(xs, k)
			}
			sort.Ints(xs)
			return xs
		}
		doc := struct {
			Funcs       []string
			Calls       [][]int
			Entries     []string
			Globals     []jg
			GoStmts     []int
			LockHolders [][2]int
			InitFirst   [][2]int
			RandCalls   [][2]string
			CodeWrites  [][2]string
			LockCalls   [][2]string
			Skipped     []string
		}{Entries: entryNames, GoStmts: ids(goStmts), LockHolders: lockHolders, InitFirst: initFirst, RandCalls: randCalls,
			CodeWrites: codeWrites, LockCalls: lockCalls, Skipped: skipped}
		for _, f := range funcs {
			doc.Funcs = append(doc.Funcs, f.name)
			doc.Calls = append(doc.Calls, ids(f.calls))
		}
		for _, g := range globalsAll {
			doc.Globals = append(doc.Globals, jg{g.pkg, g.name, g.typ, g.file, g.line, g.scalar, g.mutex,
				ids(g.assigned), ids(g.incremented), ids(g.addr), ids(g.read)})
		}
		js, _ := json.MarshalIndent(doc, "", " ")
		if err := os.WriteFile(*jsonOut, js, 0o644); err != nil {
			fmt.Fprintln(os.Stderr, err)
			os.Exit(1)
		}
	}
	if *out == "" {
		fmt.Print(b.String())
		return
	}
	if err := os.WriteFile(*out, []byte(b.String()), 0o644); err != nil {
		fmt.Fprintln(os.Stderr, err)
		os.Exit(1)
	}
}
