// extractglobals — regenerated shared-state facts for property C19.
//
//	extractglobals [-o ExtractedGlobals.lean] [repo root, default /repo]
//
// A small go/ast program (no type checker). It reads the production sources of the libvore
// packages (root, ast, bytecode, engine, files, ds, algo; `_test.go` files and files whose
// build constraint needs the `verif` tag are skipped) and emits Lean *data*:
//
//	goFuncs       every function / method ("pkg.Func", "pkg.Recv.Method"); id = position
//	goCalls       per function, the functions its body mentions (by name: an over-approximated
//	              call graph; a method name matches every method of that name)
//	goEntries     libvore.Compile, CompileFile, (*Vore).Run, (*Vore).RunFiles
//	goGlobals     every package-level `var`: type, whether scalar, and the functions that
//	              assign it / increment it / take its address / read it
//	goGoStmts     functions containing a `go` statement
//	goMutexDecls  sync.Mutex / sync.RWMutex declarations (package-level vars and struct fields)
//	goLockCalls   (function, receiver expression) of every Lock/Unlock/RLock/RUnlock call
//	goSyncUses    every other use of packages sync and sync/atomic
//	goRandCalls   (function, name) of every call of a math/rand top-level function (these use
//	              the locked global source; `rand.New`/`NewSource` are listed too)
//	goCodeWrites  (engine function, target) of assignments through a value whose declared type
//	              comes from package bytecode or ast (the compiled program a Run shares)
//
// It fails closed: a package-level variable it cannot classify (non-scalar type that is passed
// around, a composite-literal key that may name it, a method call on it …) is an error, never
// silently skipped.
package main

import (
	"bytes"
	"flag"
	"fmt"
	"go/ast"
	"go/build/constraint"
	"go/parser"
	"go/printer"
	"go/token"
	"os"
	"path/filepath"
	"sort"
	"strings"
)

var pkgDirs = []struct{ label, dir string }{
	{"libvore", "libvore"},
	{"ast", "libvore/ast"},
	{"bytecode", "libvore/bytecode"},
	{"engine", "libvore/engine"},
	{"files", "libvore/files"},
	{"ds", "libvore/ds"},
	{"algo", "libvore/algo"},
}

const modPrefix = "github.com/jmeaster30/vore/"

var entryNames = []string{"libvore.Compile", "libvore.CompileFile", "libvore.Vore.Run", "libvore.Vore.RunFiles"}

var fset = token.NewFileSet()
var problems []string

func fail(pos token.Pos, format string, args ...interface{}) {
	problems = append(problems, fmt.Sprintf("%s: %s", fset.Position(pos), fmt.Sprintf(format, args...)))
}

func exprString(e ast.Node) string {
	var b bytes.Buffer
	printer.Fprint(&b, fset, e)
	return strings.Join(strings.Fields(b.String()), " ")
}

type global struct {
	pkg, name, typ, file string
	line                 int
	scalar, mutex, init  bool
	spec                 *ast.ValueSpec
	assigned, incremented, addr, read map[int]bool
}

type fn struct {
	id     int
	pkg    string
	name   string // pkg.Func or pkg.Recv.Method
	short  string
	method bool
	decl   *ast.FuncDecl
	file   *ast.File
	calls  map[int]bool
}

type pkgInfo struct {
	label   string
	files   []*ast.File
	names   []string
	globals map[string]*global
	funcs   map[string][]*fn // short name -> plain functions of this package
}

var (
	pkgs       = map[string]*pkgInfo{}
	funcs      []*fn
	methodsBy  = map[string][]*fn{} // method short name -> all methods, all packages
	globalsAll []*global
	goStmts    = map[int]bool{}
	mutexDecls []string
	lockCalls  [][2]string
	syncUses   [][2]string
	randCalls  [][2]string
	codeWrites [][2]string
	skipped    []string
)

func buildOK(f *ast.File) bool {
	for _, cg := range f.Comments {
		if cg.Pos() >= f.Package {
			break
		}
		for _, c := range cg.List {
			if constraint.IsGoBuild(c.Text) {
				x, err := constraint.Parse(c.Text)
				if err != nil {
					fail(c.Pos(), "unparsable build constraint")
					return false
				}
				// the production build: every tag except `verif`
				return x.Eval(func(tag string) bool { return tag != "verif" })
			}
		}
	}
	return true
}

var scalarTypes = map[string]bool{"int": true, "int8": true, "int16": true, "int32": true, "int64": true,
	"uint": true, "uint8": true, "uint16": true, "uint32": true, "uint64": true, "uintptr": true, "byte": true, "rune": true,
	"float32": true, "float64": true, "bool": true, "string": true, "complex64": true, "complex128": true}

func isScalar(spec *ast.ValueSpec, idx int) bool {
	if spec.Type != nil {
		switch t := spec.Type.(type) {
		case *ast.Ident:
			return scalarTypes[t.Name]
		case *ast.FuncType:
			return true // a function value is immutable; only rebinding the variable writes
		}
		return false
	}
	if idx < len(spec.Values) {
		if _, ok := spec.Values[idx].(*ast.BasicLit); ok {
			return true
		}
		if id, ok := spec.Values[idx].(*ast.Ident); ok && (id.Name == "true" || id.Name == "false") {
			return true
		}
	}
	return false
}

func isMutexType(e ast.Expr) bool {
	if e == nil {
		return false
	}
	s := exprString(e)
	return s == "sync.Mutex" || s == "sync.RWMutex" || s == "*sync.Mutex" || s == "*sync.RWMutex"
}

func recvName(e ast.Expr) string {
	switch t := e.(type) {
	case *ast.StarExpr:
		return recvName(t.X)
	case *ast.IndexExpr:
		return recvName(t.X)
	case *ast.IndexListExpr:
		return recvName(t.X)
	case *ast.Ident:
		return t.Name
	}
	return exprString(e)
}

func load(root string) {
	for _, pd := range pkgDirs {
		dir := filepath.Join(root, pd.dir)
		ents, err := os.ReadDir(dir)
		if err != nil {
			fail(token.NoPos, "cannot read %s: %v", dir, err)
			continue
		}
		p := &pkgInfo{label: pd.label, globals: map[string]*global{}, funcs: map[string][]*fn{}}
		pkgs[pd.label] = p
		for _, e := range ents {
			n := e.Name()
			if e.IsDir() || !strings.HasSuffix(n, ".go") || strings.HasSuffix(n, "_test.go") {
				continue
			}
			path := filepath.Join(dir, n)
			f, err := parser.ParseFile(fset, path, nil, parser.ParseComments)
			if err != nil {
				fail(token.NoPos, "parse error %v", err)
				continue
			}
			if !buildOK(f) {
				skipped = append(skipped, pd.dir+"/"+n)
				continue
			}
			p.files = append(p.files, f)
			p.names = append(p.names, pd.dir+"/"+n)
		}
	}
	// declarations
	for _, pd := range pkgDirs {
		p := pkgs[pd.label]
		if p == nil {
			continue
		}
		for fi, f := range p.files {
			for _, d := range f.Decls {
				switch d := d.(type) {
				case *ast.GenDecl:
					if d.Tok == token.VAR {
						for _, s := range d.Specs {
							vs := s.(*ast.ValueSpec)
							for i, nm := range vs.Names {
								if nm.Name == "_" {
									continue
								}
								g := &global{pkg: p.label, name: nm.Name, file: p.names[fi], line: fset.Position(nm.Pos()).Line,
									scalar: isScalar(vs, i), mutex: isMutexType(vs.Type), init: len(vs.Values) > 0, spec: vs,
									assigned: map[int]bool{}, incremented: map[int]bool{}, addr: map[int]bool{}, read: map[int]bool{}}
								if vs.Type != nil {
									g.typ = exprString(vs.Type)
								} else if i < len(vs.Values) {
									g.typ = "= " + exprString(vs.Values[i])
								}
								if g.mutex {
									mutexDecls = append(mutexDecls, p.label+"."+nm.Name+" "+g.typ)
								}
								p.globals[nm.Name] = g
								globalsAll = append(globalsAll, g)
							}
						}
					}
					if d.Tok == token.TYPE {
						for _, s := range d.Specs {
							ts := s.(*ast.TypeSpec)
							if st, ok := ts.Type.(*ast.StructType); ok {
								for _, fld := range st.Fields.List {
									if isMutexType(fld.Type) {
										nm := "(embedded)"
										if len(fld.Names) > 0 {
											nm = fld.Names[0].Name
										}
										mutexDecls = append(mutexDecls, p.label+"."+ts.Name.Name+"."+nm+" "+exprString(fld.Type))
									}
								}
							}
						}
					}
				case *ast.FuncDecl:
					x := &fn{id: len(funcs), pkg: p.label, short: d.Name.Name, decl: d, file: f, calls: map[int]bool{}}
					if d.Recv != nil && len(d.Recv.List) > 0 {
						x.method = true
						x.name = p.label + "." + recvName(d.Recv.List[0].Type) + "." + d.Name.Name
						methodsBy[x.short] = append(methodsBy[x.short], x)
					} else {
						x.name = p.label + "." + d.Name.Name
						p.funcs[x.short] = append(p.funcs[x.short], x)
					}
					funcs = append(funcs, x)
				}
			}
		}
	}
}

// imports of one file: local name -> import path
func importsOf(f *ast.File) map[string]string {
	m := map[string]string{}
	for _, is := range f.Imports {
		path := strings.Trim(is.Path.Value, "\"")
		name := path[strings.LastIndex(path, "/")+1:]
		if path == "math/rand/v2" {
			name = "rand"
		}
		if is.Name != nil {
			name = is.Name.Name
		}
		m[name] = path
	}
	return m
}

func libLabel(path string) string {
	if !strings.HasPrefix(path, modPrefix) {
		return ""
	}
	rest := strings.TrimPrefix(path, modPrefix)
	for _, pd := range pkgDirs {
		if pd.dir == rest {
			return pd.label
		}
	}
	return ""
}

var randGlobalFuncs = map[string]bool{"Int63": true, "Uint32": true, "Uint64": true, "Int31": true, "Int": true, "Int63n": true,
	"Int31n": true, "Intn": true, "Float64": true, "Float32": true, "Perm": true, "Shuffle": true, "Read": true,
	"NormFloat64": true, "ExpFloat64": true, "Seed": true, "N": true, "IntN": true, "Int32": true, "Int32N": true,
	"Int64": true, "Int64N": true, "Uint32N": true, "Uint64N": true, "UintN": true, "Uint": true}

var lockMethods = map[string]bool{"Lock": true, "Unlock": true, "RLock": true, "RUnlock": true, "TryLock": true, "TryRLock": true}

// root identifier of an lvalue / operand: x, x.f, x[i], *x, (x)
func rootIdent(e ast.Expr) (*ast.Ident, bool) {
	direct := true
	for {
		switch t := e.(type) {
		case *ast.Ident:
			return t, direct
		case *ast.ParenExpr:
			e = t.X
		case *ast.SelectorExpr:
			e, direct = t.X, false
		case *ast.IndexExpr:
			e, direct = t.X, false
		case *ast.StarExpr:
			e, direct = t.X, false
		case *ast.SliceExpr:
			e, direct = t.X, false
		default:
			return nil, false
		}
	}
}

type walker struct {
	f       *fn
	p       *pkgInfo
	imports map[string]string
	tainted map[*ast.Object]bool // engine: values whose declared type comes from bytecode / ast
	// identifier occurrences already classified by their context
	done map[*ast.Ident]bool
}

func (w *walker) globalOf(id *ast.Ident) *global {
	g := w.p.globals[id.Name]
	if g == nil {
		return nil
	}
	if id.Obj == nil {
		return g // declared in another file of the package
	}
	if id.Obj.Decl == g.spec {
		return g
	}
	return nil // shadowed by a local declaration
}

// pkg.Name where pkg is an imported libvore package and Name one of its package-level vars
func (w *walker) foreignGlobal(se *ast.SelectorExpr) *global {
	x, ok := se.X.(*ast.Ident)
	if !ok || x.Obj != nil {
		return nil
	}
	if lbl := libLabel(w.imports[x.Name]); lbl != "" && pkgs[lbl] != nil {
		return pkgs[lbl].globals[se.Sel.Name]
	}
	return nil
}

func (w *walker) lvalueGlobal(e ast.Expr) (*global, *ast.Ident) {
	if pe, ok := e.(*ast.ParenExpr); ok {
		return w.lvalueGlobal(pe.X)
	}
	if se, ok := e.(*ast.SelectorExpr); ok {
		if g := w.foreignGlobal(se); g != nil {
			return g, se.Sel
		}
	}
	// strip one level at a time so that pkg.G.f / pkg.G[i] are found too
	switch t := e.(type) {
	case *ast.SelectorExpr:
		return w.lvalueGlobal(t.X)
	case *ast.IndexExpr:
		return w.lvalueGlobal(t.X)
	case *ast.StarExpr:
		return w.lvalueGlobal(t.X)
	case *ast.SliceExpr:
		return w.lvalueGlobal(t.X)
	case *ast.Ident:
		if g := w.globalOf(t); g != nil {
			return g, t
		}
	}
	return nil, nil
}

func (w *walker) isTainted(e ast.Expr) bool {
	id, _ := rootIdent(e)
	return id != nil && id.Obj != nil && w.tainted[id.Obj]
}

func typeIsCode(t ast.Expr) bool {
	if t == nil {
		return false
	}
	s := exprString(t)
	return strings.Contains(s, "bytecode.") || strings.Contains(s, "ast.")
}

func (w *walker) taintFields(fl *ast.FieldList) {
	if fl == nil {
		return
	}
	for _, f := range fl.List {
		if typeIsCode(f.Type) {
			for _, n := range f.Names {
				if n.Obj != nil {
					w.tainted[n.Obj] = true
				}
			}
		}
	}
}

func (w *walker) noteWrite(lhs ast.Expr, incr bool) {
	if g, id := w.lvalueGlobal(lhs); g != nil {
		w.done[id] = true
		g.assigned[w.f.id] = true
		if incr {
			g.incremented[w.f.id] = true
		}
	}
	if w.f.pkg == "engine" {
		if id, direct := rootIdent(lhs); id != nil && !direct && id.Obj != nil && w.tainted[id.Obj] {
			codeWrites = append(codeWrites, [2]string{w.f.name, exprString(lhs)})
		}
	}
}

func (w *walker) Visit(n ast.Node) ast.Visitor {
	switch t := n.(type) {
	case *ast.FuncLit:
		if w.f.pkg == "engine" {
			w.taintFields(t.Type.Params)
		}
	case *ast.GoStmt:
		goStmts[w.f.id] = true
	case *ast.AssignStmt:
		for _, l := range t.Lhs {
			if t.Tok == token.DEFINE {
				// a new local; it aliases the program if it is derived from a tainted value
				if id, ok := l.(*ast.Ident); ok && id.Obj != nil && w.f.pkg == "engine" {
					for _, r := range t.Rhs {
						if w.isTainted(r) {
							w.tainted[id.Obj] = true
						}
						if ta, ok := r.(*ast.TypeAssertExpr); ok && w.isTainted(ta.X) {
							w.tainted[id.Obj] = true
						}
						if ue, ok := r.(*ast.UnaryExpr); ok && ue.Op == token.AND && w.isTainted(ue.X) {
							w.tainted[id.Obj] = true
						}
					}
				}
				continue
			}
			w.noteWrite(l, t.Tok != token.ASSIGN)
		}
	case *ast.IncDecStmt:
		w.noteWrite(t.X, true)
	case *ast.RangeStmt:
		if t.Tok == token.ASSIGN {
			if t.Key != nil {
				w.noteWrite(t.Key, false)
			}
			if t.Value != nil {
				w.noteWrite(t.Value, false)
			}
		}
		if t.Tok == token.DEFINE && w.f.pkg == "engine" && w.isTainted(t.X) {
			for _, kv := range []ast.Expr{t.Key, t.Value} {
				if id, ok := kv.(*ast.Ident); ok && id.Obj != nil {
					w.tainted[id.Obj] = true
				}
			}
		}
	case *ast.TypeSwitchStmt:
		if as, ok := t.Assign.(*ast.AssignStmt); ok && w.f.pkg == "engine" && len(as.Rhs) == 1 {
			if ta, ok := as.Rhs[0].(*ast.TypeAssertExpr); ok && w.isTainted(ta.X) {
				if id, ok := as.Lhs[0].(*ast.Ident); ok && id.Obj != nil {
					w.tainted[id.Obj] = true
				}
			}
		}
	case *ast.UnaryExpr:
		if t.Op == token.AND {
			if g, id := w.lvalueGlobal(t.X); g != nil {
				w.done[id] = true
				g.addr[w.f.id] = true
			}
		}
	case *ast.CompositeLit:
		for _, el := range t.Elts {
			if kv, ok := el.(*ast.KeyValueExpr); ok {
				if id, ok := kv.Key.(*ast.Ident); ok {
					if w.p.globals[id.Name] != nil && id.Obj == nil {
						// either a struct field name or a reference to the variable: cannot tell without types
						fail(id.Pos(), "composite-literal key %q may name the package-level variable %s.%s: cannot classify",
							id.Name, w.p.label, id.Name)
					}
					w.done[id] = true
				}
			}
		}
	case *ast.CallExpr:
		if se, ok := t.Fun.(*ast.SelectorExpr); ok {
			if x, ok := se.X.(*ast.Ident); ok && x.Obj == nil {
				switch w.imports[x.Name] {
				case "math/rand", "math/rand/v2":
					kind := se.Sel.Name
					if !randGlobalFuncs[kind] {
						kind += " (constructor)"
					}
					randCalls = append(randCalls, [2]string{w.f.name, kind})
				}
			}
			if lockMethods[se.Sel.Name] {
				lockCalls = append(lockCalls, [2]string{w.f.name, exprString(se.X) + "." + se.Sel.Name})
				if g, id := w.lvalueGlobal(se.X); g != nil && g.mutex {
					w.done[id] = true
					g.read[w.f.id] = true
				}
			}
		}
	case *ast.SelectorExpr:
		if x, ok := t.X.(*ast.Ident); ok && x.Obj == nil {
			switch w.imports[x.Name] {
			case "sync", "sync/atomic":
				syncUses = append(syncUses, [2]string{w.f.name, x.Name + "." + t.Sel.Name})
			}
			if lbl := libLabel(w.imports[x.Name]); lbl != "" && pkgs[lbl] != nil {
				for _, c := range pkgs[lbl].funcs[t.Sel.Name] {
					w.f.calls[c.id] = true
				}
				if g := pkgs[lbl].globals[t.Sel.Name]; g != nil && !w.done[t.Sel] {
					w.done[t.Sel] = true
					w.readGlobal(g, t, t.Sel)
				}
				w.done[t.Sel] = true
				return w
			}
		}
		// x.Name: a method of any libvore type, or a field
		for _, c := range methodsBy[t.Sel.Name] {
			w.f.calls[c.id] = true
		}
		w.done[t.Sel] = true
	case *ast.Ident:
		if w.done[t] {
			return w
		}
		if t.Obj == nil || t.Obj.Kind == ast.Fun {
			for _, c := range w.p.funcs[t.Name] {
				w.f.calls[c.id] = true
			}
		}
		if g := w.globalOf(t); g != nil {
			w.readGlobal(g, t, t)
		}
	}
	return w
}

// parents are not tracked by ast.Walk; non-scalar globals are classified by a second pass
func (w *walker) readGlobal(g *global, at ast.Node, id *ast.Ident) {
	g.read[w.f.id] = true
	if !g.scalar && !g.mutex {
		fail(at.Pos(), "package-level variable %s.%s has the non-scalar type %q and is used in %s: "+
			"it may be aliased or mutated through; cannot classify", g.pkg, g.name, g.typ, w.f.name)
	}
}

func leanStr(s string) string {
	var b strings.Builder
	b.WriteByte('"')
	for _, r := range s {
		switch {
		case r == '"' || r == '\\':
			b.WriteByte('\\')
			b.WriteRune(r)
		case r == '\n':
			b.WriteString("\\n")
		case r == '\t':
			b.WriteString("\\t")
		default:
			b.WriteRune(r)
		}
	}
	b.WriteByte('"')
	return b.String()
}

func natList(m map[int]bool) string {
	xs := []int{}
	for k := range m {
		xs = append(xs, k)
	}
	sort.Ints(xs)
	parts := []string{}
	for _, x := range xs {
		parts = append(parts, fmt.Sprint(x))
	}
	return "[" + strings.Join(parts, ", ") + "]"
}

func main() {
	out := flag.String("o", "", "output file (default stdout)")
	flag.Parse()
	root := "/repo"
	if flag.NArg() > 0 {
		root = flag.Arg(0)
	}
	load(root)
	for _, f := range funcs {
		if f.decl.Body == nil {
			continue
		}
		w := &walker{f: f, p: pkgs[f.pkg], imports: importsOf(f.file), tainted: map[*ast.Object]bool{}, done: map[*ast.Ident]bool{}}
		if f.pkg == "engine" {
			w.taintFields(f.decl.Recv)
			w.taintFields(f.decl.Type.Params)
		}
		ast.Walk(w, f.decl.Body)
	}
	// package-level initialisers run before main (Go's init order happens-before every goroutine);
	// they are recorded (`initialised`) but are not writes of a call
	byName := map[string]int{}
	for _, f := range funcs {
		if _, dup := byName[f.name]; dup {
			fail(f.decl.Pos(), "duplicate function name %s", f.name)
		}
		byName[f.name] = f.id
	}
	entries := []string{}
	for _, e := range entryNames {
		id, ok := byName[e]
		if !ok {
			fail(token.NoPos, "entry point %s not found", e)
			continue
		}
		entries = append(entries, fmt.Sprint(id))
	}
	if len(problems) > 0 {
		for _, p := range problems {
			fmt.Fprintln(os.Stderr, "extractglobals: "+p)
		}
		os.Exit(1)
	}

	var b strings.Builder
	b.WriteString("/-\n  GENERATED by /verif/harness/cmd/extractglobals from the Go sources — do not edit.\n")
	b.WriteString("  Shared-state facts of the libvore packages (production build: no _test.go, no `verif`-tagged files).\n")
	if len(skipped) > 0 {
		b.WriteString("  skipped (build constraint): " + strings.Join(skipped, ", ") + "\n")
	}
	b.WriteString("-/\nnamespace Vore.ExtractedGlobals\n\n")
	b.WriteString("structure GoGlobal where\n  pkg : String\n  name : String\n  typ : String\n  scalar : Bool\n  isMutex : Bool\n  initialised : Bool\n  file : String\n  line : Nat\n")
	b.WriteString("  assignedBy : List Nat\n  incrementedBy : List Nat\n  addrTakenBy : List Nat\n  readBy : List Nat\nderiving Repr\n\n")
	b.WriteString("/-- every function and method; a function's id is its position in this list -/\ndef goFuncs : List String := [\n")
	for i, f := range funcs {
		sep := ","
		if i == len(funcs)-1 {
			sep = ""
		}
		fmt.Fprintf(&b, "  %s%s\n", leanStr(f.name), sep)
	}
	b.WriteString("]\n\n/-- `goCalls[i]`: functions mentioned in the body of function `i` (over-approximated call graph) -/\ndef goCalls : List (List Nat) := [\n")
	for i, f := range funcs {
		sep := ","
		if i == len(funcs)-1 {
			sep = ""
		}
		fmt.Fprintf(&b, "  %s%s\n", natList(f.calls), sep)
	}
	fmt.Fprintf(&b, "]\n\n/-- %s -/\ndef goEntries : List Nat := [%s]\n\n", strings.Join(entryNames, ", "), strings.Join(entries, ", "))
	b.WriteString("def goGlobals : List GoGlobal := [\n")
	for i, g := range globalsAll {
		sep := ","
		if i == len(globalsAll)-1 {
			sep = ""
		}
		fmt.Fprintf(&b, "  { pkg := %s, name := %s, typ := %s, scalar := %v, isMutex := %v, initialised := %v, file := %s, line := %d,\n    assignedBy := %s, incrementedBy := %s, addrTakenBy := %s, readBy := %s }%s\n",
			leanStr(g.pkg), leanStr(g.name), leanStr(g.typ), g.scalar, g.mutex, g.init, leanStr(g.file), g.line,
			natList(g.assigned), natList(g.incremented), natList(g.addr), natList(g.read), sep)
		for id := range g.assigned {
			fmt.Fprintf(os.Stderr, "extractglobals: note: %s.%s is written by %s\n", g.pkg, g.name, funcs[id].name)
		}
	}
	b.WriteString("]\n\n/-- functions containing a `go` statement -/\ndef goGoStmts : List Nat := " + natList(goStmts) + "\n\n")
	strList := func(xs []string) string {
		ps := []string{}
		for _, x := range xs {
			ps = append(ps, leanStr(x))
		}
		return "[" + strings.Join(ps, ", ") + "]"
	}
	pairList := func(xs [][2]string) string {
		ps := []string{}
		for _, x := range xs {
			ps = append(ps, "("+leanStr(x[0])+", "+leanStr(x[1])+")")
		}
		return "[" + strings.Join(ps, ",\n  ") + "]"
	}
	b.WriteString("def goMutexDecls : List String := " + strList(mutexDecls) + "\n\n")
	b.WriteString("def goLockCalls : List (String × String) := " + pairList(lockCalls) + "\n\n")
	b.WriteString("def goSyncUses : List (String × String) := " + pairList(syncUses) + "\n\n")
	b.WriteString("/-- calls of math/rand package-level functions (the locked global source) -/\ndef goRandCalls : List (String × String) := " + pairList(randCalls) + "\n\n")
	b.WriteString("/-- engine functions assigning through a value of a bytecode / ast type -/\ndef goCodeWrites : List (String × String) := " + pairList(codeWrites) + "\n\n")
	b.WriteString("end Vore.ExtractedGlobals\n")
	if *out == "" {
		fmt.Print(b.String())
		return
	}
	if err := os.WriteFile(*out, []byte(b.String()), 0o644); err != nil {
		fmt.Fprintln(os.Stderr, err)
		os.Exit(1)
	}
}
