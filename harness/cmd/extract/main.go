// extract: regenerates the finite decision tables of the process language from /repo's
// CURRENT source into Lean data (lean/Vore/Extracted.lean).
//
//	extract [-o out.lean] [repo]        (repo defaults to $VERIF_REPO or /repo)
//
// Only go/parser + go/ast are used (no type checker).  The extractor is deliberately
// tiny and FAILS CLOSED: any construct it does not recognise inside a function it is asked
// to extract is an error (exit status 1, message on stderr), never silently skipped.
//
// Extracted functions:
//
//	libvore/bytecode/semanticcheck.go  checkBinaryExpr, checkUnaryExpr, checkReturn
//	libvore/engine/execute.go          executeBinaryExpr, executeUnaryExpression
//	libvore/ast/parser.go              isPrefixOp, prefixPrecedence, isBinaryOp,
//	                                   infixPrecedence, isProcessExprEnd
package main

import (
	"flag"
	"fmt"
	"go/ast"
	"go/parser"
	"go/token"
	"os"
	"path/filepath"
	"strconv"
	"strings"
)

type failure struct{ msg string }

var fset = token.NewFileSet()

func failf(n ast.Node, format string, args ...interface{}) {
	pos := ""
	if n != nil {
		pos = fset.Position(n.Pos()).String() + ": "
	}
	panic(failure{pos + fmt.Sprintf(format, args...)})
}

func src(n ast.Node) string {
	if n == nil {
		return "<nil>"
	}
	p, e := fset.Position(n.Pos()), fset.Position(n.End())
	data, err := os.ReadFile(p.Filename)
	if err != nil || e.Offset > len(data) {
		return "?"
	}
	s := string(data[p.Offset:e.Offset])
	if len(s) > 120 {
		s = s[:120] + "…"
	}
	return s
}

// helpers: package-level functions whose whole body is `return <expr>` — pure predicates a maintainer may have
// extracted from a condition (isComparisonOp(op) …); a call to one is read as its body with the arguments substituted
var helpers = map[string]*ast.FuncDecl{}

func parseFile(path string) *ast.File {
	f, err := parser.ParseFile(fset, path, nil, 0)
	if err != nil {
		panic(failure{"cannot parse " + path + ": " + err.Error()})
	}
	for _, d := range f.Decls {
		if fd, ok := d.(*ast.FuncDecl); ok && fd.Recv == nil && fd.Body != nil && len(fd.Body.List) == 1 {
			if ret, ok := fd.Body.List[0].(*ast.ReturnStmt); ok && len(ret.Results) == 1 {
				helpers[fd.Name.Name] = fd
			}
		}
		// `func f(p T) bool { switch p { case A, B: return true }; return false }` is `return p == A || p == B`
		if fd, ok := d.(*ast.FuncDecl); ok && fd.Recv == nil && fd.Body != nil && len(fd.Body.List) == 2 {
			sw, ok1 := fd.Body.List[0].(*ast.SwitchStmt)
			ret, ok2 := fd.Body.List[1].(*ast.ReturnStmt)
			if ok1 && ok2 && sw.Init == nil && sw.Tag != nil && len(ret.Results) == 1 && isIdentNamed(ret.Results[0], "false") &&
				len(sw.Body.List) == 1 {
				if cc, ok := sw.Body.List[0].(*ast.CaseClause); ok && cc.List != nil && len(cc.Body) == 1 {
					if r2, ok := cc.Body[0].(*ast.ReturnStmt); ok && len(r2.Results) == 1 && isIdentNamed(r2.Results[0], "true") {
						var cond ast.Expr
						for _, v := range cc.List {
							eq := &ast.BinaryExpr{X: sw.Tag, OpPos: v.Pos(), Op: token.EQL, Y: v}
							if cond == nil {
								cond = eq
							} else {
								cond = &ast.BinaryExpr{X: cond, OpPos: v.Pos(), Op: token.LOR, Y: eq}
							}
						}
						helpers[fd.Name.Name] = &ast.FuncDecl{Name: fd.Name, Type: fd.Type,
							Body: &ast.BlockStmt{List: []ast.Stmt{&ast.ReturnStmt{Return: ret.Return, Results: []ast.Expr{cond}}}}}
					}
				}
			}
		}
	}
	return f
}

func isIdentNamed(e ast.Expr, name string) bool {
	id, ok := e.(*ast.Ident)
	return ok && id.Name == name
}

// substExpr copies e replacing the identifiers in m; ok=false on any node kind it does not know (fail closed)
func substExpr(e ast.Expr, m map[string]ast.Expr) (ast.Expr, bool) {
	switch x := e.(type) {
	case *ast.Ident:
		if r, ok := m[x.Name]; ok {
			return r, true
		}
		return x, true
	case *ast.BasicLit:
		return x, true
	case *ast.ParenExpr:
		i, ok := substExpr(x.X, m)
		return &ast.ParenExpr{Lparen: x.Lparen, X: i, Rparen: x.Rparen}, ok
	case *ast.BinaryExpr:
		a, ok1 := substExpr(x.X, m)
		b, ok2 := substExpr(x.Y, m)
		return &ast.BinaryExpr{X: a, OpPos: x.OpPos, Op: x.Op, Y: b}, ok1 && ok2
	case *ast.UnaryExpr:
		a, ok := substExpr(x.X, m)
		return &ast.UnaryExpr{OpPos: x.OpPos, Op: x.Op, X: a}, ok
	case *ast.SelectorExpr:
		a, ok := substExpr(x.X, m)
		return &ast.SelectorExpr{X: a, Sel: x.Sel}, ok
	case *ast.CallExpr:
		fn, ok := substExpr(x.Fun, m)
		args := make([]ast.Expr, len(x.Args))
		for i, a := range x.Args {
			var ok2 bool
			args[i], ok2 = substExpr(a, m)
			ok = ok && ok2
		}
		return &ast.CallExpr{Fun: fn, Lparen: x.Lparen, Args: args, Ellipsis: x.Ellipsis, Rparen: x.Rparen}, ok
	case *ast.CompositeLit:
		ok := true
		elts := make([]ast.Expr, len(x.Elts))
		for i, a := range x.Elts {
			var ok2 bool
			elts[i], ok2 = substExpr(a, m)
			ok = ok && ok2
		}
		return &ast.CompositeLit{Type: x.Type, Lbrace: x.Lbrace, Elts: elts, Rbrace: x.Rbrace}, ok
	case *ast.KeyValueExpr:
		v, ok := substExpr(x.Value, m)
		return &ast.KeyValueExpr{Key: x.Key, Colon: x.Colon, Value: v}, ok
	case *ast.IndexExpr:
		a, ok1 := substExpr(x.X, m)
		i, ok2 := substExpr(x.Index, m)
		return &ast.IndexExpr{X: a, Lbrack: x.Lbrack, Index: i, Rbrack: x.Rbrack}, ok1 && ok2
	case *ast.SliceExpr:
		a, ok := substExpr(x.X, m)
		lo, hi := x.Low, x.High
		if lo != nil {
			var ok2 bool
			lo, ok2 = substExpr(lo, m)
			ok = ok && ok2
		}
		if hi != nil {
			var ok2 bool
			hi, ok2 = substExpr(hi, m)
			ok = ok && ok2
		}
		return &ast.SliceExpr{X: a, Lbrack: x.Lbrack, Low: lo, High: hi, Max: x.Max, Slice3: x.Slice3, Rbrack: x.Rbrack}, ok && x.Max == nil
	case *ast.StarExpr:
		a, ok := substExpr(x.X, m)
		return &ast.StarExpr{Star: x.Star, X: a}, ok
	}
	return e, false
}

// substStmt copies a statement replacing the identifiers in m inside its expressions
func substStmt(st ast.Stmt, m map[string]ast.Expr) (ast.Stmt, bool) {
	switch x := st.(type) {
	case nil:
		return nil, true
	case *ast.ExprStmt:
		e, ok := substExpr(x.X, m)
		return &ast.ExprStmt{X: e}, ok
	case *ast.ReturnStmt:
		ok := true
		rs := make([]ast.Expr, len(x.Results))
		for i, r := range x.Results {
			var ok2 bool
			rs[i], ok2 = substExpr(r, m)
			ok = ok && ok2
		}
		return &ast.ReturnStmt{Return: x.Return, Results: rs}, ok
	case *ast.AssignStmt:
		ok := true
		l := make([]ast.Expr, len(x.Lhs))
		r := make([]ast.Expr, len(x.Rhs))
		for i, e := range x.Lhs {
			var ok2 bool
			l[i], ok2 = substExpr(e, m)
			ok = ok && ok2
		}
		for i, e := range x.Rhs {
			var ok2 bool
			r[i], ok2 = substExpr(e, m)
			ok = ok && ok2
		}
		return &ast.AssignStmt{Lhs: l, TokPos: x.TokPos, Tok: x.Tok, Rhs: r}, ok
	case *ast.BlockStmt:
		l, ok := substStmts(x.List, m)
		return &ast.BlockStmt{Lbrace: x.Lbrace, List: l, Rbrace: x.Rbrace}, ok
	case *ast.IfStmt:
		if x.Init != nil {
			return st, false
		}
		c, ok1 := substExpr(x.Cond, m)
		b, ok2 := substStmt(x.Body, m)
		e, ok3 := substStmt(x.Else, m)
		out := &ast.IfStmt{If: x.If, Cond: c, Body: b.(*ast.BlockStmt)}
		if e != nil {
			out.Else = e
		}
		return out, ok1 && ok2 && ok3
	case *ast.SwitchStmt:
		if x.Init != nil {
			return st, false
		}
		var tag ast.Expr
		ok := true
		if x.Tag != nil {
			tag, ok = substExpr(x.Tag, m)
		}
		b, ok2 := substStmt(x.Body, m)
		return &ast.SwitchStmt{Switch: x.Switch, Tag: tag, Body: b.(*ast.BlockStmt)}, ok && ok2
	case *ast.CaseClause:
		ok := true
		var l []ast.Expr
		if x.List != nil {
			l = make([]ast.Expr, len(x.List))
			for i, e := range x.List {
				var ok2 bool
				l[i], ok2 = substExpr(e, m)
				ok = ok && ok2
			}
		}
		b, ok2 := substStmts(x.Body, m)
		return &ast.CaseClause{Case: x.Case, List: l, Colon: x.Colon, Body: b}, ok && ok2
	case *ast.BranchStmt, *ast.EmptyStmt:
		return st, true
	}
	return st, false
}

func substStmts(l []ast.Stmt, m map[string]ast.Expr) ([]ast.Stmt, bool) {
	out := make([]ast.Stmt, len(l))
	ok := true
	for i, st := range l {
		var ok2 bool
		out[i], ok2 = substStmt(st, m)
		ok = ok && ok2
	}
	return out, ok
}

// pureSelector: a.b.c over identifiers (no calls, no indexing)
func pureSelector(e ast.Expr) bool {
	switch x := e.(type) {
	case *ast.Ident:
		return true
	case *ast.SelectorExpr:
		return pureSelector(x.X)
	}
	return false
}

// inlineAliases removes the top-level statements `x := a.b.c` (a name for a field path, assigned once) and writes
// the path wherever x is used afterwards; a body it cannot copy faithfully is returned unchanged
func inlineAliases(body []ast.Stmt) []ast.Stmt {
	// a name that is assigned more than once anywhere in the body is not an alias
	assigned := map[string]int{}
	for _, st := range body {
		ast.Inspect(st, func(n ast.Node) bool {
			if as, ok := n.(*ast.AssignStmt); ok {
				for _, l := range as.Lhs {
					if id, ok := l.(*ast.Ident); ok {
						assigned[id.Name]++
					}
				}
			}
			return true
		})
	}
	m := map[string]ast.Expr{}
	out := []ast.Stmt{}
	for _, st := range body {
		if as, ok := st.(*ast.AssignStmt); ok && as.Tok == token.DEFINE && len(as.Lhs) == 1 && len(as.Rhs) == 1 {
			if id, ok := as.Lhs[0].(*ast.Ident); ok && assigned[id.Name] == 1 {
				if se, ok := as.Rhs[0].(*ast.SelectorExpr); ok && pureSelector(se) {
					rhs, ok := substExpr(se, m)
					if !ok {
						return body
					}
					m[id.Name] = rhs
					continue
				}
			}
		}
		ns, ok := substStmt(st, m)
		if !ok {
			return body
		}
		out = append(out, ns)
	}
	if len(m) == 0 {
		return body
	}
	return out
}

// inlineHelper: `f(a, b)` for a helper `func f(p, q T) bool { return E }` is E[p:=a, q:=b]
func inlineHelper(e ast.Expr) (ast.Expr, bool) {
	call, ok := unparen(e).(*ast.CallExpr)
	if !ok {
		return nil, false
	}
	id, ok := call.Fun.(*ast.Ident)
	if !ok {
		return nil, false
	}
	fd, ok := helpers[id.Name]
	if !ok {
		return nil, false
	}
	names := []string{}
	for _, fld := range fd.Type.Params.List {
		for _, n := range fld.Names {
			names = append(names, n.Name)
		}
	}
	if len(names) != len(call.Args) {
		return nil, false
	}
	m := map[string]ast.Expr{}
	for i, n := range names {
		m[n] = call.Args[i]
	}
	r, ok := substExpr(fd.Body.List[0].(*ast.ReturnStmt).Results[0], m)
	if !ok {
		return nil, false
	}
	return &ast.ParenExpr{Lparen: call.Pos(), X: r, Rparen: call.End()}, true
}

func findFunc(f *ast.File, name string) *ast.FuncDecl {
	var found *ast.FuncDecl
	for _, d := range f.Decls {
		if fd, ok := d.(*ast.FuncDecl); ok && fd.Name.Name == name && fd.Recv == nil {
			if found != nil {
				failf(fd, "function %s declared twice", name)
			}
			found = fd
		}
	}
	if found == nil || found.Body == nil {
		panic(failure{"function " + name + " not found in " + fset.Position(f.Pos()).Filename})
	}
	return found
}

// ---------------------------------------------------------------------------
// small recognisers
// ---------------------------------------------------------------------------

func unparen(e ast.Expr) ast.Expr {
	for {
		p, ok := e.(*ast.ParenExpr)
		if !ok {
			return e
		}
		e = p.X
	}
}

func identName(e ast.Expr) (string, bool) {
	id, ok := e.(*ast.Ident)
	if !ok {
		return "", false
	}
	return id.Name, true
}

// sel matches X.Sel where X is an identifier; returns (X, Sel)
func sel(e ast.Expr) (string, string, bool) {
	s, ok := e.(*ast.SelectorExpr)
	if !ok {
		return "", "", false
	}
	x, ok := identName(s.X)
	if !ok {
		return "", "", false
	}
	return x, s.Sel.Name, true
}

// constName: IDENT or pkg.IDENT (pkg must be `want` when qualified)
func constName(e ast.Expr, pkg string) (string, bool) {
	if n, ok := identName(e); ok {
		return n, true
	}
	if x, s, ok := sel(e); ok && x == pkg {
		return s, true
	}
	return "", false
}

func splitBin(e ast.Expr, op token.Token) []ast.Expr {
	e2 := e
	if b, ok := e2.(*ast.BinaryExpr); ok && b.Op == op {
		return append(splitBin(b.X, op), splitBin(b.Y, op)...)
	}
	if in, ok := inlineHelper(e); ok {
		return []ast.Expr{in}
	}
	return []ast.Expr{e}
}

// splitOr flattens a (possibly parenthesised) disjunction
func splitOr(e ast.Expr) []ast.Expr {
	e = unparen(e)
	if in, ok := inlineHelper(e); ok {
		e = unparen(in)
	}
	if b, ok := e.(*ast.BinaryExpr); ok && b.Op == token.LOR {
		return append(splitOr(b.X), splitOr(b.Y)...)
	}
	return []ast.Expr{e}
}

var procTypes = map[string]string{"PTSTRING": ".string", "PTNUMBER": ".number", "PTBOOLEAN": ".boolean"}

var knownOps = map[string]string{
	"PLUS": ".plus", "MINUS": ".minus", "MULT": ".mult", "DIV": ".div", "MOD": ".mod",
	"LESS": ".less", "GREATER": ".greater", "LESSEQ": ".lesseq", "GREATEREQ": ".greatereq",
	"DEQUAL": ".dequal", "NEQUAL": ".nequal", "AND": ".and", "OR": ".or", "NOT": ".not",
	"HEAD": ".head", "TAIL": ".tail",
}

func leanOp(goName string) string {
	if l, ok := knownOps[goName]; ok {
		return l
	}
	return "(.other " + strconv.Quote(goName) + ")"
}

func leanOps(names []string) string {
	parts := []string{}
	for _, n := range names {
		parts = append(parts, leanOp(n))
	}
	return "[" + strings.Join(parts, ", ") + "]"
}

func leanType(n ast.Node, goName string) string {
	l, ok := procTypes[goName]
	if !ok {
		failf(n, "unknown process type constant %s (expected PTSTRING, PTNUMBER or PTBOOLEAN)", goName)
	}
	return l
}

func leanOptType(t string) string {
	if t == "" {
		return "none"
	}
	return "(some " + t + ")"
}

func leanString(s string) string {
	var b strings.Builder
	b.WriteByte('"')
	for _, r := range s {
		switch {
		case r == '"':
			b.WriteString("\\\"")
		case r == '\\':
			b.WriteString("\\\\")
		case r == '\n':
			b.WriteString("\\n")
		case r == '\t':
			b.WriteString("\\t")
		case r < 0x20 || r == 0x7f:
			fmt.Fprintf(&b, "\\x%02x", r)
		default:
			b.WriteRune(r)
		}
	}
	b.WriteByte('"')
	return b.String()
}

// chain flattens `if c1 {b1} else if c2 {b2} … [else {bn}]` (no init statements allowed)
type arm struct {
	cond ast.Expr // nil for the final else
	body *ast.BlockStmt
	node ast.Node
}

func chain(s *ast.IfStmt) []arm {
	arms := []arm{}
	for {
		if s.Init != nil {
			failf(s, "if statement with an init clause is not recognised")
		}
		arms = append(arms, arm{s.Cond, s.Body, s})
		switch e := s.Else.(type) {
		case nil:
			return arms
		case *ast.IfStmt:
			s = e
		case *ast.BlockStmt:
			return append(arms, arm{nil, e, e})
		default:
			failf(s.Else, "unrecognised else branch")
		}
	}
}

// stmtChain: an `if … else if …` chain, or the equivalent `switch tag { case a: … case b, c: … default: … }`
// (no init, no fallthrough; a case with several values is the disjunction; cases are tried in source order, which
// for constant, mutually exclusive values is the order of the if chain) — read as arms `tag == a`, `tag == b || tag == c`, else
func stmtChain(st ast.Stmt) ([]arm, bool) {
	switch s := st.(type) {
	case *ast.IfStmt:
		return chain(s), true
	case *ast.SwitchStmt:
		if s.Init != nil || s.Tag == nil {
			failf(s, "switch with an init clause or without a tag is not recognised")
		}
		arms := []arm{}
		var deflt *arm
		for _, c := range s.Body.List {
			cc, ok := c.(*ast.CaseClause)
			if !ok {
				failf(c, "unrecognised switch clause")
			}
			for _, b := range cc.Body {
				if br, ok := b.(*ast.BranchStmt); ok && br.Tok == token.FALLTHROUGH {
					failf(b, "fallthrough is not recognised")
				}
			}
			body := &ast.BlockStmt{Lbrace: cc.Colon, List: cc.Body, Rbrace: cc.End()}
			if cc.List == nil {
				if deflt != nil {
					failf(cc, "two default clauses")
				}
				deflt = &arm{nil, body, cc}
				continue
			}
			var cond ast.Expr
			for _, v := range cc.List {
				eq := &ast.BinaryExpr{X: s.Tag, OpPos: v.Pos(), Op: token.EQL, Y: v}
				if cond == nil {
					cond = eq
				} else {
					cond = &ast.BinaryExpr{X: cond, OpPos: v.Pos(), Op: token.LOR, Y: eq}
				}
			}
			arms = append(arms, arm{cond, body, cc})
		}
		if deflt != nil {
			arms = append(arms, *deflt)
		}
		return arms, true
	}
	return nil, false
}

// defineCall matches `name := fn(&s.Field, argName)` and returns (name, Field)
func defineCall(st ast.Stmt, fn string, recvName string, argName string) (string, string) {
	as, ok := st.(*ast.AssignStmt)
	if !ok || as.Tok != token.DEFINE || len(as.Lhs) != 1 || len(as.Rhs) != 1 {
		failf(st, "expected `x := %s(&%s.F, %s)`, found %s", fn, recvName, argName, src(st))
	}
	name, ok := identName(as.Lhs[0])
	if !ok {
		failf(st, "expected an identifier on the left of :=")
	}
	call, ok := as.Rhs[0].(*ast.CallExpr)
	if !ok || len(call.Args) != 2 {
		failf(st, "expected a call of %s with two arguments, found %s", fn, src(as.Rhs[0]))
	}
	if f, ok := identName(call.Fun); !ok || f != fn {
		failf(st, "expected a call of %s, found %s", fn, src(call.Fun))
	}
	u, ok := call.Args[0].(*ast.UnaryExpr)
	if !ok || u.Op != token.AND {
		failf(st, "expected &%s.F as first argument, found %s", recvName, src(call.Args[0]))
	}
	x, field, ok := sel(u.X)
	if !ok || x != recvName {
		failf(st, "expected &%s.F as first argument, found %s", recvName, src(call.Args[0]))
	}
	if a, ok := identName(call.Args[1]); !ok || a != argName {
		failf(st, "expected %s as second argument, found %s", argName, src(call.Args[1]))
	}
	return name, field
}

func paramNames(fd *ast.FuncDecl, n int) []string {
	names := []string{}
	for _, f := range fd.Type.Params.List {
		for _, nm := range f.Names {
			names = append(names, nm.Name)
		}
	}
	if len(names) != n {
		failf(fd, "%s: expected %d parameters, found %d", fd.Name.Name, n, len(names))
	}
	return names
}

// returnsIdent matches `return name`
func returnsIdent(st ast.Stmt, name string) bool {
	r, ok := st.(*ast.ReturnStmt)
	if !ok || len(r.Results) != 1 {
		return false
	}
	n, ok := identName(r.Results[0])
	return ok && n == name
}

// assignField matches `v.field = <expr>` and returns expr
func assignField(st ast.Stmt, v string, field string) (ast.Expr, bool) {
	as, ok := st.(*ast.AssignStmt)
	if !ok || as.Tok != token.ASSIGN || len(as.Lhs) != 1 || len(as.Rhs) != 1 {
		return nil, false
	}
	x, f, ok := sel(as.Lhs[0])
	if !ok || x != v || f != field {
		return nil, false
	}
	return as.Rhs[0], true
}

// eqConst matches `<lhs> == CONST` / `<lhs> != CONST` where lhs satisfies isLhs
func cmpConst(e ast.Expr, tok token.Token, isLhs func(ast.Expr) bool, pkg string) (string, bool) {
	b, ok := unparen(e).(*ast.BinaryExpr)
	if !ok || b.Op != tok || !isLhs(b.X) {
		return "", false
	}
	return constName(b.Y, pkg)
}

func isSel(v, field string) func(ast.Expr) bool {
	return func(e ast.Expr) bool {
		x, f, ok := sel(e)
		return ok && x == v && f == field
	}
}

func isIdent(v string) func(ast.Expr) bool {
	return func(e ast.Expr) bool {
		n, ok := identName(e)
		return ok && n == v
	}
}

// opDisjunction: `recv.Op == ast.A || recv.Op == ast.B …` (possibly parenthesised)
func opDisjunction(e ast.Expr, isLhs func(ast.Expr) bool, pkg string) ([]string, bool) {
	names := []string{}
	for _, d := range splitOr(e) {
		n, ok := cmpConst(d, token.EQL, isLhs, pkg)
		if !ok {
			return nil, false
		}
		names = append(names, n)
	}
	return names, true
}

// errorBody: `{ v.currentType = PTERROR; v.errorMessage = "…" }`
func isErrorBody(b *ast.BlockStmt, v string) bool {
	if len(b.List) != 2 {
		return false
	}
	e, ok := assignField(b.List[0], v, "currentType")
	if !ok {
		return false
	}
	if n, ok := identName(e); !ok || n != "PTERROR" {
		return false
	}
	_, ok = assignField(b.List[1], v, "errorMessage")
	return ok
}

// ---------------------------------------------------------------------------
// semanticcheck.go
// ---------------------------------------------------------------------------

type binRule struct {
	lhs, rhs string
	ops      []string
	res      string
}

func extractCheckBinary(f *ast.File) []binRule {
	fd := findFunc(f, "checkBinaryExpr")
	ps := paramNames(fd, 2)
	recv, info := ps[0], ps[1]
	body := inlineAliases(fd.Body.List)
	if len(body) != 4 {
		failf(fd, "checkBinaryExpr: expected 4 statements (two checkExpression calls, one if chain, return), found %d", len(body))
	}
	L, lf := defineCall(body[0], "checkExpression", recv, info)
	R, rf := defineCall(body[1], "checkExpression", recv, info)
	if lf != "Lhs" || rf != "Rhs" {
		failf(body[0], "checkBinaryExpr: expected the first call to check %s.Lhs and the second %s.Rhs (found %s, %s)", recv, recv, lf, rf)
	}
	ifs, ok := body[2].(*ast.IfStmt)
	if !ok {
		failf(body[2], "checkBinaryExpr: expected an if chain")
	}
	if !returnsIdent(body[3], L) {
		failf(body[3], "checkBinaryExpr: expected `return %s`", L)
	}
	arms := chain(ifs)
	if len(arms) < 3 {
		failf(ifs, "checkBinaryExpr: chain too short")
	}
	// arm 0: lhs error, arm 1: rhs error
	for i, v := range []string{L, R} {
		n, ok := cmpConst(arms[i].cond, token.EQL, isSel(v, "currentType"), "")
		if !ok || n != "PTERROR" || len(arms[i].body.List) != 1 || !returnsIdent(arms[i].body.List[0], v) {
			failf(arms[i].node, "checkBinaryExpr: expected `%s.currentType == PTERROR { return %s }` as arm %d, found %s", v, v, i, src(arms[i].cond))
		}
	}
	last := arms[len(arms)-1]
	if last.cond != nil || !isErrorBody(last.body, L) {
		failf(last.node, "checkBinaryExpr: expected a final `else { %s.currentType = PTERROR; %s.errorMessage = … }`", L, L)
	}
	rules := []binRule{}
	for _, a := range arms[2 : len(arms)-1] {
		r := binRule{}
		seenOps := false
		for _, c := range splitBin(a.cond, token.LAND) {
			if n, ok := cmpConst(c, token.EQL, isSel(L, "currentType"), ""); ok {
				if r.lhs != "" {
					failf(c, "checkBinaryExpr: two conditions on the left operand type")
				}
				r.lhs = leanType(c, n)
			} else if n, ok := cmpConst(c, token.EQL, isSel(R, "currentType"), ""); ok {
				if r.rhs != "" {
					failf(c, "checkBinaryExpr: two conditions on the right operand type")
				}
				r.rhs = leanType(c, n)
			} else if ops, ok := opDisjunction(c, isSel(recv, "Op"), "ast"); ok {
				if seenOps {
					failf(c, "checkBinaryExpr: two operator conditions in one arm")
				}
				seenOps = true
				r.ops = ops
			} else {
				failf(c, "checkBinaryExpr: unrecognised condition %s", src(c))
			}
		}
		if !seenOps {
			failf(a.node, "checkBinaryExpr: arm without an operator condition: %s", src(a.cond))
		}
		if len(a.body.List) != 1 {
			failf(a.body, "checkBinaryExpr: expected a single assignment `%s.currentType = PT…`", L)
		}
		e, ok := assignField(a.body.List[0], L, "currentType")
		if !ok {
			failf(a.body, "checkBinaryExpr: expected `%s.currentType = PT…`, found %s", L, src(a.body.List[0]))
		}
		n, ok := identName(e)
		if !ok {
			failf(e, "checkBinaryExpr: expected a type constant")
		}
		r.res = leanType(e, n)
		rules = append(rules, r)
	}
	return rules
}

type unRule struct {
	arg string
	ops []string
	res string
}

func extractCheckUnary(f *ast.File) []unRule {
	fd := findFunc(f, "checkUnaryExpr")
	ps := paramNames(fd, 2)
	recv, info := ps[0], ps[1]
	body := inlineAliases(fd.Body.List)
	if len(body) != 3 {
		failf(fd, "checkUnaryExpr: expected 3 statements, found %d", len(body))
	}
	N, fld := defineCall(body[0], "checkExpression", recv, info)
	if fld != "Expr" {
		failf(body[0], "checkUnaryExpr: expected the operand %s.Expr to be checked", recv)
	}
	ifs, ok := body[1].(*ast.IfStmt)
	if !ok {
		failf(body[1], "checkUnaryExpr: expected an if chain")
	}
	if !returnsIdent(body[2], N) {
		failf(body[2], "checkUnaryExpr: expected `return %s`", N)
	}
	arms := chain(ifs)
	last := arms[len(arms)-1]
	// final arm: `else if N.currentType != PTERROR { error }`
	n, ok := cmpConst(last.cond, token.NEQ, isSel(N, "currentType"), "")
	if last.cond == nil || !ok || n != "PTERROR" || !isErrorBody(last.body, N) {
		failf(last.node, "checkUnaryExpr: expected a final `else if %s.currentType != PTERROR { %s.currentType = PTERROR; … }`", N, N)
	}
	rules := []unRule{}
	for _, a := range arms[:len(arms)-1] {
		r := unRule{}
		seenOps := false
		for _, c := range splitBin(a.cond, token.LAND) {
			if n, ok := cmpConst(c, token.EQL, isSel(N, "currentType"), ""); ok {
				if r.arg != "" {
					failf(c, "checkUnaryExpr: two conditions on the operand type")
				}
				r.arg = leanType(c, n)
			} else if ops, ok := opDisjunction(c, isSel(recv, "Op"), "ast"); ok {
				if seenOps {
					failf(c, "checkUnaryExpr: two operator conditions in one arm")
				}
				seenOps = true
				r.ops = ops
			} else {
				failf(c, "checkUnaryExpr: unrecognised condition %s", src(c))
			}
		}
		if !seenOps {
			failf(a.node, "checkUnaryExpr: arm without an operator condition")
		}
		if len(a.body.List) != 1 {
			failf(a.body, "checkUnaryExpr: expected a single assignment")
		}
		e, ok := assignField(a.body.List[0], N, "currentType")
		if !ok {
			failf(a.body, "checkUnaryExpr: expected `%s.currentType = PT…`", N)
		}
		nm, ok := identName(e)
		if !ok {
			failf(e, "checkUnaryExpr: expected a type constant")
		}
		r.res = leanType(e, nm)
		rules = append(rules, r)
	}
	return rules
}

type retRule struct {
	ctx     string
	allowed []string
}

var contexts = map[string]string{"PREDICATE": ".predicate", "TRANSFORMATION": ".transformation"}

func extractCheckReturn(f *ast.File) []retRule {
	fd := findFunc(f, "checkReturn")
	ps := paramNames(fd, 2)
	recv, info := ps[0], ps[1]
	body := inlineAliases(fd.Body.List)
	if len(body) != 4 {
		failf(fd, "checkReturn: expected 4 statements, found %d", len(body))
	}
	V, fld := defineCall(body[0], "checkExpression", recv, info)
	if fld != "Expr" {
		failf(body[0], "checkReturn: expected %s.Expr to be checked", recv)
	}
	// if V.currentType == PTERROR { return V }
	g, ok := body[1].(*ast.IfStmt)
	if !ok || g.Else != nil || g.Init != nil {
		failf(body[1], "checkReturn: expected the error guard")
	}
	if n, ok := cmpConst(g.Cond, token.EQL, isSel(V, "currentType"), ""); !ok || n != "PTERROR" || len(g.Body.List) != 1 || !returnsIdent(g.Body.List[0], V) {
		failf(g, "checkReturn: expected `if %s.currentType == PTERROR { return %s }`", V, V)
	}
	ifs, ok := body[2].(*ast.IfStmt)
	if !ok {
		failf(body[2], "checkReturn: expected an if chain")
	}
	if !returnsIdent(body[3], V) {
		failf(body[3], "checkReturn: expected `return %s`", V)
	}
	// The arms are read SEMANTICALLY: for every (context, type) the first arm whose condition holds decides between
	// "error" (sets PTERROR and a message) and "ok" (sets PTOK); however the conditions are written (negations, De Morgan,
	// helper predicates, arms in another order), the same decisions give the same rules.
	arms := chain(ifs)
	isOkBody := func(b *ast.BlockStmt) bool {
		if len(b.List) != 1 {
			return false
		}
		e, ok := assignField(b.List[0], V, "currentType")
		if !ok {
			return false
		}
		n, ok := identName(e)
		return ok && n == "PTOK"
	}
	for _, a := range arms {
		if !isErrorBody(a.body, V) && !isOkBody(a.body) {
			failf(a.body, "checkReturn: expected an arm that sets PTERROR and a message, or PTOK")
		}
	}
	var evalCond func(e ast.Expr, ctx, typ string) bool
	evalCond = func(e ast.Expr, ctx, typ string) bool {
		e = unparen(e)
		if in, ok := inlineHelper(e); ok {
			return evalCond(in, ctx, typ)
		}
		switch x := e.(type) {
		case *ast.UnaryExpr:
			if x.Op == token.NOT {
				return !evalCond(x.X, ctx, typ)
			}
		case *ast.BinaryExpr:
			switch x.Op {
			case token.LAND:
				return evalCond(x.X, ctx, typ) && evalCond(x.Y, ctx, typ)
			case token.LOR:
				return evalCond(x.X, ctx, typ) || evalCond(x.Y, ctx, typ)
			case token.EQL, token.NEQ:
				for _, fld := range []struct{ name, val string }{{"context", ctx}, {"currentType", typ}} {
					if n, ok := cmpConst(x, x.Op, isSel(V, fld.name), ""); ok {
						if fld.name == "context" {
							if _, known := contexts[n]; !known {
								failf(x, "checkReturn: unknown context %s", n)
							}
						} else if _, known := procTypes[n]; !known && n != "PTOK" && n != "PTERROR" {
							failf(x, "checkReturn: unknown type constant %s", n)
						}
						return (n == fld.val) == (x.Op == token.EQL)
					}
				}
			}
		}
		failf(e, "checkReturn: unrecognised condition %s", src(e))
		return false
	}
	rules := []retRule{}
	for _, ctx := range []string{"PREDICATE", "TRANSFORMATION"} {
		allowed := []string{}
		rejected := 0
		for _, typ := range []string{"PTSTRING", "PTNUMBER", "PTBOOLEAN"} {
			okOutcome := false
			decided := false
			for _, a := range arms {
				if a.cond == nil || evalCond(a.cond, ctx, typ) {
					okOutcome = isOkBody(a.body)
					decided = true
					break
				}
			}
			if !decided {
				failf(ifs, "checkReturn: no arm decides (%s, %s): the type would stay as it is", ctx, typ)
			}
			if okOutcome {
				allowed = append(allowed, procTypes[typ])
			} else {
				rejected++
			}
		}
		if rejected > 0 {
			rules = append(rules, retRule{ctx: contexts[ctx], allowed: allowed})
		}
	}
	return rules
}

// ---------------------------------------------------------------------------
// execute.go
// ---------------------------------------------------------------------------

var coercions = map[string]string{"getString": ".getString", "getNumber": ".getNumber", "getBoolean": ".getBoolean"}

// coerceOf recognises `v.currentValue.getX()` and
// `ProcessValueBoolean{v.currentValue.getBoolean()}.getNumber()`; returns (state var, coercion)
func coerceOf(e ast.Expr) (string, string, bool) {
	call, ok := unparen(e).(*ast.CallExpr)
	if !ok || len(call.Args) != 0 {
		return "", "", false
	}
	s, ok := call.Fun.(*ast.SelectorExpr)
	if !ok {
		return "", "", false
	}
	method := s.Sel.Name
	// plain: v.currentValue.getX()
	if v, f, ok := sel(s.X); ok && f == "currentValue" {
		if c, ok := coercions[method]; ok {
			return v, c, true
		}
		return "", "", false
	}
	// composite: ProcessValueBoolean{inner}.getNumber()
	if cl, ok := s.X.(*ast.CompositeLit); ok && method == "getNumber" && len(cl.Elts) == 1 {
		if t, ok := identName(cl.Type); ok && t == "ProcessValueBoolean" {
			if v, c, ok := coerceOf(cl.Elts[0]); ok && c == ".getBoolean" {
				return v, ".boolNumber", true
			}
		}
	}
	return "", "", false
}

// typeGuard: `v.currentValue.getType() == bytecode.PTX`
func typeGuard(e ast.Expr, v string) (string, bool) {
	b, ok := unparen(e).(*ast.BinaryExpr)
	if !ok || b.Op != token.EQL {
		return "", false
	}
	call, ok := b.X.(*ast.CallExpr)
	if !ok || len(call.Args) != 0 {
		return "", false
	}
	s, ok := call.Fun.(*ast.SelectorExpr)
	if !ok || s.Sel.Name != "getType" {
		return "", false
	}
	x, f, ok := sel(s.X)
	if !ok || x != v || f != "currentValue" {
		return "", false
	}
	return constName(b.Y, "bytecode")
}

var goToks = map[token.Token]string{
	token.ADD: ".add", token.SUB: ".sub", token.MUL: ".mul", token.QUO: ".quo", token.REM: ".rem",
	token.EQL: ".eql", token.NEQ: ".neq", token.LSS: ".lss", token.GTR: ".gtr", token.LEQ: ".leq", token.GEQ: ".geq",
	token.LAND: ".land", token.LOR: ".lor",
}

var wrappers = map[string]string{"ProcessValueString": ".string", "ProcessValueNumber": ".number", "ProcessValueBoolean": ".boolean"}

type evalCell struct {
	lhs, rhsIs, op, lc, rc, tok, wrap string
}

type elsePanic struct{ lhs, msg string }

func panicMessage(b *ast.BlockStmt) (string, bool) {
	if len(b.List) != 1 {
		return "", false
	}
	es, ok := b.List[0].(*ast.ExprStmt)
	if !ok {
		return "", false
	}
	call, ok := es.X.(*ast.CallExpr)
	if !ok || len(call.Args) != 1 {
		return "", false
	}
	if n, ok := identName(call.Fun); !ok || n != "panic" {
		return "", false
	}
	lit, ok := call.Args[0].(*ast.BasicLit)
	if !ok || lit.Kind != token.STRING {
		return "", false
	}
	s, err := strconv.Unquote(lit.Value)
	if err != nil {
		return "", false
	}
	return s, true
}

func extractExecBinary(f *ast.File) ([]evalCell, []elsePanic) {
	fd := findFunc(f, "executeBinaryExpr")
	ps := paramNames(fd, 2)
	recv, state := ps[0], ps[1]
	body := inlineAliases(fd.Body.List)
	if len(body) != 5 {
		failf(fd, "executeBinaryExpr: expected 5 statements, found %d", len(body))
	}
	L, lf := defineCall(body[0], "executeExpression", recv, state)
	R, rf := defineCall(body[1], "executeExpression", recv, state)
	if lf != "Lhs" || rf != "Rhs" {
		failf(body[0], "executeBinaryExpr: expected %s.Lhs then %s.Rhs to be evaluated (found %s, %s)", recv, recv, lf, rf)
	}
	// final_state := lhs_state
	as, ok := body[2].(*ast.AssignStmt)
	if !ok || as.Tok != token.DEFINE || len(as.Lhs) != 1 || len(as.Rhs) != 1 {
		failf(body[2], "executeBinaryExpr: expected `final_state := %s`", L)
	}
	F, ok1 := identName(as.Lhs[0])
	if n, ok2 := identName(as.Rhs[0]); !ok1 || !ok2 || n != L {
		failf(body[2], "executeBinaryExpr: expected `final_state := %s`", L)
	}
	outer, ok := body[3].(*ast.IfStmt)
	if !ok {
		failf(body[3], "executeBinaryExpr: expected the dispatch on the left operand's type")
	}
	if !returnsIdent(body[4], F) {
		failf(body[4], "executeBinaryExpr: expected `return %s`", F)
	}
	cells := []evalCell{}
	elses := []elsePanic{}
	seenTypes := map[string]bool{}
	for _, oa := range chain(outer) {
		if oa.cond == nil {
			failf(oa.node, "executeBinaryExpr: the outer dispatch has an else branch, which is not recognised")
		}
		tn, ok := typeGuard(oa.cond, L)
		if !ok {
			failf(oa.cond, "executeBinaryExpr: expected `%s.currentValue.getType() == bytecode.PT…`, found %s", L, src(oa.cond))
		}
		lt := leanType(oa.cond, tn)
		if seenTypes[lt] {
			failf(oa.cond, "executeBinaryExpr: left operand type %s dispatched twice", tn)
		}
		seenTypes[lt] = true
		if len(oa.body.List) != 1 {
			failf(oa.body, "executeBinaryExpr: expected one if chain per left operand type")
		}
		innerArms, ok := stmtChain(oa.body.List[0])
		if !ok {
			failf(oa.body, "executeBinaryExpr: expected one if chain (or switch on the operator) per left operand type")
		}
		for _, a := range innerArms {
			if a.cond == nil {
				msg, ok := panicMessage(a.body)
				if !ok {
					failf(a.node, "executeBinaryExpr: expected `else { panic(\"…\") }`")
				}
				elses = append(elses, elsePanic{lt, msg})
				continue
			}
			c := evalCell{lhs: lt}
			seenOp := false
			for _, cj := range splitBin(a.cond, token.LAND) {
				if n, ok := cmpConst(cj, token.EQL, isSel(recv, "Op"), "ast"); ok {
					if seenOp {
						failf(cj, "executeBinaryExpr: two operator conditions in one arm")
					}
					seenOp = true
					c.op = leanOp(n)
				} else if n, ok := typeGuard(cj, R); ok {
					if c.rhsIs != "" {
						failf(cj, "executeBinaryExpr: two guards on the right operand type")
					}
					c.rhsIs = leanType(cj, n)
				} else {
					failf(cj, "executeBinaryExpr: unrecognised condition %s", src(cj))
				}
			}
			if !seenOp {
				failf(a.node, "executeBinaryExpr: arm without `%s.Op == ast.…`", recv)
			}
			if len(a.body.List) != 2 {
				failf(a.body, "executeBinaryExpr: expected `final := … ; %s.currentValue = ProcessValue…{final}`", F)
			}
			// final := lc(L) TOK rc(R)
			d, ok := a.body.List[0].(*ast.AssignStmt)
			if !ok || d.Tok != token.DEFINE || len(d.Lhs) != 1 || len(d.Rhs) != 1 {
				failf(a.body.List[0], "executeBinaryExpr: expected `final := <lhs coercion> <op> <rhs coercion>`")
			}
			tmp, _ := identName(d.Lhs[0])
			be, ok := d.Rhs[0].(*ast.BinaryExpr)
			if !ok {
				failf(d.Rhs[0], "executeBinaryExpr: expected a binary Go expression, found %s", src(d.Rhs[0]))
			}
			tk, ok := goToks[be.Op]
			if !ok {
				failf(be, "executeBinaryExpr: Go operator %s is not recognised", be.Op)
			}
			c.tok = tk
			lv, lc, ok := coerceOf(be.X)
			if !ok || lv != L {
				failf(be.X, "executeBinaryExpr: expected a coercion of %s on the left of the Go operator, found %s", L, src(be.X))
			}
			rv, rc, ok := coerceOf(be.Y)
			if !ok || rv != R {
				failf(be.Y, "executeBinaryExpr: expected a coercion of %s on the right of the Go operator, found %s", R, src(be.Y))
			}
			c.lc, c.rc = lc, rc
			// F.currentValue = Wrapper{final}
			w, ok := assignField(a.body.List[1], F, "currentValue")
			if !ok {
				failf(a.body.List[1], "executeBinaryExpr: expected `%s.currentValue = ProcessValue…{%s}`", F, tmp)
			}
			cl, ok := w.(*ast.CompositeLit)
			if !ok || len(cl.Elts) != 1 {
				failf(w, "executeBinaryExpr: expected a ProcessValue… literal with one field")
			}
			if n, ok := identName(cl.Elts[0]); !ok || n != tmp || tmp == "" {
				failf(w, "executeBinaryExpr: expected the literal to wrap `%s`", tmp)
			}
			wt, _ := identName(cl.Type)
			wl, ok := wrappers[wt]
			if !ok {
				failf(w, "executeBinaryExpr: unknown wrapper %s", src(cl.Type))
			}
			c.wrap = wl
			cells = append(cells, c)
		}
		if len(elses) == 0 || elses[len(elses)-1].lhs != lt {
			failf(oa.body, "executeBinaryExpr: the chain for %s is not closed by `else { panic(…) }`", tn)
		}
	}
	return cells, elses
}

type unCell struct{ op, shape string }

// wrapLit: `Wrapper{<inner>}` -> (wrapper, inner)
func wrapLit(e ast.Expr) (string, ast.Expr, bool) {
	cl, ok := e.(*ast.CompositeLit)
	if !ok || len(cl.Elts) != 1 {
		return "", nil, false
	}
	wt, ok := identName(cl.Type)
	if !ok {
		return "", nil, false
	}
	wl, ok := wrappers[wt]
	if !ok {
		return "", nil, false
	}
	return wl, cl.Elts[0], true
}

func intLit(e ast.Expr) (int, bool) {
	neg := false
	if u, ok := e.(*ast.UnaryExpr); ok && u.Op == token.SUB {
		neg = true
		e = u.X
	}
	l, ok := e.(*ast.BasicLit)
	if !ok || l.Kind != token.INT {
		return 0, false
	}
	n, err := strconv.Atoi(l.Value)
	if err != nil {
		return 0, false
	}
	if neg {
		n = -n
	}
	return n, true
}

func extractExecUnary(f *ast.File) []unCell {
	fd := findFunc(f, "executeUnaryExpression")
	ps := paramNames(fd, 2)
	recv, state := ps[0], ps[1]
	body := inlineAliases(fd.Body.List)
	if len(body) != 3 {
		failf(fd, "executeUnaryExpression: expected 3 statements, found %d", len(body))
	}
	E, fld := defineCall(body[0], "executeExpression", recv, state)
	if fld != "Expr" {
		failf(body[0], "executeUnaryExpression: expected %s.Expr to be evaluated", recv)
	}
	unArms, ok := stmtChain(body[1])
	if !ok {
		failf(body[1], "executeUnaryExpression: expected an if chain (or switch) over the operator")
	}
	if !returnsIdent(body[2], E) {
		failf(body[2], "executeUnaryExpression: expected `return %s`", E)
	}
	cells := []unCell{}
	for _, a := range unArms {
		if a.cond == nil {
			failf(a.node, "executeUnaryExpression: an else branch is not recognised")
		}
		opn, ok := cmpConst(a.cond, token.EQL, isSel(recv, "Op"), "ast")
		if !ok {
			failf(a.cond, "executeUnaryExpression: expected `%s.Op == ast.…`, found %s", recv, src(a.cond))
		}
		if len(a.body.List) != 1 {
			failf(a.body, "executeUnaryExpression: expected one statement per operator")
		}
		st := a.body.List[0]
		// shape A: E.currentValue = Wrapper{!coerce(E)}
		if w, ok := assignField(st, E, "currentValue"); ok {
			wl, inner, ok := wrapLit(w)
			if !ok {
				failf(w, "executeUnaryExpression: expected a ProcessValue… literal")
			}
			u, ok := inner.(*ast.UnaryExpr)
			if !ok || u.Op != token.NOT {
				failf(inner, "executeUnaryExpression: expected `!<coercion>`, found %s", src(inner))
			}
			v, c, ok := coerceOf(u.X)
			if !ok || v != E {
				failf(u.X, "executeUnaryExpression: expected a coercion of %s", E)
			}
			cells = append(cells, unCell{leanOp(opn), fmt.Sprintf("(.notOf %s %s)", c, wl)})
			continue
		}
		// shape B: if len(coerce(E)) <= K { E.currentValue = ProcessValueString{""} } else { E.currentValue = ProcessValueString{coerce(E)[lo:hi]} }
		g, ok := st.(*ast.IfStmt)
		if !ok || g.Init != nil {
			failf(st, "executeUnaryExpression: unrecognised statement %s", src(st))
		}
		eb, ok := g.Else.(*ast.BlockStmt)
		if !ok || len(g.Body.List) != 1 || len(eb.List) != 1 {
			failf(g, "executeUnaryExpression: expected `if len(…) <= k { … } else { … }` with one statement each")
		}
		cb, ok := g.Cond.(*ast.BinaryExpr)
		if !ok || cb.Op != token.LEQ {
			failf(g.Cond, "executeUnaryExpression: expected `len(<coercion>) <= k`, found %s", src(g.Cond))
		}
		lc, ok := cb.X.(*ast.CallExpr)
		if !ok || len(lc.Args) != 1 {
			failf(cb.X, "executeUnaryExpression: expected len(<coercion>)")
		}
		if n, ok := identName(lc.Fun); !ok || n != "len" {
			failf(cb.X, "executeUnaryExpression: expected len(<coercion>)")
		}
		v, c, ok := coerceOf(lc.Args[0])
		if !ok || v != E {
			failf(lc.Args[0], "executeUnaryExpression: expected a coercion of %s", E)
		}
		k, ok := intLit(cb.Y)
		if !ok {
			failf(cb.Y, "executeUnaryExpression: expected an integer literal")
		}
		// then: ProcessValueString{""}
		tw, ok := assignField(g.Body.List[0], E, "currentValue")
		if !ok {
			failf(g.Body, "executeUnaryExpression: expected `%s.currentValue = ProcessValueString{\"\"}`", E)
		}
		wl, inner, ok := wrapLit(tw)
		lit, isLit := inner.(*ast.BasicLit)
		if !ok || wl != ".string" || !isLit || lit.Value != `""` {
			failf(tw, "executeUnaryExpression: expected `ProcessValueString{\"\"}`, found %s", src(tw))
		}
		// else: ProcessValueString{coerce(E)[lo:hi]}
		ew, ok := assignField(eb.List[0], E, "currentValue")
		if !ok {
			failf(eb, "executeUnaryExpression: expected `%s.currentValue = ProcessValueString{…[lo:hi]}`", E)
		}
		wl2, inner2, ok := wrapLit(ew)
		if !ok || wl2 != ".string" {
			failf(ew, "executeUnaryExpression: expected a ProcessValueString literal")
		}
		sl, ok := inner2.(*ast.SliceExpr)
		if !ok || sl.Slice3 {
			failf(inner2, "executeUnaryExpression: expected a slice expression, found %s", src(inner2))
		}
		v2, c2, ok := coerceOf(sl.X)
		if !ok || v2 != E || c2 != c {
			failf(sl.X, "executeUnaryExpression: expected the same coercion of %s as in the length test", E)
		}
		lo := 0
		if sl.Low != nil {
			lo, ok = intLit(sl.Low)
			if !ok || lo < 0 {
				failf(sl.Low, "executeUnaryExpression: expected a non-negative integer literal")
			}
		}
		hi := "none"
		if sl.High != nil {
			h, ok := intLit(sl.High)
			if !ok || h < 0 {
				failf(sl.High, "executeUnaryExpression: expected a non-negative integer literal")
			}
			hi = fmt.Sprintf("(some %d)", h)
		}
		cells = append(cells, unCell{leanOp(opn), fmt.Sprintf("(.slice %s (%d) %d %s)", c, k, lo, hi)})
	}
	return cells
}

// ---------------------------------------------------------------------------
// parser.go
// ---------------------------------------------------------------------------

// tokenSet: `func f(tokenType TokenType) bool { return tokenType == A || tokenType == B … }`
func extractTokenSet(f *ast.File, name string) []string {
	fd := findFunc(f, name)
	p := paramNames(fd, 1)[0]
	if len(fd.Body.List) != 1 {
		failf(fd, "%s: expected a single return statement", name)
	}
	r, ok := fd.Body.List[0].(*ast.ReturnStmt)
	if !ok || len(r.Results) != 1 {
		failf(fd, "%s: expected a single return statement", name)
	}
	names, ok := opDisjunction(r.Results[0], isIdent(p), "")
	if !ok {
		failf(r, "%s: expected a disjunction of `%s == TOKEN`, found %s", name, p, src(r.Results[0]))
	}
	return names
}

type precArm struct {
	toks []string
	vals []int
}

// precTable: `if t == A || t == B { return n[, m] } else if … ; return d[, e]`
func extractPrec(f *ast.File, name string, arity int) ([]precArm, []int) {
	fd := findFunc(f, name)
	p := paramNames(fd, 1)[0]
	body := inlineAliases(fd.Body.List)
	if len(body) != 2 {
		failf(fd, "%s: expected an if chain and a default return", name)
	}
	ifs, ok := body[0].(*ast.IfStmt)
	if !ok {
		failf(body[0], "%s: expected an if chain", name)
	}
	ints := func(st ast.Stmt) []int {
		r, ok := st.(*ast.ReturnStmt)
		if !ok || len(r.Results) != arity {
			failf(st, "%s: expected a return of %d integer literal(s)", name, arity)
		}
		out := []int{}
		for _, e := range r.Results {
			n, ok := intLit(e)
			if !ok {
				failf(e, "%s: expected an integer literal, found %s", name, src(e))
			}
			out = append(out, n)
		}
		return out
	}
	arms := []precArm{}
	for _, a := range chain(ifs) {
		if a.cond == nil {
			failf(a.node, "%s: an else branch is not recognised", name)
		}
		toks, ok := opDisjunction(a.cond, isIdent(p), "")
		if !ok {
			failf(a.cond, "%s: expected a disjunction of `%s == TOKEN`, found %s", name, p, src(a.cond))
		}
		if len(a.body.List) != 1 {
			failf(a.body, "%s: expected a single return per arm", name)
		}
		arms = append(arms, precArm{toks, ints(a.body.List[0])})
	}
	return arms, ints(body[1])
}

// ---------------------------------------------------------------------------
// output
// ---------------------------------------------------------------------------

func main() {
	out := flag.String("o", "", "output file (default: <verif>/lean/Vore/Extracted.lean next to this module)")
	flag.Parse()
	repo := os.Getenv("VERIF_REPO")
	if repo == "" {
		repo = "/repo"
	}
	if flag.NArg() > 0 {
		repo = flag.Arg(0)
	}
	if *out == "" {
		*out = "/verif/lean/Vore/Extracted.lean"
	}
	code := 0
	func() {
		defer func() {
			if r := recover(); r != nil {
				if f, ok := r.(failure); ok {
					fmt.Fprintln(os.Stderr, "extract: FAILED (fails closed): "+f.msg)
					code = 1
					return
				}
				panic(r)
			}
		}()
		text := generate(repo)
		if err := os.WriteFile(*out, []byte(text), 0o644); err != nil {
			panic(failure{"cannot write " + *out + ": " + err.Error()})
		}
		fmt.Printf("extract: wrote %s from %s\n", *out, repo)
	}()
	os.Exit(code)
}

func generate(repo string) string {
	sem := parseFile(filepath.Join(repo, "libvore", "bytecode", "semanticcheck.go"))
	exe := parseFile(filepath.Join(repo, "libvore", "engine", "execute.go"))
	par := parseFile(filepath.Join(repo, "libvore", "ast", "parser.go"))

	bin := extractCheckBinary(sem)
	un := extractCheckUnary(sem)
	ret := extractCheckReturn(sem)
	cells, elses := extractExecBinary(exe)
	ucells := extractExecUnary(exe)
	isPrefix := extractTokenSet(par, "isPrefixOp")
	isBinary := extractTokenSet(par, "isBinaryOp")
	exprEnd := extractTokenSet(par, "isProcessExprEnd")
	prefixPrec, prefixDefault := extractPrec(par, "prefixPrecedence", 1)
	infixPrec, infixDefault := extractPrec(par, "infixPrecedence", 2)

	var b strings.Builder
	w := func(format string, args ...interface{}) { fmt.Fprintf(&b, format, args...) }
	w("import Vore.Model.Tables\n")
	w("/-!\n# Vore.Extracted — GENERATED by /verif/harness/cmd/extract from the Go source; do not edit.\n\n")
	w("Source functions: libvore/bytecode/semanticcheck.go (checkBinaryExpr, checkUnaryExpr, checkReturn),\n")
	w("libvore/engine/execute.go (executeBinaryExpr, executeUnaryExpression), libvore/ast/parser.go\n")
	w("(isPrefixOp, prefixPrecedence, isBinaryOp, infixPrecedence, isProcessExprEnd).\n")
	w("Regenerated on every check; the theorems of Vore/Lemmas/TablesTie.lean, Props/C11.lean and\nProps/C12.lean are re-checked against it.\n-/\n")
	w("namespace Vore.Extracted\nopen Vore Vore.Tables\n\n")

	w("/-- the `else if` chain of `checkBinaryExpr`, in source order -/\n")
	w("def goBinTyping : List BinRule := [\n")
	for i, r := range bin {
		w("  { lhs := %s, rhs := %s, ops := %s, res := %s }%s\n", leanOptType(r.lhs), leanOptType(r.rhs), leanOps(r.ops), r.res, comma(i, len(bin)))
	}
	w("]\n\n")
	w("/-- the `else if` chain of `checkUnaryExpr`, in source order -/\n")
	w("def goUnTyping : List UnRule := [\n")
	for i, r := range un {
		w("  { arg := %s, ops := %s, res := %s }%s\n", leanOptType(r.arg), leanOps(r.ops), r.res, comma(i, len(un)))
	}
	w("]\n\n")
	w("/-- the error arms of `checkReturn` -/\n")
	w("def goRetRules : List RetRule := [\n")
	for i, r := range ret {
		w("  { ctx := %s, allowed := [%s] }%s\n", r.ctx, strings.Join(r.allowed, ", "), comma(i, len(ret)))
	}
	w("]\n\n")
	w("def goTyping : TypingTable := { bin := goBinTyping, un := goUnTyping, ret := goRetRules }\n\n")

	w("/-- the dispatch of `executeBinaryExpr`, in source order -/\n")
	w("def goEvalCells : List EvalCell := [\n")
	for i, c := range cells {
		w("  { lhs := %s, rhsIs := %s, op := %s, lc := %s, rc := %s, tok := %s, wrap := %s }%s\n",
			c.lhs, leanOptType(c.rhsIs), c.op, c.lc, c.rc, c.tok, c.wrap, comma(i, len(cells)))
	}
	w("]\n\n")
	w("def goEvalElse : List (PT × String) := [\n")
	for i, e := range elses {
		w("  (%s, %s)%s\n", e.lhs, leanString(e.msg), comma(i, len(elses)))
	}
	w("]\n\n")
	w("/-- the arms of `executeUnaryExpression`, in source order -/\n")
	w("def goUnaryCells : List UnCell := [\n")
	for i, c := range ucells {
		w("  { op := %s, shape := %s }%s\n", c.op, c.shape, comma(i, len(ucells)))
	}
	w("]\n\n")
	w("def goEval : EvalTable := { cells := goEvalCells, elsePanic := goEvalElse, unary := goUnaryCells }\n\n")

	w("def goPrec : PrecTable := {\n")
	w("  isPrefixOp := %s,\n", leanOps(isPrefix))
	w("  prefixPrec := [%s],\n", precArms(prefixPrec))
	w("  prefixDefault := %s,\n", leanInt(prefixDefault[0]))
	w("  isBinaryOp := %s,\n", leanOps(isBinary))
	w("  infixPrec := [%s],\n", precArms(infixPrec))
	w("  infixDefault := (%s, %s),\n", leanInt(infixDefault[0]), leanInt(infixDefault[1]))
	ee := []string{}
	for _, n := range exprEnd {
		ee = append(ee, leanString(n))
	}
	w("  exprEnd := [%s] }\n\n", strings.Join(ee, ", "))
	w("end Vore.Extracted\n")
	return b.String()
}

func comma(i, n int) string {
	if i+1 < n {
		return ","
	}
	return ""
}

func leanInt(n int) string {
	if n < 0 {
		return fmt.Sprintf("(%d)", n)
	}
	return strconv.Itoa(n)
}

func precArms(arms []precArm) string {
	parts := []string{}
	for _, a := range arms {
		vals := []string{}
		for _, v := range a.vals {
			vals = append(vals, leanInt(v))
		}
		parts = append(parts, "("+leanOps(a.toks)+", "+strings.Join(vals, ", ")+")")
	}
	return strings.Join(parts, ",\n    ")
}
