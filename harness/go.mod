module verifharness

go 1.19

require (
	github.com/jmeaster30/vore/libvore v0.0.0
	github.com/jmeaster30/vore/libvore/algo v0.0.0
	github.com/jmeaster30/vore/libvore/ast v0.0.0
	github.com/jmeaster30/vore/libvore/bytecode v0.0.0
	github.com/jmeaster30/vore/libvore/ds v0.0.0
	github.com/jmeaster30/vore/libvore/engine v0.0.0
	github.com/jmeaster30/vore/libvore/files v0.0.0
	github.com/jmeaster30/vore/libvore/testutils v0.0.0
)

replace (
	github.com/jmeaster30/vore/libvore => /repo/libvore
	github.com/jmeaster30/vore/libvore/algo => /repo/libvore/algo
	github.com/jmeaster30/vore/libvore/ast => /repo/libvore/ast
	github.com/jmeaster30/vore/libvore/bytecode => /repo/libvore/bytecode
	github.com/jmeaster30/vore/libvore/ds => /repo/libvore/ds
	github.com/jmeaster30/vore/libvore/engine => /repo/libvore/engine
	github.com/jmeaster30/vore/libvore/files => /repo/libvore/files
	github.com/jmeaster30/vore/libvore/testutils => /repo/libvore/testutils
)
