#!/bin/sh
# setup_cmd: build the framework offline from files on disk only.
set -e
cd "$(dirname "$0")"
export GOWORK=off GOFLAGS=-mod=mod GOPROXY=off GOSUMDB=off GOTOOLCHAIN=local CGO_ENABLED=0
mkdir -p bin work evidence replays
(cd lean && lake build Vore vdriver)
(cd harness && cp -f /repo/libvore/go.sum . 2>/dev/null || true; go build -tags verif -o ../bin/vharness ./cmd/vharness)
echo setup ok
