#!/bin/sh
# tools/try_seed.sh <patch.diff> <Cxx> [<Cyy> ...] : apply a seeded change to /repo, run the checks, undo.
patch="$1"; shift
cd /repo || exit 2
git status --short | grep -v '^??' | head -1 | grep -q . && { echo "/repo not clean"; exit 2; }
git apply "$patch" || { echo "patch does not apply"; exit 2; }
for p in "$@"; do
  (cd /verif && VERIF_SEED=${VERIF_SEED:-1} ./check "$p" --tier ${TIER:-quick} 2>&1 | grep -E "VIOLATION|KNOWN-FINDING|quick:|thorough:" | tail -4)
done
git -C /repo checkout -- .
git -C /repo status --short | grep -v '^??' | head -2
