#!/bin/sh
# tools/confirm_seed.sh <dir with patch.diff + run_demo.sh> <Cxx> [<Cyy> ...]
# Independent confirmation of a delivered seeded change, then the checks against it:
#   clean worktree of /repo HEAD -> demo must pass; apply patch.diff -> pinned suite must pass, demo must fail;
#   then VERIF_REPO=<that worktree> ./check <Cxx> --tier quick (no evidence written). The worktree is removed at the end.
S="$1"; shift
mkdir -p /tmp/r6v
W=/tmp/r6v/$(basename "$(dirname "$S")")-$$
export GOPROXY=off GOSUMDB=off GOTOOLCHAIN=local
git -C /repo worktree add -q "$W" HEAD || exit 2
trap 'git -C /repo worktree remove --force "$W" >/dev/null 2>&1' EXIT
sh "$S/run_demo.sh" "$W" >/tmp/r6v/demo_clean.$$ 2>&1; c1=$?
git -C "$W" apply "$S/patch.diff" || { echo "CONFIRM: patch does not apply"; exit 2; }
/verif/tools/seed_runtests.sh "$W" | tail -3
sh "$S/run_demo.sh" "$W" >/tmp/r6v/demo_patched.$$ 2>&1; c2=$?
echo "CONFIRM: demo on clean tree exit=$c1 (want 0); with patch exit=$c2 (want non-zero)"
git -C "$W" status --short | head -5
for p in "$@"; do
  (cd /verif && VERIF_REPO="$W" VERIF_SEED=${VERIF_SEED:-1} ./check "$p" --tier ${TIER:-quick} 2>&1 | grep -E "VIOLATION|KNOWN-FINDING|quick:|thorough:|Traceback|Error" | head -6)
done
rm -f /tmp/r6v/demo_*.$$
