#!/bin/sh
# run every claimed check (quick) on the current tree and summarise
cd "$(dirname "$0")/.."
for p in $(python3 -c "import json;print(' '.join(c['property_id'] for c in json.load(open('MANIFEST.json'))['checks']))"); do
  ./check $p --tier ${TIER:-quick} 2>&1 | grep -E "VIOLATION|quick:|thorough:|KNOWN" | tail -3
done
