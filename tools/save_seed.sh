save_seed () 
{ 
    id=$1;
    prop=$2;
    needs="$3";
    ran="$4";
    caught="$5";
    d=/verif/seeded/$id;
    mkdir -p $d;
    cp /tmp/mut/out/$prop/patch.diff $d/patch.diff;
    for f in /tmp/mut/out/$prop/*;
    do
        case $f in 
            *patch.diff)

            ;;
            *)
                cp -r $f $d/
            ;;
        esac;
    done;
    python3 - "$d" "$prop" "$needs" "$ran" "$caught" <<'EOF'
import json,sys
d,prop,needs,ran,caught=sys.argv[1:]
json.dump(dict(breaks_property=prop, needs_to_manifest=needs, what_i_ran=ran, caught_by=caught, source="independent sub-agent given only the property text and a scratch worktree"), open(d+'/meta.json','w'), indent=1)
EOF

}
