#!/bin/sh
# tools/repo_tests.sh [-tags verif] : the pinned suite over /repo's modules; prints failures only, then a summary line
fail=0
for m in $(grep -v libvorejs /w/out/gomods.txt); do
  MF=$(cd /repo/$m && . /w/out/goenv.sh && gomodflag)
  out=$(cd /repo/$m && go test $MF "$@" -vet=off -count=1 -timeout 25m ./... 2>&1) || { echo "FAIL in $m"; echo "$out" | tail -15; fail=1; }
done
[ $fail = 0 ] && echo "repo tests: all modules pass ($*)"
exit $fail
