#!/usr/bin/env python3
"""regenerates MANIFEST.json from checklib/manifest_data.py (kept by hand)"""
import json, os, sys
sys.path.insert(0, os.path.join(os.path.dirname(__file__), ".."))
from checklib.manifest_data import NOT_APPLICABLE, HOOK_COMMITS, NOTES, CLAIMED
from checklib.registry import PROPS
CHECKS = {k: v['manifest'] for k, v in PROPS.items() if k in CLAIMED}
NOT_APPLICABLE = {k: v for k, v in NOT_APPLICABLE.items() if k not in CHECKS}

base = json.load(open("/root/.vp/BASELINE.json"))
checks = []
for pid, d in sorted(CHECKS.items()):
    checks.append(dict(
        property_id=pid,
        quick_cmd=f"./check {pid} --tier quick",
        thorough_cmd=f"./check {pid} --tier thorough",
        evidence_file=f"evidence/{pid}.json",
        replay_cmd_template=f"./check {pid} --replay {{path}}",
        engine="lean4-proof+correspondence",
        level_claimed=dict(category="proof", text=d["text"], design_ref=d.get("design_ref", "DESIGN.md §6 " + pid)),
        level_note=d["note"],
        technique=d["technique"],
    ))
m = dict(
    version=1,
    setup_cmd="./setup.sh",
    hooks=dict(guard="verif", enable="go build -tags verif (Go build tag; hook files carry //go:build verif)",
               baseline_off_cmd=base["cmd"], source_commits=HOOK_COMMITS, add_only=True),
    engines=[dict(name="lean4-proof+correspondence", path="lean/ harness/ checklib/ check",
                  serves_properties=sorted(CHECKS.keys()),
                  kind_free_text="Lean 4 model + theorems (lake build, #print axioms audit) tied to the Go code by a "
                                 "differential correspondence run (Go harness -tags verif vs compiled Lean driver) and "
                                 "go/ast fact extraction")],
    checks=checks,
    notes=NOTES,
    not_applicable=[dict(property_id=k, reason=v) for k, v in sorted(NOT_APPLICABLE.items())],
)
json.dump(m, open(os.path.join(os.path.dirname(__file__), "..", "MANIFEST.json"), "w"), indent=1)
print("MANIFEST.json:", len(checks), "checks,", len(NOT_APPLICABLE), "not applicable")
