#!/bin/sh
# usage: tools/seed_runtests.sh <worktree>  : the pinned suite over the modules of that worktree + CLI build (used by confirm_seed.sh)
W="$1"; fail=0
export GOPROXY=off GOSUMDB=off GOTOOLCHAIN=local GOFLAGS=
for m in . libvore libvore/algo libvore/ast libvore/bytecode libvore/ds libvore/engine libvore/files libvore/testutils; do
  out=$(cd "$W/$m" && go test -vet=off -count=1 -timeout 25m ./... 2>&1) || { echo "FAIL in $m"; echo "$out" | tail -20; fail=1; }
done
(cd "$W" && go build -o /dev/null . ) || { echo "CLI build FAIL"; fail=1; }
[ $fail = 0 ] && echo "SUITE PASS" || echo "SUITE FAIL"
exit $fail
