from . import search as S


def run_search(genprop, fields=S.ALL_FIELDS, what="matches differ from the model"):
    def f(ctx, spec):
        cases, impl, model, stats = S.gen_and_run(ctx, genprop)
        mism, counters, samples = S.compare_run(ctx, cases, impl, model, fields, what)
        ctx.coverage.update(evaluations=counters["evaluations"], distinct_nontrivial=counters["with_matches"],
                            rule="generated (source, text) pairs; non-trivial = the model reports at least one match; "
                                 "distinct = distinct (source, text) pairs",
                            samples=samples, counters=counters, generator=stats,
                            structural_agreement=(counters["code_drift"] == 0))
        S.report(ctx, mism)
    return f


PROPS = {}
for pid in ["C09"]:
    PROPS[pid] = dict(lean_modules=[], theorems=[], run=run_search(pid),
                      manifest=dict(text="under construction", note="under construction",
                                    technique="Lean 4 model + differential correspondence"))
