"""C16 — string literals denote exactly the bytes their escapes describe.

Theorems: lean/Vore/Props/C16.lean over the lexer model lean/Vore/Model/Lexer.lean (defined from the
tables regenerated into lean/Vore/ExtractedLex.lean).  Tie:
  L6 (verdict): `find all <literal>` run by the real code on the bytes b the spelling denotes (exactly one
      match covering b), on the text of all 256 byte values (exactly one match, at offset b), on single-byte
      mutations of b (no match), on b embedded in a longer text;
  L1 (verdict for STRING lexemes, diagnostic otherwise): real lexer vs model lexer on the literals and on the
      token-level stream `lex_stream` (valid programs, every prefix, byte soups, token soups, NUL).
`lex_stream(ctx)` is exported for the C08/C15 glue.
"""
import collections, hashlib, json, os
from . import common as C
from .extract_lex import run_extract_lex


def _key(*parts):
    h = hashlib.sha1()
    for p in parts:
        h.update(p if isinstance(p, bytes) else str(p).encode())
        h.update(b"\0")
    return h.hexdigest()[:12]


def gen_run(ctx, genprop, subdir):
    """vharness gen-run + vdriver in <workdir>/<subdir>; returns (cases, impl, model, stats)"""
    out = os.path.join(ctx.workdir, subdir)
    os.makedirs(out, exist_ok=True)
    cmd = [os.path.join(C.BIN, "vharness"), "gen-run", "-prop", genprop, "-seed", str(ctx.seed), "-tier", ctx.tier,
           "-out", out]
    corpus = os.path.join(C.VERIF, "corpus", genprop + ".tsv")
    if os.path.exists(corpus):
        cmd += ["-corpus", corpus]
    rc, o = C.sh(cmd, timeout=7200)
    ctx.log.append({"step": " ".join(cmd[1:]), "rc": rc, "out": o[-1500:]})
    if rc != 0:
        raise RuntimeError("vharness gen-run failed: " + o[-500:])
    model = {}
    exe = C.vdriver_exe()
    if os.path.exists(exe):
        if C.run_vdriver_parallel(os.path.join(out, "lean.tsv"), os.path.join(out, "model.tsv"), ctx.log):
            model = C.read_tsv(os.path.join(out, "model.tsv"))
    cases = C.read_tsv(os.path.join(out, "cases.tsv"))
    impl = C.read_tsv(os.path.join(out, "impl.tsv"))
    stats = json.load(open(os.path.join(out, "stats.json")))
    return cases, impl, model, stats


# ---------------------------------------------------------------------------------------------
# token level
# ---------------------------------------------------------------------------------------------

def parse_toks(line):
    """'TOKS K:xhex:s:e …' -> [(kind, lexeme bytes, start, end)] ; None otherwise"""
    if not line.startswith("TOKS"):
        return None
    out = []
    for t in line[5:].split(" "):
        if not t:
            continue
        k, lx, s, e = t.split(":")
        out.append((k, C.unhex(lx), int(s), int(e)))
    return out


def _is_ascii(b: bytes):
    return all(x < 128 for x in b)


def _shape(line):
    """kinds and offsets of a token line (lexemes dropped); other lines unchanged"""
    toks = parse_toks(line or "")
    if toks is None:
        return line
    return [(t[0], t[2], t[3]) for t in toks]


def lex_class(line):
    if line is None:
        return "MISSING"
    w = line.split(" ")
    if w[0] == "LEXERR":
        return "LEXERR-" + w[1]
    return w[0]


def classify_lex(i, m):
    """what kind of disagreement between implementation line i and model line m"""
    ci, cm = lex_class(i), lex_class(m)
    if ci in ("PANIC", "CRASH", "HANG", "HARNESS-PANIC"):
        return "impl-" + ci.lower()
    if ci == "TOKS" and cm == "TOKS":
        ti, tm = parse_toks(i), parse_toks(m)
        if [t[1] for t in ti if t[0] == "STRING"] != [t[1] for t in tm if t[0] == "STRING"]:
            return "string-lexeme"
        if [(t[0], t[1]) for t in ti] != [(t[0], t[1]) for t in tm]:
            return "tokens"
        return "offsets"
    if ci != cm:
        return "accept-reject" if "TOKS" in (ci, cm) else "error-kind"
    return "error-offset"


def lex_stream(ctx, genprop="LEX", subdir="lex"):
    """token-level correspondence (L1): the real lexer (`tokens`) against the model (`lex`) on the generated stream.
    returns (mismatches, counters): a mismatch is dict(id, src(bytes), tag, impl, model, cls) with cls one of
    impl-panic | impl-crash | impl-hang | string-lexeme | tokens | offsets | accept-reject | error-kind | error-offset |
    spec (an `items` case — a rendering of a well-separated lexical item list, Vore/Spec/LexItems.lean — whose real
    tokens are not the kinds+lexemes the specification assigns)."""
    cases, impl, model, stats = gen_run(ctx, genprop, subdir)
    counters = collections.Counter()
    mism = []
    samples = []
    for cid, cline in cases.items():
        parts = cline.split("\t")
        if parts[0] != "tokens":
            continue
        src = C.unhex(parts[1])
        tag = parts[2] if len(parts) > 2 else ""
        i, m = impl.get(cid), model.get(cid)
        counters["evaluations"] += 1
        counters["tag-" + tag] += 1
        counters["impl-" + lex_class(i)] += 1
        if tag == "items" and len(parts) > 3:
            # specification oracle (theorem C15_lex_items): kinds and lexemes the lexical grammar assigns
            want = [tuple(t.split(":")) for t in parts[3].split(" ")]
            toks = parse_toks(i or "")
            got = None if toks is None else [(t[0], "x" + t[1].hex()) for t in toks]
            counters["spec-oracle"] += 1
            if got != want:
                counters["mismatch-spec"] += 1
                mism.append(dict(id=cid, src=src, tag=tag, impl=i, model="SPEC " + parts[3], cls="spec"))
                continue
        if m is None:
            counters["model-missing"] += 1
            if lex_class(i) in ("PANIC", "CRASH", "HANG"):
                mism.append(dict(id=cid, src=src, tag=tag, impl=i, model=None, cls="impl-" + lex_class(i).lower()))
            continue
        if lex_class(i) in ("PANIC", "CRASH", "HANG", "HARNESS-PANIC"):
            # never acceptable (C08), even where a model built from the same (defective) tables panics too
            cls = "impl-" + lex_class(i).lower()
            counters["mismatch-" + cls] += 1
            mism.append(dict(id=cid, src=src, tag=tag, impl=i, model=m, cls=cls))
        elif i == m or (not _is_ascii(src) and _shape(i) == _shape(m)):
            # a source that is not ASCII is lexed by the model through its class image (Model/Unicode.lean): kinds,
            # rune offsets and errors are compared, lexemes are images of each other by construction
            if not _is_ascii(src):
                counters["agree-nonascii-shape"] += 1
            counters["agree"] += 1
            toks = parse_toks(m)
            if toks is not None and len(toks) > 2:
                counters["nontrivial"] += 1
                if len(samples) < 3 and tag == "program":
                    samples.append(dict(source=src.decode("latin1"), tokens=m[:300]))
        else:
            cls = classify_lex(i, m)
            counters["mismatch-" + cls] += 1
            mism.append(dict(id=cid, src=src, tag=tag, impl=i, model=m, cls=cls))
    counters = dict(counters)
    counters["generator"] = stats
    counters["samples"] = samples
    return mism, counters


# ---------------------------------------------------------------------------------------------
# C16
# ---------------------------------------------------------------------------------------------

def expected_matches(b: bytes, text: bytes):
    """what `find all <literal denoting b>` must report on text: the occurrences of b, scanning left to right,
    resuming at the end of a match (offsets only)"""
    out, i = [], 0
    if not b:
        return out
    while i + len(b) <= len(text):
        if text[i:i + len(b)] == b:
            out.append((i, i + len(b)))
            i += len(b)
        else:
            i += 1
    return out


def impl_matches(line):
    """canonical `run` result -> ('OK', [(start, end, value)]) or (class, detail)"""
    if line is None:
        return "MISSING", ""
    if line.startswith("COMPILE"):
        w = line.split(" ")
        msg = ""
        if len(w) > 3 and w[-1].startswith("x"):
            try:
                msg = C.unhex(w[-1]).decode("latin1").replace("\n", " | ")
            except Exception:
                msg = w[-1][:80]
        return " ".join(w[:2]), " ".join(w[2:3]) + " " + msg[:200]
    if line in ("HANG", "CRASH"):
        return line, ""
    f = C.fields(line)
    res = f.get("RES", line)
    if not res.startswith("OK"):
        return res.split(" ")[0], res[:200]
    from .search import parse_matches
    return "OK", [(m["start"], m["end"], C.unhex(m["value"])) for m in parse_matches(res)]


def run_c16(ctx, spec):
    # 1. regenerated facts; re-check the theorems if the tables changed
    ex = run_extract_lex(ctx, modules=spec["lean_modules"])
    if not ex["ok"]:
        ctx.violation("tie", "lexer fact extractor failed on /repo's libvore/ast/lexer.go (fails closed)",
                      dict(output=ex["out"][-3000:]), found_input=False)
    elif ex["changed"] or ex["build_ok"] is False:
        if not ex["build_ok"]:
            ctx.violation("obligation", "C16 theorems no longer check against the tables regenerated from lexer.go",
                          dict(output=ex["build_out"][-3000:]), found_input=False)
        else:
            for m in spec["lean_modules"]:
                mok, thms, o = C.check_props_module(m, ctx.log)
                bad = [t for t in thms if not t["ok"]]
                if not mok or bad:
                    ctx.violation("obligation", f"{m} does not check against the regenerated tables",
                                  dict(output=o[-3000:]), found_input=False)
    # 2. literals
    cases, impl, model, stats = gen_run(ctx, "C16", "lit")
    counters = collections.Counter()
    distinct = set()
    samples = []
    fails = []
    for cid, cline in cases.items():
        parts = cline.split("\t")
        if parts[0] == "run":
            src, text, b, tag = C.unhex(parts[1]), C.unhex(parts[2]), C.unhex(parts[3]), parts[4]
            counters["evaluations"] += 1
            counters["run-" + tag] += 1
            cls, got = impl_matches(impl.get(cid))
            exp = expected_matches(b, text)
            distinct.add((src, text))
            if exp:
                counters["with_matches"] += 1
            if cls != "OK":
                fails.append(dict(id=cid, src=src, text=text, b=b, expected=exp, got=cls + " " + str(got),
                                  what="a string literal that spells %r is not compiled/run (%s)" % (b, cls)))
                continue
            gotl = [(s, e) for (s, e, v) in got]
            vals_ok = all(v == b for (_, _, v) in got)
            if gotl != exp or not vals_ok:
                fails.append(dict(id=cid, src=src, text=text, b=b, expected=exp, got=got,
                                  what="a string literal does not match exactly the bytes its spelling denotes"))
            elif len(samples) < 4 and exp and tag in ("mixed", "badhex"):
                samples.append(dict(source=src.decode("latin1"), text=text.decode("latin1"), denotes=b.decode("latin1"),
                                    matches=exp))
        elif parts[0] == "tokens":
            src = C.unhex(parts[1])
            counters["evaluations"] += 1
            counters["lit-tokens"] += 1
            i, m = impl.get(cid), model.get(cid)
            if m is not None and i != m:
                cls = classify_lex(i, m)
                counters["lit-mismatch-" + cls] += 1
                if cls != "offsets":
                    fails.append(dict(id=cid, src=src, text=b"", b=b"", expected=m, got=i,
                                      what="the lexer's token for a string literal differs from the model (%s)" % cls))
            elif m is None:
                counters["model-missing"] += 1
    # 3. token-level stream (diagnostic except for STRING lexemes)
    mism, lc = lex_stream(ctx)
    drift = collections.Counter()
    drift_examples = []
    for mm in mism:
        if mm["cls"] == "string-lexeme":
            fails.append(dict(id=mm["id"], src=mm["src"], text=b"", b=b"", expected=mm["model"], got=mm["impl"],
                              what="a STRING token's decoded lexeme differs from the model"))
        else:
            drift[mm["cls"]] += 1
            if len(drift_examples) < 5:
                drift_examples.append(dict(source=mm["src"].decode("latin1"), implementation=(mm["impl"] or "")[:200],
                                           model=(mm["model"] or "")[:200], cls=mm["cls"]))
    for k, v in drift.items():
        print(f"MODEL-DRIFT level=L1 class={k} cases={v} (diagnostic for C16; verdict-bearing for C08/C15)")
    # literal+text cases (L6) first, smallest first; then token-level differences
    fails.sort(key=lambda f: (0 if f["b"] else 1, len(f["src"]) + len(f["text"]), f["id"]))
    seen = set()
    for f in fails:
        key = _key(f["src"], f["text"])
        if key in seen:
            continue
        seen.add(key)
        ctx.violation("failing-input", f["what"],
                      dict(case_id=f["id"], source=f["src"].decode("latin1"), text=f["text"].decode("latin1"),
                           source_hex=f["src"].hex(), text_hex=f["text"].hex(), denotes_hex=f["b"].hex(),
                           expected=str(f["expected"])[:400], implementation=str(f["got"])[:400]), key=key)
    nlex = lc.get("evaluations", 0)
    ctx.coverage.update(
        evaluations=counters["evaluations"] + nlex,
        distinct_nontrivial=counters["with_matches"],
        rule="literal cases: (literal, text) pairs run through Compile+Run; non-trivial = the text contains the denoted "
             "bytes, so at least one match is required; token-level cases counted in lex_stream.evaluations",
        samples=samples, counters=dict(counters), generator=stats, distinct_pairs=len(distinct),
        lex_stream={k: v for k, v in lc.items() if k not in ("generator",)},
        lex_drift=dict(drift), lex_drift_examples=drift_examples,
        structural_agreement=(len(mism) == 0), failing_cases=len(fails))


def replay_c16(ctx, spec, obj):
    src = bytes.fromhex(obj["source_hex"])
    text = bytes.fromhex(obj.get("text_hex", ""))
    b = bytes.fromhex(obj.get("denotes_hex", ""))
    exe = os.path.join(C.BIN, "vharness")
    rc, tok = C.sh([exe, "one", "tokens", "raw:x" + src.hex()], timeout=60)
    print("source :", src.decode("latin1"))
    print("tokens :", tok.strip()[:400])
    if not b:
        exp = obj.get("expected", "")
        print("model  :", exp[:400])
        same = tok.strip()[:400] == exp[:400]
        print("REPRODUCED" if not same else "not reproduced (agrees with the model now)")
        return 0 if same else 1
    rc, o = C.sh([exe, "one", "run", "raw:x" + src.hex(), "raw:x" + text.hex()], timeout=60)
    cls, got = impl_matches(o.strip())
    exp = expected_matches(b, text)
    print("text   :", text.decode("latin1"))
    print("denotes:", b.decode("latin1"))
    print("expected matches:", exp)
    print("implementation  :", cls, got)
    ok = cls == "OK" and [(s, e) for (s, e, v) in got] == exp
    print("REPRODUCED" if not ok else "not reproduced (passes now)")
    return 0 if ok else 1


THEOREMS = ["Vore.Lex.C16_literal", "Vore.Lex.C16_badhex", "Vore.Lex.C16_literal_in_context", "Vore.Lex.C16_tables",
            "Vore.Lex.C16_lit_match"]

PROPS = {
    "C16": dict(
        lean_modules=["Vore.Props.C16"],
        theorems=THEOREMS,
        run=run_c16,
        replay=replay_c16,
        manifest=dict(
            text="Lean 4 proof, for all lengths, that the lexer model (defined from the keyword/escape/hex tables "
                 "re-extracted from lexer.go on every run) decodes every spelling of every ASCII byte string in both "
                 "quote styles to exactly that string, that an incomplete \\x keeps all following characters, and that "
                 "the VM's literal match succeeds exactly on that byte slice; the model is tied to the real lexer by an "
                 "exhaustive single-byte x spelling x quote run through Compile+Run and a token-level differential stream.",
            note="ASCII sources only (the Go lexer reads runes; bytes >= 0x80 are outside the property); \\xHH with "
                 "HH >= 0x80 writes two UTF-8 bytes (recorded quirk, outside C16). Requires the C16-hexescape fix.",
            technique="Lean 4 theorem by induction on the spelling over a well-founded (fuel-free) lexer model + go/ast "
                      "fact extraction + exhaustive/differential correspondence (L1 tokens, L6 matches)"),
        trusted_base=["bufio.Reader: ReadRune/UnreadRune (one rune of push-back)/Peek as modelled by Vore.Lex.Reader",
                      "strconv.ParseInt on two hex digits; bytes.Buffer.WriteRune = UTF-8 encoding",
                      "harness/cmd/extractlex reads lexer.go faithfully (fails closed on unknown shapes; every "
                      "extracted escape/hex cell is also executed on the real code by the exhaustive stream)"],
        assumptions=["sources are ASCII (every byte < 0x80); rune offsets = byte offsets there"],
    )
}
