from . import search as S


def run(ctx, spec):
    S.standard_run(ctx, "C05",
                   what="replacement or matches of a replace command differ from the model "
                        "(proved to compute Spec.replacement, C05_replacement)",
                   preds=["replacement"])


PROPS = {"C05": dict(
    lean_modules=["Vore.Props.C05"],
    theorems=["Vore.C05_replacement", "Vore.C05_same_matches", "Vore.C05_name_lookup"],
    run=run,
    assumptions=["strconv.Itoa modelled as decimal printing; transforms evaluated by the process-language model (C11/C12)"],
    manifest=dict(
        text="Proved in Lean for all replace commands, match lists and fuels: each reported match carries exactly "
             "Spec.replacement of ITSELF — strings contribute themselves, transform names the transform run on that "
             "match's environment, other names a built-in (shadowing captures) or a string capture of that match, or "
             "nothing; absent iff nothing contributed (C05_replacement, C05_name_lookup); offsets/values/variables equal "
             "those of the find command with the same body and amount (C05_same_matches). The executable "
             "Spec.replacement is evaluated by the Lean driver on every match the IMPLEMENTATION reports (captures that "
             "differ between matches, built-ins, undefined names, transforms), and results are compared with the model.",
        note="Trusted: Lean kernel; replacer/engine model fidelity tested by correspondence; transform evaluation shares "
             "the process-language model with C11.",
        technique="Lean 4 proof (fold over the replacer program) + executable spec on implementation output + differential correspondence"),
)}
