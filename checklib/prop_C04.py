from . import search as S
from . import common as C


def run(ctx, spec):
    cases, impl, model, counters = S.standard_run(
        ctx, "C04", what="results under an amount clause differ from the model (which is proved to return the window, C04_window)")
    # the window predicate on the implementation's own outputs
    n = fails = clauses = 0
    samples = []
    for cid, cline in cases.items():
        parts = cline.split("\t")
        if parts[0] != "window":
            continue
        n += 1
        ml = model.get(cid, "")
        il = impl.get(cid, "")
        kind, body, text = (C.unhex(x) for x in parts[1:4])
        if ml.startswith("WINDOW ok"):
            clauses += int(ml.split(" ")[2])
            if len(samples) < 2:
                samples.append(dict(body=body.decode("latin1"), text=text.decode("latin1"), verdict=ml))
            continue
        if ml.startswith("WINDOW fail"):
            fails += 1
            which = ml.split(" ")[2]
            desc = which.split(":")
            clause = {"top": "top {0}", "take": "take {0}", "skip": "skip {0}", "last": "last {0}",
                      "skiptake": "skip {0} take {1}"}[desc[0]]
            nums = [d for d in desc[1:] if d.isdigit()]
            src = kind + b" " + clause.format(*nums).encode() + b" " + body
            allres = [p for p in il.split("\t") if p.startswith("ALL ")][0][4:].split("|")[0]
            clres = [p for p in il.split("\t") if p.startswith("CL " + ":".join(desc[:1 + len(nums)]) + "|")]
            ctx.violation("failing-input", "the clause does not return the documented window of the `all` sequence (" + which + ")",
                          dict(case_id=cid, source=src.decode("latin1"), text=text.decode("latin1"),
                               source_all=(kind + b" all " + body).decode("latin1"),
                               result_all=allres, result_clause=(clres[0] if clres else "?")),
                          key=S.case_key(src, text))
        elif il.startswith("ALL OK"):
            raise RuntimeError("no driver verdict for window case " + cid + ": " + ml[:100])
    # histories of the real containers of libvore/ds (the queue behind `last n`, the VM's stacks) against Model/Ds.lean
    ds_n = ds_agree = 0
    for cid, cline in cases.items():
        parts = cline.split("\t")
        if parts[0] not in ("qhist", "shist"):
            continue
        ds_n += 1
        il, ml = impl.get(cid, "MISSING"), model.get(cid)
        if il == ml:
            ds_agree += 1
            continue
        kind = "ds.Queue" if parts[0] == "qhist" else "ds.Stack"
        ctx.violation("failing-input", kind + " as written differs from its model (proved: the queue keeps the last n pushed, "
                      "the stack is a list read from the top, Copy is independent)",
                      dict(case_id=cid, op=parts[0], history=parts[1][:1000], implementation=(il or "")[:400], model=(ml or "")[:400],
                           how="vharness one " + parts[0] + " raw:<history>"),
                      key=S.case_key(parts[1].encode(), parts[0].encode()))
    counters.update(container_histories=ds_n, container_histories_agree=ds_agree)
    counters.update(window_bodies=n, window_clause_checks=clauses, window_failures=fails)
    ctx.coverage["counters"] = counters
    ctx.coverage["evaluations"] = counters["evaluations"] + clauses
    ctx.coverage["samples"] = (ctx.coverage.get("samples") or []) + samples


PROPS = {"C04": dict(
    lean_modules=["Vore.Props.C04"],
    theorems=["Vore.C04_window", "Vore.C04_clause_window", "Vore.C04_window_amount", "Vore.C04_window_replace",
              "Vore.C04_queue_step", "Vore.C04_queue_last_n", "Vore.C04_queue_limit", "Vore.C04_queue_fifo",
              "Vore.C04_scan_uses_queue_as_written", "Vore.C04_window_queue"],
    run=run,
    assumptions=["the clause -> (all, skip, take, last) mapping of parse_amount is checked per case against the real parser's syntax tree"],
    manifest=dict(
        text="Proved in Lean for ALL bodies (any instruction list), inputs, fuels and amount tuples: if `find all B` "
             "returns A then the scan under (all,skip,take,last) returns Spec.window of A, and for each clause "
             "(top/take/skip/skip-take/last n>=1) that is the property's selection A[0:n], A[s:], A[s:s+t], last n, "
             "match records unchanged incl. MatchNumber; same located matches for replace (C04_window, "
             "C04_clause_window, C04_window_replace; induction over the scan loop with the window as invariant). "
             "Correspondence: the implementation is run on the same body under all clauses with s,t,n in 0..len(A)+2 and "
             "Spec.select is evaluated by the Lean driver on the implementation's own `all` result; the amount tuple "
             "the real parser built is compared with Clause.amount; programs with amounts also go through the "
             "model-vs-implementation stream. The queue behind `last n` (libvore/ds/queue.go) and the VM's stacks (stack.go) "
             "are modelled as written (Model/Ds.lean) and proved to be the list reading the scan model uses "
             "(C04_queue_step/_last_n/_limit); random histories of the real containers are compared with that model.",
        note="Trusted: Lean kernel; scan-loop model fidelity tested by correspondence; hypothesis of the theorem: the "
             "`all` run itself returns (termination/no panic are C09/C10).",
        technique="Lean 4 induction over the scan loop + executable selection on implementation output + differential correspondence"),
)}
