HOOK_COMMITS = ["49c272c", "HEAD~hooks"]
NOTES = ("All checks: ./check <id> --tier quick|thorough. Each run rebuilds the Go harness from /repo's working tree "
         "with -tags verif, re-checks the Lean theorems of the property and runs the correspondence. "
         "KNOWN_FINDINGS.txt lists recorded and fixed defects.")

_GEN = ("Trusted: Lean kernel; hand-written model fidelity is tested (not proved) by the correspondence run; "
        "generators bound what the correspondence sees.")

CHECKS = {
    "C01": dict(text="under construction: correspondence of the VM/Gen model with the implementation on generated "
                     "(program, text) pairs; simulation theorem in progress",
                note=_GEN, technique="Lean 4 model + differential correspondence"),
}
NOT_APPLICABLE = {p: "check under construction in this round (will be claimed once its theorem and correspondence exist)"
                  for p in ["C02", "C03", "C04", "C05", "C06", "C07", "C08", "C09", "C10", "C11", "C12", "C13", "C14",
                            "C15", "C16", "C17", "C18", "C19", "C20"]}
