HOOK_COMMITS = ["49c272c", "af26913", "e6c7bbc", "d9eef44"]
NOTES = ("All checks: ./check <id> --tier quick|thorough. Each run rebuilds the Go harness from /repo's working tree "
         "with -tags verif, re-checks the Lean theorems of the property and runs the correspondence. "
         "KNOWN_FINDINGS.txt lists recorded and fixed defects.")
# properties whose check is registered in MANIFEST.json
CLAIMED = ["C01", "C02", "C03", "C04", "C05", "C06", "C07", "C08", "C09", "C10", "C11", "C12", "C13", "C14", "C15", "C16", "C17", "C18", "C19", "C20"]
_UC = "check under construction in this round (will be claimed once its theorem and correspondence exist)"
NOT_APPLICABLE = {f"C{i:02d}": _UC for i in range(1, 21)}
