import hashlib
from . import search as S
from . import common as C


def panic_key(msg: str) -> str:
    return "panic-" + hashlib.sha1(msg.encode()).hexdigest()[:10]


def run(ctx, spec):
    cases, impl, model, stats = S.gen_and_run(ctx, "C09")
    mism, counters, samples = S.compare_run(ctx, cases, impl, model, S.ALL_FIELDS,
                                            "result differs from the VM model")
    # a panic that the model reproduces is still a crash of an accepted program: report it, keyed by its message
    mism = [m for m in mism if not (m["impl"] == "PANIC")]
    npanic = 0
    kinds = {}
    for cid, cline in cases.items():
        parts = cline.split("\t")
        il = impl.get(cid, "MISSING")
        if il.startswith("COMPILE ERR"):
            continue
        msg = None
        f = C.fields(il)
        res = f.get("RES", "")
        if res.startswith("PANIC"):
            msg = C.unhex(res.split(" ")[1]).decode("latin1") if " " in res else "panic"
        elif il in ("HANG", "CRASH"):
            msg = il
        elif il.startswith("COMPILE PANIC"):
            continue  # Compile panics are C08's business
        if msg is None:
            continue
        npanic += 1
        kinds[msg] = kinds.get(msg, 0) + 1
        src = C.unhex(parts[1])
        text = C.unhex(parts[2]) if parts[0] == "run" else b""
        ctx.violation("failing-input", "Run panicked on an accepted program: " + msg,
                      dict(case_id=cid, source=src.decode("latin1"), text=text.decode("latin1"), text_hex=text.hex(),
                           panic=msg), key=panic_key(msg))
    counters.update(impl_panics=npanic, panic_kinds=kinds)
    ctx.coverage.update(evaluations=counters["evaluations"], distinct_nontrivial=counters["with_matches"],
                        rule="generated programs over every construct (named loops, calls, global patterns with predicates, "
                             "replace with transforms, amounts, several commands) x short texts that end inside constructs, "
                             "the empty text included; every accepted program is run; non-trivial = model reports a match; "
                             "a panic is keyed by its message (call site) for the known-findings file",
                        samples=samples, counters=counters, generator=stats,
                        structural_agreement=(counters["code_drift"] == 0))
    S.report(ctx, mism)


PROPS = {"C09": dict(
    lean_modules=["Vore.Props.C09"],
    theorems=["Vore.C09_no_panic_callfree", "Vore.C09_no_panic_guarded", "Vore.C09_replacements_never_panic", "Vore.C09_replace_command_no_panic",
              "Vore.C09_replacements_panic_only_div_zero", "Vore.C09_empty_input", "Vore.C09_empty_body", "Vore.C09_empty_backref_at_eof"],
    run=run,
    manifest=dict(
        text="In the model every Go panic site is an outcome; proved in Lean: for every call-free find command and every "
             "input (empty input, end of input inside any construct, empty captures) findMatches returns .ok, never .panic "
             "(C09_no_panic_callfree, from the C01 simulation); the empty input and the empty body give [] for ANY "
             "instruction list (C09_empty_input, C09_empty_body); an empty back-reference succeeds without reading "
             "(C09_empty_backref_at_eof); with subroutines, recursion and global patterns whose predicates evaluate, every "
             "program without unguarded recursion returns .ok on every input under every amount clause "
             "(C09_no_panic_guarded, from C10_terminates_guarded_source). Replace commands: a with list "
             "without transforms can never make a command fail (C09_replacements_never_panic, C09_replace_command_no_panic); "
             "with transforms that the checker accepts and that keep each variable at one type, the ONLY possible panic is "
             "Go's integer division by zero, the recorded finding (C09_replacements_panic_only_div_zero, from C12_sound and "
             "the fact that executeReplaceProcess's environment satisfies the checker's assumptions). PARTIAL: predicates of "
             "global patterns are covered by C12's soundness alone; named loops are outside the "
             "resolved language. Correspondence/search: every accepted generated program over all constructs "
             "is run on the real engine on texts ending inside constructs; any panic/hang is a violation keyed by its "
             "message; file inputs (empty file, sizes around the buffer) are exercised by C06/C07.",
        note="Trusted: Lean kernel; model fidelity by correspondence. Recorded findings (KNOWN_FINDINGS.txt): integer "
             "divide by zero in process code; operator applied to a variable whose type depends on the branch taken.",
        technique="Lean 4 corollary of the simulation + panic-as-outcome model + differential run with crash detection"),
)}
