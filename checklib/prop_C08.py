"""C08 — Compile is total (parser part; the lexer part is picked up from Props/C08lex + prop_C16.lex_stream when present).

Theorems: lean/Vore/Props/C08parse.lean over lean/Vore/Model/Parser.lean (the Go parser of
libvore/ast/parser.go, every tokens[i] a partial access, index recursion on an explicit linear fuel).
Tie (harness/cmd/vharness/prop_c08.go, op `front`): every generated source is run through the REAL
lexer, the REAL parser and the REAL libvore.Compile (watchdog + recover in the worker pool), and the
token list the real lexer produced is run through the Lean model (`parsetoks`), which also evaluates
Grammar.parse on the stripped tokens.

Verdict (observable level, L3): PANIC / HANG / CRASH of the real Compile or parser; a tree with a nil node
returned without an error; accept/reject or tree different from the model (the model is proved total, so the
disagreeing source is a concrete input on which the real parser leaves the proved behaviour).
"""
import hashlib, json, os
from . import common as C
from . import search as S

HERE = os.path.dirname(os.path.abspath(__file__))


def _key(src: bytes):
    return hashlib.sha1(b"C08\0" + src).hexdigest()[:12]


def _opt_modules(names):
    return [m for m in names if os.path.exists(os.path.join(C.LEAN, m.replace(".", "/") + ".lean"))]


def _diverse(bad, size_key):
    """smallest first, but one representative of every kind of failure before the second of any kind"""
    groups = {}
    for b in sorted(bad, key=size_key):
        groups.setdefault(b["what"].split(":")[0][:60], []).append(b)
    out = []
    while any(groups.values()):
        for k in sorted(groups, key=lambda k: size_key(groups[k][0]) if groups[k] else ()):
            if groups[k]:
                out.append(groups[k].pop(0))
    return out


def front_fields(line):
    return C.fields(line or "")


def lexer_half(ctx, what):
    """regenerate the lexer facts and run the lexer builder's token-level stream when that machinery is present"""
    out = dict(present=False)
    try:
        from .extract_lex import run_extract_lex
        from . import prop_C16
    except Exception as ex:  # lexer machinery not installed
        out["note"] = "lexer glue not present: %s" % ex
        return out, []
    out["present"] = True
    mods = _opt_modules(["Vore.Props." + what])
    if not mods:
        out["note"] = "Props/%s.lean not installed yet: lexer half skipped" % what
        return out, []
    if mods:
        r = run_extract_lex(ctx, modules=tuple(["Vore.Model.Lexer"] + mods))
        out["extract_ok"] = bool(r.get("ok"))
        if not r.get("ok"):
            ctx.violation("tie", "lexer fact extractor failed on /repo's source (fails closed)",
                          dict(output=(r.get("out") or "")[-2000:]), found_input=False)
            return out, []
    from .extract_lex import check_unicode_tables
    uok, uout = check_unicode_tables(ctx)
    out["unicode_tables_match_toolchain"] = uok
    if not uok:
        ctx.violation("tie", "the Unicode class tables of the lexer model are not the Go toolchain's: " + uout[-300:],
                      dict(output=uout[-2000:]), found_input=False)
    mism, counters = prop_C16.lex_stream(ctx)
    out["counters"] = {k: v for k, v in counters.items() if k not in ("samples",)}
    return out, mism


def run_c08(ctx, spec):
    lex_info, lex_mism = lexer_half(ctx, "C08lex")
    cases, impl, model, stats = S.gen_and_run(ctx, "C08")
    cnt = dict(evaluations=0, lexer_error=0, parser_reached=0, model_compared=0, same=0, accepted=0, rejected=0,
               impl_panic=0, impl_hang=0, impl_crash=0, holes=0, accept_reject_diff=0, tree_diff=0,
               grammar_agree=0, grammar_diff=0, regex_oracle_panic=0)
    bad = []
    samples = []
    distinct = set()
    for cid, cline in cases.items():
        parts = cline.split("\t")
        if parts[0] != "front":
            continue
        src = C.unhex(parts[1])
        cnt["evaluations"] += 1
        il = impl.get(cid, "MISSING")
        if il in ("HANG", "CRASH") or il.startswith("HARNESS") or il == "MISSING":
            cnt["impl_hang" if il == "HANG" else "impl_crash"] += 1
            bad.append(dict(src=src, what="libvore.Compile %s on this source" %
                            ("does not return (watchdog)" if il == "HANG" else "kills the process: " + il[:60]),
                            impl=il, model="total: ok or error"))
            continue
        f = front_fields(il)
        p, comp = f.get("PARSE", ""), f.get("COMPILE", "")
        if p.startswith("LEXERR"):
            cnt["lexer_error"] += 1
        if p.startswith("PANIC") or comp.startswith("PANIC"):
            cnt["impl_panic"] += 1
            msg = (p if p.startswith("PANIC") else comp).split(" ")[-1]
            try:
                msg = C.unhex(msg).decode("latin1")
            except Exception:
                pass
            bad.append(dict(src=src, what="libvore.Compile panics: " + msg[:120], impl="PANIC", model="total: ok or error"))
        if comp == "OK":
            cnt["accepted"] += 1
        elif comp.startswith("ERR"):
            cnt["rejected"] += 1
        ml = model.get(cid)
        if ml is None:
            continue
        cnt["parser_reached"] += 1
        m = ml.split("\t")
        outcome, cmp_, gs = m[0], (m[1] if len(m) > 1 else ""), (m[2] if len(m) > 2 else "")
        if outcome.split(" ")[0] not in ("OK", "ERR", "PANIC", "FUEL"):
            bad.append(dict(src=src, what="the Lean driver did not answer this case: " + ml[:80], impl=p[:80], model=ml[:80],
                            kind="machinery"))
            continue
        cnt["model_compared"] += 1
        distinct.add(src)
        if gs == "G-SAME":
            cnt["grammar_agree"] += 1
        elif gs.startswith("G-DIFF"):
            cnt["grammar_diff"] += 1
            bad.append(dict(src=src, what="model and Grammar.parse disagree on this token list (theorem C15_parser instance fails: "
                            "model/driver defect)", impl=p[:80], model=ml[:200], kind="machinery"))
        if cmp_ == "SAME":
            cnt["same"] += 1
            if outcome == "PANIC":
                cnt["regex_oracle_panic"] += 1
            elif len(samples) < 4 and outcome == "OK" and len(src) > 20:
                samples.append(dict(source=src.decode("latin1"), real_parser=p[:160], model=outcome, grammar=gs))
            continue
        if cmp_.startswith("DIFF go-panics"):
            continue  # already reported above as a panic of the real code
        if cmp_.startswith("DIFF go-dump-unreadable"):
            cnt["holes"] += 1
            bad.append(dict(src=src, what="the parser returns a tree with a nil node (hole) and no error: " + p[:160],
                            impl=p[:300], model=outcome))
        elif cmp_.startswith("DIFF go-accepts") or cmp_.startswith("DIFF go-rejects"):
            cnt["accept_reject_diff"] += 1
            bad.append(dict(src=src, what="the real parser and the proved-total model disagree on accept/reject: " + cmp_[5:80],
                            impl=p[:200], model=outcome))
        elif cmp_.startswith("DIFF"):
            cnt["tree_diff"] += 1
            bad.append(dict(src=src, what="the real parser builds a different tree than the model: " + cmp_[5:300],
                            impl=p[:300], model=outcome))
    for mm in lex_mism:
        bad.append(dict(src=mm["src"], what="lexer: real lexer and lexer model disagree (%s)" % mm.get("cls"),
                        impl=str(mm.get("impl"))[:200], model=str(mm.get("model"))[:200]))
    ctx.coverage.update(
        evaluations=cnt["evaluations"], distinct_nontrivial=len(distinct),
        rule="one evaluation = one source through real lexer + real parser + real Compile; non-trivial = distinct sources "
             "whose token list reached the parser and was also parsed by the Lean model and by Grammar.parse",
        samples=samples, counters=cnt, generator=stats, lexer_half=lex_info,
        functions_with_totality_theorem=FUNCS_PROVED, functions_exercised_only=FUNCS_EXERCISED)
    bad = _diverse(bad, lambda b: (len(b["src"]), b["src"]))
    seen = set()
    for b in bad:
        k = _key(b["src"])
        if b.get("impl") in ("HANG", "CRASH") and C.has_large_count(b["src"]):
            k = C.KEY_LARGE_COUNT
        if k in seen:
            continue
        seen.add(k)
        ctx.violation(b.get("kind", "failing-input"), b["what"],
                      dict(source=b["src"].decode("latin1"), source_hex=b["src"].hex(), implementation=b["impl"],
                           model_and_spec=b["model"]), key=k, found_input=True)


def replay_c08(ctx, spec, obj):
    src = bytes.fromhex(obj["source_hex"])
    rc, o = C.sh([os.path.join(C.BIN, "vharness"), "one", "front", "raw:x" + src.hex()], timeout=60)
    print(o.strip()[:2000])
    f = C.fields(o.strip())
    failing = rc != 0 or "PANIC" in f.get("PARSE", "") or "PANIC" in f.get("COMPILE", "") or "nil" in f.get("PARSE", "")
    print("still failing" if failing else "no panic / hole on this input now (compare accept/reject with the replay record)")
    return 1 if failing else 0


FUNCS_PROVED = [
    "parse", "parse_command", "parse_find", "parse_replace", "parse_set", "parse_set_transform", "parse_set_pattern",
    "parse_set_matches", "parse_amount", "parse_expression", "parse_at", "parse_between", "parse_exactly", "parse_maybe",
    "parse_not_expression", "parse_not_literal", "parse_in", "parse_listable", "parse_literal", "parse_primary_or_dec",
    "parse_primary_or_or", "parse_atom", "parse_caseless", "parse_string", "parse_variable", "parse_sub_expression",
    "parse_subroutine", "parse_character_class", "parse_process_statements", "parse_process_statement",
    "parse_process_set", "parse_process_if", "parse_process_return", "parse_process_debug", "parse_process_loop",
    "parse_process_expression", "parse_expr_pratt", "getProcessExpressionTokens", "consumeIgnoreableTokens",
    "isProcessExprEnd", "isPrefixOp", "prefixPrecedence", "isBinaryOp", "infixPrecedence", "isListableClass"]
FUNCS_EXERCISED = [
    "parse_regexp and the rest of parser_regexp.go (opaque parameter `rx` of the model, assumed not to panic; the "
    "correspondence run feeds the model the real sub-parser's answer per literal)",
    "bytecode.GenerateBytecode / semantic check (reached through libvore.Compile in every case; panics, hangs and crashes "
    "are verdict-bearing, no totality theorem here)",
    "lexer: see Props/C08lex (lexer builder)"]

_THEOREMS = ["Vore.Parser.C08_parser_total", "Vore.Parser.C08_parser_never_panics", "Vore.Parser.C08_amount",
             "Vore.Parser.C08_expression", "Vore.Parser.C08_exprList", "Vore.Parser.C08_pratt",
             "Vore.Parser.C08_processExpression", "Vore.Parser.C08_statements", "Vore.Parser.C08_command",
             "Vore.Parser.C08_example_accepts", "Vore.Parser.C08_example_rejects"]

PROPS = {"C08": dict(
    lean_modules=["Vore.Props.C08parse"] + _opt_modules(["Vore.Props.C08lex"]),
    theorems=_THEOREMS,
    run=run_c08, replay=replay_c08,
    manifest=dict(
        text="Lean 4 proof that the model of the whole hand-written parser (45 Go functions of ast/parser.go, every "
             "tokens[i] a partial access, Pratt parser included) returns a complete tree or a parse error on every token "
             "list that ends in EOF: never a panic, never out of its linear fuel, every success strictly advances and "
             "stays before EOF; tied to the code by running the real lexer+parser+Compile and the model on valid "
             "programs, all their prefixes, one-token deletions/duplications/swaps, token soups, random bytes and "
             "arbitrary regex bodies. Lexer: C08_lexer_total_all_sources — for EVERY byte string (UTF-8 decoded as "
             "bufio.ReadRune does, malformed bytes as U+FFFD; every non-ASCII rune replaced by the byte of its "
             "unicode.IsLetter/IsDigit/IsSpace class, Model/Unicode.lean) the lexer model returns a token list ending in "
             "exactly one EOF or one of four printable errors, never panics, and terminates (well-founded recursion, no "
             "fuel); tied by the token-level stream (kinds, lexemes, rune offsets; on non-ASCII sources kinds and "
             "offsets) incl. 1.5 k non-ASCII sources, tokens/gaps longer than the 4096-byte read buffer and 172 "
             "deeply nested sources.",
        note="Parser fully covered (no partial region). The regex sub-parser is an opaque parameter assumed not to panic "
             "(fix C08-regexp-recover makes that true of the code); generator/checker behind Compile are exercised, not "
             "proved. Theorems are about the FIXED parser: patches /verif/fixes/C08-pratt-bounds, C08-named-nilerr, "
             "C08-setmatches-nil, C08-regexp-recover (+ the C15-* skips).",
        technique="machine-checked proof (Lean 4, simulation against an index-free grammar + fuel bound) + differential "
                  "correspondence with the real code"),
    trusted_base=["the token list handed to the model is the one ast.VerifTokens returns for the same source",
                  "Go's recover() turns a panic inside parse_regexp into a ParseError (fix C08-regexp-recover)",
                  "the normalisation of the Go dump in Vore/Driver/SExp.lean (progOf) is the one the model builds trees in"],
    assumptions=["the Go lexer looks at a non-ASCII rune only through unicode.IsSpace/IsDigit/IsLetter and "
                 "strings.ToLower (class abstraction of Model/Unicode.lean; tables regenerated from the toolchain and "
                 "compared on every run; exercised by the unicode token stream)",
                 "EndsEof: the lexer returns pre ++ [EOF] with no EOF inside (established by getTokens' loop; proved for "
                 "the lexer model in Props/C08lex)",
                 "the regex sub-parser does not panic (hypothesis hrx of every theorem)",
                 "NUMBER lexemes are what strconv.Atoi sees; Atoi is modelled as: optional sign, digits, int64 range"]),
}
