"""correspondence for the (source, text) -> matches stream (op `run`)"""
import hashlib, json, os
from . import common as C


def case_key(src: bytes, text: bytes) -> str:
    return hashlib.sha1(src + b"\0" + text).hexdigest()[:12]


def gen_and_run(ctx, genprop, corpus=None, seed=None, tier=None, subdir=None, max_cases=None):
    out = ctx.workdir if subdir is None else os.path.join(ctx.workdir, subdir)
    os.makedirs(out, exist_ok=True)
    cmd = [os.path.join(C.BIN, "vharness"), "gen-run", "-prop", genprop, "-seed", str(ctx.seed if seed is None else seed),
           "-tier", tier or ctx.tier, "-out", out]
    corpus = corpus or os.path.join(C.VERIF, "corpus", genprop + ".tsv")
    if os.path.exists(corpus) and subdir is None:
        cmd += ["-corpus", corpus]
    env = dict(os.environ)
    if max_cases:
        env["VERIF_MAX_CASES"] = str(max_cases)
    rc, o = C.sh(cmd, timeout=7200, env=env)
    ctx.log.append({"step": " ".join(cmd[1:]), "rc": rc, "out": o[-1500:]})
    if rc != 0:
        raise RuntimeError("vharness gen-run failed: " + o[-500:])
    ok = C.run_vdriver_parallel(os.path.join(out, "lean.tsv"), os.path.join(out, "model.tsv"), ctx.log)
    if not ok:
        raise RuntimeError("vdriver failed")
    cases = C.read_tsv(os.path.join(out, "cases.tsv"))
    impl = C.read_tsv(os.path.join(out, "impl.tsv"))
    model = C.read_tsv(os.path.join(out, "model.tsv"))
    stats = json.load(open(os.path.join(out, "stats.json")))
    return cases, impl, model, stats


def parse_matches(res):
    """'OK m;m;…' -> list of dicts; None for non-OK"""
    if not res.startswith("OK"):
        return None
    body = res[3:] if len(res) > 3 else ""
    ms = []
    if body == "":
        return ms
    for m in split_top(body, ";"):
        parts = split_top(m, ",")
        ms.append(dict(number=int(parts[0]), start=int(parts[1]), end=int(parts[2]), l1=int(parts[3]), l2=int(parts[4]),
                       c1=int(parts[5]), c2=int(parts[6]), value=parts[7], repl=parts[8], vars=",".join(parts[9:])))
    return ms


def split_top(s, sep):
    out, depth, cur = [], 0, []
    for ch in s:
        if ch == "{":
            depth += 1
        elif ch == "}":
            depth -= 1
        if ch == sep and depth == 0:
            out.append("".join(cur))
            cur = []
        else:
            cur.append(ch)
    out.append("".join(cur))
    return out


def canon_code(code: str) -> str:
    """loop ids only name a loop inside one command; Go re-uses the ids of a stored global pattern in
    every inlined copy.  Canonical form: a StartLoop is named by its own pc, a StopLoop by the pc it
    jumps back to."""
    toks = code.split(" ")
    out = []
    i = 0
    pc = -1
    incode = 0
    while i < len(toks):
        t = toks[i]
        if t == "code":
            pc = -1
            incode = 1
            out.append(t)
            i += 1
            continue
        if incode and t == "(":
            pc += 1
        if t == "startLoop" and i + 1 < len(toks):
            out += [t, "@%d" % pc]
            i += 2
            continue
        if t == "stopLoop" and i + 2 < len(toks):
            out += [t, "@" + toks[i + 2]]
            i += 2
            continue
        out.append(t)
        i += 1
    return " ".join(out)


def is_ascii(b: bytes):
    return all(x < 0x80 for x in b)


def project(res, text: bytes, fields, drop_repl=False):
    """restrict a canonical result to the fields a property is about"""
    ms = parse_matches(res)
    if ms is None:
        return res.split(" ")[0]
    out = []
    for m in ms:
        d = {k: m[k] for k in fields}
        if not is_ascii(text):
            d.pop("c1", None)
            d.pop("c2", None)
        if drop_repl:
            d.pop("repl", None)
        out.append(d)
    return json.dumps(out, sort_keys=True)


ALL_FIELDS = ["number", "start", "end", "l1", "l2", "c1", "c2", "value", "repl", "vars"]


def compare_run(ctx, cases, impl, model, proj_fields=ALL_FIELDS, what="matches differ from the model",
                only_ids=None, treat_budget_as_ok=True):
    """returns (mismatches, counters). A mismatch is a dict ready for ctx.violation."""
    counters = dict(evaluations=0, compared=0, code_drift=0, res_mismatch=0, impl_panic=0, impl_hang=0,
                    impl_diverge=0, model_diverge=0, compile_error=0, generr_agree=0, nontrivial=0,
                    with_matches=0, budget_skipped=0)
    distinct = set()
    mismatches = []
    samples = []
    for cid, cline in cases.items():
        parts = cline.split("\t")
        if parts[0] != "run":
            continue
        if only_ids is not None and cid not in only_ids:
            continue
        counters["evaluations"] += 1
        src, text = C.unhex(parts[1]), C.unhex(parts[2])
        il = impl.get(cid, "MISSING")
        ml = model.get(cid)
        f = C.fields(il)
        ires = None
        if il.startswith("COMPILE ERR"):
            counters["compile_error"] += 1
            if "GenError" in il.split("\t")[0].split(" ")[2:3] and ml is not None:
                mf = C.fields(ml)
                if mf.get("RES") == "GENERR":
                    counters["generr_agree"] += 1
                else:
                    mismatches.append(dict(id=cid, src=src, text=text, impl="GENERR", model=mf.get("RES", ml),
                                           what="implementation rejects (GenError) a program the model generates"))
            continue
        if il in ("HANG", "CRASH") or il.startswith("COMPILE PANIC") or il.startswith("HARNESS"):
            ires = il.split(" ")[0] if not il.startswith("COMPILE PANIC") else "COMPILE-PANIC"
            if il == "HANG":
                counters["impl_hang"] += 1
        else:
            ires = f.get("RES", "MISSING")
        if ires.startswith("PANIC"):
            counters["impl_panic"] += 1
            ires = "PANIC"
        if ml is None:
            if ires in ("HANG", "CRASH", "COMPILE-PANIC"):
                mismatches.append(dict(id=cid, src=src, text=text, impl=ires, model="(no syntax tree available)",
                                       what="implementation crashed or hung"))
            continue
        mf = C.fields(ml)
        mres = mf.get("RES", ml)
        counters["compared"] += 1
        if mf.get("CODE") is not None and f.get("CODE") is not None and canon_code(mf["CODE"]) != canon_code(f["CODE"]):
            counters["code_drift"] += 1
        if mf.get("CODE2") is not None and f.get("CODE") is not None:
            counters["code2_compared"] = counters.get("code2_compared", 0) + 1
            if canon_code(mf["CODE2"]) != canon_code(f["CODE"]):
                counters["code2_drift"] = counters.get("code2_drift", 0) + 1
                if counters["code2_drift"] <= 3:
                    counters.setdefault("code2_drift_samples", []).append(cid)
        if mres == "GENERR":
            mismatches.append(dict(id=cid, src=src, text=text, impl=ires, model="GENERR",
                                   what="implementation accepts a program the model's generator rejects"))
            continue
        if ires in ("DIVERGE", "HANG"):
            counters["impl_diverge"] += 1
        if mres == "DIVERGE":
            counters["model_diverge"] += 1
        if treat_budget_as_ok and (ires in ("DIVERGE", "HANG") or mres == "DIVERGE"):
            # step budgets differ slightly between the two sides; termination is C10's business
            counters["budget_skipped"] += 1
            continue
        # not a difference of the engine, so not compared: a replacement TEXT that spells out a column of a non-ASCII
        # text (the engine counts columns per character inside one read, the model per byte; column claims are about
        # ASCII texts), or the built-in `filename` when the text went through a scratch file (its path vs "text")
        viafile = len(parts) > 3 and parts[3] == "viafile"
        drop = (not is_ascii(text) and b"columnNumber" in src) or (viafile and b"filename" in src)
        if drop:
            counters["replacement_not_compared"] = counters.get("replacement_not_compared", 0) + 1
        pi, pm = project(ires, text, proj_fields, drop), project(mres, text, proj_fields, drop)
        ms = parse_matches(mres)
        if ms:
            counters["with_matches"] += 1
        distinct.add((src, text))
        if pi != pm:
            counters["res_mismatch"] += 1
            mismatches.append(dict(id=cid, src=src, text=text, impl=ires, model=mres, what=what))
        elif len(samples) < 3 and ms:
            samples.append(dict(source=src.decode("latin1"), text=text.decode("latin1"), result=mres))
    counters["distinct_pairs"] = len(distinct)
    return mismatches, counters, samples


def report(ctx, mismatches, limit=5):
    """turn mismatches into violations, smallest first"""
    mismatches.sort(key=lambda m: (len(m["src"]) + len(m["text"]), m["id"]))
    seen = set()
    for m in mismatches:
        key = case_key(m["src"], m["text"])
        if key in seen:
            continue
        seen.add(key)
        ctx.violation("failing-input", m["what"],
                      dict(case_id=m["id"], source=m["src"].decode("latin1"), text=m["text"].decode("latin1"),
                           source_hex=m["src"].hex(), text_hex=m["text"].hex(),
                           implementation=m["impl"], model_and_spec=m["model"]), key=key)


def compare_traces(cases, impl, model, counters):
    """L5: step count and fingerprint of the real VM loop's step sequence vs the traced model (Model/Trace.lean);
    returns the drifts (results are compared elsewhere)"""
    drifts = []
    counters.update(trace_compared=0, trace_drift=0, trace_skipped=0, trace_steps=0)
    for cid, cline in cases.items():
        parts = cline.split("\t")
        if parts[0] != "trace":
            continue
        it = C.fields(impl.get(cid, "")).get("TR")
        mt = C.fields(model.get(cid) or "").get("TR")
        if it is None or mt is None or not it.startswith("n=") or not mt.startswith("n="):
            counters["trace_skipped"] += 1      # compile error, budget, panic, incomplete: nothing to compare
            continue
        counters["trace_compared"] += 1
        counters["trace_steps"] += int(it.split(" ")[0][2:])
        if it != mt:
            counters["trace_drift"] += 1
            drifts.append(dict(id=cid, src=C.unhex(parts[1]), text=C.unhex(parts[2]), impl=it, model=mt))
    return drifts


def report_drift(ctx, counters, drifts=()):
    """the structural ties (L4 bytecode, L5 step trace) are correspondences too: when they break and the run found no
    input with a different observable result, the property is no longer shown to hold for the code as it is"""
    n4 = counters.get("code_drift", 0) + counters.get("code2_drift", 0)
    n5 = counters.get("trace_drift", 0)
    if (n4 or n5) and not any(v["kind"] == "failing-input" for v in ctx.violations):
        sample = [dict(source=d["src"].decode("latin1"), text=d["text"].decode("latin1"), implementation=d["impl"],
                       model=d["model"]) for d in list(drifts)[:3]]
        ctx.violation("tie", f"the generator / VM model no longer corresponds to the code structurally: {n4} bytecode drifts (L4: "
                      f"Vore.gen / genBody vs generate.go), {n5} step-trace drifts (L5: Vore.step vs the VM loop, "
                      "findMatchesT_fst); no input with a different observable result was found in this run",
                      dict(bytecode_drifts=n4, trace_drifts=n5, samples=sample,
                           code2_drift_samples=counters.get("code2_drift_samples")), found_input=False)


def pred_failures(cases, impl, model, pred):
    """cases whose implementation result fails an executable property predicate run by the Lean driver"""
    out = []
    n_eval = 0
    for cid, ml in model.items():
        f = C.fields(ml)
        p = f.get("PRED")
        if not p or p == "na":
            continue
        kv = dict(x.split("=") for x in p.split(" ") if "=" in x)
        if pred not in kv:
            continue
        n_eval += 1
        if kv[pred] == "F":
            parts = cases[cid].split("\t")

            def _un(x):
                try:
                    return C.unhex(x)
                except Exception:
                    return b" | ".join(_un(y) if y.startswith("x") else y.encode() for y in x.split(",")) if "," in x else x.encode()
            src, text = _un(parts[1]), _un(parts[2] if len(parts) > 2 else "")
            if pred == "replacement" and parts[0] == "run" and (
                    (not is_ascii(text) and b"columnNumber" in src) or (len(parts) > 3 and parts[3] == "viafile" and b"filename" in src)):
                continue   # see compare_run: a replacement text that spells out such a column / the scratch path
            ires = C.fields(impl.get(cid, "")).get("RES", "?")
            out.append(dict(id=cid, src=src, text=text, impl=ires, model=f.get("RES", "?"),
                            what=f"the implementation's result fails the executable predicate Spec.{pred}"))
    return out, n_eval


def standard_run(ctx, genprop, fields=ALL_FIELDS, what="matches differ from the model", preds=()):
    cases, impl, model, stats = gen_and_run(ctx, genprop)
    mism, counters, samples = compare_run(ctx, cases, impl, model, fields, what)
    for p in preds:
        pf, n = pred_failures(cases, impl, model, p)
        counters["pred_" + p + "_evaluated"] = n
        counters["pred_" + p + "_failed"] = len(pf)
        mism = pf + mism
    ctx.coverage.update(evaluations=counters["evaluations"], distinct_nontrivial=counters["with_matches"],
                        rule="generated (source, text) pairs from the seeded type-directed generator plus corpus; "
                             "non-trivial = the model reports at least one match; distinct = distinct (source, text) pairs",
                        samples=samples, counters=counters, generator=stats,
                        structural_agreement=(counters["code_drift"] == 0),
                        traces_validated_against_impl=counters["compared"])
    drifts = compare_traces(cases, impl, model, counters)
    if counters["trace_compared"]:
        ctx.coverage["traces_validated_against_impl"] = counters["trace_compared"]
        ctx.coverage["structural_agreement"] = (counters["code_drift"] == 0 and counters["trace_drift"] == 0)
    report(ctx, mism)
    if report_drift_for(genprop):
        ndrift = counters.get("code_drift", 0) + counters.get("code2_drift", 0) + counters.get("trace_drift", 0)
        if ndrift and not mism and ctx.tier != "thorough":
            # the tie is broken and this run saw no observable difference: search harder before reporting it without an
            # input — a second, larger generation (thorough volumes, capped) under another seed
            c2, i2, m2, _ = gen_and_run(ctx, genprop, seed=ctx.seed + 7919, tier="thorough", subdir="escalation", max_cases=50000)
            mism2, counters2, _ = compare_run(ctx, c2, i2, m2, fields, what)
            for p in preds:
                mism2 = pred_failures(c2, i2, m2, p)[0] + mism2
            counters["escalation_cases"] = counters2["evaluations"]
            counters["escalation_mismatches"] = len(mism2)
            report(ctx, mism2)
        report_drift(ctx, counters, drifts)
    return cases, impl, model, counters


def report_drift_for(genprop):
    # the properties whose theorems are about the generated code and the VM's steps
    return genprop in ("C01", "C02", "C03", "C13")
