"""C17 — JSON output is valid and carries the match data unchanged.

Real side (harness op `json`): compile + (*Vore).Run, then the REAL Matches.Json() and
Matches.FormattedJson(); both outputs are parsed with encoding/json, compared with each other
and, field by field, with the in-memory matches (after encoding/json's U+FFFD substitution for
invalid UTF-8).  Model side (Vore/Driver/OpsC17.lean): Json.ofMatches of the same in-memory
matches (the tree the theorems of Vore/Props/C17.lean are about), compared with the tree
decoded from the implementation's document, and Json.decodeMatches run on that document.
"""
import json, os, re
from . import common as C
from . import search as S

THEOREMS = ["Vore.C17_tree", "Vore.C17_replacement_key", "Vore.C17_members", "Vore.C17_wellformed",
            "Vore.C17_put_wf", "Vore.C17_engine_results_wellformed", "Vore.C17_documents", "Vore.C17_documents_exact"]


def unhex_text(h):
    try:
        return C.unhex(h).decode("utf-8", "replace")
    except Exception:
        return h


def judge(il, ml):
    """failures of one case: list of (category, detail). Empty = the property holds on this case."""
    f = C.fields(il)
    out = []
    if il in ("HANG", "CRASH") or il.startswith("HARNESS") or il.startswith("PROTOCOL"):
        return [("render-crash", "the process running Json()/FormattedJson() crashed or hung: " + il[:80])]
    if f.get("JSON", "").startswith("PANIC"):
        out.append(("json-panic", "Matches.Json() panics: " + unhex_text(f["JSON"].split(" ")[1])))
    if f.get("FJSON", "").startswith("PANIC"):
        out.append(("fjson-panic", "Matches.FormattedJson() panics: " + unhex_text(f["FJSON"].split(" ")[1])))
    if "JSONPARSE" in f and f["JSONPARSE"] != "ok":
        out.append(("json-invalid", "Matches.Json() is not exactly one valid JSON document: " + unhex_text(f["JSONPARSE"])))
    if "FJSONPARSE" in f and f["FJSONPARSE"] != "ok":
        out.append(("fjson-invalid", "Matches.FormattedJson() is not exactly one valid JSON document: " + unhex_text(f["FJSONPARSE"])))
    if f.get("DOCEQ") == "F":
        out.append(("docs-differ", "the compact and the formatted rendering are different documents"))
    if "FIELDS" in f and f["FIELDS"] != "ok":
        out.append(("fields", "compact document differs from the in-memory match at " + unhex_text(f["FIELDS"])))
    if "FFIELDS" in f and f["FFIELDS"] != "ok":
        out.append(("ffields", "formatted document differs from the in-memory match at " + unhex_text(f["FFIELDS"])))
    if "SINGLE" in f and f["SINGLE"] != "ok":
        out.append(("single", "Match.Json()/FormattedJson() of one match differs from its element in the list: " + unhex_text(f["SINGLE"])))
    if out:
        return out
    if ml is None:
        return [("no-model", "the Lean driver produced no result for this case")]
    mf = C.fields(ml)
    if "TREE" not in mf:
        return [("no-model", "the Lean driver could not read the case: " + ml[:80])]
    if mf.get("EQ") != "T" or mf["TREE"] != f.get("TREE"):
        out.append(("tree", "the decoded document is not Json.ofMatches of the in-memory matches"))
    if mf.get("PRED") != "T":
        out.append(("decode", "Json.decodeMatches of the implementation's document is not the in-memory result list"))
    if f.get("FTREE") != mf["TREE"]:
        out.append(("ftree", "the decoded formatted document is not Json.ofMatches of the in-memory matches"))
    return out


def run(ctx, spec):
    cases, impl, model, stats = S.gen_and_run(ctx, "C17")
    counters = dict(evaluations=0, compile_error=0, run_diverge_or_panic=0, empty=0, one=0, many=0,
                    with_replacement=0, with_nested_variables=0, with_flat_variables=0, coerced_invalid_utf8=0,
                    exact_round_trip=0, failures=0, undocumented_members=0)
    distinct = set()
    fails = []
    samples = []
    for cid, cline in cases.items():
        parts = cline.split("\t")
        if parts[0] != "json":
            continue
        src, text = C.unhex(parts[1]), C.unhex(parts[2])
        il = impl.get(cid, "MISSING")
        if il.startswith("COMPILE"):
            counters["compile_error"] += 1      # C08's business
            continue
        if il.startswith("RUN "):
            counters["run_diverge_or_panic"] += 1   # C09/C10's business: no result list to render
            continue
        counters["evaluations"] += 1
        f = C.fields(il)
        n = int(f.get("N", "0") or 0)
        counters["empty" if n == 0 else "one" if n == 1 else "many"] += 1
        shape = dict(kv.split("=") for kv in f.get("SHAPE", "").split(",") if "=" in kv)
        if int(shape.get("repl", 0)):
            counters["with_replacement"] += 1
        if int(shape.get("nested", 0)):
            counters["with_nested_variables"] += 1
        if int(shape.get("flat", 0)):
            counters["with_flat_variables"] += 1
        if int(shape.get("coerced", 0)):
            counters["coerced_invalid_utf8"] += 1
        elif n:
            counters["exact_round_trip"] += 1
        if n:
            distinct.add((src, text))
        if "EXTRA" in f:
            counters["undocumented_members"] += 1     # members the property does not speak about: recorded, not judged
        js = judge(il, model.get(cid))
        if js:
            counters["failures"] += 1
            fails.append(dict(id=cid, src=src, text=text, why=js, impl=il, model=model.get(cid, "")))
        elif n and len(samples) < 4 and (int(shape.get("nested", 0)) or int(shape.get("repl", 0)) or len(samples) < 1):
            samples.append(dict(source=src.decode("latin1"), text=text.decode("latin1"), matches=n,
                                document_tree=C.fields(model[cid])["TREE"][:300]))
    ctx.coverage.update(
        evaluations=counters["evaluations"], distinct_nontrivial=len(distinct),
        rule="one evaluation = one (program, text) pair whose result list was rendered by the real Json() and "
             "FormattedJson(), parsed back and compared; non-trivial = at least one match; distinct = distinct "
             "(program, text) pairs",
        samples=samples, counters=counters, generator=stats)
    # smallest first, a few per category
    fails.sort(key=lambda m: (len(m["src"]) + len(m["text"]), m["id"]))
    per_cat, seen = {}, set()
    for m in fails:
        cat = m["why"][0][0]
        key = S.case_key(m["src"], m["text"])
        if per_cat.get(cat, 0) >= 2 or key in seen:
            continue
        seen.add(key)
        per_cat[cat] = per_cat.get(cat, 0) + 1
        ctx.violation("failing-input", m["why"][0][1],
                      dict(case_id=m["id"], op="json", source=m["src"].decode("latin1"), text=m["text"].decode("latin1"),
                           source_hex=m["src"].hex(), text_hex=m["text"].hex(), failures=[w[1] for w in m["why"]],
                           implementation=m["impl"][:4000], model_and_spec=m["model"][:4000],
                           how="vharness one json raw:x<source_hex> raw:x<text_hex>"),
                      key=S.case_key(m["src"], m["text"]))


def replay(ctx, spec, obj):
    src, text = obj["source_hex"], obj["text_hex"]
    rc, o = C.sh([os.path.join(C.BIN, "vharness"), "one", "json", "raw:x" + src, "raw:x" + text], timeout=120)
    il = o.strip().split("\n")[-1] if o.strip() else "CRASH"
    f = C.fields(il)
    ml = None
    if "MS" in f:
        line = "r\tjson\t" + f["MS"] + "\t" + f.get("ITREE", "-") + "\n"
        exe = C.vdriver_exe()
        rc2, o2 = C.sh([exe], input=line, timeout=120)
        ml = o2.strip().split("\t", 1)[1] if "\t" in o2 else None
    if il.startswith("COMPILE") or il.startswith("RUN "):
        print("case no longer reaches the JSON rendering:", il[:200])
        return 0
    js = judge(il, ml)
    print(json.dumps(dict(source=obj.get("source"), text=obj.get("text"), implementation=il[:2000],
                          model=ml and ml[:2000], failures=[w[1] for w in js]), indent=1))
    return 1 if js else 0


PROPS = {
    "C17": dict(
        lean_modules=["Vore.Props.C17"],
        theorems=THEOREMS,
        run=run,
        replay=replay,
        manifest=dict(
            text="PARTIAL (encoding/json is trusted, not proved). Proved in Lean for ALL result lists (any length, "
                 "find and replace, variable maps nested to any depth; structural induction over the mutual "
                 "Val/VMap type): the JSON tree that Match.MarshalJSON / Range.MarshalJSON / ValueString / "
                 "ValueHashMap.MarshalJSON build (Json.ofMatches, transcribed assignment by assignment) decodes "
                 "back to exactly the in-memory list (C17_tree); the member set of a match object is exactly the "
                 "documented one and `replacement` is present iff the match has a replacement (C17_members, "
                 "C17_replacement_key); every object has pairwise distinct member names provided the variable maps "
                 "do, which ValueHashMap.Add (VMap.put) preserves (C17_wellformed, C17_put_wf) and which the model "
                 "engine guarantees for every match it returns, for every instruction list, text and fuel "
                 "(C17_engine_results_wellformed: an invariant of every VM instruction and saved state); Json() and "
                 "FormattedJson() are two printers applied to the same tree, so for ANY printer/reader pair "
                 "satisfying the stated contract of encoding/json both outputs parse to the same document, which "
                 "decodes to the in-memory matches with strings coerced to valid UTF-8, exactly when nothing "
                 "needs coercing (C17_documents, C17_documents_exact). Tie: every run calls the real Json() and "
                 "FormattedJson() on results of real programs, parses both with encoding/json, compares them with "
                 "each other, with the in-memory matches field by field, and with Json.ofMatches computed by the "
                 "compiled Lean definitions; Json.decodeMatches is run on the implementation's document.",
            note="Not proved: encoding/json itself (escaping, key order, indentation, U+FFFD substitution for invalid "
                 "UTF-8, number printing) — it is the assumption Codec.Faithful and is only exercised on the "
                 "generated texts (quotes, backslashes, control characters, HTML characters, non-ASCII valid "
                 "UTF-8, invalid bytes). The distinct-keys invariant is proved for the Lean VM model "
                 "(Vore/Model/VM.lean, tied to searchengine.go by the C01/C03 correspondence), a Go map has it "
                 "by construction. Filenames in the correspondence are the constant \"text\" of Run; "
                 "RunFiles paths are exercised by C18.",
            technique="Lean 4 theorem over a JSON tree model (structural induction) + differential correspondence "
                      "through the real Matches.Json()/FormattedJson() and encoding/json"),
        trusted_base=["encoding/json (Marshal, MarshalIndent, Decoder): assumed to satisfy Codec.Faithful; exercised, not proved",
                      "the harness's own field-by-field comparison (harness/cmd/vharness/prop_c17.go)"],
        assumptions=["Codec.Faithful: parsing either rendering of a tree yields the tree with every string coerced "
                     "to valid UTF-8 (invalid bytes -> U+FFFD)",
                     "variable names and numbers fit encoding/json's string/int printing (Go int is 64-bit)"],
    )
}
