"""C11 — process expressions evaluate as the documented operator table says.

Tie: (1) regenerated facts (checklib/extract.py -> lean/Vore/Extracted.lean) interpreted by the theorems of
Vore/Lemmas/TablesTie.lean and Vore/Props/C11.lean; (2) correspondence: every (lhs type, op, rhs type) cell x
boundary values, unary cells and random well-typed trees of depth <= 3 (minimal and full parentheses) are executed on
the REAL code through a transform and through a predicate; the value is compared with the documented value
(Spec.DocOps.eval, run by the Lean driver) and with the model; the syntax tree the real parser builds is compared
with the tree that was rendered and with the Pratt model run on the real lexer's tokens.
"""
import json, os
from . import common as C
from . import search as S

DIVZERO = "integer divide by zero"
UNDEFINED_MARK = "SHOULDN'T GET HERE"


# ---------------------------------------------------------------------------
# observables
# ---------------------------------------------------------------------------

def value_obs(v, ctx):
    """'s:x61' | 'n:12' | 'b:T'  ->  what the real code lets us observe in context ctx
    transform: the bytes written into the replacement (getString); predicate: match / no match (getBoolean)"""
    kind, payload = v.split(":", 1)
    if ctx == "t":
        if kind == "s":
            return ("R", C.unhex(payload))
        if kind == "n":
            return ("R", str(int(payload)).encode())
        return ("R", b"true" if payload == "T" else b"false")
    if kind == "s":
        return ("M", 1 if len(C.unhex(payload)) != 0 else 0)
    if kind == "n":
        return ("M", 1 if int(payload) != 0 else 0)
    return ("M", 1 if payload == "T" else 0)


def lean_obs(field, ctx):
    """MODEL / TBL / DOC field of the driver -> observable, or None when not available"""
    if field is None or field == "-":
        return None
    if field == "FUEL":
        return ("FUEL",)
    if field == "NORET":
        return value_obs("b:T", ctx)          # final_value defaults to true
    if field.startswith("V "):
        return value_obs(field[2:], ctx)
    if field.startswith("PANIC "):
        msg = C.unhex(field[6:]).decode("latin1")
        if DIVZERO in msg:
            return ("DIVZERO",)
        if UNDEFINED_MARK in msg or msg.startswith("UNDEFINED"):
            return ("UNDEFINED",)
        return ("PANIC", msg)
    if field == "UNDEFINED":
        return ("UNDEFINED",)
    return ("?", field)


def impl_obs(run, ctx):
    """RUN field of the harness -> observable"""
    if run.startswith("PANIC "):
        msg = C.unhex(run[6:]).decode("latin1")
        if DIVZERO in msg:
            return ("DIVZERO",)
        if UNDEFINED_MARK in msg:
            return ("UNDEFINED",)
        return ("PANIC", msg)
    if run in ("DIVERGE", "HANG", "CRASH", "SKIP"):
        return (run,)
    ms = S.parse_matches(run)
    if ms is None:
        return ("?", run)
    if ctx == "t":
        if len(ms) != 1:
            return ("?", run)
        r = ms[0]["repl"]
        return ("R", C.unhex(r[1:])) if r.startswith("rx") else ("?", run)
    return ("M", len(ms))


def show(o):
    if o is None:
        return "-"
    if o[0] == "R":
        return "replacement " + repr(o[1].decode("latin1"))
    if o[0] == "M":
        return "predicate " + ("true (match)" if o[1] else "false (no match)")
    return " ".join(str(x) for x in o)


def proc_source(ctx, body):
    if ctx == "p":
        return "set p to pattern 'X' begin " + body + " end find all p"
    return "set f to transform " + body + " end replace all 'X' with f"


# ---------------------------------------------------------------------------
# s-expressions of the dumps
# ---------------------------------------------------------------------------

def sexp_sub(tokens, i):
    """tokens[i] == '(' -> index just after the matching ')'"""
    depth = 0
    j = i
    while j < len(tokens):
        if tokens[j] == "(":
            depth += 1
        elif tokens[j] == ")":
            depth -= 1
            if depth == 0:
                return j + 1
        j += 1
    return j


def returned_expr(ast):
    """the expression of the first `( return E )` in a dump"""
    t = ast.split(" ")
    for i in range(len(t) - 1):
        if t[i] == "(" and t[i + 1] == "return":
            j = sexp_sub(t, i + 2)
            return " ".join(t[i + 2:j])
    return None


# ---------------------------------------------------------------------------
# differing cells (direction of the failing-input search when a theorem over the regenerated tables fails)
# ---------------------------------------------------------------------------

def differing_cells(ctx):
    exe = C.vdriver_exe()
    try:
        rc, o = C.sh([exe], input="d\tc11diff\n", timeout=120)
    except Exception as ex:  # noqa
        return None
    for line in o.split("\n"):
        if line.startswith("d\tDIFF"):
            return [c for c in line[len("d\tDIFF"):].strip().split(" ") if c]
    return None


def cell_of_diff(d):
    """'eval:boolean,LESS,string' -> 'boolean,LESS,string' (the generator's cell name)"""
    parts = d.split(":")
    return parts[1] if len(parts) > 1 else d


# ---------------------------------------------------------------------------
# the run
# ---------------------------------------------------------------------------

def compare_proc(cid, cline, il, ml, counters, want_accept_check):
    """one `proc` case -> list of (kind, what, replay, key) problems"""
    parts = cline.split("\t")
    pctx, body = parts[1], C.unhex(parts[2]).decode("latin1")
    src = proc_source(pctx, body)
    f = C.fields(il)
    out = []
    base = dict(case_id=cid, context="transform" if pctx == "t" else "predicate", body=body, source=src, text="aXb",
                cell=parts[5] if len(parts) > 5 else "-")
    comp = f.get("COMPILE", "?")
    counters["proc"] += 1
    if comp.startswith("PANIC"):
        out.append(("failing-input", "Compile panicked on a process body", dict(base, implementation=comp), "cp:" + src))
        return out
    if "PARSEERR" in f or "PARSEPANIC" in f or ml is None:
        counters["not_parsed"] += 1
        return out
    mf = C.fields(ml)
    if "CHK" not in mf:
        raise RuntimeError("driver gave no verdict for " + cid + ": " + ml[:200])
    accept_impl = comp == "ok"
    accept_model = mf["CHK"] == "T"
    if accept_impl != accept_model:
        counters["accept_mismatch"] += 1
        if want_accept_check:
            out.append(("failing-input",
                        "Compile %s a body that the documented typing rules %s (checkBody = Spec.Typing.wellTyped, C12_iff)"
                        % ("accepts" if accept_impl else "rejects", "reject" if accept_impl else "accept"),
                        dict(base, implementation="accepted" if accept_impl else comp,
                             documented="well typed" if accept_model else "ill typed"), "acc:" + pctx + ":" + body))
        return out
    if not accept_impl:
        counters["rejected_both"] += 1
        return out
    counters["accepted_both"] += 1
    run = f.get("RUN", "SKIP")
    if run == "SKIP":
        return out
    io = impl_obs(run, pctx)
    mo, to, do = (lean_obs(mf.get(k), pctx) for k in ("MODEL", "TBL", "DOC"))
    counters["evaluated"] += 1
    rep = dict(base, implementation=show(io), documented=show(do), model=show(mo), regenerated_table=show(to),
               single_typed=mf.get("SINGLE"))
    if io[0] in ("HANG", "DIVERGE", "CRASH"):
        counters["impl_" + io[0].lower()] += 1
        if mo is not None and mo[0] != "FUEL":
            out.append(("failing-input", "the real evaluator does not return (" + io[0] + ") where the model does", rep,
                        "hang:" + pctx + ":" + body))
        return out
    if mo is not None and mo[0] == "FUEL":
        counters["model_fuel"] += 1
        return out
    if io[0] == "DIVZERO":
        counters["divide_by_zero"] += 1
    if do is not None and do[0] == "UNDEFINED" and mo == io and io[0] != "UNDEFINED":
        # the checker typed a variable differently from its run-time type (`matchNumber` is a number at run time and
        # a string to the checker), so the operand types at run time are not a row of the documented table: outside
        # C11_eval's hypothesis Models; only the model is compared
        counters["outside_documented_table"] += 1
    elif do is not None:
        counters["doc_compared"] += 1
        if do != io:
            out.append(("failing-input", "the value computed at run time is not the documented one (Spec.DocOps.eval; C11_eval)",
                        rep, "doc:" + pctx + ":" + body))
            return out
    if mo != io:
        out.append(("failing-input", "the real evaluator and the model (proved equal to the documented table on well-typed code) disagree",
                    rep, "model:" + pctx + ":" + body))
        return out
    if to is not None and to != mo:
        counters["table_drift"] += 1
    return out


def compare_parse(cid, cline, il, ml, counters):
    parts = cline.split("\t")
    kind, tree, expr = parts[1], parts[2], C.unhex(parts[3]).decode("latin1")
    f = C.fields(il)
    out = []
    counters["parse"] += 1
    base = dict(case_id=cid, expression=expr, rendering=kind, source=proc_source("t", "return " + expr))
    real = None
    if "AST" in f:
        real = returned_expr(f["AST"])
    real_ok = real is not None
    if kind in ("min", "full"):
        counters["rendered"] += 1
        if not real_ok or real != tree:
            out.append(("failing-input",
                        "the parser does not read the %s-parenthesis rendering of an expression tree back "
                        "(documented strata: * / %% > + - > < > <= >= > == != > and or, left associative, prefix tightest; C11_pratt)" % kind,
                        dict(base, expected_tree=tree, parsed_tree=real if real_ok else il.split("\t")[0][:300]),
                        "parse:" + kind + ":" + expr))
            return out
    if ml is None:
        return out
    mf = C.fields(ml)
    p = mf.get("PARSE", "?")
    counters["pratt_compared"] += 1
    model_ok = p.startswith("ok ")
    model_tree = p.split(" ", 2)[2] if model_ok else None
    if real_ok != model_ok or (real_ok and real != model_tree):
        out.append(("failing-input", "the real parser and the Pratt model (regenerated precedence tables) disagree on the real lexer's tokens",
                    dict(base, parsed_tree=real if real_ok else il.split("\t")[0][:300], model=p), "pratt:" + expr))
        return out
    if kind in ("min", "full") and mf.get("RENDER") != "same":
        out.append(("failing-input", "the real lexer's tokens of a rendering are not the tokens of the Spec printer",
                    dict(base, render=mf.get("RENDER")), "render:" + kind + ":" + expr))
    if real_ok:
        counters["parsed_ok"] += 1
    else:
        counters["parse_failed_both"] += 1
    return out


def new_counters():
    from collections import Counter
    return Counter()


def run_generic(ctx, spec, prop, want_accept_check):
    cases, impl, model, stats = S.gen_and_run(ctx, prop)
    counters = new_counters()
    problems = []
    samples = []
    distinct = set()
    cells_hit = set()
    meta_cells = {}
    for cid, cline in cases.items():
        op = cline.split("\t", 1)[0]
        il = impl.get(cid, "MISSING")
        ml = model.get(cid)
        if il in ("HANG", "CRASH") or il.startswith("HARNESS") or il.startswith("PROTOCOL") or il == "MISSING":
            counters["harness_" + il.split(" ")[0].lower()] += 1
            parts = cline.split("\t")
            if op == "proc":
                body = C.unhex(parts[2]).decode("latin1")
                problems.append(("failing-input", "the real code hung or crashed on a process body (" + il.split(" ")[0] + ")",
                                 dict(case_id=cid, body=body, source=proc_source(parts[1], body), text="aXb"), "hc:" + body))
            continue
        if op == "proc":
            ps = compare_proc(cid, cline, il, ml, counters, want_accept_check)
            parts = cline.split("\t")
            distinct.add((parts[1], parts[2]))
            if not ps and len(samples) < 4 and ml and "MODEL V" in ml and counters["evaluated"] % 977 == 1:
                samples.append(dict(context=parts[1], body=C.unhex(parts[2]).decode("latin1"),
                                    implementation=show(impl_obs(C.fields(il).get("RUN", "SKIP"), parts[1])),
                                    documented=C.fields(ml).get("DOC")))
        elif op == "c11parse":
            ps = compare_parse(cid, cline, il, ml, counters)
            parts = cline.split("\t")
            if not ps and len(samples) < 6 and parts[1] == "min" and counters["parse"] % 701 == 1:
                samples.append(dict(expression=C.unhex(parts[3]).decode("latin1"), tree=parts[2]))
        else:
            continue
        problems += ps
    return cases, problems, counters, samples, stats, distinct


def report(ctx, problems, diff_cells):
    """violations, smallest first; the cells in which the regenerated tables differ from the model or from the
    documented table (c11diff) come first: they are where a changed Go table can contradict the documentation"""
    hot = {cell_of_diff(d) for d in (diff_cells or [])}
    prec_changed = any(d.startswith("prec") or d.startswith("prefix") for d in (diff_cells or []))

    def rank(p):
        rep = p[2]
        body = rep.get("body") or rep.get("expression") or ""
        is_hot = rep.get("cell") in hot or (prec_changed and "expression" in rep)
        return (0 if is_hot else 1, len(body), body)

    problems.sort(key=rank)
    for kind, what, replay, key in problems:
        if diff_cells:
            replay = dict(replay, differing_cells=diff_cells[:40])
        ctx.violation(kind, what, replay, key=key)


def run(ctx, spec):
    cases, problems, counters, samples, stats, distinct = run_generic(ctx, spec, "C11", want_accept_check=False)
    diff = differing_cells(ctx)
    ctx.coverage.update(
        evaluations=counters["evaluated"] + counters["parse"],
        distinct_nontrivial=counters["doc_compared"] + counters["rendered"],
        rule="evaluations = process bodies accepted by Compile and executed on the real code (through a transform or a "
             "predicate) + expressions parsed by the real parser; distinct_nontrivial = executions whose value was compared "
             "with Spec.DocOps.eval + renderings (min/full parentheses) whose parsed tree was compared with the rendered tree",
        samples=samples, counters=dict(counters), generator=stats,
        cells=sum(1 for k in stats.get("features", {}) if k.startswith("cell:")),
        differing_cells=diff)
    if diff is None:
        ctx.violation("machinery", "the Lean driver could not list the differing cells (c11diff)", {}, found_input=False)
    report(ctx, problems, diff)


def replay(ctx, spec, obj):
    """re-run one recorded case: ./check C11 --replay <file>"""
    body, pctx = obj.get("body"), obj.get("context")
    vh = os.path.join(C.BIN, "vharness")
    exe = C.vdriver_exe()
    if body is not None:
        c = "p" if pctx == "predicate" else "t"
        env = "match=s:x58,matchLength=n:1" + (",matchNumber=n:1" if c == "t" else "")
        rc, il = C.sh([vh, "one", "proc", "raw:" + c, body, "raw:" + env, "raw:T"], timeout=120)
        il = il.strip("\n")
        f = C.fields(il)
        ml = None
        if "AST" in f:
            rc, o = C.sh([exe], input="r\tproc\t%s\t%s\t%s\n" % (c, f["AST"], env), timeout=120)
            ml = o.strip("\n").split("\t", 1)[1] if "\t" in o else None
        cline = "proc\t%s\tx%s\t%s\tT" % (c, body.encode("latin1").hex(), env)
        ps = compare_proc("replay", cline, il, ml, new_counters(), True)
    else:
        expr, kind, tree = obj["expression"], obj.get("rendering", "src"), obj.get("expected_tree", "-")
        rc, il = C.sh([vh, "one", "c11parse", "raw:" + kind, "raw:" + tree, expr], timeout=120)
        il = il.strip("\n")
        f = C.fields(il)
        ml = None
        if "TOKENS" in f:
            rc, o = C.sh([exe], input="r\tc11parse\t%s\t%s\t%s\n" % (kind, tree, f["TOKENS"]), timeout=120)
            ml = o.strip("\n").split("\t", 1)[1] if "\t" in o else None
        cline = "c11parse\t%s\t%s\tx%s" % (kind, tree, expr.encode("latin1").hex())
        ps = compare_parse("replay", cline, il, ml, new_counters())
    print("implementation:", il[:600])
    print("model/spec    :", (ml or "-")[:600])
    for kind, what, rep, key in ps:
        print("STILL FAILS:", what)
        print(json.dumps(rep, indent=1))
    if not ps:
        print("the recorded case no longer fails")
    return 1 if ps else 0


THEOREMS = ["Vore.C11_evaluator_is_table", "Vore.C11_cells", "Vore.C11_cells_unary", "Vore.C11_eval", "Vore.C11_eval_table",
            "Vore.C11_prec_tables", "Vore.C11_pratt", "Vore.C11_pratt_in_statement"]

PROPS = {"C11": dict(
    lean_modules=["Vore.Props.C11"],
    theorems=THEOREMS,
    extract=True,
    fallback="every cell of the operator/coercion table (operator x left type x right type, unary ones included) executed on the "
             "real evaluator with boundary values of each type; generated expressions parsed and evaluated by the real code "
             "against an independent precedence/associativity oracle",
    run=run,
    replay=replay,
    trusted_base=[
        "harness/cmd/extract (go/ast, fails closed) reads executeBinaryExpr/executeUnaryExpression and the precedence "
        "functions faithfully; every extracted cell is also executed on the real code",
        "strconv.Atoi / strconv.Itoa modelled as decimal parse (optional sign, int64 range) / decimal print; Go string "
        "comparison modelled bytewise",
        "process-language integers modelled on Int: wrap-around beyond 2^63 is outside the model",
    ],
    assumptions=[
        "C11_eval: the expression is well typed by the documented table and every variable has the type the checker assumes "
        "(Spec.Typing.Models); `matchNumber` is a number at run time but a string to the checker, so expressions over it are "
        "covered by the cell theorem (C11_cells, dynamic types) and by the correspondence run only",
        "division by zero has no documented value: Spec outcome divByZero <-> Go panic 'integer divide by zero' (C09)",
        "the four rows `_number_ (- * / %) number` are read as: a STRING on the left of a number is coerced to a number "
        "(bool on the left is not in the checker's table)",
    ],
    manifest=dict(
        text="Proved in Lean for ALL operand values, environments and expression trees: (1) the documented operator/coercion "
             "tables of LanguageDetails.md are transcribed cell by cell (Spec/DocOps.lean: 33 rows + coercion table); the "
             "dispatch of executeBinaryExpr/executeUnaryExpression is RE-EXTRACTED from the Go source on every check "
             "(Vore/Extracted.lean: per (lhs type, op) cell the two coercion methods, the Go operator token, the wrapper) and "
             "interpreted in Lean; C11_evaluator_is_table: model = interpreted table; C11_cells: every documented cell of the "
             "regenerated table computes the documented value; C11_eval: for every well-typed expression and every "
             "environment evalExpr = Spec.DocOps.eval (structural induction). (2) Precedence: Model/Pratt.lean transcribes "
             "parse_expr_pratt over the regenerated isPrefixOp/prefixPrecedence/isBinaryOp/infixPrecedence/isProcessExprEnd; "
             "C11_pratt: for EVERY expression tree the parser reads back both its fully parenthesised and its minimally "
             "parenthesised rendering under the documented strata (* / % > + - > < > <= >= > == != > and or, left assoc, "
             "prefix tightest), also inside a statement (C11_pratt_in_statement). Correspondence: all 117 (lhs type, op, rhs "
             "type) cells x boundary values (0, 1, -1, 2, 12, -3, '', 'abc', '12', '-3', 'x1', '0', true, false), operands as "
             "literals and as variables, unary cells, executed on the real code through `replace all 'X' with f` and through "
             "a pattern predicate; random well-typed trees of depth <= 3 in both renderings: value vs Spec.DocOps.eval and "
             "vs model, real parser's tree vs rendered tree vs Pratt model on the real lexer's tokens; token soups.",
        note="A one-token edit of a coercion, operator or precedence pair in the Go source changes Extracted.lean and breaks "
             "C11_evaluator_is_table / C11_prec_tables; the run then reports the first executed cell that contradicts the "
             "documented table as the replay. Trusted: Lean kernel, the extractor (fails closed), strconv model, Int arithmetic "
             "(no wrap-around).",
        technique="Lean 4: regenerated decision tables + finite case analysis with universally quantified values + structural "
                  "induction (evaluation, Pratt binding-power invariant) + exhaustive cell execution on the real code"),
)}
