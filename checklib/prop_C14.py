"""C14 — a regex literal finds what that regular expression finds.

Two streams (harness/cmd/vharness/prop_c14.go):

  c14      one regular expression of the supported subset (a tree, printed as the body of a regex
           literal) x several short ASCII texts without \\r and \\f.
             real code : the tree the real front end builds for `find all @/re/`, Compile, Run (spans +
                         variables) on every text;
             ARBITER   : Go's regexp package (leftmost-first, (?m), (?s) off) evaluated position by position
                         (`\\A(?s:.{p})(?m:(?:re))` on the whole text for every start position p, empty matches
                         skipped, scan continued at the end of a match) — for regexes without back-references;
                         with back-references the arbiter is the Lean semantics Regex.findAll, which is itself
                         compared with Go's regexp on every back-reference-free pair (counted);
             Lean      : RegexParser.parse(pattern) against the real tree and against Re.toExpr (C14_parse),
                         Regex.findAll, and Spec.findAll of the translated tree (C14_sem, executable reading).
  reparse  arbitrary bytes as a regex body through the real sub-parser and through Compile: no panic, no
           hang, same accept/reject (and tree) as RegexParser.parse (C14_total is about that model).

Verdict-bearing: (1) Compile accepts every regex of the subset, (2) the spans and the group texts of Run
equal the arbiter's, (3) the tree of the real parser is the model's (= the documented translation, by
C14_parse), (4) the sub-parser never panics / hangs and accepts exactly what the model accepts.
A difference is classified by its cause where the cause is recognisable, so that one defect is one
finding (smallest example first); everything else is keyed by the failing case itself.
"""
import hashlib, json, os, re, subprocess
from . import common as C
from . import search as S


def _key(*parts):
    h = hashlib.sha1()
    for p in parts:
        h.update(p if isinstance(p, bytes) else str(p).encode())
        h.update(b"\0")
    return h.hexdigest()[:12]


# stable keys of the recognisable causes (the key of the minimal case `@/(a)+/` is KEY_GROUP_UNDER_QUANT)
KEY_GROUP_UNDER_QUANT = "c14-" + _key("class", "capturing group under a quantifier with minimum >= 1 is a GenError")
KEY_NESTED_NUMBERING = "c14-" + _key("class", "nested unnamed groups are numbered by closing parenthesis")
KEY_NOTDIGIT_EOF = "c14-" + _key("class", "\\D matches the empty string at the end of the text")


def _txt(b):
    return b.decode("latin1")


def tree_has(tree, tok):
    return tok in tree.split(" ")


def nested_groups(tree):
    """an unnamed group inside an unnamed group (prefix encoding; arities known)"""
    toks = tree.split(" ")
    pos = 0

    def walk(depth):
        nonlocal pos
        t = toks[pos]
        pos += 1
        if t in ("E", ".", "^", "$"):
            return False
        if t in ("S", "A"):
            a = walk(depth)
            b = walk(depth)
            return a or b
        if t in ("C", "D", "W", "B", "R"):
            pos += 1
            return False
        if t == "K":
            n = int(toks[pos + 1])
            pos += 2 + n
            return False
        if t == "G":
            pos += 1
            inner = walk(depth + 1)
            return depth >= 1 or inner
        if t == "N":
            return walk(depth)
        if t == "M":
            pos += 1
            return walk(depth)
        if t == "Q":
            pos += 4
            return walk(depth)
        raise ValueError("bad tree token " + t)

    try:
        return walk(0)
    except Exception:
        return False


_NUM = re.compile(r'"_\d+"')


def only_numbering(cmp_):
    """'DIFF tree model=X go=Y': do the two trees differ only in the numbers of unnamed groups?"""
    if not cmp_.startswith("DIFF tree model=") or " go=" not in cmp_:
        return False
    x, y = cmp_[len("DIFF tree model="):].split(" go=", 1)
    return _NUM.sub('"_N"', x) == _NUM.sub('"_N"', y)


def spans_only(res):
    """'OK s,e,{..};…' -> [(s,e)] ; None if not OK"""
    if not res.startswith("OK"):
        return None
    body = res[3:]
    if body == "":
        return []
    return [tuple(int(x) for x in S.split_top(m, ",")[:2]) for m in S.split_top(body, ";")]


def _size(pat: bytes, text: bytes = b""):
    """smaller and more readable examples first"""
    odd = sum(1 for b in pat + text if b < 32 or b > 126)
    return len(pat) + len(text) + 10 * odd


def judge_c14(cid, parts, il, ml, cnt, machinery, samples, distinct):
    """one regex x its texts -> (list of violation dicts, drift record or None)"""
    out = []
    tree, pat = parts[1], C.unhex(parts[2])
    texts = [C.unhex(t) for t in parts[3].split(",")] if parts[3] else []
    lit = "@/" + _txt(pat) + "/"
    base = dict(op="c14", regex=_txt(pat), source="find all " + lit, tree=tree, pattern_hex=pat.hex(),
                go_syntax_hex=parts[4], go_groups=parts[5] if len(parts) > 5 else "")

    def add(key, size, what, replay):
        out.append(dict(key=key, size=size, what=what, replay=replay))

    if il in ("HANG", "CRASH", "MISSING") or il.startswith("HARNESS") or il.startswith("PROTOCOL"):
        add(_key("crash", pat), _size(pat), f"`find all {lit}` makes the implementation {il.split(' ')[0].lower()}",
            dict(base, implementation=il[:200]))
        return out, None
    if ml is None or ml.startswith("BAD"):
        machinery.append(f"no model answer for case {cid}: {ml}")
        return out, None
    f, mf = C.fields(il), C.fields(ml)
    for flag, why in (("SHOW", "the harness prints the regex differently from Re.show"),
                      ("SUP", "the generator left the supported subset"),
                      ("NNB", "the generator produced a nullable repeated body"),
                      ("CF", "Re.toExpr is not call-free (contradicts C14_callfree)"),
                      ("TOEXPR", "RegexParser.parse (Re.show r) is not Re.toExpr r (contradicts C14_parse)")):
        if mf.get(flag) != "T":
            machinery.append(f"{why}: {lit}")
    # structural level (diagnostic, search-directing): the tree the real parser builds
    pcmp = mf.get("PARSE", "?")
    drift = None
    if pcmp == "SAME":
        cnt["parse_same"] += 1
    else:
        cnt["parse_tree_diff"] += 1
        drift = dict(base, comparison=pcmp[:1500], numbering_only=only_numbering(pcmp), texts=parts[3])
    finds = mf.get("FIND", "").split("|") if texts else []
    # observable: Compile accepts the regex
    comp = f.get("COMPILE", "?")
    if comp != "ok":
        cnt["compile_rejected"] += 1
        msg = ""
        cparts = comp.split(" ")
        if len(cparts) >= 3 and cparts[0] == "ERR":
            try:
                msg = _txt(C.unhex(cparts[2]))
            except Exception:
                msg = comp
        first = msg.splitlines()[0] if msg else comp[:80]
        if "name clash" in msg and tree_has(tree, "Q") and (tree_has(tree, "G") or tree_has(tree, "M")):
            cls = KEY_GROUP_UNDER_QUANT
        elif "is not defined" in msg and drift is not None and drift["numbering_only"]:
            cls = KEY_NESTED_NUMBERING   # the reference names a group the real parser numbered differently
        else:
            cls = _key("compile", pat)
        add(cls, _size(pat) + (100 if cls == KEY_NESTED_NUMBERING else 0),
            f"Compile rejects `find all {lit}` ({first}); a conventional engine accepts it",
            dict(base, compile=msg or comp, arbiter_on_first_text=(finds[0] if finds else None),
                 first_text=(_txt(texts[0]) if texts else None)))
        return out, None
    # observable: Run against the arbiter
    runs = f.get("RUN", "").split("|") if texts else []
    arbs = f.get("ARB", "na")
    go_arb = arbs != "na"
    arbl = arbs.split("|") if (go_arb and texts) else []
    sec = f.get("ARB2", "").split("|") if (go_arb and texts) else []
    if texts and (len(runs) != len(texts) or len(finds) != len(texts) or (go_arb and len(arbl) != len(texts))):
        machinery.append(f"malformed answers for case {cid}")
        return out, None
    if mf.get("SPEC") != "T":
        cnt["spec_vs_regex_diff"] += 1
    sfinds = mf["SFIND"].split("|") if "SFIND" in mf and texts else []
    observable = False
    for i, t in enumerate(texts):
        arb = arbl[i] if go_arb else finds[i]
        if go_arb:
            cnt["go_arbitrated_pairs"] += 1
            if arbl[i].startswith("GOERR"):
                machinery.append(f"Go regexp rejects the arbiter's rendering of {lit}: {arbl[i][:120]}")
                continue
            if sec[i] != "same":
                cnt["arbiter_second_opinion_diff"] += 1
                machinery.append(f"position-by-position evaluation and FindAll of Go regexp differ on {lit} / {t!r}: {sec[i][:100]}")
            cnt["bridge_validated_pairs"] += 1
            if finds[i] != arbl[i]:
                cnt["bridge_mismatch"] += 1
                machinery.append(f"Regex.findAll differs from Go regexp on {lit} / {_txt(t)!r}: lean {finds[i][:120]} go {arbl[i][:120]}")
        else:
            cnt["lean_arbitrated_pairs"] += 1
        sp = spans_only(arb)
        if sp:
            cnt["pairs_with_match"] += 1
            distinct.add((pat, t))
            cnt["groups_compared"] += arb.count("=s:")
        if runs[i] == arb:
            if len(samples) < 6 and sp and (len(sp) > 1 or "=s:" in arb) and len(pat) > 4:
                samples.append(dict(regex=_txt(pat), text=_txt(t), result=arb,
                                    arbiter="Go regexp" if go_arb else "Regex.findAll (Lean)"))
            continue
        if runs[i] == "DIVERGE":
            # the step budget of the harness was exceeded: catastrophic backtracking (e.g. `(x+?)+\\1` on a text that
            # does not match) is a long search, not a wrong one; inconclusive here, termination is C10's subject
            cnt["budget_exceeded_inconclusive"] += 1
            continue
        cnt["run_mismatch"] += 1
        observable = True
        same_spans = spans_only(runs[i]) == sp
        numbering = drift is not None and drift["numbering_only"]
        if numbering and (same_spans or tree_has(tree, "B")) and "D 1" not in tree:
            cls = KEY_NESTED_NUMBERING
            what = (f"`find all {lit}` on {_txt(t)!r} binds the groups as {runs[i][:160]} but a conventional engine numbers "
                    f"groups by their opening parenthesis: {arb[:160]}")
        elif "D 1" in tree and ((drift is None and sfinds and runs[i] == sfinds[i]) or numbering):
            # the implementation does what the pattern AS WRITEN in vore means (Spec.findAll), and that differs from the
            # regular expression only through `not digit` succeeding on the empty read at the end of the text
            cls = KEY_NOTDIGIT_EOF
            what = (f"`find all {lit}` on {_txt(t)!r} reports {runs[i][:160]} but a conventional engine "
                    f"({'Go regexp' if go_arb else 'Regex.findAll'}) finds {arb[:160]}")
        else:
            cls = _key("run", pat, t)
            what = (f"`find all {lit}` on {_txt(t)!r} reports {runs[i][:200]} but a conventional engine "
                    f"({'Go regexp' if go_arb else 'Regex.findAll'}) finds {arb[:200]}")
        add(cls, _size(pat, t), what,
            dict(base, text=_txt(t), text_hex=t.hex(), implementation=runs[i], arbiter=arb,
                 arbiter_engine="Go regexp, position by position" if go_arb else "Lean Regex.findAll",
                 lean_regex_findall=finds[i], spec_findall_equals_regex=mf.get("SPEC"),
                 parse_tree=("same as the model" if drift is None else drift["comparison"][:600])))
    if observable:
        drift = None     # the structural difference has its observable witness
    return out, drift


def escalate(ctx, drifts, cnt, machinery):
    """a tree difference without an observable witness among the generated texts: exhaustive small scope
    (all texts over the regex's own alphabet up to length 4) through `vharness replay`"""
    import itertools
    out = []
    if not drifts:
        return out
    cases = []
    for k, d in enumerate(drifts[:40]):
        pat = bytes.fromhex(d["pattern_hex"])
        alpha = sorted(set(b for b in pat if 32 < b < 127 and chr(b) not in "\\()[]{}|*+?.^$<>:-,") | {10, 97})[:4]
        texts = [bytes(t) for n in range(1, 5) for t in itertools.product(alpha, repeat=n)]
        cases.append("\t".join([f"esc{k}", "c14", d["tree"], "x" + d["pattern_hex"], ",".join("x" + t.hex() for t in texts),
                                d["go_syntax_hex"], d["go_groups"]]))
    edir = os.path.join(ctx.workdir, "escalate")
    os.makedirs(edir, exist_ok=True)
    open(os.path.join(edir, "in.tsv"), "w").write("\n".join(cases) + "\n")
    rc, o = C.sh([os.path.join(C.BIN, "vharness"), "replay", "-in", os.path.join(edir, "in.tsv"), "-out", edir], timeout=1800)
    ctx.log.append({"step": "vharness replay (escalation of tree drift)", "rc": rc, "out": o[-500:]})
    if rc != 0 or not C.run_vdriver_parallel(os.path.join(edir, "lean.tsv"), os.path.join(edir, "model.tsv"), ctx.log):
        machinery.append("escalation run failed: " + o[-200:])
        return out
    ecases, eimpl, emodel = (C.read_tsv(os.path.join(edir, n)) for n in ("cases.tsv", "impl.tsv", "model.tsv"))
    sub = dict(cnt)
    for cid, cline in ecases.items():
        v, _ = judge_c14(cid, cline.split("\t"), eimpl.get(cid, "MISSING"), emodel.get(cid), sub, machinery, [], set())
        cnt["escalated_pairs"] += len(cline.split("\t")[3].split(","))
        out += v
    return out


def run(ctx, spec):
    cases, impl, model, stats = S.gen_and_run(ctx, "C14")
    cnt = dict(budget_exceeded_inconclusive=0, regexes=0, pairs=0, pairs_with_match=0, go_arbitrated_pairs=0, lean_arbitrated_pairs=0,
               bridge_validated_pairs=0, bridge_mismatch=0, arbiter_second_opinion_diff=0, run_mismatch=0,
               compile_rejected=0, parse_tree_diff=0, parse_same=0, spec_vs_regex_diff=0, malformed=0,
               malformed_accepted=0, malformed_rejected=0, malformed_model_panic_recovered=0, malformed_tree_drift=0,
               malformed_outcome_diff=0, malformed_panic=0, malformed_hang=0, groups_compared=0, corpus=0,
               tree_drift_without_witness=0, escalated_regexes=0, escalated_pairs=0)
    viol, machinery, samples, drifts = [], [], [], []
    distinct = set()

    def add(kind_key, size, what, replay):
        viol.append(dict(key=kind_key, size=size, what=what, replay=replay))

    for cid, cline in cases.items():
        parts = cline.split("\t")
        op = parts[0]
        il = impl.get(cid, "MISSING")
        ml = model.get(cid)
        if cid.startswith("corpus-"):
            cnt["corpus"] += 1
        if op == "c14":
            cnt["regexes"] += 1
            cnt["pairs"] += len(parts[3].split(",")) if parts[3] else 0
            v, drift = judge_c14(cid, parts, il, ml, cnt, machinery, samples, distinct)
            viol += v
            if drift is not None:
                drifts.append(drift)
        elif op == "reparse":
            lex = C.unhex(parts[1])
            cnt["malformed"] += 1
            base = dict(op="reparse", lexeme=_txt(lex), lexeme_hex=lex.hex())
            if il in ("HANG", "CRASH", "MISSING") or il.startswith("HARNESS") or il.startswith("PROTOCOL"):
                if il == "HANG":
                    cnt["malformed_hang"] += 1
                add(C.KEY_LARGE_COUNT if (il in ("HANG", "CRASH") and C.has_large_count(lex)) else _key("malhang", lex),
                    _size(lex), f"the regex body {_txt(lex)!r} makes the front end {il.split(' ')[0].lower()}",
                    dict(base, implementation=il[:200]))
                continue
            if ml is None or ml.startswith("BAD"):
                machinery.append(f"no model answer for case {cid}: {ml}")
                continue
            f = C.fields(il)
            mparts = ml.split("\t")
            mclass, raw, cmp_ = mparts[0], (mparts[1] if len(mparts) > 1 else ""), (mparts[2] if len(mparts) > 2 else "")
            if mclass == "FUEL" or raw == "RAW FUEL":
                machinery.append(f"the parser model ran out of fuel on {lex!r} (contradicts C14_total)")
            if mclass == "PANIC":
                machinery.append(f"the parser model panics above the recover layer on {lex!r} (contradicts C14_total)")
            if raw == "RAW PANIC":
                cnt["malformed_model_panic_recovered"] += 1
            if mclass == "OK":
                cnt["malformed_accepted"] += 1
            elif mclass == "ERR":
                cnt["malformed_rejected"] += 1
            sub = f.get("SUB", "?")
            comp = f.get("COMPILE", "na")
            if sub.startswith("PANIC") or comp.startswith("PANIC"):
                cnt["malformed_panic"] += 1
                add(_key("malpanic", lex), _size(lex), f"the regex body {_txt(lex)!r} panics the front end",
                    dict(base, sub_parser=sub[:300], compile=comp[:300]))
                continue
            if cmp_ != "SAME":
                if cmp_.startswith("DIFF tree"):
                    cnt["malformed_tree_drift"] += 1      # both accept: structural level, diagnostic only
                else:
                    cnt["malformed_outcome_diff"] += 1
                    add(_key("maldiff", lex), _size(lex),
                        f"the regex sub-parser {'accepts' if sub.startswith('AST') else 'rejects'} the body {_txt(lex)!r} "
                        f"but its model (total on every input, C14_total) does the opposite: {cmp_[:120]}",
                        dict(base, sub_parser=sub[:1000], model=mclass, comparison=cmp_[:1000]))
                    continue
            if comp != "na":
                if sub.startswith("ERR") and comp == "ok":
                    add(_key("malacc", lex), _size(lex), f"Compile accepts `find all @/{_txt(lex)}/` although the sub-parser rejects the body",
                        dict(base, sub_parser=sub[:300], compile=comp))
                if sub.startswith("AST") and comp.startswith("ERR") and not comp.startswith("ERR GenError"):
                    add(_key("malrej", lex), _size(lex), f"Compile rejects `find all @/{_txt(lex)}/` ({comp[:60]}) although the sub-parser accepts the body",
                        dict(base, sub_parser=sub[:300], compile=comp[:300]))
    # tree differences that no generated text made observable: exhaustive small scope
    cnt["tree_drift_without_witness"] = len(drifts)
    drifts.sort(key=lambda d: len(d["pattern_hex"]))
    cnt["escalated_regexes"] = min(len(drifts), 40)
    viol += escalate(ctx, drifts, cnt, machinery)
    ctx.coverage.update(
        evaluations=cnt["pairs"] + cnt["malformed"] + cnt["escalated_pairs"],
        distinct_nontrivial=len(distinct),
        rule="evaluations = (regex, text) pairs run through Compile+Run and the arbiter + malformed regex bodies through "
             "the sub-parser (+ pairs of the exhaustive escalation); non-trivial = distinct (regex, text) pairs on which "
             "the arbiter reports at least one match",
        samples=samples, counters=cnt, generator=stats,
        structural_agreement=(cnt["parse_tree_diff"] == 0 and cnt["malformed_tree_drift"] == 0),
        model_drift=[dict(level="L2", regex=d["regex"], comparison=d["comparison"][:300]) for d in drifts[:5]],
        arbiter="Go regexp (leftmost-first) position by position for back-reference-free regexes; Lean Regex.findAll "
                "otherwise, validated against Go regexp on bridge_validated_pairs pairs")
    for msg in machinery[:3]:
        ctx.violation("machinery", msg, dict(detail=machinery[:20]), found_input=False)
    # one finding per recognised cause, then the smallest unclassified cases
    viol.sort(key=lambda v: (v["size"], v["key"]))
    seen, unclassified = set(), 0
    for v in viol:
        if v["key"] in seen:
            continue
        seen.add(v["key"])
        if not v["key"].startswith("c14-"):
            unclassified += 1
            if unclassified > 8:
                continue
        ctx.violation("failing-input", v["what"], v["replay"], key=v["key"])
    if drifts and not viol:
        print(f"MODEL-DRIFT level=L2 property=C14 regexes={len(drifts)} (tree differs from the model, no observable difference "
              f"found on {cnt['escalated_pairs']} exhaustive pairs)")


def _one(op, fields_impl, fields_model_from):
    exe = os.path.join(C.BIN, "vharness")
    p = subprocess.run([exe, "one", op] + ["raw:" + f for f in fields_impl], stdout=subprocess.PIPE,
                       stderr=subprocess.STDOUT, text=True, timeout=120)
    lines = [l for l in p.stdout.split("\n") if l]
    il = lines[-1] if lines else "MISSING"
    mfields = fields_model_from(il)
    drv = C.vdriver_exe()
    q = subprocess.run([drv], input="r\t" + op + "\t" + "\t".join(mfields) + "\n", stdout=subprocess.PIPE,
                       stderr=subprocess.STDOUT, text=True, timeout=120)
    ml = q.stdout.strip("\n")
    return il, (ml[2:] if ml.startswith("r\t") else ml)


def replay(ctx, spec, obj):
    if obj.get("op") == "c14":
        pat = bytes.fromhex(obj["pattern_hex"])
        texts = ["x" + obj["text_hex"]] if "text_hex" in obj else []
        # Go arbiter needs the Go rendering, which only the generator knows: the replay uses the Lean arbiter
        il, ml = _one("c14", [obj["tree"], "x" + pat.hex(), ",".join(texts), "-", ""],
                      lambda il: [obj["tree"], "x" + pat.hex(), ",".join(texts), C.fields(il).get("PARSE", "NONE")])
        f, mf = C.fields(il), C.fields(ml)
        print(f"find all @/{_txt(pat)}/" + (f" on {obj.get('text')!r}" if texts else ""))
        print("  compile :", f.get("COMPILE"))
        print("  parse   :", mf.get("PARSE"))
        print("  run     :", f.get("RUN"))
        print("  arbiter :", mf.get("FIND"), "(Lean Regex.findAll)")
        bad = f.get("COMPILE") != "ok" or mf.get("PARSE") != "SAME" or (texts and f.get("RUN") != mf.get("FIND"))
    elif obj.get("op") == "reparse":
        lex = bytes.fromhex(obj["lexeme_hex"])
        il, ml = _one("reparse", ["x" + lex.hex()], lambda il: ["x" + lex.hex(), C.fields(il).get("SUB", "NONE")])
        print(f"regex body {_txt(lex)!r}: implementation {il[:300]}\n  model {ml[:300]}")
        bad = "PANIC" in il or not ml.endswith("SAME")
    else:
        print(json.dumps(obj, indent=1))
        return 0
    print("STILL FAILING" if bad else "no longer failing")
    return 1 if bad else 0


_TEXT = ("Proved in Lean 4, for EVERY regular expression of the property's subset (datatype Re: literal characters, `.`, "
         "bracket classes with ranges and negation, \\d \\D \\s \\S, plain / non-capturing / named groups, * + ? {m} {m,} "
         "{m,n} greedy and lazy, alternation of single (possibly quantified) atoms or groups, ^ $ as line anchors, numbered "
         "and named back-references): (1) C14_parse / C14_parse_from - the Lean model of parser_regexp.go (one function per "
         "Go function over the pattern bytes, every regexp[i] an explicit partial access, group counter threaded) reads the "
         "printed regex Re.show r back as exactly Re.toExpr r, the tree the documented Regex-to-Vore table assigns to it "
         "(induction on r, all contexts and all fuel); (2) C14_total - on EVERY byte string the regex parser answers ok or "
         "error: below the recover of parse_regexp the recursion always continues on a strictly shorter suffix "
         "(parseRaw_ne_fuel, termination of the Go code) and the recover turns every index panic into a ParseError (regex "
         "half of C08); (3) C14_sem - for every regex of the subset whose repeated bodies cannot match the empty "
         "string (NonNullableBodies; exact counts {m} are exempt) and every text without \\r and \\f, the backtracking "
         "specification Spec.findAll of the translated tree - the one C01 proves the VM implements - reports the same "
         "non-empty spans, in the same order, with the same group texts as the textbook leftmost-first backtracking "
         "semantics Regex.findAll (two-continuation style, no rule for empty iterations; induction on r through a logical "
         "relation between the two semantics; vore's loop rule meets the textbook rule exactly under NonNullableBodies); "
         "(4) C14_callfree, C14_vm_partial, C14_find_command_partial - the translated tree is call-free, so composed with "
         "C01 the VM on the generated code of `find <amount> @/re/` returns the conventional matches under every amount "
         "clause and terminates; C14_regex_total - the conventional semantics never diverges on that domain; "
         "C14_rx_never_panics / C14_front_total - the regex parser model discharges the no-panic assumption of "
         "C08_parser_total, so the modelled front end (parser + regex sub-parser) is total. \\D is included "
         "since fix f73d71e (before it `not digit` succeeded without consuming at the end of the text and the statement was "
         "false for it); (4) is stated over the call-free generator genCF, linked to the monadic generator by "
         "gen_eq_genCF. Correspondence: generated regexes of the subset (random, "
         "depth <= 3, plus all regexes of up to 2 (quick) / 3 (thorough) items over a small alphabet, nested quantified "
         "groups inside alternations and vice versa, lazy forms, classes, anchors, back-references) x short ASCII texts "
         "without \\r/\\f: real Compile+Run of `find all @/re/` against the ARBITER Go regexp (leftmost-first, (?m), "
         "evaluated position by position with \\A(?s:.{p})(?m:(?:re)) on the whole text, empty matches skipped) - spans and "
         "group texts; with back-references the arbiter is Lean's Regex.findAll, itself compared with Go regexp on every "
         "back-reference-free pair; real parse tree vs RegexParser.parse vs Re.toExpr; a malformed-body stream (seeds, all "
         "prefixes, mutations, random bytes) checks no panic / no hang and accept/reject/tree agreement with the model.")

PROPS = {"C14": dict(
    lean_modules=["Vore.Props.C14", "Vore.Props.C14front"],
    theorems=["Vore.C14_parse", "Vore.C14_parse_from", "Vore.C14_total", "Vore.C14_total_first", "Vore.C14_sem",
              "Vore.C14_callfree", "Vore.C14_regex_total", "Vore.C14_vm_partial", "Vore.C14_find_command_partial",
              "Vore.C14_rx_never_panics", "Vore.C14_front_total"],
    run=run,
    replay=replay,
    manifest=dict(
        text=_TEXT,
        note="Trusted: Lean kernel (propext, Classical.choice, Quot.sound); Go's regexp package as the conventional "
             "engine; the hand transcription of parser_regexp.go into Vore/Model/RegexParser.lean (tied by the "
             "correspondence run: tree equality on every generated regex and on malformed bodies); C01's VM/generator "
             "model for the composed statements. Conventions where conventional engines differ among themselves, stated "
             "in Spec/Regex.lean: bytes not code points; \\s = [ \\t\\n\\r\\f]; a group keeps the value of its last "
             "participation; a back-reference to an unset group fails (Perl/PCRE); unnamed groups are numbered by "
             "opening parenthesis and named groups are not counted (.NET). The model is of the code WITH "
             "fixes/C14-group-numbering (groups were numbered by closing parenthesis). Outside the subset and recorded "
             "as observations only: `ab|cd` parses as a(b|c)d; an unbalanced `)` silently ends the pattern; `{m,n}` with "
             "m > n is accepted; a group under `{0}` is never declared, so a later back-reference to it is a GenError; "
             "non-ASCII pattern bytes are re-encoded byte by byte (string(byte)).",
        technique="Lean 4 proof by induction on the regex (parser round trip; logical relation between two backtracking "
                  "semantics; termination by suffix length) + differential correspondence with Go regexp as arbiter"),
    trusted_base=["Go's regexp package as the conventional engine (leftmost-first), evaluated position by position",
                  "transcription of libvore/ast/parser_regexp.go into Vore/Model/RegexParser.lean (tied by the correspondence run)"],
    assumptions=["texts are ASCII without \\r and \\f; matching is byte-wise",
                 "unnamed groups are numbered by opening parenthesis, named groups are not counted (.NET convention)",
                 "a back-reference to a group without a value fails (Perl/PCRE convention); a group keeps its last value"],
)}
