import argparse, fcntl, json, os, shutil, sys, time
from . import common as C
from .registry import PROPS


GENERATED = ["Extracted", "ExtractedLex", "ExtractedGlobals", "CliExtracted"]


def restore_generated():
    """The regenerated fact files are proof inputs of some properties only.  Every check starts (and
    ends) from the committed baseline copies, so a check that broke or removed one of them (e.g. an
    extractor failing closed on a modified tree) cannot disturb the next check."""
    base = os.path.join(C.LEAN, "baseline")
    for name in GENERATED:
        src = os.path.join(base, name + ".lean.txt")
        dst = os.path.join(C.LEAN, "Vore", name + ".lean")
        if os.path.exists(src):
            cur = open(dst).read() if os.path.exists(dst) else None
            want = open(src).read()
            if cur != want:
                with open(dst, "w") as f:
                    f.write(want)


# Checks may overlap in time, and they share one Lean project.  The checks below regenerate proof inputs inside it
# (or call lake again while they run): each holds the project exclusively for its whole run.  Every other check holds
# it shared while it builds, audits its theorems and takes its own copy of the driver, and never writes into it.
EXCLUSIVE = {"C08", "C11", "C12", "C15", "C16", "C18", "C19"}
_lock_fd = None


def lean_lock(exclusive):
    global _lock_fd
    os.makedirs(C.WORK, exist_ok=True)
    _lock_fd = open(os.path.join(C.WORK, "lean.lock"), "w")
    fcntl.flock(_lock_fd, fcntl.LOCK_EX if exclusive else fcntl.LOCK_SH)


def lean_unlock():
    global _lock_fd
    if _lock_fd is not None:
        fcntl.flock(_lock_fd, fcntl.LOCK_UN)
        _lock_fd.close()
        _lock_fd = None


def own_driver(log):
    src = os.path.join(C.LEAN, ".lake", "build", "bin", "vdriver")
    dst = os.path.join(C.BIN, "vdriver")
    os.makedirs(C.BIN, exist_ok=True)
    if os.path.exists(src):
        tmp = dst + ".tmp"
        shutil.copy2(src, tmp)
        os.replace(tmp, dst)
    log.append({"step": "driver copy", "ok": os.path.exists(dst)})


class Ctx:
    def __init__(self, prop, tier, seed):
        self.prop, self.tier, self.seed = prop, tier, seed
        self.log = []
        self.violations = []      # dicts: kind, what, key, replay (object)
        self.coverage = {}
        self.assumptions = []
        self.workdir = os.path.join(C.WORK, f"{prop}-{tier}")

    def violation(self, kind, what, replay, key=None, found_input=True):
        self.violations.append(dict(kind=kind, what=what, replay=replay, key=key, found_input=found_input))


def main(argv):
    ap = argparse.ArgumentParser()
    ap.add_argument("prop")
    ap.add_argument("--tier", default=os.environ.get("VERIF_TIER", "quick"))
    ap.add_argument("--replay", default=None)
    args = ap.parse_args(argv)
    prop = args.prop
    if prop not in PROPS:
        print(f"unknown property {prop}")
        return 2
    seed = int(os.environ.get("VERIF_SEED", "1"))
    spec = PROPS[prop]
    # every check builds its own copy of the harness tools (checks may overlap in time)
    C.BIN = os.path.join(C.VERIF, "bin", prop)
    ctx = Ctx(prop, args.tier, seed)
    t0 = time.time()
    shutil.rmtree(ctx.workdir, ignore_errors=True)
    os.makedirs(ctx.workdir, exist_ok=True)
    ctx.exclusive = prop in EXCLUSIVE or bool(args.replay)
    lean_lock(ctx.exclusive)
    try:
        restore_generated()
        if args.replay:
            return replay(ctx, spec, args.replay)
        return check(ctx, spec, t0)
    finally:
        if ctx.exclusive:
            restore_generated()
        lean_unlock()


def check(ctx, spec, t0):

    proof = dict(obligations=0, discharged=0, theorems=[], build_ok=True, audit_hits=[])
    # 1. harness against the current tree
    ok, out = C.build_harness(ctx.log)
    if not ok:
        ctx.violation("tie", "the verif-tagged harness no longer builds against /repo", dict(output=out[-3000:]),
                      found_input=False)
    # 2. regenerated facts
    if ok and spec.get("extract"):
        from .extract import run_extract
        eok, eout = run_extract(ctx)
        if not eok and spec.get("fallback") and "does not build" not in eout:
            C.translator_fallback(ctx, "Extracted", eout, spec["fallback"])
        elif not eok:
            ctx.violation("tie", "fact extractor failed on /repo's source (fails closed)", dict(output=eout[-3000:]),
                          found_input=False)
    # 2b. property-specific regeneration of proof inputs (e.g. other extracted fact files)
    if ok and spec.get("pre"):
        try:
            spec["pre"](ctx, spec)
        except Exception as ex:
            if spec.get("fallback") and spec.get("fallback_table") and "fails closed" in str(ex):
                C.translator_fallback(ctx, spec["fallback_table"], str(ex), spec["fallback"])
            else:
                ctx.violation("tie", f"regeneration of proof inputs failed: {ex}", dict(error=str(ex)), found_input=False)
    # 3. theorems
    mods = spec.get("lean_modules", [])
    bok, bout = C.build_lean(mods + ["vdriver"], ctx.log)
    proof["build_ok"] = bok
    if bok:
        own_driver(ctx.log)   # when the build breaks, the search runs against the last good copy
    broken = []
    if not bok:
        broken.append(dict(what="lake build failed", output=bout[-3000:]))
    for m in mods:
        mok, thms, o = C.check_props_module(m, ctx.log)
        proof["theorems"] += thms
        if not mok:
            broken.append(dict(what=f"{m} does not check", output=o[-3000:]))
    proof["obligations"] = len(proof["theorems"])
    proof["discharged"] = sum(1 for t in proof["theorems"] if t["ok"])
    for t in proof["theorems"]:
        if not t["ok"]:
            broken.append(dict(what=f"theorem {t['name']} depends on foreign axioms {t['axioms']}"))
    # thorough tier: Lean's independent re-checker replays the compiled property modules (and everything they import)
    # through the kernel
    if ctx.tier == "thorough" and bok:
        for m in mods:
            rc, o = C.sh(["lake", "env", "leanchecker", m], cwd=C.LEAN, timeout=3000)
            ctx.log.append({"step": "lake env leanchecker " + m, "rc": rc, "out": o[-1500:]})
            proof.setdefault("leanchecker", []).append(dict(module=m, ok=(rc == 0)))
            if rc != 0:
                broken.append(dict(what=f"leanchecker rejects {m}", output=o[-3000:]))
    hits = C.audit_sources()
    proof["audit_hits"] = hits
    if hits:
        broken.append(dict(what="forbidden construct in Lean sources", hits=hits))
    expected = spec.get("theorems", [])
    have = {t["name"] for t in proof["theorems"]}
    for e in expected:
        if e not in have:
            broken.append(dict(what=f"expected theorem {e} was not checked"))
    # 4. correspondence + failing-input search
    if not ctx.exclusive:
        lean_unlock()
    if ok:
        try:
            spec["run"](ctx, spec)
        except Exception as ex:  # the machinery itself failed: report, never pass silently
            import traceback
            ctx.violation("machinery", f"check machinery failed: {ex}", dict(trace=traceback.format_exc()),
                          found_input=False)
    if broken and not any(v["found_input"] for v in ctx.violations):
        ctx.violation("obligation", "proof obligation no longer checks: " + broken[0]["what"],
                      dict(broken=broken), found_input=False)
    return finish(ctx, spec, proof, t0)


def finish(ctx, spec, proof, t0):
    if ctx.exclusive:
        restore_generated()
    known = [k for k in C.load_known_findings() if k.get("property") == ctx.prop]
    out_lines = []
    nviol = 0
    seen_known = set()
    n = 0
    reported = set()
    for v in ctx.violations:
        k = v.get("key")
        kf = next((x for x in known if k is not None and x.get("key") == k), None)
        if kf is not None:
            if k not in seen_known:
                seen_known.add(k)
                out_lines.append(f"KNOWN-FINDING: property={ctx.prop} {kf.get('what', v['what'])}")
            continue
        sig = (v["kind"], k if k is not None else v["what"])
        if sig in reported:
            continue
        reported.add(sig)
        if nviol >= 5:
            nviol += 1
            continue
        n += 1
        path = C.write_replay(ctx.prop, ctx.seed, n, dict(property=ctx.prop, kind=v["kind"], what=v["what"],
                                                          tier=ctx.tier, seed=ctx.seed, **(v["replay"] or {})))
        tail = "" if v["found_input"] else " no-failing-input-found"
        out_lines.append(f"VIOLATION property={ctx.prop} replay={path}{tail}")
        nviol += 1
    cov = dict(ctx.coverage)
    if getattr(ctx, "fallbacks", None):
        cov["translator_fallback"] = ctx.fallbacks
        ctx.assumptions.append("this run: a translator could not read the restructured source of " +
                               ", ".join(f["table"] for f in ctx.fallbacks) + "; theorems checked over the table of the "
                               "unchanged tree, tie = the exhaustive correspondence named under coverage.translator_fallback")
    cov.update(obligations=proof["obligations"], discharged=proof["discharged"],
               checker_cmd="lake build " + " ".join(spec.get("lean_modules", [])) +
                           " && lake env lean <Props file> (#print axioms), source audit grep" +
                           ("; lake env leanchecker <module> (thorough tier)" if ctx.tier == "thorough" else ""),
               trusted_base=spec.get("trusted_base", []) + [
                   "Lean 4.33.0 kernel; axioms per theorem listed under coverage.theorems",
                   "hand-written Lean model tied to the Go code by the correspondence run of this check",
               ],
               theorems=proof["theorems"], audit_hits=proof["audit_hits"], leanchecker=proof.get("leanchecker", []))
    ev = dict(property_id=ctx.prop, tier=ctx.tier, seed=ctx.seed, level="proof", coverage=cov,
              assumptions=spec.get("assumptions", []) + ctx.assumptions,
              wall_s=round(time.time() - t0, 2), violations=nviol,
              log=[{k: (v if k != "out" else v[-400:]) for k, v in e.items()} for e in ctx.log])
    if C.REPO == "/repo":
        C.write_evidence(ctx.prop, ev)
    else:
        # a scratch copy of the repository (VERIF_REPO, used to try seeded changes): the committed evidence
        # must describe /repo itself, so this run's record goes to the work directory
        with open(os.path.join(ctx.workdir, "evidence-scratch.json"), "w") as f:
            json.dump(ev, f, indent=1)
    # append-only record of every violation reported (post-mortem of anything that does not reproduce)
    try:
        with open(os.path.join(C.WORK, "violations.log"), "a") as f:
            for v in ctx.violations:
                f.write(json.dumps(dict(t=time.strftime("%F %T"), prop=ctx.prop, tier=ctx.tier, seed=ctx.seed,
                                        repo=C.REPO, kind=v["kind"], what=v["what"], key=v.get("key"),
                                        replay=v.get("replay")))[:6000] + "\n")
    except OSError:
        pass
    for l in out_lines:
        print(l)
    print(f"{ctx.prop} {ctx.tier}: obligations {proof['discharged']}/{proof['obligations']}, "
          f"cases {cov.get('evaluations', 0)}, violations {nviol}, {ev['wall_s']}s")
    return 1 if nviol else 0


def replay(ctx, spec, path):
    obj = json.load(open(path))
    ok, out = C.build_harness(ctx.log)
    if not ok:
        print("harness build failed")
        return 1
    C.build_lean(["vdriver"], ctx.log)
    own_driver(ctx.log)
    rf = spec.get("replay")
    if rf is None:
        print(json.dumps(obj, indent=1))
        return 0
    return rf(ctx, spec, obj)
