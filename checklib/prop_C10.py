import os
import subprocess
from . import search as S
from . import common as C


def rerun_big(src, text, timeout=40):
    """the real engine on one case with 50x the step budget, alone: 'OK …', 'DIVERGE', 'TIMEOUT', 'PANIC …'"""
    exe = os.path.join(C.BIN, "vharness")
    try:
        o = subprocess.run([exe, "one", "runbig", "raw:x" + src.hex(), "raw:x" + text.hex()], stdout=subprocess.PIPE,
                           stderr=subprocess.DEVNULL, text=True, timeout=timeout).stdout.strip()
    except subprocess.TimeoutExpired:
        return "TIMEOUT"
    return C.fields(o).get("RES", o[:60])


def run(ctx, spec):
    cases, impl, model, stats = S.gen_and_run(ctx, "C10")
    # (a) the random stream with calls / guarded recursion: model vs implementation, budget mismatches are verdicts here
    mism, counters, samples = S.compare_run(ctx, cases, impl, model, S.ALL_FIELDS,
                                            "result differs from the VM model", treat_budget_as_ok=False)
    mism = [m for m in mism if not (m["impl"] in ("DIVERGE", "HANG") and m["model"] == "DIVERGE")]
    # the step budgets of the two sides are not comparable (the harness counts the steps of the whole Run, the model
    # bounds each attempt), and a search with exponential backtracking is long, not endless: a DIVERGE of the real
    # engine where the model answered is decided by running that case alone with 50x the budget
    kept, long_searches, reruns = [], 0, 0
    for m in mism:
        if m["impl"] == "DIVERGE" and m["model"].startswith("OK") and reruns < 3:
            reruns += 1
            big = rerun_big(m["src"], m["text"])
            if big.strip() == m["model"].strip():
                long_searches += 1
                continue
            m = dict(m, impl="DIVERGE; with 50x the budget: " + big[:200],
                     what="the search does not end within 20M steps (or ends with a different result) where the model answers")
        kept.append(m)
    mism = kept
    # (a') the theorem's own criterion: where C10_terminates_guardedB applies to every search command of the program
    # (GUARD k/k printed by the driver), the real engine must return — whatever the VM model did on that case
    guarded_cases = recursive_cases = inconclusive = 0
    for cid, cline in cases.items():
        parts = cline.split("\t")
        if parts[0] != "run" or model.get(cid) is None:
            continue
        gd = C.fields(model[cid]).get("GUARD")
        if not gd:
            continue
        recursive_cases += 1
        k, n = gd.split("/")
        if k != n:
            continue
        guarded_cases += 1
        il = impl.get(cid, "MISSING")
        ires = C.fields(il).get("RES", il.split("\t")[0])
        if ires in ("DIVERGE", "HANG") or il in ("HANG", "CRASH"):
            src, text = C.unhex(parts[1]), C.unhex(parts[2])
            if C.fields(model[cid]).get("RES") == "DIVERGE":
                # the model, which takes the same steps, does not finish within its budget either: a long
                # (exponential) search; inconclusive, counted
                inconclusive += 1
                continue
            # budget exceeded is not yet non-termination: decide with the large budget (a few cases; many
            # divergences are systematic and reported as they are)
            big = "not re-run"
            if reruns < 3:
                reruns += 1
                big = rerun_big(src, text)
            if big.startswith("OK"):
                long_searches += 1
                continue
            il = il[:100] + " ; with 50x the budget: " + big[:100]
            ctx.violation("failing-input", "the search does not terminate although the program has no unguarded recursion "
                          "(guardedB holds, C10_terminates_guardedB applies)",
                          dict(case_id=cid, source=src.decode("latin1"), text=text.decode("latin1"), text_hex=text.hex(),
                               implementation=il[:200]), key=S.case_key(src, text))
    counters.update(programs_with_subroutines=recursive_cases, guarded_by_criterion=guarded_cases,
                    long_searches_decided_with_large_budget=long_searches,
                    guarded_but_budget_exceeded_on_both_sides=inconclusive)
    # (b) the exhaustive enumeration of nullable nests
    nprog = ntext = nspec = 0
    max_steps = 0
    for cid, cline in cases.items():
        parts = cline.split("\t")
        if parts[0] != "runmany":
            continue
        src = C.unhex(parts[1])
        texts = [C.unhex(t) for t in parts[2].split(",")]
        il, ml = impl.get(cid, "MISSING"), model.get(cid)
        if il.startswith("COMPILE ERR"):
            continue
        nprog += 1
        fi = C.fields(il)
        if "RES" not in fi:
            ctx.violation("failing-input", "the engine hung or crashed on a program without recursion: " + il[:40],
                          dict(case_id=cid, source=src.decode("latin1"), texts="all texts up to the bound over {a,b,\\n}",
                               implementation=il[:200]), key=S.case_key(src, b"*"))
            continue
        max_steps = max(max_steps, int(fi.get("STEPS", "0")))
        ires = fi["RES"].split("|")
        mres = C.fields(ml).get("RES", "").split("|") if ml else []
        mspec = C.fields(ml).get("SPEC", "") if ml else ""
        for i, t in enumerate(texts):
            ntext += 1
            ir = ires[i] if i < len(ires) else "MISSING"
            mr = mres[i] if i < len(mres) else "MISSING"
            if ir.startswith("PANIC"):
                ir = "PANIC"
            if ir in ("DIVERGE", "MISSING") or ir != mr:
                what = ("the search does not terminate within the step budget (program without recursion)"
                        if ir == "DIVERGE" else "result differs from the model / specification")
                ctx.violation("failing-input", what,
                              dict(case_id=cid, source=src.decode("latin1"), text=t.decode("latin1"), text_hex=t.hex(),
                                   implementation=ir[:300], model_and_spec=mr[:300]), key=S.case_key(src, t))
        if mspec.startswith("ok"):
            nspec += int(mspec.split(" ")[1])
        elif mspec.startswith("fail"):
            t = C.unhex(mspec.split(" ")[1])
            ctx.violation("failing-input", "the implementation's result differs from Spec.findAll",
                          dict(case_id=cid, source=src.decode("latin1"), text=t.decode("latin1"), text_hex=t.hex()),
                          key=S.case_key(src, t))
    counters.update(enumerated_programs=nprog, enumerated_runs=ntext, spec_compared=nspec, max_steps_seen=max_steps,
                    step_budget=400000)
    ctx.coverage.update(evaluations=counters["evaluations"] + ntext, distinct_nontrivial=nprog,
                        rule="exhaustive: every nullable-body nest up to the tier's depth x every text over {a,b,\\n} up to the "
                             "tier's length, plus a random stream with calls and guarded recursion; non-trivial = distinct "
                             "enumerated programs; the step budget is compared with the largest step count seen",
                        samples=samples + [dict(enumerated_programs=nprog, texts_each=ntext // max(nprog, 1))],
                        counters=counters, generator=stats, exhaustive=True)
    S.report(ctx, mism)


PROPS = {"C10": dict(
    lean_modules=["Vore.Props.C10"],
    theorems=["Vore.C10_terminates_callfree", "Vore.C10_spec_total", "Vore.C10_fuel_monotone",
              "Vore.C10_spec_total_guarded", "Vore.C10_terminates_guarded", "Vore.C10_terminates_guardedB",
              "Vore.C10_terminates_guarded_source"],
    run=run,
    manifest=dict(
        text="Proved in Lean for every program without subroutines and every input: the search returns (some fuel suffices, "
             "every amount clause) — because the specification is total (an optional iteration that consumed nothing is "
             "rejected; consumption is bounded by the text; loop fuel |text|+2 is never exhausted) and the VM simulates it "
             "(C10_terminates_callfree, C10_spec_total, C10_fuel_monotone). Stage 2, subroutines, global patterns and "
             "RECURSION (C10_terminates_guarded, C10_spec_total_guarded, decidable form C10_terminates_guardedB): if every "
             "call stands behind something that must consume a byte since the enclosing subroutine body was entered, or "
             "goes to a subroutine of strictly smaller rank, and predicates evaluate, then for every input the "
             "specification answers within call depth (|text|+1)*R and the VM on the generated code returns exactly that "
             "answer under every amount clause (lexicographic measure: text left at body entry, rank). PARTIAL: the "
             "guardedness criterion is conservative (consumption inside a callee or a loop is not counted as a guard); named loops are outside the resolved language; the two-pass generator is tied to "
             "generate.go by L4 correspondence. Correspondence/search: the driver evaluates the criterion on every "
             "generated program with subroutines and the real engine must return wherever it holds; exhaustive enumeration of nullable nests (maybe, at least 0, "
             "anchors, negated anchors, not in, fewest, nested unbounded loops) to depth 2 (quick) / 3 (thorough) x all "
             "texts over {a,b,\\n} to length 3 / 4 on the real engine with a VM step counter (hook), compared with the "
             "model and with Spec.findAll; the budget (400k steps) is orders of magnitude above the largest count seen "
             "(recorded in the evidence).",
        note="Trusted: Lean kernel; VM model fidelity by correspondence; step hook counts instructions of the real VM loop.",
        technique="Lean 4 totality + simulation proof; exhaustive small-scope enumeration with a step budget as validation"),
)}
