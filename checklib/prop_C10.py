from . import search as S
from . import common as C


def run(ctx, spec):
    cases, impl, model, stats = S.gen_and_run(ctx, "C10")
    # (a) the random stream with calls / guarded recursion: model vs implementation, budget mismatches are verdicts here
    mism, counters, samples = S.compare_run(ctx, cases, impl, model, S.ALL_FIELDS,
                                            "result differs from the VM model", treat_budget_as_ok=False)
    mism = [m for m in mism if not (m["impl"] in ("DIVERGE", "HANG") and m["model"] == "DIVERGE")]
    # (b) the exhaustive enumeration of nullable nests
    nprog = ntext = nspec = 0
    max_steps = 0
    for cid, cline in cases.items():
        parts = cline.split("\t")
        if parts[0] != "runmany":
            continue
        src = C.unhex(parts[1])
        texts = [C.unhex(t) for t in parts[2].split(",")]
        il, ml = impl.get(cid, "MISSING"), model.get(cid)
        if il.startswith("COMPILE ERR"):
            continue
        nprog += 1
        fi = C.fields(il)
        if "RES" not in fi:
            ctx.violation("failing-input", "the engine hung or crashed on a program without recursion: " + il[:40],
                          dict(case_id=cid, source=src.decode("latin1"), texts="all texts up to the bound over {a,b,\\n}",
                               implementation=il[:200]), key=S.case_key(src, b"*"))
            continue
        max_steps = max(max_steps, int(fi.get("STEPS", "0")))
        ires = fi["RES"].split("|")
        mres = C.fields(ml).get("RES", "").split("|") if ml else []
        mspec = C.fields(ml).get("SPEC", "") if ml else ""
        for i, t in enumerate(texts):
            ntext += 1
            ir = ires[i] if i < len(ires) else "MISSING"
            mr = mres[i] if i < len(mres) else "MISSING"
            if ir.startswith("PANIC"):
                ir = "PANIC"
            if ir in ("DIVERGE", "MISSING") or ir != mr:
                what = ("the search does not terminate within the step budget (program without recursion)"
                        if ir == "DIVERGE" else "result differs from the model / specification")
                ctx.violation("failing-input", what,
                              dict(case_id=cid, source=src.decode("latin1"), text=t.decode("latin1"), text_hex=t.hex(),
                                   implementation=ir[:300], model_and_spec=mr[:300]), key=S.case_key(src, t))
        if mspec.startswith("ok"):
            nspec += int(mspec.split(" ")[1])
        elif mspec.startswith("fail"):
            t = C.unhex(mspec.split(" ")[1])
            ctx.violation("failing-input", "the implementation's result differs from Spec.findAll",
                          dict(case_id=cid, source=src.decode("latin1"), text=t.decode("latin1"), text_hex=t.hex()),
                          key=S.case_key(src, t))
    counters.update(enumerated_programs=nprog, enumerated_runs=ntext, spec_compared=nspec, max_steps_seen=max_steps,
                    step_budget=400000)
    ctx.coverage.update(evaluations=counters["evaluations"] + ntext, distinct_nontrivial=nprog,
                        rule="exhaustive: every nullable-body nest up to the tier's depth x every text over {a,b,\\n} up to the "
                             "tier's length, plus a random stream with calls and guarded recursion; non-trivial = distinct "
                             "enumerated programs; the step budget is compared with the largest step count seen",
                        samples=samples + [dict(enumerated_programs=nprog, texts_each=ntext // max(nprog, 1))],
                        counters=counters, generator=stats, exhaustive=True)
    S.report(ctx, mism)


PROPS = {"C10": dict(
    lean_modules=["Vore.Props.C10"],
    theorems=["Vore.C10_terminates_callfree", "Vore.C10_spec_total", "Vore.C10_fuel_monotone"],
    run=run,
    manifest=dict(
        text="Proved in Lean for every program without subroutines and every input: the search returns (some fuel suffices, "
             "every amount clause) — because the specification is total (an optional iteration that consumed nothing is "
             "rejected; consumption is bounded by the text; loop fuel |text|+2 is never exhausted) and the VM simulates it "
             "(C10_terminates_callfree, C10_spec_total, C10_fuel_monotone). PARTIAL: guarded recursive subroutines are "
             "not under the theorem. Correspondence/search: exhaustive enumeration of nullable nests (maybe, at least 0, "
             "anchors, negated anchors, not in, fewest, nested unbounded loops) to depth 2 (quick) / 3 (thorough) x all "
             "texts over {a,b,\\n} to length 3 / 4 on the real engine with a VM step counter (hook), compared with the "
             "model and with Spec.findAll; the budget (400k steps) is orders of magnitude above the largest count seen "
             "(recorded in the evidence).",
        note="Trusted: Lean kernel; VM model fidelity by correspondence; step hook counts instructions of the real VM loop.",
        technique="Lean 4 totality + simulation proof; exhaustive small-scope enumeration with a step budget as validation"),
)}
