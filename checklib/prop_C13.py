from . import search as S
from . import common as C

_SPAN = ["start", "end", "value"]


def run(ctx, spec):
    cases, impl, model, stats = S.gen_and_run(ctx, "C13")
    mism, counters, samples = S.compare_run(ctx, cases, impl, model, S.ALL_FIELDS,
                                            "result differs from the VM model (relocation / inlining of definitions)")
    pf, npred = S.pred_failures(cases, impl, model, "spec2")
    counters["pred_spec2_evaluated"], counters["pred_spec2_failed"] = npred, len(pf)
    mism = pf + mism
    # (a) in place / inline subroutine / global pattern must find the same spans
    groups = {}
    for cid, cline in cases.items():
        if cid.startswith("e") and ".v" in cid:
            groups.setdefault(cid.split(".v")[0], []).append(cid)
    ngroups = equal_groups = same_flat = diff_flat = 0
    for gid, ids in groups.items():
        # the hypothesis of C13_spellings_same_vm_results, computed by the Lean driver per spelling: the fingerprint
        # of the flattened resolved body of the last search command
        flats = {C.fields(model[c]).get("FLAT", "?").split(",")[-1] for c in ids if model.get(c)}
        if len(flats) == 1 and "-" not in flats and "?" not in flats:
            same_flat += 1
        else:
            diff_flat += 1
        outs = []
        for cid in sorted(ids):
            parts = cases[cid].split("\t")
            src, text = C.unhex(parts[1]), C.unhex(parts[2])
            il = impl.get(cid, "MISSING")
            res = C.fields(il).get("RES", il.split("\t")[0])
            if res.startswith("PANIC"):
                res = "PANIC"
            outs.append((cid, src, text, res, S.project(res, text, _SPAN)))
        if any(o[3].startswith("COMPILE") or o[3] in ("DIVERGE", "HANG") for o in outs):
            continue
        ngroups += 1
        if len({o[4] for o in outs}) == 1:
            equal_groups += 1
            continue
        base = outs[0]
        for o in outs[1:]:
            if o[4] != base[4]:
                ctx.violation("failing-input", "naming the body changes what it matches (in place vs inline subroutine vs set..to pattern)",
                              dict(case_id=o[0], source_in_place=base[1].decode("latin1"), source_named=o[1].decode("latin1"),
                                   text=o[2].decode("latin1"), result_in_place=base[3][:300], result_named=o[3][:300]),
                              key=S.case_key(o[1], o[2]))
                break
    # (b) concatenation, repetition, recompilation
    nconcat = 0
    for cid, cline in cases.items():
        parts = cline.split("\t")
        if parts[0] != "concat":
            continue
        il = impl.get(cid, "MISSING")
        if il.startswith("COMPILE"):
            continue
        f = C.fields(il)
        defs = C.unhex(parts[1]).decode("latin1")
        cmds = [C.unhex(c).decode("latin1") for c in parts[2].split(",")]
        text = C.unhex(parts[3])
        full = f.get("RES", "MISSING")
        if not full.startswith("OK") or "DIVERGE" in il:
            continue
        nconcat += 1
        src = (defs + "\n" + "\n".join(cmds)).encode("latin1")
        for label in ("AGAIN", "RECOMPILED", "AFTER", "AFTERFAIL"):
            if f.get(label) != full:
                ctx.violation("failing-input", f"running again / recompiling gives a different result ({label})",
                              dict(case_id=cid, source=src.decode("latin1"), text=text.decode("latin1"), first=full[:300],
                                   other=str(f.get(label))[:300]), key=S.case_key(src, text + label.encode()))
        pieces = f.get("PARTS", "").split("|")
        if all(p.startswith("OK") for p in pieces):
            joined = ";".join(p[3:] for p in pieces if len(p) > 3)
            if joined != full[3:]:
                ctx.violation("failing-input", "the result of the multi-command source is not the concatenation of its commands taken alone with their definitions",
                              dict(case_id=cid, definitions=defs, commands=cmds, text=text.decode("latin1"), whole=full[:400],
                                   parts=[p[:200] for p in pieces]), key=S.case_key(src, text))
    counters.update(variant_groups=ngroups, variant_groups_equal=equal_groups, concat_cases=nconcat,
                    variant_groups_with_equal_flattening=same_flat, variant_groups_with_other_flattening=diff_flat)
    ctx.coverage.update(evaluations=counters["evaluations"] + nconcat, distinct_nontrivial=counters["with_matches"],
                        rule="(a) a capture-free body in place / as inline subroutine + calls / as set..to pattern in 6 contexts with "
                             "1-3 references, the three variants must find the same spans on the implementation and each equals the "
                             "model; (b) 1-3 commands sharing 1-2 definitions: whole = concatenation of parts, second run, "
                             "recompilation, run after other runs; non-trivial = model reports a match",
                        samples=samples, counters=counters, generator=stats,
                        structural_agreement=(counters["code_drift"] == 0))
    S.report(ctx, mism)
    S.report_drift(ctx, counters)


PROPS = {"C13": dict(
    lean_modules=["Vore.Props.C13"],
    theorems=["Vore.C13_relocate_atoms", "Vore.C13_concat", "Vore.C13_sub_transparent", "Vore.C13_call_transparent", "Vore.C13_global_transparent", "Vore.C13_vm_follows_spec",
              "Vore.C13_transparent_in_context", "Vore.C13_same_flattening_same_matches", "Vore.C13_spellings_same_vm_results", "Vore.C13_meaning_is_expansion"],
    run=run,
    manifest=dict(
        text="Proved in Lean: the result of a multi-command program is the concatenation of its commands' results "
             "(C13_concat, runProgram); running is a function of (bytecode, text) only and never changes the bytecode "
             "(by construction of the functional model, no theorem claimed: the correspondence run checks second runs, runs "
             "after other runs and recompilation on the REAL code); relocation (adjust) is the identity on leaf instructions and "
             "shifts every pc-carrying field by the same offset (C13_relocate_atoms). Transparency: in the specification a "
             "subroutine node matches exactly what its body matches in place, a call exactly what the target's body matches "
             "at the point of reference, a global pattern its body then its predicate (C13_sub_transparent, "
             "C13_call_transparent, C13_global_transparent), and by the subroutine-aware simulation (C01 stage 2) two "
             "spellings with the same specification have the same VM results (C13_vm_follows_spec). In EVERY context "
             "(C13_transparent_in_context): matching with calls nested at most cf deep is, as a function of the data and both "
             "continuations, the call-free matching of the expression in which every call is replaced by its target's body "
             "(and predicate) and every {B} = s by B, cf levels deep; hence spellings with the same flattening report the same "
             "matches (C13_same_flattening_same_matches) and the same VM results under every amount clause whenever the "
             "specification answers (C13_spellings_same_vm_results; the three spellings of the property flatten to the same "
             "expression: proved for a concrete instance by rfl, computed by the driver for every generated triple and "
             "counted in the evidence). Moreover, when the flattening leaves no call and no predicate, the "
             "matches ARE those of the call-free pattern with every definition written out in place, whose specification "
             "is the declarative list reading Spec.outs (C13_meaning_is_expansion). PARTIAL: that `in place`, `{B} = s .. s` "
             "and `set s to pattern B .. s` ALWAYS flatten "
             "alike is checked per generated triple, not proved for all B and contexts. Metamorphic correspondence: the three spellings in 6 contexts with 1-3 "
             "references must find the same spans on the implementation, and each equals the VM model and Spec.findAllR "
             "(bytecode of the two-pass generator compared with the real generator's as L4).",
        note="Trusted: Lean kernel; Gen model (first reference inlines a relocated copy, later ones call it) by correspondence.",
        technique="Lean 4 proofs about runProgram/adjust + metamorphic and differential correspondence"),
)}
