"""C20 — a -files pattern selects exactly the files it describes.

Three streams (harness/cmd/vharness/prop_c20.go), each case run on the real code
(files.VerifPathMatches, files.ParsePath(p).GetFileList(dir) on a scratch tree), on the Lean
model (Path.pathMatches, Path.fileList) and on the specification (Spec.Glob.matches,
Spec.Glob.selected):

  pathmatchrow  one pattern x every name over an alphabet up to a length (exhaustive)
  pathmatch     one (name, pattern) pair (longer, random)
  filelist      one directory tree x one pattern, relative or absolute

Verdict: the implementation's answer against the *specification's* (the theorems of
Props/C20.lean make model = specification for every input, so a disagreement between code and
model is a disagreement between code and property).  For `filelist` only cases inside the
property's domain (the Lean side evaluates the hypotheses of C20_list: DOM, WF) bear a
verdict, and lists are compared as multisets (missing / extra / duplicate / directory); order
differences and differences outside the domain are recorded as drift, not as violations.
"""
import hashlib, itertools, json, os, subprocess
from . import common as C
from . import search as S


def _key(*parts):
    h = hashlib.sha1()
    for p in parts:
        h.update(p if isinstance(p, bytes) else p.encode())
        h.update(b"\0")
    return h.hexdigest()[:12]


def _txt(b):
    return b.decode("latin1")


def names_upto(alpha: bytes, n: int):
    out = []
    for k in range(n + 1):
        for t in itertools.product(alpha, repeat=k):
            out.append(bytes(t))
    return out


def parse_list(res):
    """'OK x..,x..' -> list of path strings (bytes); entries starting with '!' keep the mark"""
    body = res[3:] if len(res) > 3 else ""
    if body == "":
        return []
    out = []
    for p in body.split(","):
        if p.startswith("!"):
            out.append(b"!" + C.unhex(p[1:]))
        else:
            out.append(C.unhex(p))
    return out


def show_tree(enc):
    """token encoding -> indented listing"""
    lines, depth = [], 0
    for t in enc.split(" "):
        if not t:
            continue
        if t == "U":
            depth -= 1
        elif t[0] == "F":
            lines.append("  " * depth + _txt(C.unhex(t[1:])))
        elif t[0] == "D":
            lines.append("  " * depth + _txt(C.unhex(t[1:])) + "/")
            depth += 1
    return lines


def tree_dirs(enc):
    """relative paths of the directories of the tree"""
    out, stack = set(), []
    for t in enc.split(" "):
        if not t:
            continue
        if t == "U":
            stack.pop()
        elif t[0] == "D":
            stack.append(C.unhex(t[1:]))
            out.add(b"/".join(stack))
    return out


def judge_pair(name, pat, impl, m, s):
    """-> (violation dict | None, machinery message | None)"""
    if m != s:
        return None, f"model {m} and specification {s} differ on name={name!r} pattern={pat!r} (contradicts C20_segment)"
    if impl == s:
        return None, None
    if impl == "P" or impl.startswith("PANIC"):
        what = f"pathMatches panics on name {_txt(name)!r}, pattern {_txt(pat)!r}"
    elif s == "T":
        what = (f"pattern {_txt(pat)!r} describes the name {_txt(name)!r} (every `*` = some run of characters) "
                f"but pathMatches rejects it: such a file is missing from the list")
    else:
        what = (f"pattern {_txt(pat)!r} does not describe the name {_txt(name)!r} but pathMatches accepts it: "
                f"such a file is listed although it does not match")
    return dict(what=what, key=_key("pm", name, pat),
                replay=dict(op="pathmatch", name=_txt(name), pattern=_txt(pat), name_hex=name.hex(),
                            pattern_hex=pat.hex(), implementation=impl[:1] if impl[:1] in "TFP" else impl,
                            model=m, specification=s),
                size=len(name) + len(pat) + (100 if name in (b".", b"..", b"") else 0)), None


def judge_filelist(enc, pat, mode, il, mf):
    """-> (verdict, info) with verdict in ok | violation | drift | order | machinery | err"""
    dom, wf = mf.get("DOM") == "T", mf.get("WF") == "T"
    mres, sres = mf.get("M", "?"), mf.get("S", "?")
    if il.startswith("ERR") or il.startswith("HARNESS") or il in ("HANG", "CRASH", "MISSING") or il.startswith("PROTOCOL"):
        return "err", dict(impl=il)
    in_domain = dom and wf
    if in_domain and mres != sres:
        return "machinery", dict(msg=f"model {mres} and specification {sres} differ inside the domain "
                                     f"(contradicts C20_list) on pattern {pat!r} mode {mode}")
    expected = parse_list(sres)
    if il.startswith("PANIC"):
        got, gotl = None, None
    else:
        gotl = parse_list(il)
        got = sorted(gotl)
    if not in_domain:
        mm = None if mres == "PANIC" else sorted(parse_list(mres))
        return ("ok" if got == mm else "drift"), dict(impl=il, model=mres)
    if got is None:
        return "violation", dict(what=f"GetFileList panics for pattern {_txt(pat)!r} ({mode})", got=None,
                                 expected=expected, problems=["panic: " + il])
    if got == sorted(expected):
        return ("ok" if gotl == expected else "order"), dict(n=len(expected))
    dirs = tree_dirs(enc)
    problems = []
    exp_set, got_set = set(expected), set(got)
    for p in sorted(exp_set - got_set):
        problems.append("missing: " + _txt(p))
    for p in sorted(got_set - exp_set):
        if p in dirs:
            problems.append("directory listed as a file: " + _txt(p))
        else:
            problems.append("extra: " + _txt(p))
    for p in sorted(got_set):
        if got.count(p) > 1:
            problems.append(f"listed {got.count(p)} times: " + _txt(p))
    return "violation", dict(what=f"the file list for pattern {_txt(pat)!r} ({mode}) is not the set of matching regular "
                                  f"files: " + "; ".join(problems[:4]),
                             got=gotl, expected=expected, problems=problems)


def run(ctx, spec):
    cases, impl, model, stats = S.gen_and_run(ctx, "C20")
    cnt = dict(row_cases=0, row_pairs=0, random_pairs=0, pair_matches=0, pair_mismatch=0,
               filelist_cases=0, filelist_in_domain=0, filelist_nonempty=0, filelist_multi=0, filelist_mismatch=0,
               filelist_order_differs=0, drift_outside_domain=0, outside_domain=0, impl_err=0,
               listed_files=0, corpus=0)
    viol = []          # dicts with what, key, replay, size
    machinery = []
    drift_samples = []
    samples = []
    distinct_matching = set()
    for cid, cline in cases.items():
        parts = cline.split("\t")
        op = parts[0]
        il = impl.get(cid, "MISSING")
        ml = model.get(cid)
        if cid.startswith("corpus-"):
            cnt["corpus"] += 1
        if ml is None or ml in ("BADCASE", "BADOP"):
            machinery.append(f"no model answer for case {cid}: {ml}")
            continue
        mf = C.fields(ml)
        if op == "pathmatch":
            name, pat = C.unhex(parts[1]), C.unhex(parts[2])
            cnt["random_pairs"] += 1
            if mf.get("S") == "T":
                cnt["pair_matches"] += 1
                distinct_matching.add((name, pat))
            v, mach = judge_pair(name, pat, il, mf.get("M"), mf.get("S"))
            if mach:
                machinery.append(mach)
            if v:
                cnt["pair_mismatch"] += 1
                viol.append(v)
            elif len(samples) < 2 and mf.get("S") == "T" and b"*" in pat:
                samples.append(dict(op="pathmatch", name=_txt(name), pattern=_txt(pat), all_three=il))
        elif op == "pathmatchrow":
            pat, alpha, n = C.unhex(parts[1]), C.unhex(parts[2]), int(parts[3])
            names = names_upto(alpha, n)
            cnt["row_cases"] += 1
            ib = il[2:] if il.startswith("R ") else None
            mb, sb = mf.get("M", ""), mf.get("S", "")
            if ib is None or not (len(ib) == len(mb) == len(sb) == len(names)):
                machinery.append(f"row {cid}: malformed answers impl={il[:40]!r} model={ml[:40]!r}")
                continue
            cnt["row_pairs"] += len(names)
            if ib == mb == sb:
                k = sb.count("T")
                cnt["pair_matches"] += k
                if k:
                    for i, ch in enumerate(sb):
                        if ch == "T":
                            distinct_matching.add((names[i], pat))
                continue
            for i, name in enumerate(names):
                if sb[i] == "T":
                    cnt["pair_matches"] += 1
                    distinct_matching.add((name, pat))
                v, mach = judge_pair(name, pat, ib[i], mb[i], sb[i])
                if mach:
                    machinery.append(mach)
                if v:
                    cnt["pair_mismatch"] += 1
                    viol.append(v)
        elif op == "filelist":
            enc, pat, mode = parts[1], C.unhex(parts[2]), parts[3]
            cnt["filelist_cases"] += 1
            verdict, info = judge_filelist(enc, pat, mode, il, mf)
            dom = mf.get("DOM") == "T" and mf.get("WF") == "T"
            if dom:
                cnt["filelist_in_domain"] += 1
            else:
                cnt["outside_domain"] += 1
            if verdict == "err":
                cnt["impl_err"] += 1
                machinery.append(f"case {cid}: the harness could not run the case: {info['impl'][:200]}")
            elif verdict == "machinery":
                machinery.append(info["msg"])
            elif verdict == "drift":
                cnt["drift_outside_domain"] += 1
                if len(drift_samples) < 3:
                    drift_samples.append(dict(tree=show_tree(enc), pattern=_txt(pat), mode=mode,
                                              implementation=info["impl"], model=info["model"]))
            elif verdict == "violation":
                cnt["filelist_mismatch"] += 1
                viol.append(dict(what=info["what"], key=_key("fl", enc, pat, mode),
                                 replay=dict(op="filelist", tree=show_tree(enc), tree_encoding=enc,
                                             pattern=_txt(pat), pattern_hex=pat.hex(), mode=mode,
                                             implementation=None if info["got"] is None else [_txt(p) for p in info["got"]],
                                             model_and_specification=[_txt(p) for p in info["expected"]],
                                             problems=info["problems"]),
                                 size=1000 + len(enc) + len(pat)))
            else:
                if verdict == "order":
                    cnt["filelist_order_differs"] += 1
                if dom and info.get("n", 0) > 0:
                    cnt["filelist_nonempty"] += 1
                    cnt["listed_files"] += info["n"]
                    if info["n"] > 1:
                        cnt["filelist_multi"] += 1
                    if len(samples) < 5 and info["n"] > 1 and b"/" in pat:
                        samples.append(dict(op="filelist", tree=show_tree(enc), pattern=_txt(pat), mode=mode,
                                            all_three=[_txt(p) for p in parse_list(mf.get("S", "OK "))]))
    evaluations = cnt["row_pairs"] + cnt["random_pairs"] + cnt["filelist_cases"]
    ctx.coverage.update(
        evaluations=evaluations,
        distinct_nontrivial=len(distinct_matching) + cnt["filelist_nonempty"],
        rule="evaluations = (name, pattern) pairs through pathMatches (exhaustive rows + random pairs) + "
             "(tree, pattern, mode) cases through ParsePath/GetFileList; non-trivial = distinct pairs the "
             "specification says match + in-domain tree cases whose expected list is not empty",
        samples=samples, counters=cnt, generator=stats, drift_outside_domain_samples=drift_samples,
        structural_agreement=(cnt["drift_outside_domain"] == 0 and cnt["filelist_order_differs"] == 0))
    for msg in machinery[:3]:
        ctx.violation("machinery", msg, dict(detail=machinery[:20]), found_input=False)
    # smallest first; the first five are printed: three (name, pattern) pairs, two (tree, pattern) cases
    viol.sort(key=lambda v: (v["size"], v["key"]))
    uniq, seen = [], set()
    for v in viol:
        if v["key"] not in seen:
            seen.add(v["key"])
            uniq.append(v)
    pairs = [v for v in uniq if v["replay"]["op"] == "pathmatch"]
    lists = [v for v in uniq if v["replay"]["op"] == "filelist"]
    ordered = pairs[:3] + lists[:2] + pairs[3:8] + lists[2:4]
    if not lists:
        ordered = pairs[:12]
    if not pairs:
        ordered = lists[:12]
    for v in ordered:
        ctx.violation("failing-input", v["what"], v["replay"], key=v["key"])


def _one(op, fields):
    """run one case on both sides -> (impl result, model result)"""
    exe = os.path.join(C.BIN, "vharness")
    p = subprocess.run([exe, "one", op] + ["raw:" + f for f in fields], stdout=subprocess.PIPE,
                       stderr=subprocess.STDOUT, text=True, timeout=120)
    lines = [l for l in p.stdout.split("\n") if l]
    il = lines[-1] if lines else "MISSING"   # ParsePath's debug line, if any, comes first
    drv = C.vdriver_exe()
    q = subprocess.run([drv], input="r\t" + op + "\t" + "\t".join(fields) + "\n", stdout=subprocess.PIPE,
                       stderr=subprocess.STDOUT, text=True, timeout=120)
    ml = q.stdout.strip("\n")
    ml = ml[2:] if ml.startswith("r\t") else ml
    return il, ml


def replay(ctx, spec, obj):
    if obj.get("op") == "pathmatch":
        name, pat = bytes.fromhex(obj["name_hex"]), bytes.fromhex(obj["pattern_hex"])
        il, ml = _one("pathmatch", ["x" + name.hex(), "x" + pat.hex()])
        mf = C.fields(ml)
        print(f"pathMatches(name={_txt(name)!r}, pattern={_txt(pat)!r}): implementation {il}, "
              f"model {mf.get('M')}, specification {mf.get('S')}")
        bad = il[:1] != mf.get("S")
    elif obj.get("op") == "filelist":
        pat = bytes.fromhex(obj["pattern_hex"])
        il, ml = _one("filelist", [obj["tree_encoding"], "x" + pat.hex(), obj["mode"]])
        mf = C.fields(ml)
        verdict, info = judge_filelist(obj["tree_encoding"], pat, obj["mode"], il, mf)
        print("tree:\n  " + "\n  ".join(show_tree(obj["tree_encoding"])))
        print(f"pattern {_txt(pat)!r} ({obj['mode']}): implementation {il}\n  model {mf.get('M')}\n  "
              f"specification {mf.get('S')}\n  verdict: {verdict} {info.get('problems', '')}")
        bad = verdict in ("violation", "machinery", "err")
    else:
        print(json.dumps(obj, indent=1))
        return 0
    print("STILL FAILING" if bad else "no longer failing")
    return 1 if bad else 0


PROPS = {"C20": dict(
    lean_modules=["Vore.Props.C20"],
    theorems=["Vore.Props.C20.C20_segment", "Vore.Props.C20.C20_segment_relation", "Vore.Props.C20.C20_list",
              "Vore.Props.C20.C20_list_exact", "Vore.Props.C20.C20_list_perm"],
    run=run,
    replay=replay,
    manifest=dict(
        text="Proved in Lean 4 for every name, pattern, directory string and directory tree (induction on the "
             "pattern's segments and on the tree; no bound): (1) C20_segment / C20_segment_relation - the model of "
             "pathMatches (the matcher of fixes/C20-glob.diff: split at the stars, first text a prefix, every middle "
             "text at its leftmost occurrence, last text a suffix) accepts a name exactly when the pattern describes "
             "it, `*` standing for any run of bytes, every other byte for itself; (2) C20_list / C20_list_exact / "
             "C20_list_perm - for a non-empty pattern without a star-only (or empty) directory segment and without "
             "`.`/`..` directory segments, the model of ParsePath(p).GetFileList(dir) over an inductive directory "
             "tree returns, in directory order, exactly the regular files below the starting directory (dir, or / "
             "for an absolute pattern) whose path matches the pattern segment by segment: none missing, none "
             "extra, no duplicates, never a directory. The correspondence run ties the model to /repo: every "
             "pattern over {a,b,.,*} (<= 3 stars) x every name over {a,b,.} up to length 4 (quick) / 5 (thorough) "
             "and names containing stars, through the real pathMatches (hook VerifPathMatches), random longer "
             "pairs, and generated trees up to depth 3 materialised in a scratch directory with relative and "
             "absolute patterns through the real ParsePath/GetFileList; implementation, model and specification "
             "must agree (lists as multisets), a disagreement is reported with the (name, pattern) or (tree, "
             "pattern) as replay.",
        note="Trusted: the Lean kernel; the hand transcription of path.go into Vore/Model/Path.lean (tied only "
             "by the correspondence run, which is exhaustive for segments up to the length bound and sampled for "
             "trees); the file-system model - os.ReadDir lists the entries of the directory the path string "
             "resolves to (component by component, empty and `.` components skipped, `..` = parent), sorted by "
             "name, distinct valid names, only regular files and directories (no symlinks, no permission errors, "
             "no concurrent modification); Go strings.Split/Index/HasPrefix/HasSuffix as modelled (byte-wise). "
             "Outside the claim, as the property states: directory segments made only of stars (or empty), "
             "which deliberately also match zero levels, and `.`/`..` segments (FIXME in path.go); there the run "
             "only records drift between code and model. The empty pattern panics in ParsePath (model too); "
             "the debug line ParsePath prints belongs to C18.",
        technique="Lean 4 proof by induction (pattern segments, directory tree) + differential correspondence "
                  "(exhaustive small scope for segments, generated scratch trees for lists)"),
    trusted_base=["file-system model Path.FS / Path.Dir (os.ReadDir = sorted entries of the resolved directory)",
                  "transcription of libvore/files/path.go into Vore/Model/Path.lean"],
    assumptions=["os.ReadDir returns the entries of the named directory sorted by name; names are distinct, "
                 "non-empty, contain no '/', and are not '.' or '..'",
                 "only regular files and directories occur below the starting directory",
                 "strings are compared and searched byte-wise (Go string semantics)"],
)}
