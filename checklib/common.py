import json, os, re, subprocess, time, shutil, hashlib

VERIF = os.path.dirname(os.path.dirname(os.path.abspath(__file__)))
REPO = os.environ.get("VERIF_REPO", "/repo")
LEAN = os.path.join(VERIF, "lean")
BIN = os.path.join(VERIF, "bin")
WORK = os.path.join(VERIF, "work")
ALLOWED_AXIOMS = {"propext", "Classical.choice", "Quot.sound"}

GOENV = dict(os.environ, GOWORK="off", GOFLAGS="-mod=mod", GOPROXY="off", GOSUMDB="off",
             GOTOOLCHAIN="local", CGO_ENABLED="0")


def sh(cmd, cwd=None, env=None, timeout=None, input=None):
    p = subprocess.run(cmd, cwd=cwd, env=env, stdout=subprocess.PIPE, stderr=subprocess.STDOUT,
                       timeout=timeout, input=input, text=True)
    return p.returncode, p.stdout


def go_mod_args():
    """`go build` arguments that point the harness module at the tree under test.  The committed go.mod
    replaces the libvore modules by /repo/...; for a scratch copy of the repository (VERIF_REPO=<dir>, used
    only to try seeded changes without touching /repo) an alternative module file is written next to the
    binaries."""
    if REPO == "/repo":
        return []
    os.makedirs(BIN, exist_ok=True)
    alt = os.path.join(BIN, "go.alt.mod")
    src = open(os.path.join(VERIF, "harness", "go.mod")).read()
    with open(alt, "w") as f:
        f.write(src.replace("=> /repo/", "=> " + REPO.rstrip("/") + "/"))
    gs = os.path.join(VERIF, "harness", "go.sum")
    if os.path.exists(gs):
        shutil.copy(gs, os.path.join(BIN, "go.alt.sum"))
    return ["-modfile=" + alt]


def build_harness(log):
    """rebuild the Go harness against /repo's current working tree (hooks on)"""
    os.makedirs(BIN, exist_ok=True)
    out = os.path.join(BIN, "vharness")
    if os.path.exists(out):
        os.remove(out)
    rc, o = sh(["go", "build"] + go_mod_args() + ["-tags", "verif", "-o", out, "./cmd/vharness"],
               cwd=os.path.join(VERIF, "harness"), env=GOENV, timeout=600)
    log.append({"step": "go build -tags verif harness", "rc": rc, "out": o[-2000:]})
    return rc == 0, o


def translator_fallback(ctx, gen_name, reason, covered_by):
    """A translator could not read the (restructured) source.  The table it regenerates is then taken from the copy
    written for the unchanged tree (lean/baseline: for this run a hand-written model), the theorems are checked over
    it, and the tie of this run is the correspondence named by `covered_by`, which executes EVERY cell of that finite
    table on the real code.  Recorded in the evidence; a difference found there is reported with its input as usual."""
    src = os.path.join(LEAN, "baseline", gen_name + ".lean.txt")
    dst = os.path.join(LEAN, "Vore", gen_name + ".lean")
    with open(dst, "w") as f:
        f.write(open(src).read())
    if not hasattr(ctx, "fallbacks"):
        ctx.fallbacks = []
    ctx.fallbacks.append(dict(table=gen_name, translator_said=reason[-600:], tie_of_this_run=covered_by))
    ctx.log.append({"step": "translator fallback " + gen_name, "reason": reason[-300:]})


def build_lean(targets, log):
    rc, o = sh(["lake", "build"] + targets, cwd=LEAN, timeout=3000)
    log.append({"step": "lake build " + " ".join(targets), "rc": rc, "out": o[-3000:]})
    return rc == 0, o


FORBIDDEN = re.compile(r"\bsorry\b|\badmit\b|^\s*axiom\s|native_decide|bv_decide|implemented_by|\bunsafe\s|maxHeartbeats\s+0")


def strip_comments(src):
    # remove /- ... -/ (nested not handled beyond one level) and -- line comments
    out = []
    i = 0
    depth = 0
    n = len(src)
    while i < n:
        if src.startswith("/-", i):
            depth += 1
            i += 2
        elif src.startswith("-/", i) and depth > 0:
            depth -= 1
            i += 2
        elif depth > 0:
            i += 1
        elif src.startswith("--", i):
            j = src.find("\n", i)
            i = n if j < 0 else j
        else:
            out.append(src[i])
            i += 1
    return "".join(out)


def audit_sources():
    """grep every Lean source of the project (outside comments and string literals of the driver)"""
    hits = []
    for root, _, files in os.walk(LEAN):
        if ".lake" in root:
            continue
        for f in files:
            if f.endswith(".lean"):
                p = os.path.join(root, f)
                code = strip_comments(open(p).read())
                for ln, line in enumerate(code.split("\n"), 1):
                    if FORBIDDEN.search(line):
                        hits.append(f"{os.path.relpath(p, LEAN)}: {line.strip()[:120]}")
    return hits


AX_RE = re.compile(r"'([^']+)' (depends on axioms: \[([^\]]*)\]|does not depend on any axioms)")


def check_props_module(module, log):
    """re-elaborate the property file so that its #print axioms output is captured now"""
    path = module.replace(".", "/") + ".lean"
    rc, o = sh(["lake", "env", "lean", path], cwd=LEAN, timeout=3000)
    log.append({"step": "lake env lean " + path, "rc": rc, "out": o[-3000:]})
    theorems = []
    for m in AX_RE.finditer(o.replace("\n ", " ").replace("\n", " ")):
        axs = [a.strip() for a in (m.group(3) or "").split(",") if a.strip()]
        ok = all(a in ALLOWED_AXIOMS for a in axs)
        theorems.append({"name": m.group(1), "axioms": axs, "ok": ok})
    return rc == 0, theorems, o


def vdriver_exe():
    """the model driver this check runs: its own copy (made under the Lean lock right after `lake build`, see
    main.py), so that another check rebuilding the shared Lean project cannot pull it away mid-run"""
    own = os.path.join(BIN, "vdriver")
    return own if os.path.exists(own) else os.path.join(LEAN, ".lake", "build", "bin", "vdriver")


def run_vdriver(lean_cases_path, out_path, log):
    exe = vdriver_exe()
    t0 = time.time()
    with open(lean_cases_path) as fin, open(out_path, "w") as fout:
        p = subprocess.run([exe], stdin=fin, stdout=fout, stderr=subprocess.PIPE, timeout=7200)
    log.append({"step": "vdriver", "rc": p.returncode, "wall_s": round(time.time() - t0, 2),
                "err": p.stderr.decode()[-500:]})
    return p.returncode == 0


def big_stack():
    """preexec_fn for the Lean driver: the executable specification is continuation-passing, so its native
    stack grows with the number of search steps; give it 1 GiB instead of the default 8 MiB"""
    import resource
    soft, hard = resource.getrlimit(resource.RLIMIT_STACK)
    want = 1 << 30
    if hard != resource.RLIM_INFINITY:
        want = min(want, hard)
    try:
        resource.setrlimit(resource.RLIMIT_STACK, (want, hard))
    except Exception:
        pass


def run_vdriver_parallel(lean_cases_path, out_path, log, jobs=16):
    """split the case file into chunks and run several driver processes"""
    exe = vdriver_exe()
    lines = open(lean_cases_path).read().split("\n")
    lines = [l for l in lines if l]
    t0 = time.time()
    jobs = max(1, min(jobs, len(lines) // 50 + 1))
    chunks = [lines[i::jobs] for i in range(jobs)]
    procs = []
    for ch in chunks:
        p = subprocess.Popen([exe], stdin=subprocess.PIPE, stdout=subprocess.PIPE, stderr=subprocess.PIPE, text=True,
                             preexec_fn=big_stack)
        procs.append((p, ch))
    import threading
    outs = [None] * len(procs)

    def work(i):
        p, ch = procs[i]
        o, e = p.communicate("\n".join(ch) + "\n")
        outs[i] = (p.returncode, o, e)

    ths = [threading.Thread(target=work, args=(i,)) for i in range(len(procs))]
    [t.start() for t in ths]
    [t.join() for t in ths]
    ok = True
    with open(out_path, "w") as f:
        for rc, o, e in outs:
            if rc != 0:
                ok = False
                log.append({"step": "vdriver chunk", "rc": rc, "err": (e or "")[-500:]})
            f.write(o)
    log.append({"step": "vdriver x%d" % jobs, "wall_s": round(time.time() - t0, 2), "cases": len(lines)})
    return ok


def read_tsv(path):
    d = {}
    with open(path) as f:
        for line in f:
            line = line.rstrip("\n")
            if not line:
                continue
            i = line.find("\t")
            if i < 0:
                d[line] = ""
            else:
                d[line[:i]] = line[i + 1:]
    return d


def fields(line):
    """'AST x\\tCODE y\\tRES z' -> {'AST': 'x', ...}"""
    d = {}
    for part in line.split("\t"):
        j = part.find(" ")
        if j < 0:
            d[part] = ""
        else:
            d[part[:j]] = part[j + 1:]
    return d


def unhex(s):
    assert s.startswith("x"), s
    return bytes.fromhex(s[1:])


KEY_LARGE_COUNT = "hang-loop-minimum-unrolled"


def has_large_count(src):
    """a count literal of six or more digits: generateLoop unrolls `min` copies of the body, so Compile's time and memory
    are proportional to the VALUE of the number (recorded finding, see KNOWN_FINDINGS.txt)"""
    if isinstance(src, str):
        src = src.encode("latin1")
    return re.search(rb"[0-9]{6,}", src) is not None


def load_known_findings():
    path = os.path.join(VERIF, "KNOWN_FINDINGS.txt")
    findings = []
    if os.path.exists(path):
        for line in open(path):
            line = line.strip()
            if line.startswith("finding:"):
                kv = dict(re.findall(r"(\w+)=(\S+)", line))
                kv["line"] = line
                findings.append(kv)
    return findings


def write_evidence(prop, ev):
    os.makedirs(os.path.join(VERIF, "evidence"), exist_ok=True)
    with open(os.path.join(VERIF, "evidence", prop + ".json"), "w") as f:
        json.dump(ev, f, indent=1, sort_keys=True)


def write_replay(prop, seed, n, obj):
    os.makedirs(os.path.join(VERIF, "replays"), exist_ok=True)
    p = os.path.join(VERIF, "replays", f"{prop}-{seed}-{n}.json")
    with open(p, "w") as f:
        json.dump(obj, f, indent=1, sort_keys=True)
    return p
