"""regenerated shared-state facts for C19:
/repo/libvore/{.,ast,bytecode,engine,files,ds,algo}/*.go -> lean/Vore/ExtractedGlobals.lean (harness/cmd/extractglobals)

run_extract_globals(ctx) : delete the stale file, regenerate it from /repo's current source (the extractor fails
closed: on a construct it cannot classify no file is left behind, so Vore.Props.C19 cannot build).  Returns
dict(ok, out, changed, facts, previous) where `facts` is the JSON form of the same facts (diagnostics only: the
verdict comes from the Lean theorems that interpret the generated .lean file).
"""
import fcntl, json, os
from . import common as C

OUT = os.path.join(C.LEAN, "Vore", "ExtractedGlobals.lean")


def run_extract_globals(ctx):
    os.makedirs(C.BIN, exist_ok=True)
    os.makedirs(C.WORK, exist_ok=True)
    res = dict(ok=False, out="", changed=False, facts=None, previous=None)
    with open(os.path.join(C.WORK, "extractglobals.lock"), "w") as lock:
        fcntl.flock(lock, fcntl.LOCK_EX)
        exe = os.path.join(C.BIN, "extractglobals")
        rc, o = C.sh(["go", "build"] + C.go_mod_args() + ["-o", exe, "./cmd/extractglobals"], cwd=os.path.join(C.VERIF, "harness"),
                     env=C.GOENV, timeout=600)
        ctx.log.append({"step": "go build extractglobals", "rc": rc, "out": o[-1000:]})
        if rc != 0:
            res["out"] = o
            return res
        old = open(OUT).read() if os.path.exists(OUT) else None
        res["previous"] = old
        if os.path.exists(OUT):
            os.remove(OUT)
        js = os.path.join(ctx.workdir, "globals.json")
        rc, o = C.sh([exe, "-o", OUT, "-json", js, C.REPO], timeout=120)
        ctx.log.append({"step": "extractglobals " + C.REPO, "rc": rc, "out": o[-1500:]})
        res["out"] = o
        res["ok"] = rc == 0 and os.path.exists(OUT)
        if res["ok"]:
            res["changed"] = (open(OUT).read() != old)
            try:
                res["facts"] = json.load(open(js))
            except Exception as ex:  # diagnostics only
                res["out"] += f"\n(could not read {js}: {ex})"
    return res


def restore(previous):
    """put a previously committed fact file back (used after a violation has been reported, so that the file at
    rest is the one that was committed; the next run regenerates it again anyway)"""
    if previous is not None:
        with open(OUT, "w") as f:
            f.write(previous)


def describe(facts):
    """human-readable summary of the shared-state facts (for evidence and replays)"""
    if not facts:
        return {}
    funcs = facts["Funcs"]
    calls = facts["Calls"]
    entries = [funcs.index(e) for e in facts["Entries"] if e in funcs]

    def reach(stop=()):
        seen, work = set(entries), list(entries)
        while work:
            x = work.pop()
            if x in stop:
                continue
            for y in calls[x]:
                if y not in seen:
                    seen.add(y)
                    work.append(y)
        return seen

    reachable = reach()
    name = lambda ids: [funcs[i] for i in ids]
    out = dict(functions=len(funcs), reachable_from_entries=len(reachable), entries=facts["Entries"],
               go_statements=name(facts.get("GoStmts") or []), rand_calls=facts.get("RandCalls") or [],
               code_writes=facts.get("CodeWrites") or [], lock_calls=facts.get("LockCalls") or [],
               skipped_files=facts.get("Skipped") or [], package_level_vars=[])
    holders = facts.get("LockHolders") or []
    inits = facts.get("InitFirst") or []
    for i, g in enumerate(facts.get("Globals") or []):
        writers = sorted(set(g["AssignedBy"] + g["IncrementedBy"] + g["AddrTakenBy"]))
        d = dict(name=g["Pkg"] + "." + g["Name"], type=g["Type"], where=f'{g["File"]}:{g["Line"]}', mutex=g["Mutex"],
                 assigned_by=name(g["AssignedBy"]), incremented_by=name(g["IncrementedBy"]),
                 address_taken_by=name(g["AddrTakenBy"]), read_by=name(g["ReadBy"]),
                 written_by_reachable_code=[funcs[w] for w in writers if w in reachable])
        if g["Mutex"]:
            d["held_for_whole_body_by"] = name([h[0] for h in holders if h[1] == i])
        else:
            d["reset_first_by_holder"] = name([h[0] for h in inits if h[1] == i])
        out["package_level_vars"].append(d)
    return out
