"""C07 — searching a file gives the same result as searching its bytes in memory

Correspondence for the readers (op `c07hist`: a history of files.Reader calls run on a real file
through files.ReaderFromFile, on files.ReaderFromString, and on the Lean model the theorems of
Vore/Props/C07.lean are about) and for the engine (op `c07eng`: RunFiles on a real file vs Run on
a string holding the same bytes).  Files live in a scratch directory created here with
tempfile.mkdtemp (outside /repo and /verif) and removed when the check ends.
"""
import collections, hashlib, json, os, shutil, tempfile
from . import common as C

_THEOREMS = ["Vore.C07_reader_law", "Vore.C07_same_results", "Vore.C07_same_results_4096",
             "Vore.C07_read_terminates", "Vore.C07_no_spin_no_index_panic"]


# ----------------------------------------------------------------------------------------------
# running cases on both sides
# ----------------------------------------------------------------------------------------------

def _scratch():
    d = tempfile.mkdtemp(prefix="vore-c07-")
    real = os.path.realpath(d)
    if real.startswith("/repo/") or real.startswith(C.VERIF + "/"):
        shutil.rmtree(d, ignore_errors=True)
        raise RuntimeError("scratch directory would be inside /repo or /verif: " + real)
    return d


def _model(ctx, out):
    ok = C.run_vdriver_parallel(os.path.join(out, "lean.tsv"), os.path.join(out, "model.tsv"), ctx.log)
    if not ok:
        raise RuntimeError("vdriver failed")
    return C.read_tsv(os.path.join(out, "model.tsv"))


def gen_and_run(ctx, scratch):
    out = ctx.workdir
    cmd = [os.path.join(C.BIN, "vharness"), "gen-run", "-prop", "C07", "-seed", str(ctx.seed),
           "-tier", ctx.tier, "-out", out]
    corpus = os.path.join(C.VERIF, "corpus", "C07.tsv")
    if os.path.exists(corpus):
        cmd += ["-corpus", corpus]
    rc, o = C.sh(cmd, timeout=7200, env=dict(os.environ, C07_SCRATCH=scratch))
    ctx.log.append({"step": " ".join(cmd[1:]), "rc": rc, "out": o[-1500:]})
    if rc != 0:
        raise RuntimeError("vharness gen-run failed: " + o[-500:])
    model = _model(ctx, out)
    return (C.read_tsv(os.path.join(out, "cases.tsv")), C.read_tsv(os.path.join(out, "impl.tsv")), model,
            json.load(open(os.path.join(out, "stats.json"))))


def run_lines(ctx, scratch, lines, tag):
    """run explicit case lines (id TAB op TAB fields) on both sides; returns (cases, impl, model)"""
    out = os.path.join(ctx.workdir, tag)
    shutil.rmtree(out, ignore_errors=True)
    os.makedirs(out, exist_ok=True)
    src = os.path.join(out, "in.tsv")
    with open(src, "w") as f:
        f.write("\n".join(lines) + "\n")
    cmd = [os.path.join(C.BIN, "vharness"), "replay", "-in", src, "-out", out]
    rc, o = C.sh(cmd, timeout=3600, env=dict(os.environ, C07_SCRATCH=scratch))
    if rc != 0:
        raise RuntimeError("vharness replay failed: " + o[-500:])
    return (C.read_tsv(os.path.join(out, "cases.tsv")), C.read_tsv(os.path.join(out, "impl.tsv")), _model(ctx, out))


# ----------------------------------------------------------------------------------------------
# verdict per case
# ----------------------------------------------------------------------------------------------

def parse_ops(s):
    ops = []
    if s in ("-", ""):
        return ops
    for p in s.split(","):
        if p[0] == "a":
            l, o = p[1:].split(":")
            ops.append(("a", int(l), int(o)))
        else:
            ops.append((p[0], int(p[1:]), 0))
    return ops


def law_shaped(ops):
    """histories as the engine issues them: every Read directly after a Seek, no negative argument.
    For these the model's answer is, by C07_reader_law, the bytes of the file itself."""
    prev = None
    for k, a, b in ops:
        if a < 0 or b < 0:
            return False
        if k == "r" and (prev is None or prev[0] != "s"):
            return False
        prev = (k, a, b)
    return True


def describe_op(op):
    k, a, b = op
    return {"s": f"Seek({a})", "r": f"Read({a})", "a": f"ReadAt({a}, {b})"}[k]


def first_diff(xs, ys):
    i = 0
    while i < len(xs) and i < len(ys) and xs[i] == ys[i]:
        i += 1
    return i


def content_info(desc):
    if desc.startswith("x"):
        return dict(content=desc, size=(len(desc) - 1) // 2)
    kind, seed, size = desc.split(":")
    gen = {"g": "c07GenBytes(seed, size): byte i = let x = uint32(i + seed*7919 + 1) * 2654435761 in byte((x>>24) ^ (x>>11))",
           "t": "c07GenText(seed, size) in harness/cmd/vharness/prop_c07.go",
           "u": "c07GenText with most line breaks blanked (prop_c07.go)",
           "b": "c07GenText with a UTF-8 byte order mark written over its first three bytes (prop_c07.go: c07Content)",
           "c": "c07GenText with CR LF written over its first two bytes (prop_c07.go: c07Content)",
           "z": "c07GenText with NUL bytes written into it every 113 bytes (prop_c07.go: c07Content)",
           "h": "c07GenText with bytes >= 0x80 (UTF-8 and Latin-1) written into it every 97 bytes (prop_c07.go: c07Content)"}[kind]
    return dict(content=desc, size=int(size), content_seed=int(seed), content_generator=gen)


def judge_hist(cid, cline, il, ml):
    """-> (verdict dict or None, info dict).  verdict: what, signature, replay"""
    parts = cline.split("\t")
    content, opstr = parts[1], parts[2]
    ops = parse_ops(opstr)
    info = dict(ops=len(ops), law=law_shaped(ops))
    base = dict(case_id=cid, case_line=cid + "\t" + cline, operation="c07hist", **content_info(content))
    if il.startswith("SKIPPED"):
        info["skipped"] = True
        return None, info
    if il in ("HANG", "CRASH", "MISSING") or il.startswith(("HARNESS", "PROTOCOL", "BADOP")):
        return dict(what=f"the harness process {il.split(' ')[0]} while running a reader history on a real file",
                    signature="proc:" + il.split(" ")[0],
                    replay=dict(base, history=opstr, implementation=il)), info
    f = C.fields(il)
    fobs, sobs = f.get("FILE", "").split(";"), f.get("STR", "").split(";")
    mobs = None
    if ml is not None:
        mobs = C.fields(ml).get("OBS", "").split(";")
        info["win"] = C.fields(ml).get("WIN", "-")
    if ops == []:
        fobs = [x for x in fobs if x]
        sobs = [x for x in sobs if x]
        mobs = [x for x in (mobs or []) if x]
    info["fobs"] = fobs
    problems = []
    if fobs != sobs:
        problems.append(("file-vs-string", first_diff(fobs, sobs)))
    if mobs is None:
        problems.append(("no-model-answer", 0))
    elif info["law"]:
        if fobs != mobs:
            problems.append(("file-vs-bytes-of-the-file", first_diff(fobs, mobs)))
        if sobs != mobs:
            problems.append(("string-vs-bytes-of-the-file", first_diff(sobs, mobs)))
    else:
        if fobs == sobs and fobs != mobs:
            info["drift_raw"] = True   # both real readers agree with each other but not with the model, on a
            # history outside the reader law (stale offset / negative arguments): recorded, not a violation
    if not problems:
        return None, info
    kind, i = min(problems, key=lambda p: p[1])
    def at(xs):
        return xs[i] if xs is not None and i < len(xs) else "(history already ended)"
    call = describe_op(ops[i]) if i < len(ops) else "opening the file"
    if i < len(fobs) and fobs[i].startswith("OPEN-"):
        call = "opening the file (files.ReaderFromFile)"
    sig = f"hist:{_cls(at(fobs))}|{_cls(at(sobs))}|{_cls(at(mobs))}"
    if at(fobs).startswith("OPEN-") or at(sobs).startswith("OPEN-"):
        sig = f"hist:{_cls(at(fobs))}|{'OPEN' if at(sobs).startswith('OPEN-') else 'opens'}"
    what = (f"files.ReaderFromFile and files.ReaderFromString / the bytes of the file disagree at call #{i} {call} "
            f"of a Seek/Read history over a {base['size']}-byte file: file reader -> {at(fobs)}, in-memory reader -> "
            f"{at(sobs)}, model (proved equal to the in-memory reader and to readAt) -> {at(mobs)}")
    replay = dict(base, history=opstr, history_until_difference=",".join(opstr.split(",")[:i + 1]) if ops else "-",
                  differing_call_index=i, differing_call=call, comparison=kind,
                  file_reader=";".join(fobs), string_reader=";".join(sobs),
                  model_and_spec=";".join(mobs) if mobs is not None else None)
    return dict(what=what, signature=sig, replay=replay, weight=(base["size"], i)), info


def _cls(o):
    if o.startswith("x") or o.startswith("h"):
        return "bytes" if o != "x" else "empty"
    return o.split(":other")[0]


def judge_eng(cid, cline, il):
    parts = cline.split("\t")
    src, content = C.unhex(parts[1]).decode("latin1"), parts[2]
    base = dict(case_id=cid, case_line=cid + "\t" + cline, operation="c07eng", source=src, **content_info(content),
                compare="(*Vore).RunFiles([file], NOTHING, false) vs (*Vore).Run(string(bytes)), all match fields but Filename")
    info = dict(kind="eq")
    if il.startswith("EQ "):
        info["matches"] = int(il.split("n=")[1].split(" ")[0])
        return None, info
    if il.startswith("SKIPPED"):
        info["kind"] = "skipped"
        return None, info
    if il.startswith("BOTH "):
        info["kind"] = "both-" + il[5:].split(" ")[0]
        return None, info
    if il.startswith("COMPILE"):
        info["kind"] = "compile-error"
        return None, info
    if il.startswith("DIFF"):
        f = C.fields(il)
        fr, sr = f.get("FILE", ""), f.get("STR", "")
        if "DIVERGE" in (fr, sr):
            # the VM step budget ran out on one side (thorough seed 5, unchanged tree: a 17 683-byte text, `(at least 1
            # lower) = w ' ' w`: the two routes are given different budgets when a path is listed twice, and a case this
            # close to the budget can fall on either side).  Termination is C10's subject; here it is not a verdict.
            info["kind"] = "budget"
            return None, info
        sig = "eng:" + _res_cls(fr) + "|" + _res_cls(sr)
        what = (f"RunFiles on a {base['size']}-byte file and Run on the same bytes differ for `{src}`: "
                f"file -> {fr[:160]} ; string -> {sr[:160]}")
        return dict(what=what, signature=sig, replay=dict(base, implementation=il), weight=(base["size"], 0)), info
    sig = "eng-proc:" + il.split(" ")[0]
    return dict(what=f"the harness process {il.split(' ')[0]} while searching a {base['size']}-byte file / its bytes "
                     f"with `{src}`", signature=sig, replay=dict(base, implementation=il),
                weight=(base["size"], 0)), info


def _res_cls(r):
    if r.startswith("PANIC"):
        try:
            return "PANIC(" + C.unhex(r.split(" ")[1]).decode("latin1")[:40] + ")"
        except Exception:
            return "PANIC"
    if r in ("DIVERGE", "END", "HANG"):
        return r
    return "matches"


def judge_all(cases, impl, model):
    verdicts, infos = [], {}
    for cid, cline in cases.items():
        op = cline.split("\t")[0]
        il = impl.get(cid, "MISSING")
        if op == "c07hist":
            v, info = judge_hist(cid, cline, il, model.get(cid))
        elif op == "c07eng":
            v, info = judge_eng(cid, cline, il)
        else:
            continue
        info["op"] = op
        infos[cid] = info
        if v is not None:
            v["case_id"] = cid
            verdicts.append(v)
    return verdicts, infos


# ----------------------------------------------------------------------------------------------
# shrinking a failing history: cut after the differing call, then drop earlier calls one at a time
# ----------------------------------------------------------------------------------------------

def shrink(ctx, scratch, v):
    rp = v["replay"]
    if rp.get("operation") != "c07hist" or "history_until_difference" not in rp:
        return v
    content = rp["content"]
    ops = [p for p in rp["history_until_difference"].split(",") if p and p != "-"]
    best = v
    for rnd in range(10):
        cands = []
        if rnd == 0:
            # the call that differs with only the last k calls before it
            cands = [ops[len(ops) - k:] for k in range(1, len(ops) + 1)]
        else:
            cands = [ops[:k] + ops[k + 1:] for k in range(len(ops) - 1)]
        if not cands:
            break
        lines = [f"s{rnd}.{j}\tc07hist\t{content}\t{','.join(c) if c else '-'}" for j, c in enumerate(cands)]
        try:
            cs, im, mo = run_lines(ctx, scratch, lines, "shrink")
        except Exception:
            break
        vs, _ = judge_all(cs, im, mo)
        vs = [x for x in vs if x["signature"] == v["signature"]]
        if not vs:
            break
        vs.sort(key=lambda x: len(x["replay"]["history_until_difference"].split(",")))
        new_ops = [p for p in vs[0]["replay"]["history_until_difference"].split(",") if p and p != "-"]
        if len(new_ops) >= len(ops) and rnd > 0:
            break
        best = vs[0]
        ops = new_ops
    best["replay"]["shrunk_from"] = rp["case_id"]
    best["replay"]["original_history"] = rp["history"]
    return best


# ----------------------------------------------------------------------------------------------

def run(ctx, spec):
    scratch = _scratch()
    try:
        cases, impl, model, stats = gen_and_run(ctx, scratch)
        verdicts, infos = judge_all(cases, impl, model)
        cnt = collections.Counter()
        distinct = set()
        samples = []
        sizes_seen = set()
        for cid, info in infos.items():
            cline = cases[cid]
            if info["op"] == "c07hist":
                cnt["histories"] += 1
                if info.get("skipped"):
                    cnt["skipped_after_hangs"] += 1
                    continue
                cnt["reader_calls"] += info["ops"]
                cnt["histories_engine_shaped" if info["law"] else "histories_raw"] += 1
                if info.get("drift_raw"):
                    cnt["raw_histories_where_both_readers_differ_from_model"] += 1
                fobs = info.get("fobs", [])
                cnt["reads_returning_bytes"] += sum(1 for o in fobs if _cls(o) == "bytes")
                cnt["reads_returning_empty"] += sum(1 for o in fobs if o == "x")
                cnt["reads_longer_than_16_bytes"] += sum(1 for o in fobs if o.startswith("h"))
                for o in fobs:
                    if o.startswith("PANIC") or o.startswith("OPEN-") or o == "HANG":
                        cnt["history_end:" + o.split(":other")[0]] += 1
                win = info.get("win", "-")
                moved = win != "-" and int(win.split(",")[0]) > 0
                if moved:
                    cnt["histories_final_window_not_at_0"] += 1
                if moved and any(_cls(o) == "bytes" for o in fobs):
                    distinct.add(hashlib.sha1(cline.encode()).hexdigest())
                    if len(samples) < 3:
                        p = cline.split("\t")
                        samples.append(dict(op="c07hist", content=p[1], history=p[2][:200], file_reader=";".join(fobs)[:200],
                                            model_window_min_max_cur_offset=win))
                sizes_seen.add(content_info(cline.split("\t")[1])["size"])
            else:
                cnt["engine_runs"] += 1
                cnt["engine_" + info["kind"]] += 1
                if info.get("matches", 0) > 0:
                    cnt["engine_runs_with_matches"] += 1
                    cnt["engine_matches_compared"] += info["matches"]
                    distinct.add(hashlib.sha1(cline.encode()).hexdigest())
                    if cnt["engine_runs_with_matches"] <= 2:
                        p = cline.split("\t")
                        samples.append(dict(op="c07eng", source=C.unhex(p[1]).decode("latin1"), content=p[2],
                                            result=impl.get(cid, "")))
                sizes_seen.add(content_info(cline.split("\t")[2])["size"])
        if cnt["engine_compile-error"] * 2 > max(1, cnt["engine_runs"]):
            ctx.violation("machinery", "most C07 engine programs no longer compile; the engine-driven half of the "
                          "check is not running", dict(counters=dict(cnt)), found_input=False)
        ctx.coverage.update(
            evaluations=len(infos), distinct_nontrivial=len(distinct),
            rule="one evaluation = one Seek/Read/ReadAt history run on ReaderFromFile (real file), ReaderFromString and "
                 "the Lean model, or one program run by RunFiles on a real file and by Run on its bytes; non-trivial = "
                 "a history that returned bytes and left the model's read window re-centred (minOffset > 0), or an "
                 "engine run with at least one match; distinct = distinct (content, history) / (program, content)",
            samples=samples, counters=dict(cnt), generator=stats, file_sizes=sorted(sizes_seen),
            structural_agreement=(cnt["raw_histories_where_both_readers_differ_from_model"] == 0))
        # one report per kind of disagreement, smallest case first, shrunk
        by_sig = {}
        for v in verdicts:
            by_sig.setdefault(v["signature"], []).append(v)
        order = sorted(by_sig.items(), key=lambda kv: min(x.get("weight", (0, 0)) for x in kv[1]))
        for sig, vs in order[:8]:
            vs.sort(key=lambda x: x.get("weight", (0, 0)))
            v = shrink(ctx, scratch, vs[0])
            v["replay"]["cases_with_this_disagreement"] = len(vs)
            v["replay"]["other_case_ids"] = [x["case_id"] for x in vs[1:6]]
            ctx.violation("failing-input", v["what"], v["replay"], key=hashlib.sha1(sig.encode()).hexdigest()[:12])
    finally:
        shutil.rmtree(scratch, ignore_errors=True)


def replay(ctx, spec, obj):
    line = obj.get("case_line")
    if not line:
        print(json.dumps(obj, indent=1))
        return 0
    scratch = _scratch()
    try:
        cases, impl, model = run_lines(ctx, scratch, [line], "replay")
        verdicts, _ = judge_all(cases, impl, model)
        for cid in cases:
            print("case   ", cid, cases[cid][:300])
            print("impl   ", impl.get(cid, "MISSING")[:600])
            print("model  ", model.get(cid, "(no model side for this operation)")[:600])
        if verdicts:
            print("STILL FAILING:", verdicts[0]["what"])
            return 1
        print("no longer failing")
        return 0
    finally:
        shutil.rmtree(scratch, ignore_errors=True)


PROPS = {"C07": dict(
    lean_modules=["Vore.Props.C07"],
    theorems=_THEOREMS,
    run=run,
    replay=replay,
    trusted_base=[
        "os.File.ReadAt(buf, off) on a regular file that is not modified while open returns the bytes file[off, off+len(buf)) "
        "that exist and io.EOF iff fewer than len(buf); the first os.File.Read returns the first min(len(buf), size) bytes "
        "and (0, io.EOF) iff the file is empty (Model/Files.lean osReadAt / osReadFirst)",
        "strings.Reader.Read/Seek behave as documented (Model/Files.lean StringRSC)",
        "fileinfo.Size() is the length of the file; os.Open/Stat succeed",
    ],
    assumptions=[
        "fidelity of the hand-written BufferedFile/Reader model to libvore/files/*.go is established by the correspondence "
        "run (real files of boundary sizes), not proved",
        "the Lean VM model reads its input only through Vore.readAt; the engine reads only through SEEK/READ/READAT "
        "(engine/searchengine.go) and Reader.ReadAt (engine/search.go) — re-established per run by the engine-driven cases",
        "use of a Reader after Close is outside the property and not modelled",
    ],
    manifest=dict(
        text="Proved in Lean for ALL file contents (every size, 0 included), ALL buffer sizes >= 1 (Go: 4096) and ALL "
             "histories of files.Reader Seek/Read/ReadAt calls with arbitrary integer arguments, without bound on sizes or "
             "steps: (C07_reader_law) in every reachable state of the BufferedFile-backed reader, ReadAt(n, off) and "
             "Seek(off);Read(n) return exactly readAt file off n, the reader contract every VM theorem assumes; "
             "(C07_same_results) every history yields the same observations (strings, panics) on ReaderFromFile as on "
             "ReaderFromString; (C07_read_terminates) Read's refill loop terminates within n+1 iterations; "
             "(C07_no_spin_no_index_panic) no history spins or indexes outside the buffer. Proof: window invariant "
             "(buffer[0,max-min) = file[min,max), 0 <= min <= cur, min <= max <= size, max-min <= B) preserved by "
             "NewBufferedFile, Seek (re-centre + clamp arithmetic by omega) and Read, and a simulation of strings.Reader. "
             "Tied to the Go code on every run by real files of sizes 0,1,2,2047-2049,4095-4097,6143-6145,8191-8193,"
             "3*4096+-1 and random sizes: generated seek/read histories through ReaderFromFile vs ReaderFromString vs the "
             "compiled Lean model, and programs (anchors, loops, backreferences, whole file/line/word, replace) through "
             "RunFiles vs Run.",
        note="Trusted: Lean kernel (axioms propext, Classical.choice, Quot.sound); os.File.ReadAt/Read and strings.Reader "
             "modelled as pure functions of the contents (stated assumption); model fidelity tested by the correspondence, "
             "not proved; engine-level equality (RunFiles vs Run) follows from the reader law because the VM model is "
             "parametric in readAt, and is additionally tested directly. Model is of the code after fixes/C07-emptyfile, "
             "C07-readeof, C07-negseek.",
        technique="Lean 4 refinement proof (window invariant + simulation of the in-memory reader, induction over the "
                  "call history) + differential correspondence on real files"),
)}
