"""collects the per-property modules checklib/prop_*.py; each defines PROPS = {id: spec}

spec keys:
  lean_modules : list of Lean modules holding the property theorems (each prints `#print axioms`)
  theorems     : fully qualified names that must appear in that output
  extract      : True if the regenerated facts (lean/Vore/Extracted.lean) are a proof input
  run          : f(ctx, spec) -> None; runs correspondence + failing-input search, calls ctx.violation(...)
  replay       : optional f(ctx, spec, obj) -> exit code
  manifest     : dict(text=..., note=..., technique=...)
  trusted_base, assumptions : lists of strings copied into the evidence
"""
import glob, importlib, os

PROPS = {}
for path in sorted(glob.glob(os.path.join(os.path.dirname(__file__), "prop_*.py"))):
    mod = importlib.import_module("checklib." + os.path.basename(path)[:-3])
    PROPS.update(getattr(mod, "PROPS", {}))
