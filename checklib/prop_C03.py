from . import search as S

_FIELDS = ["number", "start", "end", "l1", "l2", "c1", "c2", "value", "vars"]


def run(ctx, spec):
    S.standard_run(ctx, "C03", _FIELDS,
                   what="located match fields (offsets, line, column, value, number, variables) differ from the model, "
                        "which is proved faithful (C03_faithful)",
                   preds=["faithful"])


PROPS = {"C03": dict(
    lean_modules=["Vore.Props.C03"],
    theorems=["Vore.C03_faithful", "Vore.C03_command", "Vore.C03_matchOk_meaning"],
    run=run,
    trusted_base=["columns are byte columns: Go counts runes per consumed chunk, equal on ASCII input (the property's domain)"],
    assumptions=["model fidelity of CONSUME/MakeMatch/findMatches is established by the correspondence run only"],
    manifest=dict(
        text="Proved in Lean for ALL instruction lists, amount clauses, inputs and fuels: every match list returned by the "
             "model's findMatches / replace satisfies Spec.faithful (0<=start<end<=len, value = text[start:end), 1-based "
             "line/byte-column of both ends, increasing non-overlapping consecutive numbering, every captured string "
             "recursively a substring of the value) — by an invariant preserved by each of the 16 VM instructions, by "
             "backtracking into any saved state and by the scan loop (C03_faithful, C03_command). The same executable "
             "predicate is run by the compiled Lean driver on the IMPLEMENTATION's matches for every generated case, and "
             "the located fields are compared with the model's.",
        note="Trusted: Lean kernel (axioms propext, Classical.choice, Quot.sound); the hand-written VM model's fidelity "
             "to engine/searchengine.go and search.go is tested, not proved, by the correspondence run (generator "
             "distribution in the evidence); column claim on ASCII inputs only.",
        technique="Lean 4 invariant proof over the VM model + executable predicate on implementation output + differential correspondence"),
)}
