"""regenerated lexer facts: /repo/libvore/ast/lexer.go -> lean/Vore/ExtractedLex.lean (harness/cmd/extractlex)

run_extract_lex(ctx, modules) : delete the stale file, regenerate it from /repo's current source (fails closed),
rebuild the given Lean modules + the driver.  Call it at the start of a property's `run` when the property's
theorems or its model ops depend on Vore.ExtractedLex (C16, C08 lexer half, C15 lexer half).
"""
import fcntl, os
from . import common as C

OUT = os.path.join(C.LEAN, "Vore", "ExtractedLex.lean")


LEX_FALLBACK = ("every byte x spelling x quote through the real lexer (C16), every keyword of the table in three letter cases "
                "and every escape / hex pair through the real lexer (token stream of C08/C15), compared with the model")


def run_extract_lex(ctx, modules=("Vore.Model.Lexer",), rebuild=True, fallback=True):
    """returns dict(ok, out, changed, build_ok, build_out).  ok=False: the extractor did not recognise the source
    (no file is left behind, so every dependent Lean module fails to build: fail closed)."""
    os.makedirs(C.BIN, exist_ok=True)
    os.makedirs(C.WORK, exist_ok=True)
    res = dict(ok=False, out="", changed=False, build_ok=None, build_out="")
    with open(os.path.join(C.WORK, "extractlex.lock"), "w") as lock:
        fcntl.flock(lock, fcntl.LOCK_EX)
        exe = os.path.join(C.BIN, "extractlex")
        rc, o = C.sh(["go", "build"] + C.go_mod_args() + ["-o", exe, "./cmd/extractlex"], cwd=os.path.join(C.VERIF, "harness"), env=C.GOENV,
                     timeout=600)
        ctx.log.append({"step": "go build extractlex", "rc": rc, "out": o[-1000:]})
        if rc != 0:
            res["out"] = o
            return res
        old = open(OUT).read() if os.path.exists(OUT) else None
        if os.path.exists(OUT):
            os.remove(OUT)
        rc, o = C.sh([exe, C.REPO, OUT], timeout=120)
        ctx.log.append({"step": "extractlex " + C.REPO, "rc": rc, "out": o[-1000:]})
        res["out"] = o
        res["ok"] = rc == 0 and os.path.exists(OUT)
        if res["ok"]:
            res["changed"] = (open(OUT).read() != old)
        elif fallback:
            # the (restructured) source could not be read: tables of the unchanged tree + exhaustive correspondence
            C.translator_fallback(ctx, "ExtractedLex", o, LEX_FALLBACK)
            res["ok"], res["fallback"], res["changed"] = True, True, (old is not None and open(OUT).read() != old)
        if rebuild:
            bok, bout = C.build_lean(list(modules) + ["vdriver"], ctx.log)
            res["build_ok"], res["build_out"] = bok, bout
    return res


def check_unicode_tables(ctx):
    """Vore/UnicodeTables.lean holds the three `unicode` predicates the lexer classifies runes with, as the Go toolchain
    that builds /repo defines them.  Regenerate them (harness/cmd/unitables) and compare with the committed file: a
    difference means the toolchain's Unicode version changed and the tables must be regenerated (a broken tie)."""
    exe = os.path.join(C.BIN, "unitables")
    rc, o = C.sh(["go", "build"] + C.go_mod_args() + ["-o", exe, "./cmd/unitables"], cwd=os.path.join(C.VERIF, "harness"),
                 env=C.GOENV, timeout=600)
    ctx.log.append({"step": "go build unitables", "rc": rc, "out": o[-500:]})
    if rc != 0:
        return False, o
    rc, o = C.sh([exe], timeout=120)
    want = open(os.path.join(C.LEAN, "Vore", "UnicodeTables.lean")).read()
    same = rc == 0 and o == want
    ctx.log.append({"step": "unitables vs committed Vore/UnicodeTables.lean", "rc": rc, "same": same})
    return same, ("" if same else "regenerated Unicode tables differ from lean/Vore/UnicodeTables.lean")
