"""C15 — whitespace, comments and keyword case never change a program's meaning (parser part; the lexer part is
picked up from Props/C15lex when present).

Theorems: lean/Vore/Props/C15parse.lean: the parser model computes exactly Grammar.parse (strip tokens), where
`strip` drops WS/COMMENT tokens and forgets offsets and keyword spelling; hence two token lists with the same
significant tokens parse alike.
Tie (harness/cmd/vharness/prop_c15.go, op `layout`): corpus (every vore source in /repo/libvore/*_test.go and
/repo/docs) + generated valid programs x token boundaries x {space, newline, tab run, line comment + newline,
block comment with / without blanks} x keyword case variants.  Both layouts go through the real lexer, parser,
Compile and Run (two texts); the Lean driver checks on the real token lists that the stripped lists are equal
(hypothesis of C15_parser_layout), that the model results agree (its conclusion) and that the model agrees with the
real parser on the variant.

Verdict (observable): the variant is accepted iff the original is; same VerifParse dump; same Run results; no panic.
"""
import hashlib, os
from . import common as C
from . import search as S
from .prop_C08 import _opt_modules, lexer_half


def _key(a: bytes, b: bytes):
    return hashlib.sha1(b"C15\0" + a + b"\0" + b).hexdigest()[:12]


def run_c15(ctx, spec):
    lex_info = dict(present=False)
    if _opt_modules(["Vore.Props.C15lex"]):
        try:
            from .extract_lex import run_extract_lex
            r = run_extract_lex(ctx, modules=("Vore.Model.Lexer", "Vore.Props.C15lex"))
            lex_info = dict(present=True, extract_ok=bool(r.get("ok")))
            if not r.get("ok"):
                ctx.violation("tie", "lexer fact extractor failed on /repo's source (fails closed)",
                              dict(output=(r.get("out") or "")[-2000:]), found_input=False)
        except Exception as ex:
            lex_info = dict(present=False, note=str(ex))
    cases, impl, model, stats = S.gen_and_run(ctx, "C15")
    cnt = dict(evaluations=0, both_accepted=0, both_rejected=0, accept_reject_diff=0, parse_diff=0, run_diff=0, panic=0,
               hang=0, strip_equal=0, strip_changed=0, model_same=0, model_diff=0, model_vs_real_same=0,
               model_vs_real_diff=0, grammar_diff=0)
    bad = []
    samples = []
    distinct = set()
    for cid, cline in cases.items():
        parts = cline.split("\t")
        if parts[0] != "layout":
            continue
        a, b = C.unhex(parts[1]), C.unhex(parts[2])
        cnt["evaluations"] += 1
        il = impl.get(cid, "MISSING")
        rep = dict(a=a, b=b)
        if il in ("HANG", "CRASH", "MISSING") or il.startswith("HARNESS"):
            cnt["hang"] += 1
            bad.append(dict(rep, what="the real code hangs or crashes on one of the two layouts: " + il[:40], impl=il, model=""))
            continue
        f = C.fields(il)
        ca, cb, ast, run = f.get("CLASSA"), f.get("CLASSB"), f.get("AST", ""), f.get("RUN", "")
        if ca == "OK" and cb == "OK":
            cnt["both_accepted"] += 1
            distinct.add(a)
        if ca == "ERR" and cb == "ERR":
            cnt["both_rejected"] += 1
        if "PANIC" in (ca, cb):
            cnt["panic"] += 1
            bad.append(dict(rep, what="the real code panics on one of the two layouts (A %s, B %s)" % (ca, cb), impl=il[:200], model=""))
        elif ca != cb:
            cnt["accept_reject_diff"] += 1
            bad.append(dict(rep, what="the re-laid-out source is %s by Compile while the original is %s" %
                            ("accepted" if cb == "OK" else "rejected", "accepted" if ca == "OK" else "rejected"),
                            impl="A %s / B %s" % (ca, cb), model="same outcome (C15_parser_layout)"))
        elif ast == "diff":
            cnt["parse_diff"] += 1
            bad.append(dict(rep, what="the two layouts do not parse alike (different VerifParse dump, or one is a parse error)",
                            impl=f.get("PARSEB", "")[:200], model="same tree (C15_parser_layout)"))
        elif run.startswith("diff"):
            cnt["run_diff"] += 1
            bad.append(dict(rep, what="the two layouts give different Run results (%s)" % run, impl=run, model="same results"))
        ml = model.get(cid)
        if ml is None:
            continue
        mf = ml.split("\t")
        if not ml.startswith("STRIPEQ "):
            bad.append(dict(rep, what="the Lean driver did not answer this case: " + ml[:80], impl="", model=ml[:80], kind="machinery"))
            continue
        se = mf[0].endswith("T")
        ms = len(mf) > 1 and mf[1].endswith("T")
        cmp_ = mf[3] if len(mf) > 3 else ""
        gs = mf[4] if len(mf) > 4 else ""
        cnt["strip_equal" if se else "strip_changed"] += 1
        if se:
            if ms:
                cnt["model_same"] += 1
            else:
                cnt["model_diff"] += 1
                bad.append(dict(rep, what="model parses two token lists with equal stripped forms differently (theorem instance "
                                "fails: model/driver defect)", impl=ml[:200], model="", kind="machinery"))
        if cmp_ == "SAME":
            cnt["model_vs_real_same"] += 1
            if len(samples) < 4 and ca == "OK" and len(a) > 20:
                samples.append(dict(original=a.decode("latin1"), variant=b.decode("latin1"), real="same tree, same results",
                                    model=ml[:60]))
        elif cmp_.startswith("DIFF") and not cmp_.startswith("DIFF go-panics"):
            cnt["model_vs_real_diff"] += 1
            if ca == cb and ast != "diff":
                bad.append(dict(rep, what="the real parser and the model disagree on the variant: " + cmp_[5:200],
                                impl=f.get("PARSEB", "")[:200], model=mf[2] if len(mf) > 2 else ""))
        if gs.startswith("G-DIFF"):
            cnt["grammar_diff"] += 1
    ctx.coverage.update(
        evaluations=cnt["evaluations"], distinct_nontrivial=len(distinct),
        rule="one evaluation = one (original, re-laid-out variant) pair through the real front end, Compile and Run on two "
             "texts; non-trivial = distinct original programs accepted in both layouts",
        samples=samples, counters=cnt, generator=stats, lexer_half=lex_info,
        structural_agreement=(cnt["model_vs_real_diff"] == 0),
        functions_with_strip_theorem=FUNCS_PROVED, functions_exercised_only=FUNCS_EXERCISED)
    from .prop_C08 import _diverse
    bad = _diverse(bad, lambda x: (len(x["a"]) + len(x["b"]), x["b"]))
    seen = set()
    for x in bad:
        k = _key(x["a"], x["b"])
        if k in seen:
            continue
        seen.add(k)
        ctx.violation(x.get("kind", "failing-input"), x["what"],
                      dict(source=x["a"].decode("latin1"), variant=x["b"].decode("latin1"), source_hex=x["a"].hex(),
                           variant_hex=x["b"].hex(), implementation=x["impl"], model_and_spec=x["model"]), key=k)


def replay_c15(ctx, spec, obj):
    a, b = bytes.fromhex(obj["source_hex"]), bytes.fromhex(obj["variant_hex"])
    rc, o = C.sh([os.path.join(C.BIN, "vharness"), "one", "layout", "raw:x" + a.hex(), "raw:x" + b.hex(),
                  "raw:x" + b"aaa bbb ccc 123 abc\nfoo bar\n".hex()], timeout=60)
    f = C.fields(o.strip())
    print("A %s  B %s  AST %s  RUN %s" % (f.get("CLASSA"), f.get("CLASSB"), f.get("AST"), f.get("RUN")))
    failing = rc != 0 or f.get("CLASSA") != f.get("CLASSB") or f.get("AST") == "diff" or f.get("RUN", "").startswith("diff") \
        or "PANIC" in (f.get("CLASSA"), f.get("CLASSB"))
    print("still failing" if failing else "both layouts now behave alike")
    return 1 if failing else 0


from .prop_C08 import FUNCS_PROVED  # the same 45 functions are covered by the strip relation
FUNCS_EXERCISED = [
    "parse_regexp (opaque parameter; a regex literal is one token, layout inside it is not a gap)",
    "lexer: token boundaries, comment forms and keyword case are the lexer's half (Props/C15lex, lexer builder); here the "
    "driver only checks on every case that the real lexer's stripped token lists of the two layouts are equal"]

_THEOREMS = ["Vore.Parser.C15_parser", "Vore.Parser.C15_parser_layout", "Vore.Parser.C15_amount", "Vore.Parser.C15_expression",
             "Vore.Parser.C15_processExpression", "Vore.Parser.C15_statements", "Vore.Parser.C15_command",
             "Vore.Parser.C15_example_hyp", "Vore.Parser.C15_example_same", "Vore.Parser.C15_example_grammar"]

PROPS = {"C15": dict(
    lean_modules=["Vore.Props.C15parse"] + _opt_modules(["Vore.Props.C15lex"]),
    theorems=_THEOREMS,
    run=run_c15, replay=replay_c15,
    manifest=dict(
        text="Lean 4 proof that the model of the hand-written parser, which must call consumeIgnoreableTokens at each of its "
             "~80 token accesses, computes exactly what an index-free grammar-level parser computes on the token list with "
             "WS/COMMENT removed and keyword spelling forgotten; so any two layouts with the same significant tokens are "
             "accepted together and give the same tree. Tied to the code by re-laying-out the corpus and generated programs "
             "at token boundaries (6 gap fillers, keyword case) and comparing accept/reject, tree and Run results.",
        note="Parser fully covered (no partial region); errors are identified up to message/position. Theorems are about the "
             "FIXED parser: /verif/fixes/C15-comment-in-process-expr, C15-in-list-skip, C15-paren-skip, C15-empty-body-skip. "
             "Lexer half (token boundaries, maximal munch, keyword table) is the lexer builder's.",
        technique="machine-checked proof (Lean 4, simulation relation proved function by function from two lemmas about "
                  "consumeIgnoreableTokens; fuel-monotonicity of the grammar) + differential correspondence"),
    trusted_base=["the token lists handed to the model are the ones ast.VerifTokens returns for the two layouts",
                  "token start offsets reported by the lexer locate token boundaries in the source (ends are recomputed)"],
    assumptions=["EndsEof for both token lists", "the regex sub-parser is a function of the literal (and of the literals "
                 "before it in the same program: the harness marks each literal with its ordinal) and does not panic"]),
}
