"""regenerated facts of the process language (DESIGN §4.1):
/repo's CURRENT source -> lean/Vore/Extracted.lean, by harness/cmd/extract (go/parser + go/ast only).

run_extract(ctx) -> (ok, output)
  * the extractor is rebuilt and run on every check (spec['extract'] = True makes checklib/main.py call this);
  * it fails closed: on any construct it does not recognise in checkBinaryExpr, checkUnaryExpr, checkReturn,
    executeBinaryExpr, executeUnaryExpression, isPrefixOp, prefixPrecedence, isBinaryOp, infixPrecedence or
    isProcessExprEnd it exits non-zero, and then NO Extracted.lean is left behind (the stale one is deleted), so
    every theorem about the tables fails to build instead of being checked against old facts;
  * on success the new file replaces the old one atomically (other checks may be building the driver).
"""
import fcntl, os
from . import common as C

OUT = os.path.join(C.LEAN, "Vore", "Extracted.lean")


def run_extract(ctx):
    os.makedirs(C.BIN, exist_ok=True)
    os.makedirs(C.WORK, exist_ok=True)
    with open(os.path.join(C.WORK, "extract.lock"), "w") as lock:
        fcntl.flock(lock, fcntl.LOCK_EX)
        exe = os.path.join(C.BIN, "extract")
        if os.path.exists(exe):
            os.remove(exe)
        rc, o = C.sh(["go", "build"] + C.go_mod_args() + ["-o", exe, "./cmd/extract"], cwd=os.path.join(C.VERIF, "harness"),
                     env=C.GOENV, timeout=600)
        ctx.log.append({"step": "go build extract", "rc": rc, "out": o[-1500:]})
        if rc != 0:
            if os.path.exists(OUT):
                os.remove(OUT)
            return False, "the extractor does not build: " + o
        tmp = OUT + ".new"
        if os.path.exists(tmp):
            os.remove(tmp)
        rc, o = C.sh([exe, "-o", tmp, C.REPO], timeout=120)
        ctx.log.append({"step": "extract " + C.REPO, "rc": rc, "out": o[-1500:]})
        if rc != 0 or not os.path.exists(tmp):
            # fail closed: the stale facts must not survive
            for p in (OUT, tmp):
                if os.path.exists(p):
                    os.remove(p)
            return False, o
        old = open(OUT).read() if os.path.exists(OUT) else None
        new = open(tmp).read()
        if old == new:
            os.remove(tmp)          # unchanged: keep the file (and its mtime) so nothing is rebuilt
        else:
            os.replace(tmp, OUT)
        ctx.coverage["extracted_facts_changed"] = (old is not None and old != new)
        return True, o
