"""C18 — The CLI delivers the library's results under every documented flag combination.

1. `harness/cmd/cliextract` (go/ast, fails closed) regenerates lean/Vore/CliExtracted.lean from
   main.go: the -replace-mode table and default, the flags, the os.OpenFile flags of OpenFile.
   The theorems of Vore/Props/C18.lean are about `Cli.run goEnv`, goEnv built from those facts.
2. /repo's main package is BUILT from the current working tree into a temporary directory and
   run on the full cross product (3 200 flag vectors x {find, replace, failing}; the two extra
   scenario bits `hits`/`pre` are drawn per vector in the quick tier and enumerated in the
   thorough tier), each run in a fresh scratch directory under os.TempDir().  What it did
   (exit status, stdout, stderr, the directory before/after) is compared with the library's own
   results on identical copies of the directory (in-process libvore) and classified.
3. The Lean driver evaluates `Cli.spec` (the documented behaviour) on every observation (PRED)
   and compares the observation with `Cli.run goEnv` (AGREE).
"""
import fcntl, hashlib, json, os, shutil, tempfile
from . import common as C

THEOREMS = ["Vore.Cli.C18_main_go_facts", "Vore.Cli.C18_spec_enumerated", "Vore.Cli.C18_spec_all", "Vore.Cli.C18_spec",
            "Vore.Cli.C18_valid_exit0", "Vore.Cli.C18_invalid", "Vore.Cli.C18_mode",
            "Vore.Cli.C18_json_is_library_result", "Vore.Cli.C18_no_count_line_under_json"]

OUT = os.path.join(C.LEAN, "Vore", "CliExtracted.lean")

# what is left behind when the extractor fails: the driver still builds (other properties are not
# affected), but `C18_main_go_facts` cannot be proved from it, so C18 fails closed.
STUB = '''/-! GENERATED: the extractor FAILED on main.go; these are not facts about it. -/
namespace Vore.CliExtracted
def goModeDefault : String := "EXTRACTION-FAILED"
def goModeCases : List (String × String) := []
def goModeUsageDefault : String := "EXTRACTION-FAILED"
def goFlags : List (String × String × String) := []
def goOpenFlags : List String := []
def goOpenPerm : String := "EXTRACTION-FAILED"
def goTruncateCalled : Bool := false
end Vore.CliExtracted
'''


def _replace_if_changed(path, new):
    old = open(path).read() if os.path.exists(path) else None
    if old != new:
        tmp = path + ".new"
        with open(tmp, "w") as f:
            f.write(new)
        os.replace(tmp, path)
    return old is not None and old != new


def run_extract(ctx):
    os.makedirs(C.BIN, exist_ok=True)
    os.makedirs(C.WORK, exist_ok=True)
    with open(os.path.join(C.WORK, "cliextract.lock"), "w") as lock:
        fcntl.flock(lock, fcntl.LOCK_EX)
        exe = os.path.join(C.BIN, "cliextract")
        if os.path.exists(exe):
            os.remove(exe)
        rc, o = C.sh(["go", "build"] + C.go_mod_args() + ["-o", exe, "./cmd/cliextract"], cwd=os.path.join(C.VERIF, "harness"),
                     env=C.GOENV, timeout=600)
        ctx.log.append({"step": "go build cliextract", "rc": rc, "out": o[-1500:]})
        if rc != 0:
            _replace_if_changed(OUT, STUB)
            return False, "cliextract does not build: " + o
        rc, o = C.sh([exe, C.REPO], timeout=120)
        ctx.log.append({"step": "cliextract " + C.REPO, "rc": rc, "out": o[-1500:]})
        if rc != 0 or "namespace Vore.CliExtracted" not in o:
            _replace_if_changed(OUT, STUB)
            return False, o
        ctx.coverage["extracted_facts_changed"] = _replace_if_changed(OUT, o)
        ctx.coverage["extracted_facts"] = [l for l in o.split("\n") if l.startswith("def ")]
        return True, o


def pre(ctx, spec):
    """checklib/main.py hook `pre`: regenerate the proof inputs before the theorems are re-checked"""
    ok, out = run_extract(ctx)
    if not ok:
        raise RuntimeError("cliextract failed on main.go (fails closed; a stub that proves nothing was written): "
                           + out[-1500:])


def build_cli(ctx):
    """go build of /repo's main package (workspace mode) into a fresh temporary directory"""
    tmp = tempfile.mkdtemp(prefix="verif-c18-bin-")
    env = {k: v for k, v in os.environ.items() if k not in ("GOFLAGS", "GOWORK")}
    env.update(GOPROXY="off", GOSUMDB="off", GOTOOLCHAIN="local", CGO_ENABLED="0")
    out = os.path.join(tmp, "vore")
    rc, o = C.sh(["go", "build", "-o", out, "."], cwd=C.REPO, env=env, timeout=600)
    ctx.log.append({"step": "go build (main package of " + C.REPO + ")", "rc": rc, "out": o[-1500:]})
    if rc != 0 or not os.path.exists(out):
        shutil.rmtree(tmp, ignore_errors=True)
        return None, None, o
    return tmp, out, o


def vec_key(vec):
    return hashlib.sha1(vec.encode()).hexdigest()[:12]


def kv(s):
    return dict(t.split("=", 1) for t in s.split(" ") if "=" in t)


def nflags(vec):
    d = kv(vec)
    return sum(d.get(k) == "1" for k in ("com", "src", "json", "fjson", "jf", "fjf", "noout")) + \
        (d.get("mode") != "absent") + (d.get("files") != "absent")


def describe(vec, obs, model, documented):
    """one sentence saying what the property requires and what the binary did"""
    v, o, m = kv(vec), kv(obs), kv(model)
    if documented:
        if o.get("exit") != "0":
            what = "a documented invocation exits %s%s" % (o.get("exit"), " with a Go panic" if o.get("panic") == "1" else "")
        elif v["files"] != "noneMatching" and v["hits"] == "1" and v["noout"] == "0" and \
                ((v["json"] == "1" and o.get("stdout") != "doc:compact") or
                 (v["fjson"] == "1" and o.get("stdout") != "doc:formatted")):
            what = "standard output under -json/-formatted-json is not exactly one JSON document equal to the " \
                   "library's result (observed: %s)" % o.get("stdout")
        elif v["files"] != "noneMatching" and v["hits"] == "1" and v["noout"] == "0" and v["jf"] == "1" and \
                o.get("jf") != "holds:compact":
            what = "the file named by -json-file does not hold exactly the library's JSON document (%s%s)" % (
                o.get("jf"), ", it existed before with other content" if v["pre"] == "1" else "")
        elif v["files"] != "noneMatching" and v["hits"] == "1" and v["noout"] == "0" and v["fjf"] == "1" and \
                o.get("fjf") != "holds:formatted":
            what = "the file named by -formatted-json-file does not hold exactly the library's JSON document (%s%s)" % (
                o.get("fjf"), ", it existed before with other content" if v["pre"] == "1" else "")
        else:
            what = "the searched files are not what RunFiles leaves in the documented replace mode (as: %s)" % o.get("as")
    else:
        if o.get("exit") == "0":
            what = "an invalid invocation (bad flag combination, unknown mode or compile error) exits 0"
        elif o.get("stderr") == "none" and "msg:" not in o.get("stdout", ""):
            what = "an invalid invocation exits non-zero without a message"
        else:
            what = "an invalid invocation modifies a file (jf=%s fjf=%s eqBefore=%s)" % (o.get("jf"), o.get("fjf"), o.get("eqBefore"))
    return what


def replay_dict(cid, vec, il, ml):
    f = C.fields(il)
    mf = C.fields(ml or "")

    def hx(name):
        try:
            return C.unhex(f.get(name, "x")).decode("utf-8", "replace")
        except Exception:
            return f.get(name, "")
    return dict(case_id=cid, op="cli", vector=vec, argv=["vore"] + hx("ARGS").split("\x00"),
                observed=f.get("OBS"), directory_changes=f.get("FSDIFF"), library=hx("LIB"),
                stdout=hx("STDOUT"), stderr=hx("STDERR"),
                model=mf.get("MODEL"), documented_invocation=mf.get("DOCUMENTED"), spec_holds=mf.get("PRED"),
                how="scenario files and programs: harness/cmd/vharness/prop_c18.go (c18Scenarios[set]); re-run with "
                    "./check C18 --replay <this file>")


def gen_and_run(ctx, bin_path):
    out = ctx.workdir
    cmd = [os.path.join(C.BIN, "vharness"), "gen-run", "-prop", "C18", "-seed", str(ctx.seed), "-tier", ctx.tier, "-out", out]
    rc, o = C.sh(cmd, env=dict(os.environ, VERIF_CLI_BIN=bin_path), timeout=7200)
    ctx.log.append({"step": " ".join(cmd[1:]), "rc": rc, "out": o[-1500:]})
    if rc != 0:
        raise RuntimeError("vharness gen-run failed: " + o[-500:])
    if not C.run_vdriver_parallel(os.path.join(out, "lean.tsv"), os.path.join(out, "model.tsv"), ctx.log):
        raise RuntimeError("vdriver failed")
    return (C.read_tsv(os.path.join(out, "cases.tsv")), C.read_tsv(os.path.join(out, "impl.tsv")),
            C.read_tsv(os.path.join(out, "model.tsv")), json.load(open(os.path.join(out, "stats.json"))))


def run(ctx, spec):
    tmp, bin_path, o = build_cli(ctx)
    if bin_path is None:
        ctx.violation("tie", "the main package of the repository does not build", dict(output=o[-3000:]), found_input=False)
        return
    try:
        cases, impl, model, stats = gen_and_run(ctx, bin_path)
    finally:
        shutil.rmtree(tmp, ignore_errors=True)
    counters = dict(evaluations=0, documented=0, invalid=0, with_matches=0, spec_failures=0, model_disagreements=0,
                    harness_errors=0, library_unavailable=0)
    fails, drift, samples = [], [], []
    for cid, cline in cases.items():
        parts = cline.split("\t")
        if parts[0] != "cli":
            continue
        vec = C.unhex(parts[2]).decode()
        il = impl.get(cid, "MISSING")
        ml = model.get(cid)
        counters["evaluations"] += 1
        if not il.startswith("OBS "):
            counters["harness_errors"] += 1
            ctx.violation("machinery", "the exhaustive run could not execute a case: " + il[:200],
                          dict(case_id=cid, vector=vec, result=il[:500]), key=vec_key(vec), found_input=False)
            continue
        f, mf = C.fields(il), C.fields(ml or "")
        documented = mf.get("DOCUMENTED") == "T"
        counters["documented" if documented else "invalid"] += 1
        if int(f.get("N", "0") or 0) > 0:
            counters["with_matches"] += 1
        lib = C.unhex(f.get("LIB", "x")).decode("utf-8", "replace")
        if lib not in ("ok", "none"):
            counters["library_unavailable"] += 1
        if mf.get("PRED") != "T":
            counters["spec_failures"] += 1
            fails.append((cid, vec, il, ml, documented))
        elif mf.get("AGREE") != "T":
            counters["model_disagreements"] += 1
            if len(drift) < 5:
                drift.append(dict(vector=vec, observed=f.get("OBS"), model=mf.get("MODEL")))
        elif documented and int(f.get("N", "0") or 0) > 0 and len(samples) < 4 and "noout=0" in vec and \
                nflags(vec) >= 3 + len(samples) and ("prog=replace" in vec) == (len(samples) % 2 == 1):
            samples.append(dict(vector=vec, observed=f.get("OBS"), model=mf.get("MODEL")))
    ctx.coverage.update(
        evaluations=counters["evaluations"], distinct_nontrivial=counters["with_matches"],
        rule="one evaluation = one run of the built binary on one flag vector of the full cross product "
             "(com x src x files{absent,one,several,glob,none-matching} x json x formatted-json x json-file x "
             "formatted-json-file x replace-mode{absent,NEW,NOTHING,OVERWRITE,bogus,empty value,lower case,CONFIRM} x no-output x "
             "program{find,replace,failing}) in a fresh scratch directory; non-trivial = the library found at "
             "least one match; all vectors are distinct",
        samples=samples, counters=counters, generator=stats,
        model_agreement=(counters["model_disagreements"] == 0), model_drift_samples=drift)
    # fewest flags first; one report per kind of failure
    fails.sort(key=lambda t: (nflags(t[1]), t[0]))
    seen = {}
    for cid, vec, il, ml, documented in fails:
        f, mf = C.fields(il), C.fields(ml or "")
        what = describe(vec, f.get("OBS", ""), mf.get("MODEL", ""), documented)
        v = kv(vec)
        sig = what.split(" (")[0] + "|" + "".join(v.get(k, "") for k in ("json", "fjson", "jf", "fjf"))
        if seen.get(sig, 0) >= 1 or len(seen) >= 6:
            continue
        seen[sig] = 1
        ctx.violation("failing-input", what, replay_dict(cid, vec, il, ml), key=vec_key(vec))


def replay(ctx, spec, obj):
    run_extract(ctx)
    C.build_lean(["vdriver"], ctx.log)
    tmp, bin_path, o = build_cli(ctx)
    if bin_path is None:
        print("the main package does not build:", o[-500:])
        return 1
    try:
        vec = obj["vector"]
        rc, out = C.sh([os.path.join(C.BIN, "vharness"), "one", "cli", bin_path, vec], timeout=120)
    finally:
        shutil.rmtree(tmp, ignore_errors=True)
    il = [l for l in out.strip().split("\n") if l.startswith("OBS ")]
    if not il:
        print("no observation:", out[-500:])
        return 1
    il = il[-1]
    f = C.fields(il)
    rc2, o2 = C.sh([C.vdriver_exe()],
                   input="r\tcli\t" + vec + "\t" + f["OBS"] + "\n", timeout=120)
    ml = o2.strip().split("\t", 1)[1] if "\t" in o2 else ""
    mf = C.fields(ml)
    d = replay_dict("replay", vec, il, ml)
    print(json.dumps(d, indent=1))
    return 0 if mf.get("PRED") == "T" else 1


PROPS = {
    "C18": dict(
        lean_modules=["Vore.Props.C18"],
        theorems=THEOREMS,
        pre=pre,
        fallback_table="CliExtracted",
        fallback="the built binary run over the whole flag space (every -replace-mode value incl. empty / lower case / CONFIRM x "
                 "file sets x output flags x pre-existing files x scenarios) against the library-result model: exit status, "
                 "stdout, JSON files, directory",
        run=run,
        replay=replay,
        manifest=dict(
            text="PARTIAL (flag, log.Fatal, os.Exit, the file system and encoding/json are trusted and exercised, not "
                 "proved). Cli.run transcribes main()'s decision sequence (flag.Func mode parsing, the four validation "
                 "exits in source order, compile error -> log.Fatal, no files -> message + exit 0, RunFiles with the "
                 "parsed mode, -no-output, zero matches, JSON to the named files, JSON to stdout vs the count line + "
                 "listing). Cli.spec is the documented behaviour (property text + docs/GettingStarted.md). Proved in "
                 "Lean on the WHOLE finite space (3 200 flag vectors x 12 scenarios, `decide +kernel` on an explicit "
                 "enumeration, then lifted by lemmas to every acceptable reading of main.go and to library results "
                 "of any type and size): documented invocation => exit 0; with >= 1 match -json / -formatted-json "
                 "=> stdout is exactly one JSON document = the library's result, and each named JSON file holds "
                 "exactly that document (whether or not it existed before); the mode handed to RunFiles is the "
                 "documented meaning of -replace-mode, NEW when absent; invalid combination / unknown mode / "
                 "compile error => exit != 0, a message, no file modified. Tie, both mechanisms: (1) "
                 "harness/cmd/cliextract (go/ast, fails closed) regenerates on every check the -replace-mode "
                 "switch and default, the usage text's default, the flag list and OpenFile's os.OpenFile flags "
                 "into Vore/CliExtracted.lean; the theorems are about Cli.run goEnv built from those facts "
                 "(C18_main_go_facts breaks when they stop being the documented ones); (2) the exhaustive run: "
                 "the main package is built from the working tree and run on the full cross product in fresh "
                 "scratch directories; every observation is checked against Cli.spec by the compiled Lean "
                 "definition and against the library's own results (in-process libvore on identical copies: "
                 "JSON documents byte for byte, Print output, the files each replace mode leaves).",
            note="Verdict: a run of the binary that violates Cli.spec is a VIOLATION with the flag vector as replay; a "
                 "theorem that no longer checks is reported as an obligation. A run that satisfies the specification "
                 "but differs from the model in something the property does not constrain (wording of the "
                 "non-JSON output, exit 1 vs 2) is recorded as model drift in the evidence, not as a violation. "
                 "Under -no-output and with zero matches the named JSON files are not written and 'There were no "
                 "matches :(' is printed even under -json: the property only speaks about >= 1 match, so this is "
                 "modelled, not flagged. GettingStarted.md lists an -ide flag that main.go does not have and "
                 "omits -no-output/-debug/-filenames/-profile (documentation drift, outside the property's flag "
                 "list). -debug, -filenames and -profile are not in the cross product. File contents are three "
                 "fixed scenarios (quotes, non-ASCII, an invalid byte, nested variables); the proof covers all "
                 "data only through the model.",
            technique="Lean 4: decision-sequence model + kernel-checked exhaustive enumeration of the flag space; "
                      "go/ast fact extraction; exhaustive black-box run of the built binary compared with in-process libvore"),
        trusted_base=["package flag (parsing, flag.Func error => exit 2), log.Fatal => exit 1, os.Exit, os.OpenFile/Truncate/WriteString: assumed, exercised by the exhaustive run",
                      "harness/cmd/cliextract (go/ast extractor, fails closed) and the harness's classification of stdout/stderr/directory (harness/cmd/vharness/prop_c18.go)",
                      "the library calls return (C09) and render (C17) as their own properties say"],
        assumptions=["the decision sequence of main() depends on the library result only through len(results) (by inspection; exercised)",
                     "scratch directories are created with os.MkdirTemp under os.TempDir(), outside /repo and /verif, and removed"],
    )
}
