"""C12 — Compile rejects exactly the ill-typed process code.

Tie: (1) regenerated facts: the else-if chains of checkBinaryExpr / checkUnaryExpr and the rules of checkReturn
(lean/Vore/Extracted.lean) interpreted by C12_checker_is_table / C12_table_is_documented; (2) correspondence at the
observable level L3: accept / reject of the real libvore.Compile against checkBody (proved equal to the documented
typing judgement, C12_iff) on all expression trees up to a depth and statement lists up to a size in both contexts;
accepted bodies whose loops provably terminate are run: no evaluator panic other than the integer division by zero
when every variable keeps one type (C12_sound).
"""
from . import common as C
from . import prop_C11 as P


def run(ctx, spec):
    cases, impl, model, stats = P.S.gen_and_run(ctx, "C12")
    counters = P.new_counters()
    problems = []
    samples = []
    known_issue = []
    distinct_accept = set()
    distinct = set()
    for cid, cline in cases.items():
        parts = cline.split("\t")
        if parts[0] != "proc":
            continue
        il = impl.get(cid, "MISSING")
        ml = model.get(cid)
        pctx, body = parts[1], C.unhex(parts[2]).decode("latin1")
        distinct.add((pctx, body))
        if il in ("HANG", "CRASH") or il.startswith("HARNESS") or il.startswith("PROTOCOL") or il == "MISSING":
            counters["harness_" + il.split(" ")[0].lower()] += 1
            problems.append(("failing-input", "the real code hung or crashed on a process body (" + il.split(" ")[0] + ")",
                             dict(case_id=cid, body=body, source=P.proc_source(pctx, body), text="aXb"), "hc:" + body))
            continue
        f = C.fields(il)
        mf = C.fields(ml) if ml else {}
        # the multi-typed escape (a variable whose type depends on the path taken) is outside C12's hypothesis
        run_f = f.get("RUN", "SKIP")
        if f.get("COMPILE") == "ok" and mf.get("CHK") == "T" and mf.get("SINGLE") == "F" and run_f.startswith("PANIC "):
            io, mo = P.impl_obs(run_f, pctx), P.lean_obs(mf.get("MODEL"), pctx)
            if io[0] == "UNDEFINED" and mo == io:
                counters["undefined_op_in_multityped_code"] += 1
                counters["proc"] += 1
                counters["accepted_both"] += 1
                if len(known_issue) < 3:
                    known_issue.append(dict(context=pctx, body=body, implementation=P.show(io)))
                continue
        ps = P.compare_proc(cid, cline, il, ml, counters, True)
        if not ps and mf.get("CHK") == "T":
            distinct_accept.add((pctx, body))
            if mf.get("SINGLE") == "T":
                counters["accepted_single_typed"] += 1
                io = P.impl_obs(run_f, pctx)
                if io[0] == "UNDEFINED":
                    ps.append(("failing-input", "accepted code in which every variable keeps one type reached an undefined "
                                                "operation at run time (C12_sound)",
                               dict(case_id=cid, context="transform" if pctx == "t" else "predicate", body=body,
                                    source=P.proc_source(pctx, body), text="aXb", implementation=P.show(io)),
                               "unsound:" + pctx + ":" + body))
            if len(samples) < 3 and counters["accepted_both"] % 401 == 1:
                samples.append(dict(context=pctx, body=body, verdict="accepted by Compile and by checkBody",
                                    run=P.show(P.impl_obs(run_f, pctx))))
        elif not ps and len(samples) < 5 and counters["rejected_both"] % 1501 == 1:
            samples.append(dict(context=pctx, body=body, verdict="rejected by Compile and by checkBody",
                                message=f.get("COMPILE", "")[:120]))
        problems += ps
    diff = P.differing_cells(ctx)
    ctx.coverage.update(
        evaluations=counters["proc"],
        distinct_nontrivial=len(distinct_accept),
        rule="evaluations = process bodies given to the real Compile in a transform or predicate (accept/reject compared "
             "with checkBody); distinct_nontrivial = distinct (context, body) pairs accepted by both",
        samples=samples, counters=dict(counters), generator=stats, distinct_bodies=len(distinct),
        outside_hypothesis_samples=known_issue, differing_cells=diff)
    if diff is None:
        ctx.violation("machinery", "the Lean driver could not list the differing cells (c11diff)", {}, found_input=False)
    P.report(ctx, problems, diff)


THEOREMS = ["Vore.C12_checker_is_table", "Vore.C12_table_is_documented", "Vore.C12_iff", "Vore.C12_expr_iff",
            "Vore.C12_sound", "Vore.C12_sound_undefined", "Vore.C12_sound_runProcess", "Vore.C12_agrees_of_no_bool"]

PROPS = {"C12": dict(
    lean_modules=["Vore.Props.C12"],
    theorems=THEOREMS,
    extract=True,
    fallback="accept/reject of the real Compile on every small statement tree (every operator x operand-type combination, "
             "every statement rule, both contexts) and on generated statement lists, against the documented typing rules",
    run=run,
    replay=P.replay,
    trusted_base=[
        "harness/cmd/extract (go/ast, fails closed) reads checkBinaryExpr/checkUnaryExpr/checkReturn faithfully; every "
        "extracted cell is also compiled by the real code",
        "the statement rules of checkStatement (if/loop/break/continue/set, type environment) are hand-modelled "
        "(Vore/Model/Check.lean) and tied by the accept/reject correspondence",
    ],
    assumptions=[
        "SingleTyped: every `set x to e` assigns a value of the type x has from the start (unknown names are strings); "
        "without it a variable whose type depends on the path taken can reach 'SHOULDN'T GET HERE' (recorded, not a violation)",
        "the run-time environment agrees with the checker's assumptions up to Fits (a number may stand where a string is "
        "assumed: matchNumber); integer division by zero is NOT excluded by typing (C09)",
    ],
    manifest=dict(
        text="Proved in Lean for ALL statement trees in both contexts: the documented typing rules are an inductive judgement "
             "(Spec/Typing.lean: operator table of Spec/DocOps.lean, boolean `if` conditions, predicate returns boolean, "
             "transform returns string or number, break/continue only inside loop, variables typed by last assignment, unknown "
             "names strings); C12_iff: checkBody ctx body = true <-> Spec.Typing.wellTyped ctx body (structural induction); the "
             "expression and return rules of the checker are RE-EXTRACTED from checkBinaryExpr/checkUnaryExpr/checkReturn on "
             "every check and proved equal to the documented table by finite case analysis (C12_checker_is_table, "
             "C12_table_is_documented). C12_sound: accepted code in which each variable keeps one type (SingleTyped), run with "
             "any fuel in any environment agreeing with the checker's assumptions, never raises a panic other than Go's integer "
             "division by zero - in particular none of the 'SHOULDN'T GET HERE' panics (induction on fuel and on the typing "
             "derivation; progress/preservation over the finite type cube). Correspondence: accept/reject of the real Compile "
             "vs checkBody on all expression trees of depth <= 2 over typed leaves (thorough; depth <= 1 + sample in quick), all "
             "statement lists up to 3 statements with if/else/loop/break/continue nesting over a representative expression "
             "set, random lists over random trees, both contexts; accepted terminating bodies are run on the real code.",
        note="A dropped/added disjunct of checkBinaryExpr or a swapped return rule changes Extracted.lean and breaks "
             "C12_checker_is_table; the run reports the first body on which Compile contradicts the documented rules. "
             "Division by zero and multi-typed variables are outside the soundness claim and are counted in the evidence.",
        technique="Lean 4: inductive typing judgement + structural induction (iff) + fuel/derivation induction (soundness) + "
                  "regenerated decision lists + exhaustive small-scope accept/reject correspondence"),
)}
