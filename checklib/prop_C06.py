from . import search as S
from . import common as C


def run(ctx, spec):
    cases, impl, model, stats = S.gen_and_run(ctx, "C06")
    n = agree = nontrivial = 0
    samples = []
    modes = {}
    for cid, cline in cases.items():
        parts = cline.split("\t")
        if parts[0] != "files":
            continue
        n += 1
        src, mode, fsb = C.unhex(parts[1]), parts[2], parts[3]
        il, ml = impl.get(cid, "MISSING"), model.get(cid)
        fi = C.fields(il)
        if il.startswith("COMPILE ERR"):
            continue
        if ml is None:
            ctx.violation("failing-input", "RunFiles crashed or hung: " + il[:60],
                          dict(case_id=cid, source=src.decode("latin1"), mode=mode, fs_before=fsb, implementation=il[:300]),
                          key=S.case_key(src, (mode + fsb).encode()))
            continue
        fm = C.fields(ml)
        ires, mres = fi.get("RES", il), fm.get("RES", ml)
        if ires.startswith("PANIC"):
            ires = "PANIC"
        if "DIVERGE" in (ires, mres):
            continue
        if ires == "PANIC" and mres == "PANIC":
            # both sides crash (e.g. divide by zero in a transform): C09's business, not a splice/mode difference
            modes["both-panic"] = modes.get("both-panic", 0) + 1
            continue
        modes[mode] = modes.get(mode, 0) + 1
        ok = (S.project(ires, b"", S.ALL_FIELDS) == S.project(mres, b"", S.ALL_FIELDS)) and fi.get("FS") == fm.get("FS")
        if ok:
            agree += 1
            if fi.get("FS") != fsb:
                nontrivial += 1
                if len(samples) < 3:
                    samples.append(dict(source=src.decode("latin1"), mode=mode, fs_before=fsb, fs_after=fi.get("FS")))
        else:
            what = "file system after RunFiles differs from the abstract-FS model (proved: splice + mode rules)"
            if fi.get("FS") == fm.get("FS"):
                what = "matches of RunFiles differ from the model"
            ctx.violation("failing-input", what,
                          dict(case_id=cid, source=src.decode("latin1"), mode=mode, fs_before=fsb,
                               implementation=dict(res=ires, fs=fi.get("FS")), model_and_spec=dict(res=mres, fs=fm.get("FS"))),
                          key=S.case_key(src, (mode + fsb).encode()))
    # histories of calls on the in-memory output stream: the real files.MemoryStream / files.Writer against Vore.MS.runOps
    # (C06_memory_stream*: the WriteAt calls of searchReplace never panic and leave the splice)
    import re as _re
    ms_n = ms_agree = ms_panic = ms_cap_drift = 0
    _nocap = lambda l: _re.sub(r" cap=\d+", "", l or "")
    for cid, cline in cases.items():
        parts = cline.split("\t")
        if parts[0] != "mshist":
            continue
        ms_n += 1
        il, ml = impl.get(cid, "MISSING"), model.get(cid)
        if _nocap(il) == _nocap(ml):
            # contents, position and panics are what the property observes; the capacity of the backing array is an
            # internal of the growth rule (another factor would be a harmless rewrite): recorded, not a verdict
            ms_agree += 1
            ms_panic += il == "PANIC"
            ms_cap_drift += il != ml
            continue
        ctx.violation("failing-input", "the in-memory output stream (files.MemoryStream / Writer.WriteAt) differs from its model "
                      "(proved to refine the abstract write and never to panic on non-negative offsets)",
                      dict(case_id=cid, history=parts[1][:2000], implementation=(il or "")[:300], model=(ml or "")[:300],
                           how="vharness one mshist raw:<history>"),
                      key=S.case_key(parts[1].encode(), b"mshist"))
    n += ms_n
    agree += ms_agree
    ctx.coverage.update(evaluations=n, distinct_nontrivial=nontrivial,
                        rule="generated replace/find programs x {NEW, NOTHING, OVERWRITE} on a real scratch directory "
                             "(searched file, bystander file, optional stale .vored); non-trivial = the directory changed",
                        samples=samples, counters=dict(cases=n, agree=agree, by_mode=modes, memory_stream_histories=ms_n,
                                                       memory_stream_agree=ms_agree, memory_stream_both_panic=ms_panic,
                                                       memory_stream_capacity_drift=ms_cap_drift), generator=stats,
                        traces_validated_against_impl=agree)


PROPS = {"C06": dict(
    lean_modules=["Vore.Props.C06"],
    theorems=["Vore.C06_splice", "Vore.C06_mode_nothing", "Vore.C06_mode_new", "Vore.C06_mode_overwrite", "Vore.C06_find_pure",
              "Vore.C06_run_frame", "Vore.C06_run_single", "Vore.C06_memory_stream", "Vore.C06_memory_stream_splice",
              "Vore.C06_memory_stream_total"],
    run=run,
    assumptions=["POSIX semantics of O_TRUNC and seek+write; os.ReadFile; the real file system is exercised, not proved"],
    manifest=dict(
        text="Proved in Lean for all replace commands/inputs: what the copy loop of searchReplace writes "
             "(reader offset / writer offset arithmetic over a growable byte array) equals Spec.splice — the input with "
             "every matched span substituted and every other byte kept — with no side hypothesis (ordering and ranges "
             "come from C03) (C06_splice); over an abstract file system: NOTHING changes nothing, NEW sets only "
             "<file>.vored to the splice, OVERWRITE sets only the file to the splice, find commands change nothing "
             "(C06_mode_*, C06_find_pure); lifted to whole runs of any program over any LIST of paths, a path possibly listed "
             "twice (runFilesL, commands outermost as in RunFiles): NOTHING changes no file, NEW changes nothing except "
             "<f>.vored for listed f (a searched file stays byte-identical unless it is itself the .vored of another listed "
             "file), OVERWRITE changes nothing except the listed files (C06_run_frame, by induction over commands and "
             "files). The in-memory destination of Run / mode NOTHING is modelled as written (files/memorystream.go: backing "
             "array, length, capacity, position; both slice panics explicit): for every text and match list the WriteAt "
             "calls of searchReplace never panic and leave exactly the written text = the splice; no history of "
             "Write/Seek/WriteAt(off >= 0) panics (C06_memory_stream, _splice, _total; invariant: len <= cap and the array "
             "beyond len is zero). Correspondence: the real RunFiles is run in a scratch directory for every "
             "mode (replacements longer/shorter/empty, zero matches, stale .vored, bystander file, several commands) and "
             "the directory snapshot and matches are compared with the model's; 600 (thorough: 20 000) random histories of "
             "Write/Seek/WriteAt on the real MemoryStream vs the model (contents and position; sizes around 4096/8192, gaps, "
             "overwrites, negative offsets).",
        note="Partial in the sense of DESIGN §6: the file system is abstract in the theorem; O_TRUNC/seek/write are "
             "assumptions exercised by the correspondence. Trusted: Lean kernel; model fidelity by correspondence.",
        technique="Lean 4 loop-invariant proof of the splice + case analysis over modes + differential run on a real scratch directory"),
)}
