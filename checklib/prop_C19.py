"""C19 — Compile and Run are safe to call from many goroutines  (PARTIAL)

1. regenerated facts: harness/cmd/extractglobals -> lean/Vore/ExtractedGlobals.lean (every package-level var, who
   writes it, lock holders, go statements, math/rand calls, writes through bytecode values); Vore.Props.C19 is
   rebuilt against them: `parser_state_confined`, `calls_are_single_threads`, `bytecode_readonly_at_run` are
   evaluated on the new data and `C19_compile_run` depends on them.
2. supporting validation + failing-input search (NOT a proof): harness/cmd/racedrive, built with and without
   `-race`, N goroutines x {Compile with regex groups, Compile without, Run shared, Run private, parse only};
   every result is compared with the same call's sequential result; the race detector's log is read.
   A differing result or a race report inside libvore is the replay.
"""
import glob, hashlib, json, os, re, time
from . import common as C
from .extract_globals import run_extract_globals, restore, describe

MODULE = "Vore.Props.C19"
THEOREMS = ["Vore.Props.C19.C19_noninterference", "Vore.Props.C19.parser_state_confined",
            "Vore.Props.C19.calls_are_single_threads", "Vore.Props.C19.bytecode_readonly_at_run",
            "Vore.Props.C19.C19_compile_run", "Vore.Props.C19.C19_shared_counter_interferes"]


def tier_config(tier):
    if tier == "thorough":
        return dict(batches=5000, procs="2,4,16", goroutines=8, iters=8, programs=60)
    return dict(batches=100, procs="4,16", goroutines=8, iters=8, programs=40)


def build_racedrive(ctx):
    """returns (plain exe or None, race exe or None, note)"""
    hdir = os.path.join(C.VERIF, "harness")
    plain = os.path.join(C.BIN, "racedrive")
    race = os.path.join(C.BIN, "racedrive-race")
    for p in (plain, race):
        if os.path.exists(p):
            os.remove(p)
    rc, o = C.sh(["go", "build"] + C.go_mod_args() + ["-tags", "verif", "-o", plain, "./cmd/racedrive"], cwd=hdir, env=C.GOENV, timeout=600)
    ctx.log.append({"step": "go build -tags verif racedrive", "rc": rc, "out": o[-1500:]})
    if rc != 0:
        return None, None, o
    env = dict(C.GOENV, CGO_ENABLED="1")
    rc, o = C.sh(["go", "build"] + C.go_mod_args() + ["-race", "-tags", "verif", "-o", race, "./cmd/racedrive"], cwd=hdir, env=env, timeout=900)
    ctx.log.append({"step": "CGO_ENABLED=1 go build -race -tags verif racedrive", "rc": rc, "out": o[-1500:]})
    if rc != 0:
        return plain, None, "race detector unavailable in this environment: " + o[-600:]
    return plain, race, ""


RACE_HDR = re.compile(r"^(Read|Write|Previous read|Previous write|Atomic read|Atomic write|Previous atomic read|"
                      r"Previous atomic write) at (0x[0-9a-f]+) by (goroutine \d+|main goroutine):")


def parse_race_log(text):
    """-> list of dict(accesses=[{op, frames:[(func, file:line)]}], text)"""
    reports = []
    for block in text.split("=================="):
        if "WARNING: DATA RACE" not in block:
            continue
        accesses, cur = [], None
        lines = block.strip("\n").split("\n")
        i = 0
        while i < len(lines):
            m = RACE_HDR.match(lines[i].strip())
            if m:
                cur = dict(op=m.group(1), frames=[])
                accesses.append(cur)
            elif lines[i].startswith("Goroutine "):
                cur = None
            elif cur is not None and lines[i].startswith("  ") and not lines[i].startswith("   "):
                fn = lines[i].strip()
                loc = lines[i + 1].strip().split(" ")[0] if i + 1 < len(lines) else ""
                cur["frames"].append((fn, loc))
                i += 1
            i += 1
        reports.append(dict(accesses=accesses, text=block.strip()[:4000]))
    return reports


def in_libvore(frame):
    return "jmeaster30/vore/libvore" in frame[0]


def summarize_race(rep):
    tops = []
    for a in rep["accesses"][:2]:
        lib = [f for f in a["frames"] if in_libvore(f)]
        top = lib[0] if lib else (a["frames"][0] if a["frames"] else ("?", "?"))
        tops.append(dict(op=a["op"], function=top[0].replace("github.com/jmeaster30/vore/libvore/", "").rstrip("()"),
                         at=re.sub(r"^.*/libvore/", "libvore/", top[1])))
    return tops


def run_drive(ctx, exe, cfg, tag, race):
    out = os.path.join(ctx.workdir, f"racedrive-{tag}.json")
    logp = os.path.join(ctx.workdir, f"racelog-{tag}")
    for p in glob.glob(logp + ".*"):
        os.remove(p)
    env = dict(os.environ, GOMEMLIMIT="4GiB")
    if race:
        env["GORACE"] = f"log_path={logp} exitcode=0 halt_on_error=0"
    cmd = [exe, "-batches", str(cfg["batches"]), "-procs", cfg["procs"], "-goroutines", str(cfg["goroutines"]),
           "-iters", str(cfg["iters"]), "-programs", str(cfg["programs"]), "-seed", str(cfg["seed"]),
           "-mode", cfg.get("mode", "mix"), "-out", out]
    t0 = time.time()
    rc, o = C.sh(cmd, env=env, timeout=3600)
    ctx.log.append({"step": " ".join(["racedrive" + ("-race" if race else "")] + cmd[1:-2]), "rc": rc,
                    "wall_s": round(time.time() - t0, 2), "out": o[-800:]})
    if rc != 0 and "fatal error:" in o:
        # the Go runtime killed the driver (concurrent map read/write, unrecoverable corruption): that IS a failing run of
        # the concurrent calls, not a failure of the machinery
        m = re.search(r"fatal error: ([^\n]*)", o)
        frames = [l.strip() for l in o.split("\n") if "/libvore/" in l][:6]
        rep = dict(seed=cfg["seed"], gomaxprocs=cfg["procs"], batches_per_setting=cfg["batches"], goroutines=cfg["goroutines"],
                   iterations_per_goroutine=cfg["iters"], mode=cfg.get("mode", "mix"), num_cpu=os.cpu_count(), batches=0,
                   sequential_reference_stable=True, diffs=[], operations=0, operations_by_kind={}, distinct_calls_compared=0,
                   samples=[], programs=0, programs_with_groups=0, programs_that_compile=0, texts=0, run_results_with_matches=0,
                   differing_results=1, wall_s=0.0,
                   runtime_abort=dict(message=m.group(1) if m else "fatal error", frames=frames, output_tail=o[-2500:]))
        return rep, []
    if rc != 0 or not os.path.exists(out):
        raise RuntimeError(f"racedrive ({tag}) failed rc={rc}: {o[-500:]}")
    rep = json.load(open(out))
    races = []
    for p in sorted(glob.glob(logp + ".*")):
        races += parse_race_log(open(p, errors="replace").read())
    return rep, races


def key_of(*parts):
    return hashlib.sha1("\0".join(parts).encode()).hexdigest()[:12]


def recheck_theorems(ctx):
    """rebuild Vore.Props.C19 against the regenerated facts; -> (ok, theorems, output)"""
    bok, bout = C.build_lean([MODULE], ctx.log)
    mok, thms, o = C.check_props_module(MODULE, ctx.log)
    have = {t["name"]: t for t in thms}
    problems = []
    if not bok or not mok:
        problems.append("Vore.Props.C19 does not build against the regenerated facts")
    for n in THEOREMS:
        if n not in have:
            problems.append(f"theorem {n} was not checked")
        elif not have[n]["ok"]:
            problems.append(f"theorem {n} depends on {have[n]['axioms']}")
    errs = [l for l in (bout + "\n" + o).split("\n") if "error" in l][:6]
    return (not problems), thms, problems, errs, (bout[-2500:] if not bok else o[-2500:])


def pre_c19(ctx, spec):
    """regenerate the facts before the Lean build of the driver (checklib/main.py calls spec['pre'] if it knows the
    key; otherwise run_c19 does it first thing)"""
    ex = run_extract_globals(ctx)
    ctx.c19_extract = ex
    return ex


def run_c19(ctx, spec):
    cfg = dict(tier_config(ctx.tier), seed=ctx.seed)
    # 1. regenerated facts (delete stale file, regenerate, re-check the theorems that interpret them)
    ex = getattr(ctx, "c19_extract", None) or pre_c19(ctx, spec)
    facts = describe(ex.get("facts"))
    theorem_break = None
    if not ex["ok"]:
        ctx.violation("tie", "shared-state fact extractor failed on /repo's source (it fails closed on constructs it "
                             "cannot classify)", dict(output=ex["out"][-3000:]), found_input=False,
                      key="extractglobals-failed")
        thms = []
    else:
        ok, thms, problems, errs, out = recheck_theorems(ctx)
        if not ok:
            theorem_break = dict(problems=problems, lean_errors=errs, output=out, extracted_facts=facts)
    # 2. supporting validation / failing-input search on the real code
    plain, race, note = build_racedrive(ctx)
    if plain is None:
        ctx.violation("tie", "harness/cmd/racedrive no longer builds against /repo (-tags verif)",
                      dict(output=note[-3000:]), found_input=False, key="racedrive-build")
        if theorem_break:
            ctx.violation("obligation", "C19 theorems do not check against the regenerated shared-state facts: " +
                          "; ".join(theorem_break["problems"]), theorem_break, found_input=False, key="c19-theorems")
        return
    runs = []
    rep_p, _ = run_drive(ctx, plain, cfg, "plain", False)
    runs.append(("plain", rep_p, []))
    if race:
        rep_r, races = run_drive(ctx, race, cfg, "race", True)
        runs.append(("race", rep_r, races))
    else:
        ctx.assumptions.append("race detector build unavailable here: only result comparison was run (" + note[:200] + ")")
    found = False
    lib_races, harness_races, diffs = [], [], []
    for tag, rep, races in runs:
        conf = dict(binary="racedrive" + ("-race" if tag == "race" else ""), seed=rep["seed"], gomaxprocs=rep["gomaxprocs"],
                    batches_per_setting=rep["batches_per_setting"], goroutines=rep["goroutines"],
                    iterations_per_goroutine=rep["iterations_per_goroutine"], programs=cfg["programs"], mode=rep["mode"],
                    num_cpu=rep["num_cpu"], batches_run=rep["batches"])
        if not rep["sequential_reference_stable"]:
            ctx.violation("machinery", "racedrive: a call did not return the same result twice when run alone; the "
                          "sequential reference is not a function of the call", dict(calls=rep.get("sequential_reference_unstable", [])[:5],
                                                                                    config=conf), found_input=False,
                          key="seq-unstable")
        if rep.get("runtime_abort"):
            ab = rep["runtime_abort"]
            found = True
            ctx.violation("failing-input", "the Go runtime aborted the process during concurrent calls: fatal error: " + ab["message"] +
                          (" (" + ab["frames"][0] + ")" if ab["frames"] else ""),
                          dict(config=conf, runtime_message=ab["message"], frames=ab["frames"], output=ab["output_tail"],
                               broken_theorems=(theorem_break or {}).get("problems"),
                               note="scheduler dependent: `./check C19 --replay <this file>` re-runs the same configuration up to 5 times"),
                          key=key_of("abort", ab["message"]))
            continue
        diffs += [(conf, rep, d) for d in rep["diffs"]]
        for r in races:
            (lib_races if any(in_libvore(f) for a in r["accesses"] for f in a["frames"]) else harness_races).append((conf, r))
    # race reports first (they name both accesses), then one differing result per kind of call
    seen = set()
    for conf, r in lib_races:
        tops = summarize_race(r)
        k = key_of("race", *sorted(t["function"] for t in tops))
        if k in seen:
            continue
        seen.add(k)
        found = True
        ctx.violation("failing-input", "Go race detector: two goroutines access the same memory without synchronisation: " +
                      " / ".join(f"{t['op'].lower()} in {t['function']} ({t['at']})" for t in tops),
                      dict(race_report=r["text"], accesses=tops, config=conf,
                           broken_theorems=(theorem_break or {}).get("problems")), key=k)
    for conf, rep, d in sorted(diffs, key=lambda x: len(x[2]["source"])):
        k = key_of("diff", d["kind"])
        if k in seen:
            continue
        seen.add(k)
        found = True
        what = (f"{d['kind']}: a call made concurrently with other calls returned something else than the same call "
                f"made alone (GOMAXPROCS={d['gomaxprocs']}, batch {d['batch']})")
        if d["kind"] == "HANG":
            what = "a batch of concurrent calls did not finish (deadlock or livelock)"
        ctx.violation("failing-input", what,
                      dict(differing_result=d, config=conf, total_differing_results=rep["differing_results"],
                           broken_theorems=(theorem_break or {}).get("problems"),
                           note="scheduler dependent: `./check C19 --replay <this file>` re-runs the same "
                                "configuration up to 5 times"), key=k)
    if harness_races:
        ctx.violation("machinery", "race detector report that does not involve libvore (the driver itself races)",
                      dict(race_report=harness_races[0][1]["text"]), found_input=False, key="harness-race")
    if theorem_break and not found:
        ctx.violation("obligation", "C19 theorems do not check against the shared-state facts regenerated from /repo: " +
                      "; ".join(theorem_break["problems"]) + " (the concurrent search found no differing result and no "
                      "race report within its budget)", theorem_break, found_input=False, key="c19-theorems")
    if theorem_break and ex.get("previous") is not None and ex.get("changed"):
        restore(ex["previous"])  # the violation is reported; leave the committed fact file at rest
    # coverage
    p = runs[0][1]
    ops = sum(r["operations"] for _, r, _ in runs)
    ctx.coverage.update(
        evaluations=ops,
        distinct_nontrivial=max(r["distinct_calls_compared"] for _, r, _ in runs),
        rule="evaluation = one concurrent call (Compile / VerifParse / Run) whose complete result (syntax-tree dump, "
             "bytecode dump with loop ids renumbered, error text, match list) was compared with the result of the same "
             "call made alone; distinct = distinct (kind, source[, text]) calls; non-trivial: every batch runs 8 "
             "goroutines released together, every fourth batch has >= 2 concurrent compiles of sources with regex groups",
        samples=[dict(kind=s["kind"], source=s["source"], text=s.get("text", ""), sequential_result=s["sequential_result"][:200])
                 for s in p["samples"][:4]],
        counters=dict(batches={t: r["batches"] for t, r, _ in runs}, operations_by_kind={t: r["operations_by_kind"] for t, r, _ in runs},
                      programs=p["programs"], programs_with_groups=p["programs_with_groups"],
                      programs_that_compile=p["programs_that_compile"], texts=p["texts"],
                      run_results_with_matches=p["run_results_with_matches"], gomaxprocs=p["gomaxprocs"],
                      goroutines=p["goroutines"], differing_results={t: r["differing_results"] for t, r, _ in runs},
                      race_reports_libvore=len(lib_races), race_detector=("on" if race else "unavailable"),
                      wall_s={t: round(r["wall_s"], 2) for t, r, _ in runs}),
        extracted_facts=facts,
        theorems_against_regenerated_facts=[dict(name=t["name"], ok=t["ok"], axioms=t["axioms"]) for t in thms],
        partial="PARTIAL: the theorems cover the interference logic of the interleaving model over the extracted "
                "shared-state facts; the Go memory model, the scheduler, the race detector's completeness, the runtime "
                "and math/rand's internal locking are outside them. The concurrent runs are supporting validation and "
                "the failing-input search, not proof.")


def replay_c19(ctx, spec, obj):
    conf = obj.get("config") or {}
    plain, race, note = build_racedrive(ctx)
    exe = race if (conf.get("binary", "").endswith("-race") and race) else plain
    if exe is None:
        print("racedrive does not build: " + note[-500:])
        return 1
    cfg = dict(batches=conf.get("batches_per_setting", 200), procs=",".join(str(x) for x in conf.get("gomaxprocs", [4])),
               goroutines=conf.get("goroutines", 8), iters=conf.get("iterations_per_goroutine", 8),
               programs=conf.get("programs", 40), seed=conf.get("seed", obj.get("seed", 1)), mode=conf.get("mode", "mix"))
    for attempt in range(1, 6):
        rep, races = run_drive(ctx, exe, cfg, f"replay{attempt}", exe == race)
        lib = [r for r in races if any(in_libvore(f) for a in r["accesses"] for f in a["frames"])]
        if rep["differing_results"] or lib:
            print(f"REPRODUCED on attempt {attempt}: {rep['differing_results']} differing results, {len(lib)} race reports")
            for d in rep["diffs"][:2]:
                print(json.dumps(d, indent=1)[:1500])
            for r in lib[:1]:
                print(r["text"][:2000])
            return 1
    print("not reproduced in 5 attempts of the recorded configuration (the failure is scheduler dependent)")
    return 0


PROPS = {"C19": dict(
    lean_modules=[MODULE], theorems=THEOREMS, run=run_c19, replay=replay_c19, pre=pre_c19,
    manifest=dict(
        text="PARTIAL. Proved (Lean 4, for any number of threads, any thread length and every schedule, by induction "
             "over the schedule): in the interleaving model, if every written shared location is confined to one thread "
             "or protected by a mutex (every access holds it; a value read from it reaches a result only after the "
             "reader's own write in the same critical section), every thread's result equals its sequential result and "
             "no two conflicting accesses are unordered by happens-before (program order + unlock->lock). The hypotheses "
             "are discharged for Compile/Run from facts re-extracted from the Go source on every run: every "
             "package-level variable written by code reachable from Compile/Run is touched only under the package mutex "
             "held by parse for its whole body and reset before use; no reachable go statement; no engine function "
             "assigns through a bytecode value. A model with one unprotected package-level counter (the code before the "
             "fix) is proved to interfere (concrete two-thread schedule). Not proved: anything about the Go memory "
             "model, the scheduler or the runtime.",
        note="The Go race detector (go build -race) and result comparison over goroutines x {Compile with/without regex "
             "groups, Run on shared/private programs} are supporting validation and the failing-input search; a race "
             "report or a differing result is the replay. Genuine defect found and fixed: capture_group_number "
             "(package-level regex group counter) raced between concurrent Compile calls (fixes/C19-groupcounter.diff).",
        technique="Lean 4 interleaving model + happens-before, schedule induction; go/ast extraction of shared-state "
                  "facts interpreted by kernel-evaluated decision procedures; race-detector-backed concurrent "
                  "differential run"),
    trusted_base=[
        "harness/cmd/extractglobals (go/ast, no type checker; name-based over-approximated call graph; fails closed) "
        "reads the package-level variables, their writers, the Lock/defer-Unlock prologues and the go statements faithfully",
        "`GoCalls` (Vore/Model/SchedGo.lean) as a description of what a Compile/Run call can touch: memory allocated "
        "by the call is private to it; the bytecode of a shared *Vore is only read; math/rand's global source is "
        "guarded by the library's own mutex and its values matter only up to renaming of loop ids",
        "the Go memory model (a mutex unlock is synchronised before every later lock), the scheduler and the runtime; "
        "atomicity of the model's actions is justified only by the data-race freedom the theorem itself establishes",
        "the Go race detector is sound for the executions it observes but not complete; the concurrent runs sample "
        "schedules, they do not enumerate them",
    ],
    assumptions=[
        "package-level initialisers run before any goroutine (Go initialisation order)",
        "engine.VerifStepHook is a verif-only package variable (build tag `verif`), never assigned inside libvore; "
        "it is excluded from the extracted facts and never touched by racedrive",
        "loop ids drawn from math/rand collide with probability 2^-63 per pair (DESIGN section 8)",
    ],
)}
