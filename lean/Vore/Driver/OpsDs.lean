import Vore.Driver.SExp
import Vore.Model.Ds
/-!
# Vore.Driver.OpsDs — model side of the container histories (libvore/ds: Queue, Stack)

`qhist <ops>` / `shist <ops>`: `,`-separated operations on an initially empty container, the answers joined by `;`.
Queue: `u<v>` Push, `f<v>` PushFront, `o` Pop, `k` Peek, `l<n>` Limit(n) (n may be negative), `z` Size, `c` Contents.
Stack: `u<v>` Push, `o` Pop, `k` Peek, `i<n>` Index(n), `z` Size, `y<v>` Copy() then Push(v) on the copy (both stores).
-/
namespace Vore.Driver
open Vore Vore.Ds

def qOp (s : String) : Option QOp :=
  match s.toList with
  | 'u' :: r => (String.ofList r).toNat?.map QOp.push
  | 'f' :: r => (String.ofList r).toNat?.map QOp.pushFront
  | ['o'] => some .pop
  | ['k'] => some .peek
  | 'l' :: r => (String.ofList r).toInt?.map QOp.limit
  | ['z'] => some .size
  | ['c'] => some .contents
  | _ => none

def sOp (s : String) : Option SOp :=
  match s.toList with
  | 'u' :: r => (String.ofList r).toNat?.map SOp.push
  | ['o'] => some .pop
  | ['k'] => some .peek
  | 'i' :: r => (String.ofList r).toInt?.map SOp.index
  | ['z'] => some .size
  | 'y' :: r => (String.ofList r).toNat?.map SOp.copyThenPush
  | _ => none

def handleDs (op : String) (fields : List String) : Option String :=
  match op, fields with
  | "qhist", ops :: _ =>
    match (if ops == "-" then some [] else (ops.splitOn ",").mapM qOp) with
    | none => some "BADCASE"
    | some os => some (";".intercalate (qRun Queue.new os))
  | "shist", ops :: _ =>
    match (if ops == "-" then some [] else (ops.splitOn ",").mapM sOp) with
    | none => some "BADCASE"
    | some os => some (";".intercalate (sRun Stack.new os))
  | _, _ => none

end Vore.Driver
