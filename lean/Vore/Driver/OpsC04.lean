import Vore.Driver.ParseRes
import Vore.Spec.Window
/-!
# driver op `window` (C04): the executable selection `Spec.select` applied to the implementation's
own `find all` result must equal what the implementation returns under each clause, and the
amount tuple the real parser produced must be `Clause.amount`.
-/
namespace Vore.Driver
open Vore Vore.Spec

def clauseOf (s : String) : Option Clause :=
  match s.splitOn ":" with
  | ["top", n] => n.toNat?.map .top
  | ["take", n] => n.toNat?.map .take
  | ["skip", n] => n.toNat?.map .skip
  | ["last", n] => n.toNat?.map .last
  | ["skiptake", s, t] => do pure (.skipTake (← s.toNat?) (← t.toNat?))
  | _ => none

def amtTupleStr (a : Amount) : String := s!"{boolStr a.all},{a.skip},{a.take},{a.last}"

def sameMatches (a b : List Match) : Bool := (a.map matchStr) == (b.map matchStr)

def checkClause (A : List Match) (entry : String) : Option String :=
  -- entry = "CL desc|res|amt"; returns some failure description or none
  match (entry.drop 3).toString.splitOn "|" with
  | [desc, res, amt] =>
    match clauseOf desc, parseMatches res with
    | some cl, some R =>
      if amt != amtTupleStr cl.amount then some s!"{desc}:amount-tuple {amt}"
      else if !sameMatches R (select cl A) then some s!"{desc}:selection"
      else none
    | _, _ => some s!"{desc}:unparsed {res.take 20}"
  | _ => some "malformed"

def handleC04 (op : String) (fields : List String) : Option String :=
  if op != "window" then none else
  match fields with
  | _text :: allE :: rest =>
    match (allE.drop 4).toString.splitOn "|" with
    | [allRes, _] =>
      match parseMatches allRes with
      | none => some "WINDOW na"
      | some A =>
        let fails := rest.filterMap (checkClause A)
        if fails.isEmpty then some s!"WINDOW ok {rest.length} {A.length}" else some ("WINDOW fail " ++ " ".intercalate fails)
    | _ => some "WINDOW na"
  | _ => some "BADCASE"

end Vore.Driver
