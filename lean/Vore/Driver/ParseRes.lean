import Vore.Driver.Print
import Vore.Spec.Locate
/-!
# Vore.Driver.ParseRes — reading the canonical match lines written by the Go side, so that the
executable property predicates (`Spec.faithful`, …) can be run on the *implementation's* output.
-/
namespace Vore.Driver
open Vore

/-- split on a separator at brace depth 0 -/
def splitTop (s : String) (sep : Char) : List String :=
  let rec go (cs : List Char) (depth : Nat) (cur : List Char) (acc : List String) : List String :=
    match cs with
    | [] => (String.ofList cur.reverse :: acc).reverse
    | c :: rest =>
      if c == '{' then go rest (depth + 1) (c :: cur) acc
      else if c == '}' then go rest (depth - 1) (c :: cur) acc
      else if c == sep && depth == 0 then go rest depth [] (String.ofList cur.reverse :: acc)
      else go rest depth (c :: cur) acc
  go s.toList 0 [] []

mutual
partial def parseVMap (s : String) : Option VMap :=
  -- s = "{k=v,k=v}"
  if !(s.startsWith "{" && s.endsWith "}") then none else
  let inner := (s.drop 1).dropEnd 1 |>.toString
  if inner.isEmpty then some .nil else
  (splitTop inner ',').foldr (fun kv acc => do
      let rest ← acc
      let cs := kv.toList
      let k := String.ofList (cs.takeWhile (· != '='))
      let v := String.ofList ((cs.dropWhile (· != '=')).drop 1)
      let val ← parseVal v
      pure (VMap.cons k val rest)) (some .nil)
partial def parseVal (s : String) : Option Val :=
  if s.startsWith "s:" then (unhex (s.drop 2).toString).map .str
  else if s.startsWith "m:" then (parseVMap (s.drop 2).toString).map .map
  else none
end

def parseMatch (s : String) : Option Match :=
  match splitTop s ',' with
  | [num, st, en, l1, l2, c1, c2, v, r, vars] => do
    let repl ← if r == "-" then some none else ((unhex (r.drop 1).toString).map some)
    pure { number := ← num.toNat?, startPos := ← st.toNat?, endPos := ← en.toNat?, startLine := ← l1.toNat?,
           endLine := ← l2.toNat?, startCol := ← c1.toNat?, endCol := ← c2.toNat?, value := ← unhex v,
           vars := ← parseVMap vars, replacement := repl }
  | _ => none

/-- `OK m;m;…` -/
def parseMatches (s : String) : Option (List Match) :=
  if s == "OK" || s == "OK " then some [] else
  if !s.startsWith "OK " then none else
  (splitTop (s.drop 3).toString ';').mapM parseMatch

end Vore.Driver
