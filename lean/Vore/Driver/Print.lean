import Vore.Driver.SExp
/-!
# Vore.Driver.Print — canonical one-line renderings compared with the Go side
-/
namespace Vore.Driver
open Vore

/-- renumber loop ids by first occurrence, as the Go hook does -/
def renumId (seen : List Nat) (id : Nat) : List Nat × Nat :=
  match seen.idxOf? id with
  | some i => (seen, i)
  | none => (seen ++ [id], seen.length)

def stmtCount : Stmt → Nat
  | .seq _ b => 1 + stmtCount b
  | .skip => 0
  | _ => 1

def instrStr (seen : List Nat) : Instr → List Nat × String
  | .lit n c s => (seen, s!"( lit {boolStr n} {boolStr c} {hex s} )")
  | .cls n c => (seen, s!"( cls {boolStr n} {classStr c} )")
  | .mvar x => (seen, s!"( mvar {nameStr x} )")
  | .rng n lo hi => (seen, s!"( rng {boolStr n} {hex lo} {hex hi} )")
  | .call x pc => (seen, s!"( call {nameStr x} {pc} )")
  | .branch ts => (seen, "( branch " ++ " ".intercalate (ts.map toString) ++ " )")
  | .startNotIn n => (seen, s!"( startNotIn {n} )")
  | .failNotIn => (seen, "( failNotIn )")
  | .endNotIn m => (seen, s!"( endNotIn {m} )")
  | .startLoop id mn mx fw ex nm =>
    let (seen', i) := renumId seen id
    (seen', s!"( startLoop {i} {mn} {mx} {boolStr fw} {ex} {nameStr nm} )")
  | .stopLoop id st =>
    let (seen', i) := renumId seen id
    (seen', s!"( stopLoop {i} {st} )")
  | .startVar x => (seen, s!"( startVar {nameStr x} )")
  | .endVar x => (seen, s!"( endVar {nameStr x} )")
  | .startSub id nm e => (seen, s!"( startSub {id} {nameStr nm} {e} )")
  | .endSub nm v => (seen, s!"( endSub {nameStr nm} {stmtCount v} )")
  | .jump pc => (seen, s!"( jump {pc} )")

def codeStr (seen : List Nat) : List Instr → List Nat × List String
  | [] => (seen, [])
  | i :: is =>
    let (s1, x) := instrStr seen i
    let (s2, xs) := codeStr s1 is
    (s2, x :: xs)

def amtStr (a : Amount) : String := s!"{boolStr a.all} {a.skip} {a.take} {a.last}"

def rinstrStr : RInstr → String
  | .str s => s!"( rstr {hex s} )"
  | .var x => s!"( rvar {nameStr x} )"
  | .proc b => s!"( rproc {stmtCount b} )"

def bcmdStr (seen : List Nat) : BCmd → List Nat × String
  | .find a code =>
    let (s1, xs) := codeStr seen code
    (s1, s!"( find {amtStr a} ( code {" ".intercalate xs} ) )")
  | .replace a code rs =>
    let (s1, xs) := codeStr seen code
    (s1, s!"( replace {amtStr a} ( code {" ".intercalate xs} ) ( replacer {" ".intercalate (rs.map rinstrStr)} ) )")
  | .setPattern n code pred =>
    let (s1, xs) := codeStr seen code
    (s1, s!"( set {nameStr n} ( pattern ( code {" ".intercalate xs} ) {stmtCount pred} ) )")
  | .setTransform n b => (seen, s!"( set {nameStr n} ( transform {stmtCount b} ) )")
  | .setMatches n c =>
    let (s1, x) := bcmdStr seen c
    (s1, s!"( set {nameStr n} ( matches {x} ) )")

def bytecodeStr (cs : List BCmd) : String :=
  let rec go (seen : List Nat) : List BCmd → List String
    | [] => []
    | c :: rest => let (s1, x) := bcmdStr seen c; x :: go s1 rest
  "( bytecode " ++ " ".intercalate (go [] cs) ++ " )"

/-! results -/

mutual
partial def vmapEntries : VMap → List (String × String)
  | .nil => []
  | .cons k v rest => (k, valStr v) :: vmapEntries rest
partial def valStr : Val → String
  | .str s => "s:" ++ hex s
  | .map m => "m:" ++ vmapStr m
partial def vmapStr (m : VMap) : String :=
  let es := (vmapEntries m).toArray.qsort (fun a b => a.1 < b.1) |>.toList
  "{" ++ ",".intercalate (es.map (fun kv => kv.1 ++ "=" ++ kv.2)) ++ "}"
end

def matchStr (m : Match) : String :=
  let r := match m.replacement with | none => "-" | some b => "r" ++ hex b
  s!"{m.number},{m.startPos},{m.endPos},{m.startLine},{m.endLine},{m.startCol},{m.endCol},{hex m.value},{r},{vmapStr m.vars}"

def resStr : Option (Res (List Match)) → String
  | none => "DIVERGE"
  | some .pfuel => "DIVERGE"
  | some (.panic _) => "PANIC"
  | some (.ok ms) => "OK " ++ ";".intercalate (ms.map matchStr)

end Vore.Driver
