import Vore.Model.Engine
/-!
# Vore.Driver.SExp — reading the dumps written by the `verif` hooks in /repo

Glue for the correspondence check, not part of the model: tokens are separated by blanks,
strings are `x<hex>`, names `n<hex>` or `_` (empty), booleans `T`/`F`.
-/
namespace Vore.Driver
open Vore

inductive SExp where
  | atom (s : String)
  | list (xs : List SExp)
deriving Repr, Inhabited

partial def parseSeq : List String → List SExp → Option (List SExp × List String)
  | [], acc => some (acc.reverse, [])
  | ")" :: rest, acc => some (acc.reverse, ")" :: rest)
  | "(" :: rest, acc =>
    match parseSeq rest [] with
    | some (xs, ")" :: rest') => parseSeq rest' (.list xs :: acc)
    | _ => none
  | t :: rest, acc => parseSeq rest (.atom t :: acc)

def parseSExp (s : String) : Option SExp :=
  match parseSeq ((s.splitOn " ").filter (· ≠ "")) [] with
  | some ([x], []) => some x
  | _ => none

def hexVal (c : Char) : Option Nat :=
  if '0' ≤ c ∧ c ≤ '9' then some (c.toNat - '0'.toNat)
  else if 'a' ≤ c ∧ c ≤ 'f' then some (c.toNat - 'a'.toNat + 10)
  else if 'A' ≤ c ∧ c ≤ 'F' then some (c.toNat - 'A'.toNat + 10)
  else none

def unhexChars : List Char → Option Bytes
  | [] => some []
  | [_] => none
  | a :: b :: rest => do
    let x ← hexVal a
    let y ← hexVal b
    let r ← unhexChars rest
    pure ((x * 16 + y).toUInt8 :: r)

/-- `x<hex>` -/
def unhex (s : String) : Option Bytes :=
  match s.toList with
  | 'x' :: rest => unhexChars rest
  | _ => none

def hexDigit (n : Nat) : Char := if n < 10 then Char.ofNat (48 + n) else Char.ofNat (87 + n)

def hex (b : Bytes) : String :=
  String.ofList ('x' :: b.flatMap (fun x => [hexDigit (x.toNat / 16), hexDigit (x.toNat % 16)]))

def bytesToString (b : Bytes) : String := String.ofList (b.map (fun x => Char.ofNat x.toNat))

/-- `n<hex>` or `_` -/
def unname (s : String) : Option String :=
  if s == "_" then some "" else
  match s.toList with
  | 'n' :: rest => (unhexChars rest).map bytesToString
  | _ => none

/-- inverse of `bytesToString`: names travel as byte strings (Go strings), one `Char` per byte -/
def stringToBytes (s : String) : Bytes := s.toList.map (fun c => c.toNat.toUInt8)

def nameStr (s : String) : String := if s == "" then "_" else "n" ++ (hex (stringToBytes s)).drop 1

def unbool (s : String) : Option Bool := if s == "T" then some true else if s == "F" then some false else none
def boolStr (b : Bool) : String := if b then "T" else "F"

def classOf (s : String) : Option Class :=
  match s with
  | "ANY" => some .any | "WS" => some .whitespace | "DIGIT" => some .digit | "UPPER" => some .upper
  | "LOWER" => some .lower | "LETTER" => some .letter | "LStart" => some .lineStart | "FStart" => some .fileStart
  | "WStart" => some .wordStart | "LEnd" => some .lineEnd | "FEnd" => some .fileEnd | "WEnd" => some .wordEnd
  | "WLine" => some .wholeLine | "WFile" => some .wholeFile | "WWord" => some .wholeWord
  | _ => none

def classStr : Class → String
  | .any => "ANY" | .whitespace => "WS" | .digit => "DIGIT" | .upper => "UPPER" | .lower => "LOWER"
  | .letter => "LETTER" | .lineStart => "LStart" | .fileStart => "FStart" | .wordStart => "WStart"
  | .lineEnd => "LEnd" | .fileEnd => "FEnd" | .wordEnd => "WEnd" | .wholeLine => "WLine"
  | .wholeFile => "WFile" | .wholeWord => "WWord"

def opOf (s : String) : Op :=
  match s with
  | "PLUS" => .plus | "MINUS" => .minus | "MULT" => .mult | "DIV" => .div | "MOD" => .mod
  | "LESS" => .less | "GREATER" => .greater | "LESSEQ" => .lesseq | "GREATEREQ" => .greatereq
  | "DEQUAL" => .dequal | "NEQUAL" => .nequal | "AND" => .and | "OR" => .or | "NOT" => .not
  | "HEAD" => .head | "TAIL" => .tail
  | o => .other o

def atomOf : SExp → Option Atom
  | .list [.atom "str", .atom n, .atom c, .atom h] => do pure (.str (← unbool n) (← unbool c) (← unhex h))
  | .list [.atom "class", .atom n, .atom c] => do pure (.cls (← unbool n) (← classOf c))
  | .list [.atom "range", .atom a, .atom b] => do pure (.range (← unhex a) (← unhex b))
  | _ => none

partial def pexprOf : SExp → Option PExpr
  | .list [.atom "un", .atom op, e] => do pure (.un (opOf op) (← pexprOf e))
  | .list [.atom "bin", .atom op, l, r] => do pure (.bin (opOf op) (← pexprOf l) (← pexprOf r))
  | .list [.atom "pstr", .atom h] => do pure (.str (← unhex h))
  | .list [.atom "pnum", .atom n] => do pure (.num (← n.toInt?))
  | .list [.atom "pbool", .atom b] => do pure (.bool (← unbool b))
  | .list [.atom "pvar", .atom n] => do pure (.var (← unname n))
  | _ => none

mutual
partial def stmtOf : SExp → Option Stmt
  | .list [.atom "pset", .atom n, e] => do pure (.set (← unname n) (← pexprOf e))
  | .list [.atom "return", e] => do pure (.ret (← pexprOf e))
  | .list [.atom "if", c, .list (.atom "then" :: t), .list (.atom "else" :: f)] => do
      pure (.ite (← pexprOf c) (← stmtsOf t) (← stmtsOf f))
  | .list [.atom "debug", e] => do pure (.debug (← pexprOf e))
  | .list (.atom "ploop" :: body) => do pure (.loop (← stmtsOf body))
  | .list [.atom "continue"] => some .cont
  | .list [.atom "break"] => some .brk
  | _ => none
partial def stmtsOf : List SExp → Option Stmt
  | [] => some .skip
  | s :: rest => do pure (.seq (← stmtOf s) (← stmtsOf rest))
end

mutual
partial def exprOf : SExp → Option Expr
  | .list [.atom "loop", .atom mn, .atom mx, .atom fw, .atom nm, body] => do
      pure (.loop (← mn.toNat?) (← mx.toInt?) (← unbool fw) (← unname nm) (← exprOf body))
  | .list [.atom "branch", l, r] => do pure (.branch (← litOf l) (← exprOf r))
  | .list [.atom "dec", .atom n, body] => do pure (.dec (← unname n) (← litOf body))
  | .list (.atom "subdec" :: .atom n :: body) => do pure (.sub (← unname n) (← exprsOf body))
  | .list (.atom "in" :: .atom neg :: .atom _mx :: items) => do
      pure (.inl (← unbool neg) (← items.mapM atomOf))
  | .list [.atom "primary", l] => litOf l
  | _ => none
partial def litOf : SExp → Option Expr
  | .list (.atom "subexpr" :: body) => exprsOf body
  | .list [.atom "var", .atom n] => do pure (.var (← unname n))
  | s => (atomOf s).map .atom
partial def exprsOf : List SExp → Option Expr
  | [] => some .empty
  | e :: rest => do pure (.seq (← exprOf e) (← exprsOf rest))
end

def amountOf (a s t l : String) : Option Amount := do
  pure { all := ← unbool a, skip := ← s.toNat?, take := ← t.toNat?, last := ← l.toNat? }

def ratomOf : SExp → Option RAtom
  | .list [.atom "str", _, _, .atom h] => do pure (.str (← unhex h))
  | .list [.atom "var", .atom n] => do pure (.var (← unname n))
  | _ => none

partial def cmdOf : SExp → Option Cmd
  | .list [.atom "find", .atom a, .atom s, .atom t, .atom l, .list (.atom "body" :: body)] => do
      pure (.find (← amountOf a s t l) (← exprsOf body))
  | .list [.atom "replace", .atom a, .atom s, .atom t, .atom l, .list (.atom "body" :: body),
           .list (.atom "result" :: res)] => do
      pure (.replace (← amountOf a s t l) (← exprsOf body) (← res.mapM ratomOf))
  | .list [.atom "set", .atom n, .list [.atom "pattern", .list (.atom "body" :: body), .list (.atom "pred" :: pred)]] => do
      pure (.setPattern (← unname n) (← exprsOf body) (← stmtsOf pred))
  | .list [.atom "set", .atom n, .list (.atom "transform" :: stmts)] => do
      pure (.setTransform (← unname n) (← stmtsOf stmts))
  | .list [.atom "set", .atom n, .list [.atom "matches", c]] => do
      pure (.setMatches (← unname n) (← cmdOf c))
  | _ => none

def progOf : SExp → Option (List Cmd)
  | .list (.atom "prog" :: cmds) => cmds.mapM cmdOf
  | _ => none

end Vore.Driver
