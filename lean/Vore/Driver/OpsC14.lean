import Vore.Driver.Print
import Vore.Model.RegexParser
import Vore.Spec.Regex
import Vore.Spec.Search
/-!
# driver ops of C14 (regex literals)

* `c14 <re tree> <pattern x-hex> <text,text,… x-hex> <go parse: "AST <dump>" | "ERR" | "PANIC">` —
  for one regular expression of the supported subset: is the pattern the harness printed `Re.show r`,
  is `r` in the domain of the theorems, does `RegexParser.parse` of the pattern give the tree the real
  parser built and the tree `Re.toExpr r` of the documented table, what does the conventional semantics
  `Regex.findAll` find on each text, and does `Spec.findAll` of the translated tree find the same
  (the executable reading of `C14_sem`; where it does not, the answers of `Spec.findAll` follow as `SFIND`).
* `reparse <lexeme x-hex> <go parse>` — `RegexParser.parse` on arbitrary bytes against the real
  sub-parser: accept/reject, and the tree when both accept.

The regex tree travels in prefix notation, blank-separated:
`E` · `S a b` · `C byte` · `.` · `^` · `$` · `D neg` · `W neg` · `K neg count items…` (item `s<byte>` or
`r<lo>-<hi>`) · `G n r` · `N r` · `M <name x-hex> r` · `B n` · `R <name x-hex>` ·
`Q kind m n lazy r` (kind `* + ? e l b`) · `A a b`; booleans are `0`/`1`.
-/
namespace Vore.Driver
open Vore Vore.Regex

def bit (s : String) : Option Bool := if s == "1" then some true else if s == "0" then some false else none

def clsItemOf (s : String) : Option ClsItem :=
  match s.toList with
  | 's' :: rest => (String.ofList rest).toNat?.map (fun n => ClsItem.single n.toUInt8)
  | 'r' :: rest =>
    match (String.ofList rest).splitOn "-" with
    | [a, b] => do pure (ClsItem.range (← a.toNat?).toUInt8 (← b.toNat?).toUInt8)
    | _ => none
  | _ => none

def quantOf (k m n : String) : Option Quant :=
  match k with
  | "*" => some .star
  | "+" => some .plus
  | "?" => some .opt
  | "e" => m.toNat?.map .exact
  | "l" => m.toNat?.map .atLeast
  | "b" => do pure (.between (← m.toNat?) (← n.toNat?))
  | _ => none

partial def reOfToks : List String → Option (Re × List String)
  | "E" :: rest => some (.empty, rest)
  | "S" :: rest => do
    let (a, r1) ← reOfToks rest
    let (b, r2) ← reOfToks r1
    pure (.seq a b, r2)
  | "A" :: rest => do
    let (a, r1) ← reOfToks rest
    let (b, r2) ← reOfToks r1
    pure (.alt a b, r2)
  | "C" :: c :: rest => c.toNat?.map (fun n => (.chr n.toUInt8, rest))
  | "." :: rest => some (.dot, rest)
  | "^" :: rest => some (.bol, rest)
  | "$" :: rest => some (.eol, rest)
  | "D" :: b :: rest => (bit b).map (fun x => (.digit x, rest))
  | "W" :: b :: rest => (bit b).map (fun x => (.space x, rest))
  | "K" :: b :: cnt :: rest => do
    let neg ← bit b
    let k ← cnt.toNat?
    let items ← (rest.take k).mapM clsItemOf
    if items.length != k then none else pure (.cls neg items, rest.drop k)
  | "G" :: n :: rest => do
    let k ← n.toNat?
    let (r, r1) ← reOfToks rest
    pure (.group k r, r1)
  | "N" :: rest => do
    let (r, r1) ← reOfToks rest
    pure (.ncgroup r, r1)
  | "M" :: nm :: rest => do
    let b ← unhex nm
    let (r, r1) ← reOfToks rest
    pure (.named b r, r1)
  | "B" :: n :: rest => n.toNat?.map (fun k => (.backref k, rest))
  | "R" :: nm :: rest => (unhex nm).map (fun b => (.backrefNamed b, rest))
  | "Q" :: k :: mm :: nn :: lz :: rest => do
    let q ← quantOf k mm nn
    let l ← bit lz
    let (r, r1) ← reOfToks rest
    pure (.rep r q l, r1)
  | _ => none

def reOf (s : String) : Option Re :=
  match reOfToks ((s.splitOn " ").filter (· ≠ "")) with
  | some (r, []) => some r
  | _ => none

/-- structural equality of expression trees -/
def beqE : Expr → Expr → Bool
  | .empty, .empty => true
  | .seq a b, .seq c d => beqE a c && beqE b d
  | .atom a, .atom b => a == b
  | .var a, .var b => a == b
  | .loop mn mx fw nm b, .loop mn' mx' fw' nm' b' =>
    mn == mn' && mx == mx' && fw == fw' && nm == nm' && beqE b b'
  | .branch l r, .branch l' r' => beqE l l' && beqE r r'
  | .dec n b, .dec n' b' => n == n' && beqE b b'
  | .sub n b, .sub n' b' => n == n' && beqE b b'
  | .inl n items, .inl n' items' => n == n' && items == items'
  | _, _ => false

def exprLine (e : Expr) : String := (reprStr e).replace "\n" " "

def spanStr (s : Span) : String := s!"{s.startPos},{s.endPos},{vmapStr s.groups}"

def spansStr : Option (List Span) → String
  | none => "DIVERGE"
  | some l => "OK " ++ ";".intercalate (l.map spanStr)

def spanOfMatch (m : Match) : Span := ⟨m.startPos, m.endPos, m.vars⟩

/-- the real parser's answer as a tree -/
def goTree (gores : String) : Option Expr :=
  if gores.startsWith "AST ( prog" then
    -- the whole program `find all @/re/`: the body of its only command is `[the literal]`
    match parseSExp (gores.drop 4).toString >>= progOf with
    | some [.find _ (.seq e .empty)] => some e
    | _ => none
  else if gores.startsWith "AST " then parseSExp (gores.drop 4).toString >>= exprOf
  else none

def cmpParse (model : RegexParser.PR Expr) (gores : String) : String :=
  if gores.startsWith "AST " then
    match goTree gores, model with
    | none, _ => "DIFF go-dump-unreadable"
    | some g, .ok e => if beqE e g then "SAME" else "DIFF tree model=" ++ exprLine e ++ " go=" ++ exprLine g
    | some _, .error _ => "DIFF go-accepts-model-rejects"
    | some _, .panic _ => "DIFF go-accepts-model-panics"
    | some _, .fuel => "DIFF model-out-of-fuel"
  else if gores.startsWith "ERR" then
    match model with
    | .error _ => "SAME"
    | .ok _ => "DIFF go-rejects-model-accepts"
    | .panic _ => "DIFF go-rejects-model-panics"
    | .fuel => "DIFF model-out-of-fuel"
  else if gores.startsWith "PANIC" then
    match model with
    | .panic _ => "SAME"
    | .error _ => "DIFF go-panics-model-rejects"
    | .ok _ => "DIFF go-panics-model-accepts"
    | .fuel => "DIFF model-out-of-fuel"
  else "NOCMP"

def prClass {α : Type} : RegexParser.PR α → String
  | .ok _ => "OK"
  | .error _ => "ERR"
  | .panic _ => "PANIC"
  | .fuel => "FUEL"

def handleC14Case (fields : List String) : String :=
  match fields with
  | tree :: pat :: texts :: gores :: _ =>
    match reOf tree, unhex pat with
    | some r, some p =>
      let ts := if texts == "" then [] else (texts.splitOn ",").filterMap unhex
      let model := RegexParser.parse p
      let e := r.toExpr
      let toex := match model with
        | .ok e' => beqE e' e
        | _ => false
      let finds := ts.map (fun t => Regex.findAll r t)
      let sfinds := ts.map (fun t => (Spec.findAll t e).map (fun ms => ms.map spanOfMatch))
      let specSame := (sfinds.zip finds).all (fun (sf : Option (List Span) × Option (List Span)) =>
        spansStr sf.1 == spansStr sf.2)
      "SHOW " ++ boolStr (r.show == p) ++
      "\tSUP " ++ boolStr (decide (Supported r)) ++
      "\tNNB " ++ boolStr (decide (NonNullableBodies r)) ++
      "\tPARSE " ++ cmpParse model gores ++
      "\tTOEXPR " ++ boolStr toex ++
      "\tCF " ++ boolStr (Spec.callFreeB e) ++
      "\tSPEC " ++ boolStr specSame ++
      "\tFIND " ++ "|".intercalate (finds.map spansStr) ++
      (if specSame then "" else "\tSFIND " ++ "|".intercalate (sfinds.map spansStr))
    | _, _ => "BADCASE"
  | _ => "BADCASE"

def handleReparse (fields : List String) : String :=
  match fields with
  | lex :: gores :: _ =>
    match unhex lex with
    | some p =>
      let raw := RegexParser.parseRaw 0 p
      let model := RegexParser.parse p
      prClass model ++ "\tRAW " ++ prClass raw ++ "\t" ++ cmpParse model gores
    | none => "BADCASE"
  | _ => "BADCASE"

def handleC14 (op : String) (fields : List String) : Option String :=
  if op == "c14" then some (handleC14Case fields)
  else if op == "reparse" then some (handleReparse fields)
  else none

end Vore.Driver
