import Vore.Driver.SExp
import Vore.Spec.Typing
import Vore.Spec.Grammar
import Vore.Extracted
/-!
# driver ops for C11 / C12 (model side of the line protocol)

* `proc <ctx> <ast> <env>` — the process body of the first command of the dumped program
  (`t` = transform, `p` = predicate of a pattern), run in the given environment:
  `CHK` the checker's verdict (`checkBody`), `SINGLE` (`singleTypedB`), `MODEL` the model's
  result (`runProcess`), `TBL` the result with the regenerated dispatch table
  (`evalExprWith goEval`) and `DOC` the documented value (`Spec.DocOps.eval`); the last two for
  straight-line bodies (`set`s followed by `return e` or `if e then return a end return b`).
* `c11parse <kind> <tree|-> <tokens>` — `parseProcessExpression goPrec` on the real lexer's
  tokens; with a tree, also whether the Spec printer (`min`/`full`) yields exactly these tokens.
* `c11diff` — the cells in which the hand-written model, the regenerated tables and the
  documented tables differ (direction for the failing-input search when a theorem fails).
-/
namespace Vore.Driver.C11
open Vore Vore.Driver Vore.Tables Vore.Extracted Vore.Spec Vore.Spec.Typing Vore.Spec.Grammar Vore.Pratt

def pexprStr : PExpr → String
  | .un op e => s!"( un {opGoName op} {pexprStr e} )"
  | .bin op l r => s!"( bin {opGoName op} {pexprStr l} {pexprStr r} )"
  | .str s => s!"( pstr {hex s} )"
  | .num n => s!"( pnum {n} )"
  | .bool b => s!"( pbool {boolStr b} )"
  | .var x => s!"( pvar {nameStr x} )"

def pvalStr : PVal → String
  | .str s => "s:" ++ hex s
  | .num n => "n:" ++ toString n
  | .bool b => "b:" ++ boolStr b

def hexOfString (s : String) : String := hex s.toUTF8.toList

def evalResStr : EvalRes → String
  | .val v => "V " ++ pvalStr v
  | .panic t => "PANIC " ++ hexOfString t

def docResStr : DocOps.Res → String
  | .val v => "V " ++ pvalStr v
  | .divByZero => "PANIC " ++ hexOfString "integer divide by zero"
  | .undefined => "UNDEFINED"

/-- `name=s:x<hex>,name=n:<int>,name=b:T` -/
def parseEnv (s : String) : Option PEnv :=
  if s.isEmpty || s == "-" then some [] else
  (s.splitOn ",").mapM (fun kv =>
    match kv.splitOn "=" with
    | [k, v] =>
      match v.splitOn ":" with
      | ["s", h] => (unhex h).map (fun b => (k, PVal.str b))
      | ["n", n] => n.toInt?.map (fun i => (k, PVal.num i))
      | ["b", b] => (unbool b).map (fun x => (k, PVal.bool x))
      | _ => none
    | _ => none)

/-- the process body of the first command -/
def firstBody : List Cmd → Option Stmt
  | .setTransform _ body :: _ => some body
  | .setPattern _ _ pred :: _ => some pred
  | _ => none

inductive Straight where
  | val (r : EvalRes)
  | noReturn
  | unsupported

/-- straight-line bodies with a given expression evaluator -/
def straight (ev : PEnv → PExpr → EvalRes) : Stmt → PEnv → Straight
  | .skip, _ => .noReturn
  | .seq (.set x e) rest, ρ =>
    match ev ρ e with
    | .val v => straight ev rest (ρ.put x v)
    | r => .val r
  | .seq (.ret e) _, ρ => .val (ev ρ e)
  | .seq (.ite c (.seq (.ret a) .skip) .skip) rest, ρ =>
    match ev ρ c with
    | .val v => if v.getBoolean then .val (ev ρ a) else straight ev rest ρ
    | r => .val r
  | _, _ => .unsupported

def docEv (ρ : PEnv) (e : PExpr) : EvalRes :=
  match DocOps.eval ρ e with
  | .val v => .val v
  | .divByZero => .panic "integer divide by zero"
  | .undefined => .panic "UNDEFINED (combination not in the documented table)"

def straightStr : Straight → String
  | .val r => evalResStr r
  | .noReturn => "NORET"
  | .unsupported => "-"

def procFuelC11 : Nat := 5000

def handleProc (fields : List String) : String :=
  match fields with
  | ctxs :: ast :: envs :: _ =>
    match parseSExp ast >>= progOf, parseEnv envs with
    | some cmds, some ρ =>
      match firstBody cmds with
      | none => "BADCASE nobody"
      | some body =>
        let ctx : Ctx := if ctxs == "p" then .predicate else .transformation
        let chk := checkBody ctx body
        let single := singleTypedB initTEnv body
        let model := match runProcess procFuelC11 body ρ with
          | .ok (some v) => "V " ++ pvalStr v
          | .ok none => "FUEL"
          | .error t => "PANIC " ++ hexOfString t
        "CHK " ++ boolStr chk ++ "\tSINGLE " ++ boolStr single ++ "\tMODEL " ++ model
          ++ "\tTBL " ++ straightStr (straight (evalExprWith goEval) body ρ)
          ++ "\tDOC " ++ straightStr (straight docEv body ρ)
    | _, _ => "BADCASE parse"
  | _ => "BADCASE fields"

/-! ### tokens -/

def ptokOf (s : String) : Option PTok :=
  match s.splitOn ":" with
  | ["STRING", h] => (unhex h).map .str
  | ["NUMBER", h] => (unhex h).map (fun b => .num ((atoi b).getD 0))
  | ["IDENTIFIER", h] => (unhex h).map (fun b => .ident (bytesToString b))
  | ["TRUE"] => some .tru
  | ["FALSE"] => some .fls
  | ["OPENPAREN"] => some .lparen
  | ["CLOSEPAREN"] => some .rparen
  | [n] => some (.op (opOf n))
  | _ => none

def ptokStr : PTok → String
  | .str s => "STRING:" ++ hex s
  | .num n => "NUMBER:" ++ hexOfString (toString n)
  | .ident x => "IDENTIFIER:" ++ hexOfString x
  | .tru => "TRUE"
  | .fls => "FALSE"
  | .lparen => "OPENPAREN"
  | .rparen => "CLOSEPAREN"
  | .op o => opGoName o

def presStr : PRes → String
  | .ok e rest => s!"ok {rest.length} {pexprStr e}"
  | .err rest => s!"err {rest.length}"
  | .fuel => "fuel"

def wfB : PExpr → Bool
  | .un o e => prefixOps.contains o && wfB e
  | .bin o l r => binaryOps.contains o && wfB l && wfB r
  | _ => true

def handleParse (fields : List String) : String :=
  match fields with
  | kind :: tree :: toks :: _ =>
    match ((toks.splitOn " ").filter (· ≠ "")).mapM ptokOf with
    | none => "BADCASE tokens"
    | some ts =>
      let res := parseProcessExpression goPrec ts
      let render :=
        if tree == "-" then "-" else
        match parseSExp tree >>= pexprOf with
        | none => "BADTREE"
        | some t =>
          let want := if kind == "full" then renderFull t else renderMin 1 t
          -- the tokens of the expression are those before the first expression-ending token
          let got := (exprTokens goPrec ts).1
          if !wfB t then "NOTWF" else if want == got then "same" else
            "differs " ++ " ".intercalate (want.map ptokStr)
      "PARSE " ++ presStr res ++ "\tRENDER " ++ render
  | _ => "BADCASE fields"

/-! ### differing cells -/

def allTypes : List PT := [.string, .number, .boolean]
def allOps : List Op :=
  [.plus, .minus, .mult, .div, .mod, .less, .greater, .lesseq, .greatereq, .dequal, .nequal, .and, .or,
   .not, .head, .tail]

def typeName : PT → String
  | .string => "string" | .number => "number" | .boolean => "boolean"

def sampleVals : PT → List PVal
  | .string => [.str [], .str "abc".toUTF8.toList, .str "12".toUTF8.toList, .str "-3".toUTF8.toList,
                .str "x1".toUTF8.toList, .str "0".toUTF8.toList]
  | .number => [.num 0, .num 1, .num (-1), .num 2, .num 12, .num (-3)]
  | .boolean => [.bool true, .bool false]

def docToEval (r : DocOps.Res) : Option EvalRes := r.toEvalRes

/-- cells (as `kind:lhs,op,rhs`) where two of {model, regenerated table, documented table} differ -/
def diffCells : List String :=
  let ty := allTypes.flatMap fun l => allTypes.flatMap fun r => allOps.filterMap fun op =>
    let m := binType l r op
    let t := typeFromTable goTyping l r op
    let d := DocOps.binType l r op
    if m == t && t == d then none else
      some s!"typing:{typeName l},{opGoName op},{typeName r}:model={repr m}:table={repr t}:doc={repr d}"
  let uty := allTypes.flatMap fun a => allOps.filterMap fun op =>
    let m := unType a op
    let t := unTypeFromTable goTyping a op
    let d := DocOps.unType a op
    if m == t && t == d then none else
      some s!"untyping:{opGoName op},{typeName a}:model={repr m}:table={repr t}:doc={repr d}"
  let rt := [Ctx.predicate, Ctx.transformation].flatMap fun c => allTypes.filterMap fun a =>
    if retOK c a == retFromTable goTyping c a then none else
      some s!"return:{repr c},{typeName a}"
  let ev := allTypes.flatMap fun l => allTypes.flatMap fun r => allOps.filterMap fun op =>
    let bad := (sampleVals l).any fun lv => (sampleVals r).any fun rv =>
      let m := evalBin op lv rv
      let t := evalFromTable goEval op lv rv
      let okDoc := match DocOps.binType l r op with
        | some _ => docToEval (DocOps.evalBin op lv rv) == some t
        | none => true
      !(m == t) || !okDoc
    if bad then some s!"eval:{typeName l},{opGoName op},{typeName r}" else none
  let uev := allTypes.flatMap fun a => allOps.filterMap fun op =>
    let bad := (sampleVals a).any fun v =>
      let okDoc := match DocOps.unType a op with
        | some _ => docToEval (DocOps.evalUn op v) == some (unFromTable goEval op v)
        | none => true
      !(unFromTable goEval op v == .val (evalUn op v)) || !okDoc
    if bad then some s!"uneval:{opGoName op},{typeName a}" else none
  let pr := (binaryOps.filterMap fun o =>
      if goPrec.binaryOp o && goPrec.infixPrecedence o == (2 * (level o : Int) - 1, 2 * (level o : Int)) then none
      else some s!"prec:{opGoName o}:{(goPrec.infixPrecedence o).1},{(goPrec.infixPrecedence o).2}") ++
    (prefixOps.filterMap fun o =>
      if goPrec.prefixOp o && decide (9 < goPrec.prefixPrecedence o) then none
      else some s!"prefix:{opGoName o}:{goPrec.prefixPrecedence o}")
  ty ++ uty ++ rt ++ ev ++ uev ++ pr

end Vore.Driver.C11

namespace Vore.Driver

def handleC11 (op : String) (fields : List String) : Option String :=
  if op == "proc" then some (C11.handleProc fields)
  else if op == "c11parse" then some (C11.handleParse fields)
  else if op == "c11diff" then some ("DIFF " ++ " ".intercalate (C11.diffCells.map (fun s => s.replace " " "_")))
  else none

end Vore.Driver
