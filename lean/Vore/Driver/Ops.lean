import Vore.Driver.Print
import Vore.Driver.OpsParse
import Vore.Driver.OpsC04
import Vore.Driver.OpsC05
import Vore.Driver.OpsC07
import Vore.Driver.OpsC20
import Vore.Driver.OpsLex
import Vore.Driver.OpsC17
import Vore.Driver.OpsC18
import Vore.Driver.OpsC11
import Vore.Driver.OpsC14
import Vore.Driver.OpsMS
import Vore.Driver.OpsDs
/-!
# Vore.Driver.Ops — registry of the per-property driver operations

Each property that needs its own line-protocol operations defines, in
`Vore/Driver/Ops<Cxx>.lean`, a handler `handle<Cxx> : String → List String → Option String`
(`none` = not my op), imports it here and adds it to `extraOps`.
-/
namespace Vore.Driver

def extraOps : List (String → List String → Option String) := [handleParse, handleC04, handleC05, handleC07, handleC20, handleLex, handleC17, handleC18, handleC11, handleC14, handleMS, handleDs]

end Vore.Driver
