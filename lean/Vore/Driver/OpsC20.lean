import Vore.Model.Path
import Vore.Spec.Glob
import Vore.Driver.SExp
/-!
# Vore.Driver.OpsC20 — model / specification side of the C20 line protocol

* `pathmatch <name> <pattern>`            → `M <T|F>` TAB `S <T|F>`
* `pathmatchrow <pattern> <alphabet> <n>` → `M <bits>` TAB `S <bits>`: one `T`/`F` per name over
  the alphabet of length ≤ n, shortest first, then in alphabet order (first byte most significant)
* `filelist <tree> <pattern> <rel|abs>`   → `DOM <T|F>` TAB `WF <T|F>` TAB `M <list|PANIC>` TAB `S <list>`

`M` runs the definitions `Path.pathMatches` / `Path.fileList` the theorems of `Props/C20.lean`
are about, `S` the specification (`Spec.Glob.matches`, `Spec.Glob.selected`), `DOM` the
hypotheses of `C20_list` (non-empty pattern, `NoStarOnlyDir`, `NoDotSegments`), `WF` the tree
hypothesis.  A tree is written as blank-separated tokens `F<name>` (regular file), `D<name>`
(directory, its entries follow) and `U` (end of that directory); names are `x<hex>`.  The tree
is mounted at `/v/t`; with `rel` the pattern is used as it is from the directory `/v/t`, with
`abs` it is prefixed with `/v/t/`.  Listed paths are printed relative to the mount point.
-/
namespace Vore.Driver
open Vore Vore.Path

def c20Bool (b : Bool) : String := if b then "T" else "F"

/-- all words over the alphabet of exactly the given length, first byte most significant -/
def c20Words (alpha : Bytes) : Nat → List Bytes
  | 0 => [[]]
  | k + 1 => alpha.flatMap (fun c => (c20Words alpha k).map (c :: ·))

def c20Names (alpha : Bytes) (maxLen : Nat) : List Bytes :=
  (List.range (maxLen + 1)).flatMap (c20Words alpha)

def c20Bits (l : List Bool) : String := String.ofList (l.map (fun b => if b then 'T' else 'F'))

def c20ParseTree : Nat → List String → Option (Path.Dir × List String)
  | 0, _ => none
  | _ + 1, [] => some (.nil, [])
  | fuel + 1, tok :: rest =>
    match tok.toList with
    | ['U'] => some (.nil, rest)
    | 'F' :: name =>
      match unhex (String.ofList name), c20ParseTree fuel rest with
      | some n, some (r, rem) => some (.file n r, rem)
      | _, _ => none
    | 'D' :: name =>
      match unhex (String.ofList name), c20ParseTree fuel rest with
      | some n, some (ch, rem1) =>
        match c20ParseTree fuel rem1 with
        | some (r, rem2) => some (.sub n ch r, rem2)
        | none => none
      | _, _ => none
    | _ => none

def c20Tree (s : String) : Option Path.Dir :=
  let toks := (s.splitOn " ").filter (· ≠ "")
  match c20ParseTree (toks.length + 1) toks with
  | some (d, []) => some d
  | _ => none

def c20Mount : Bytes := [47, 118, 47, 116]          -- "/v/t"

/-- strip `prefix/` from a listed path; a path that does not start with it is printed as `!<hex>` -/
def c20Rel (pre : Bytes) (p : Bytes) : String :=
  if (pre ++ [slash]).isPrefixOf p then hex (p.drop (pre.length + 1)) else "!" ++ hex p

def c20List (pre : Bytes) (l : List Bytes) : String := ",".intercalate (l.map (c20Rel pre))

def handleC20 (op : String) (fields : List String) : Option String :=
  match op, fields with
  | "pathmatch", [name, pat] =>
    match unhex name, unhex pat with
    | some n, some p =>
      some ("M " ++ c20Bool (Path.pathMatches n p) ++ "\tS " ++ c20Bool (Spec.Glob.matches p n))
    | _, _ => some "BADCASE"
  | "pathmatchrow", [pat, alpha, maxLen] =>
    match unhex pat, unhex alpha, maxLen.toNat? with
    | some p, some a, some n =>
      let names := c20Names a n
      some ("M " ++ c20Bits (names.map (fun nm => Path.pathMatches nm p)) ++
            "\tS " ++ c20Bits (names.map (fun nm => Spec.Glob.matches p nm)))
    | _, _, _ => some "BADCASE"
  | "filelist", [tree, pat, mode] =>
    match c20Tree tree, unhex pat with
    | some d, some p =>
      let root : Path.Dir := .sub [118] (.sub [116] d .nil) .nil
      let fs : Path.FS := ⟨root, [root]⟩
      let pattern := if mode == "abs" then c20Mount ++ slash :: p else p
      let pre := if mode == "abs" then slash :: c20Mount else c20Mount
      let start := if mode == "abs" then root else d
      let dom := decide (pattern ≠ []) && decide (Spec.Glob.NoStarOnlyDir pattern) &&
        decide (Spec.Glob.NoDotSegments pattern)
      let m := match Path.fileList fs.readDir pattern c20Mount with
        | .ok l => "OK " ++ c20List pre l
        | .panic _ => "PANIC"
      some ("DOM " ++ c20Bool dom ++ "\tWF " ++ c20Bool d.wf ++ "\tM " ++ m ++
            "\tS OK " ++ c20List pre (Spec.Glob.selected start pattern c20Mount))
    | _, _ => some "BADCASE"
  | _, _ => none

end Vore.Driver
