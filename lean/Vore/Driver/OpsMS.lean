import Vore.Driver.SExp
import Vore.Model.MemStream
/-!
# Vore.Driver.OpsMS — model side of the memory-stream histories (C06/C09)

`mshist <ops>` with `<ops>` a `,`-separated list of calls: `w<off>:x<hex>` = `Writer.WriteAt(off, data)`,
`s<off>:<whence>` = `MemoryStream.Seek(off, whence)`, `p:x<hex>` = `MemoryStream.Write(data)`; `-` = no calls.
Result: `OK x<contents> cap=<cap> pos=<pos>` or `PANIC` — the definitions `Lemmas/MemStream.lean` is about.
-/
namespace Vore.Driver
open Vore Vore.MS

def msOp (s : String) : Option MS.Op :=
  match s.toList with
  | 'w' :: rest =>
    match (String.ofList rest).splitOn ":" with
    | [o, d] => do
      let off ← o.toInt?
      let data ← unhex d
      pure (MS.Op.writeAt off data)
    | _ => none
  | 's' :: rest =>
    match (String.ofList rest).splitOn ":" with
    | [o, w] => do
      let off ← o.toInt?
      let wh ← w.toNat?
      pure (MS.Op.seek off wh)
    | _ => none
  | 'p' :: ':' :: rest => (unhex (String.ofList rest)).map MS.Op.write
  | _ => none

def msOps (s : String) : Option (List MS.Op) :=
  if s == "-" || s == "" then some [] else (s.splitOn ",").mapM msOp

def handleMS (op : String) (fields : List String) : Option String :=
  match op, fields with
  | "mshist", ops :: _ =>
    match msOps ops with
    | none => some "BADCASE"
    | some os =>
      match MS.runOps MS.new os with
      | .ok s => some s!"OK {hex s.contents} cap={s.arr.length} pos={s.pos}"
      | .panic _ => some "PANIC"
  | _, _ => none

end Vore.Driver
