import Vore.Driver.ParseRes
import Vore.Spec.Replace
/-!
# driver ops for C05 / C06
`Spec.replacement` evaluated on the implementation's matches; `files` runs the abstract-FileSys model.
-/
namespace Vore.Driver
open Vore Vore.Spec

/-- per command: the generator state after it (for transforms) -/
def genStates : List Cmd → GenState → List (Cmd × GenState)
  | [], _ => []
  | c :: cs, st =>
    match genCmd c st with
    | .ok (_, st1) => (c, st1) :: genStates cs st1
    | .error _ => []

def optBytesEq (a b : Option Bytes) : Bool :=
  match a, b with
  | none, none => true
  | some x, some y => x == y
  | _, _ => false

/-- does every implementation match of a replace command carry `Spec.replacement` of itself? -/
def replacementsOk (pf : Nat) (fn : Bytes) (cmds : List (Cmd × GenState)) (groups : List (List Match)) : Bool :=
  (cmds.zip groups).all (fun (cg : (Cmd × GenState) × List Match) =>
    match cg.1.1 with
    | .replace _ _ items =>
      cg.2.all (fun m =>
        match replacement pf cg.1.2.transforms { m with replacement := none } cg.2.length fn items none with
        | .ok r => optBytesEq r m.replacement
        | _ => false)
    | _ => cg.2.all (fun m => m.replacement.isNone))

def fsStr (fs : FileSys) : String :=
  let es := (fs.map (fun kv => (bytesToString kv.1, hex kv.2))).toArray.qsort (fun a b => a.1 < b.1) |>.toList
  ",".intercalate (es.map (fun kv => kv.1 ++ "=" ++ kv.2))

def modeOf (s : String) : Option Mode :=
  match s with
  | "NEW" => some .new | "NOTHING" => some .nothing | "OVERWRITE" => some .overwrite | "CONFIRM" => some .confirm
  | _ => none

def parseFS (s : String) : Option FileSys :=
  if s.isEmpty then some [] else
  (s.splitOn ",").mapM (fun kv =>
    match kv.splitOn "=" with
    | [k, v] => (unhex v).map (fun b => (k.toUTF8.toList, b))
    | _ => none)

/-- `files <ast> <mode> <filename[,filename…]> <fs before>` -/
def handleC05 (op : String) (fields : List String) : Option String :=
  if op != "files" then none else
  match fields with
  | ast :: mode :: fname :: fsb :: _ =>
    match parseSExp ast >>= progOf, modeOf mode, parseFS fsb with
    | some cmds, some md, some fs =>
      match genProgram cmds {} with
      | .error _ => some "RES GENERR"
      | .ok bc =>
        match (if fname == "DIR" then runFilesDir 20000 400000 md bc fs
               else runFilesL 20000 400000 md ((fname.splitOn ",").map (·.toUTF8.toList)) bc fs) with
        | some (.ok (ms, fs')) => some ("RES " ++ resStr (some (.ok ms)) ++ "\tFS " ++ fsStr fs')
        | some (.panic _) => some "RES PANIC"
        | _ => some "RES DIVERGE"
    | _, _, _ => some "BADCASE"
  | _ => some "BADCASE"

end Vore.Driver
