import Vore.Driver.SExp
import Vore.Spec.ParserGrammar
/-!
# Vore.Driver.OpsParse — model side of the parser correspondence (C08 / C15)

`parsetoks <tokens> <go result>`
* tokens: `KIND:lexhex` separated by blanks (`KIND` = `TokenType.PP()`), in the order
  `ast.VerifTokens` returns them; a REGEXP token carries the answer of the real regex
  sub-parser as a third field (`E` error, `P` panic, `D<hex of its VerifDumpExpr>`), which
  instantiates the opaque parameter `rx` of the parser model for this case;
* go result: `AST <dump>` | `ERR` | `PANIC` | `NONE`.

Answer: `<model outcome> <TAB> <comparison> <TAB> <grammar agreement>`
* model outcome: `OK` | `ERR <token index> <message hex>` | `PANIC` | `FUEL`
* comparison with the tree of the real parser (normalised by `progOf`): `SAME` | `DIFF <what>`
* `G-SAME` | `G-DIFF`: `Grammar.parse (strip ts)` agrees with `Parser.parse ts` (the
  executable content of theorem `C15_parser` on this case).
-/
namespace Vore.Driver
open Vore Vore.Parser

def allToks : List Tok :=
  [.error, .eof, .ws, .comment, .identifier, .number, .string, .regexp,
   .equal, .coloneq, .comma, .openparen, .closeparen, .opencurly, .closecurly,
   .plus, .minus, .mult, .div, .less, .greater, .lesseq, .greatereq, .dequal, .nequal, .mod,
   .find, .replace, .with_, .set, .to, .pattern, .matches, .transform,
   .all, .skip, .take, .top, .last,
   .any, .whitespace, .digit, .upper, .lower, .letter, .whole, .line, .file, .word, .start, .end_, .begin_,
   .caseless, .not, .at, .least, .most, .between, .and, .exactly, .maybe, .fewest, .named, .in_, .or,
   .if_, .then_, .else_, .debug, .return_, .head, .tail, .loop, .break_, .continue_, .true_, .false_]

def tokOfName (s : String) : Option Tok := allToks.find? (fun k => k.name == s)

/-- one token field → token and, for REGEXP, the oracle entry -/
def tokenOf (s : String) : Option (Token × Option (Bytes × RegexOutcome)) :=
  match s.splitOn ":" with
  | [k, lx] => do
    let kind ← tokOfName k
    let lex ← unhexChars lx.toList
    pure ({ kind := kind, lexeme := lex }, none)
  | [k, lx, orc] => do
    let kind ← tokOfName k
    let lex ← unhexChars lx.toList
    let out ←
      if orc == "E" then some RegexOutcome.error
      else if orc == "P" then some RegexOutcome.panic
      else match orc.toList with
        | 'D' :: h => do
          let b ← unhexChars h
          let sx ← parseSExp (bytesToString b)
          let e ← exprOf sx
          pure (RegexOutcome.ok e)
        | _ => none
    pure ({ kind := kind, lexeme := lex }, some (lex, out))
  | _ => none

def mkRx (tbl : List (Bytes × RegexOutcome)) (b : Bytes) : RegexOutcome :=
  match tbl.find? (fun p => p.1 == b) with
  | some p => p.2
  | none => .error

/-! structural equality of trees (the tree types of `Model.Basic` only derive `Repr`) -/

def beqExpr : Expr → Expr → Bool
  | .empty, .empty => true
  | .seq a b, .seq c d => beqExpr a c && beqExpr b d
  | .atom a, .atom b => a == b
  | .var a, .var b => a == b
  | .loop mn mx fw nm b, .loop mn' mx' fw' nm' b' =>
    mn == mn' && mx == mx' && fw == fw' && nm == nm' && beqExpr b b'
  | .branch l r, .branch l' r' => beqExpr l l' && beqExpr r r'
  | .dec n b, .dec n' b' => n == n' && beqExpr b b'
  | .sub n b, .sub n' b' => n == n' && beqExpr b b'
  | .inl n items, .inl n' items' => n == n' && items == items'
  | _, _ => false

def beqCmd : Cmd → Cmd → Bool
  | .find a b, .find a' b' => a == a' && beqExpr b b'
  | .replace a b r, .replace a' b' r' => a == a' && beqExpr b b' && r == r'
  | .setPattern n b p, .setPattern n' b' p' => n == n' && beqExpr b b' && p == p'
  | .setTransform n b, .setTransform n' b' => n == n' && b == b'
  | .setMatches n c, .setMatches n' c' => n == n' && beqCmd c c'
  | _, _ => false

def beqCmds : List Cmd → List Cmd → Bool
  | [], [] => true
  | a :: as, b :: bs => beqCmd a b && beqCmds as bs
  | _, _ => false

def firstDiff (a b : List Cmd) : String :=
  let rec go (i : Nat) : List Cmd → List Cmd → String
    | [], [] => "none"
    | x :: xs, y :: ys =>
      if beqCmd x y then go (i + 1) xs ys
      else s!"command {i}: model {(reprStr x).replace "\n" " "} go {(reprStr y).replace "\n" " "}"
    | _, _ => s!"command count: model {a.length} go {b.length}"
  go 0 a b

def resStrP (r : Parser.Res (List Cmd)) : String :=
  match r with
  | .ok _ _ => "OK"
  | .error m i => s!"ERR {i} {hex m.toUTF8.toList}"
  | .panic => "PANIC"
  | .fuel => "FUEL"

def handleParseToks (fields : List String) : String :=
  match fields with
  | toks :: gores :: _ =>
    match ((toks.splitOn " ").filter (· ≠ "")).mapM tokenOf with
    | none => "BADCASE tokens"
    | some pairs =>
      let ts := pairs.map (·.1)
      let rx := mkRx (pairs.filterMap (·.2))
      let r := Parser.parse rx ts
      let g := Grammar.parse rx (strip ts)
      let gs :=
        match r, g with
        | .ok cs _, .ok cs' _ => if beqCmds cs cs' then "G-SAME" else "G-DIFF tree"
        | .error _ _, .err => "G-SAME"
        | .panic, _ => "G-NA"
        | _, _ => "G-DIFF outcome"
      let cmp :=
        if gores.startsWith "AST " then
          match parseSExp (gores.drop 4).toString >>= progOf with
          | none => "DIFF go-dump-unreadable"
          | some gcs =>
            match r with
            | .ok cs _ => if beqCmds cs gcs then "SAME" else "DIFF " ++ firstDiff cs gcs
            | _ => "DIFF go-accepts-model-" ++ resStrP r
        else if gores.startsWith "ERR" then
          match r with
          | .error _ _ => "SAME"
          | _ => "DIFF go-rejects-model-" ++ resStrP r
        else if gores.startsWith "PANIC" then
          match r with
          | .panic => "SAME"
          | _ => "DIFF go-panics-model-" ++ resStrP r
        else "NOCMP"
      resStrP r ++ "\t" ++ cmp ++ "\t" ++ gs
  | _ => "BADCASE"

def sameRes (a b : Parser.Res (List Cmd)) : Bool :=
  match a, b with
  | .ok x _, .ok y _ => beqCmds x y
  | .error _ _, .error _ _ => true
  | _, _ => false

/-- `layoutpair <tokens A> <tokens B> <go result for B>`: the hypothesis and the conclusion of
`C15_parser_layout` evaluated on a concrete pair, then `parsetoks` for B.
Answer: `STRIPEQ T|F <TAB> MODELSAME T|F <TAB> <parsetoks answer for B>` -/
def handleLayoutPair (fields : List String) : String :=
  match fields with
  | ta :: tb :: gores :: _ =>
    match ((ta.splitOn " ").filter (· ≠ "")).mapM tokenOf, ((tb.splitOn " ").filter (· ≠ "")).mapM tokenOf with
    | some pa, some pb =>
      let tsa := pa.map (·.1)
      let tsb := pb.map (·.1)
      let rx := mkRx ((pa ++ pb).filterMap (·.2))
      let se := decide (strip tsa = strip tsb)
      let ms := sameRes (Parser.parse rx tsa) (Parser.parse rx tsb)
      "STRIPEQ " ++ boolStr se ++ "\tMODELSAME " ++ boolStr ms ++ "\t" ++ handleParseToks [tb, gores]
    | _, _ => "BADCASE tokens"
  | _ => "BADCASE"

def handleParse (op : String) (fields : List String) : Option String :=
  if op == "parsetoks" then some (handleParseToks fields)
  else if op == "layoutpair" then some (handleLayoutPair fields)
  else none

end Vore.Driver
