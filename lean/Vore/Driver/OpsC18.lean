import Vore.Spec.CliDoc
/-!
# Vore.Driver.OpsC18 — model side of the C18 exhaustive run (op `cli`)

case:   `<id> cli <vector> <observation>`
  `<vector>`      `com=1 src=0 files=one json=0 fjson=0 jf=1 fjf=0 mode=absent noout=0 prog=find hits=1 pre=0 set=0`
  `<observation>` what the built binary did, as classified by the harness:
                  `exit=0 panic=0 stdout=count,printed stderr=none jf=holds:compact fjf=notNamed eqBefore=0 as=new,nothing`
result: `MODEL <Cli.run goEnv …>` TAB `AGREE <T|F>` (observation = model outcome) TAB
        `PRED <T|F>` (`Cli.spec` evaluated on the observation).

`Cli.run`, `Cli.goEnv` and `Cli.spec` are the definitions the theorems of `Props/C18.lean` are about.
-/
namespace Vore.Driver.C18
open Vore.Cli

def tf (b : Bool) : String := if b then "T" else "F"

def kvOf (s : String) : List (String × String) :=
  (s.splitOn " ").filterMap fun t =>
    match t.splitOn "=" with
    | [k, v] => some (k, v)
    | _ => none

def kvGet (kv : List (String × String)) (k : String) : Option String := (kv.find? (·.1 == k)).map (·.2)

def bit (s : String) : Option Bool := if s == "1" then some true else if s == "0" then some false else none

def fileSetOf : String → Option FileSet
  | "absent" => some .absent | "one" => some .one | "several" => some .several | "glob" => some .glob
  | "noneMatching" => some .noneMatching | _ => none

def modeArgOf : String → Option ModeArg
  | "absent" => some .absent | "NEW" => some .new | "NOTHING" => some .nothing | "OVERWRITE" => some .overwrite
  | "bogus" => some .bogus | "empty" => some .empty | "lower" => some .lower | "confirm" => some .confirm | _ => none

def progOfS : String → Option ProgKind
  | "find" => some .find | "replace" => some .replace | "failing" => some .failing | _ => none

def vectorOf (s : String) : Option (Flags × Scenario) := do
  let kv := kvOf s
  let g := fun k => kvGet kv k
  let fl : Flags := { com := ← g "com" >>= bit, src := ← g "src" >>= bit, files := ← g "files" >>= fileSetOf,
                      json := ← g "json" >>= bit, fjson := ← g "fjson" >>= bit, jsonFile := ← g "jf" >>= bit,
                      fjsonFile := ← g "fjf" >>= bit, mode := ← g "mode" >>= modeArgOf, noOutput := ← g "noout" >>= bit }
  let sc : Scenario := { prog := ← g "prog" >>= progOfS, hits := ← g "hits" >>= bit, pre := ← g "pre" >>= bit }
  pure (fl, sc)

def msgStr : Msg → String
  | .noFilesArg => "noFilesArg" | .bothSrcCom => "bothSrcCom" | .neitherSrcCom => "neitherSrcCom"
  | .bothJson => "bothJson" | .noFilesFound => "noFilesFound" | .noMatches => "noMatches"

def fmtStr : Fmt → String
  | .compact => "compact" | .formatted => "formatted"

def itemStr : OutItem → String
  | .msg m => "msg:" ++ msgStr m
  | .count => "count"
  | .doc f => "doc:" ++ fmtStr f
  | .printed => "printed"
  | .junk => "junk"

def itemOf : String → OutItem
  | "msg:noFilesArg" => .msg .noFilesArg | "msg:bothSrcCom" => .msg .bothSrcCom
  | "msg:neitherSrcCom" => .msg .neitherSrcCom | "msg:bothJson" => .msg .bothJson
  | "msg:noFilesFound" => .msg .noFilesFound | "msg:noMatches" => .msg .noMatches
  | "count" => .count | "doc:compact" => .doc .compact | "doc:formatted" => .doc .formatted
  | "printed" => .printed | _ => .junk

def stdoutStr (xs : List OutItem) : String := if xs.isEmpty then "-" else ",".intercalate (xs.map itemStr)
def stdoutOf (s : String) : List OutItem := if s == "-" then [] else (s.splitOn ",").map itemOf

def stderrStr : Stderr → String
  | .none => "none" | .usage => "usage" | .fatal => "fatal" | .flagError => "flagError" | .panic => "panic"
  | .other => "other"

def stderrOf : String → Stderr
  | "none" => .none | "usage" => .usage | "fatal" => .fatal | "flagError" => .flagError | "panic" => .panic
  | _ => .other

def fileStateStr : FileState → String
  | .notNamed => "notNamed" | .untouched => "untouched" | .holds f => "holds:" ++ fmtStr f | .garbled => "garbled"

def fileStateOf : String → FileState
  | "notNamed" => .notNamed | "untouched" => .untouched | "holds:compact" => .holds .compact
  | "holds:formatted" => .holds .formatted | _ => .garbled

def exitStr : Exit → String
  | .ok => "0" | .one => "1" | .two => "2" | .panic => "2(panic)" | .other => "other"

def exitOf (code : String) (panicked : Bool) : Exit :=
  if code == "0" then .ok else if code == "1" then .one
  else if code == "2" then (if panicked then .panic else .two) else .other

def modeStr : Mode → String
  | .new => "new" | .overwrite => "overwrite" | .nothing => "nothing"

def searchedStr : SearchFs → String
  | .untouched => "untouched" | .library m => "library:" ++ modeStr m

def outcomeStr (o : Outcome) : String :=
  s!"exit={exitStr o.exit} stdout={stdoutStr o.stdout} stderr={stderrStr o.stderr} jf={fileStateStr o.jsonFile} fjf={fileStateStr o.fjsonFile} searched={searchedStr o.searched}"

structure Observation where
  view : View
  as : List String

def observationOf (s : String) : Option Observation := do
  let kv := kvOf s
  let g := fun k => kvGet kv k
  let a ← g "as"
  let as := if a == "-" then [] else a.splitOn ","
  pure { view := { exit := exitOf (← g "exit") ((← g "panic") == "1"), stdout := stdoutOf (← g "stdout"),
                   stderr := stderrOf (← g "stderr"), jsonFile := fileStateOf (← g "jf"),
                   fjsonFile := fileStateOf (← g "fjf"), untouched := (← g "eqBefore") == "1",
                   ranAs := fun m => as.contains (modeStr m) },
         as := as }

/-- the observation is the model's outcome -/
def agrees (o : Outcome) (ob : Observation) : Bool :=
  o.exit == ob.view.exit && o.stdout == ob.view.stdout && o.stderr == ob.view.stderr &&
  o.jsonFile == ob.view.jsonFile && o.fjsonFile == ob.view.fjsonFile &&
  (match o.searched with
   | .untouched => ob.view.untouched
   | .library m => ob.view.ranAs m)

def handle (op : String) (fields : List String) : Option String :=
  if op != "cli" then none else
  match fields with
  | vec :: obs :: _ =>
    match vectorOf vec with
    | none => some "BADCASE vector"
    | some (fl, sc) =>
      let o := run goEnv fl sc
      let m := "MODEL " ++ outcomeStr o ++ "\tDOCUMENTED " ++ tf (documented fl && !sc.prog.isFailing)
      match observationOf obs with
      | none => some (m ++ "\tAGREE F\tPRED F\tNOTE no observation")
      | some ob => some (m ++ "\tAGREE " ++ tf (agrees o ob) ++ "\tPRED " ++ tf (spec fl sc ob.view))
  | _ => some "BADCASE"

end Vore.Driver.C18

def Vore.Driver.handleC18 : String → List String → Option String := Vore.Driver.C18.handle
