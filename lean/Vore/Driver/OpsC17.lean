import Vore.Model.Json
import Vore.Driver.SExp
/-!
# Vore.Driver.OpsC17 — model side of the C17 correspondence (op `json`)

case:   `<id> json <matches> <tree>`
  `<matches>` the in-memory matches of the real run, as an s-expression
      `( ms ( m <filename> <nr> <s> <e> <l1> <l2> <c1> <c2> <value> <repl|-> ( vars <entry>* ) )* )`
      with `<entry>` = `( <name> ( s <hex> ) )` or `( <name> ( m <entry>* ) )`
  `<tree>` the document `encoding/json` decoded from the real `Matches.Json()` output:
      `null`, `( num <int> )`, `( str <hex> )`, `( arr <tree>* )`, `( obj ( <name> <tree> )* )`
result: `TREE <canonical (Json.ofMatches ms).coerce>` TAB `EQ <T|F>` (the implementation's tree is
that tree, up to member order) TAB `PRED <T|F>` (the implementation's tree decodes, with
`Json.decodeMatches`, to the in-memory matches after `encoding/json`'s string coercion).

The functions applied to the data are the definitions the theorems of `Props/C17.lean` are about.
-/
namespace Vore.Driver.C17
open Vore Vore.Driver

/-! ## reading -/

mutual
partial def valOfS : SExp → Option Val
  | .list [.atom "s", .atom h] => do pure (.str (← unhex h))
  | .list (.atom "m" :: es) => do pure (.map (← vmapOfS es))
  | _ => none
partial def vmapOfS : List SExp → Option VMap
  | [] => some .nil
  | .list [.atom k, v] :: rest => do pure (.cons (← unname k) (← valOfS v) (← vmapOfS rest))
  | _ => none
end

def fileMatchOfS : SExp → Option FileMatch
  | .list [.atom "m", .atom fn, .atom nr, .atom s, .atom e, .atom l1, .atom l2, .atom c1, .atom c2,
           .atom v, .atom r, .list (.atom "vars" :: es)] => do
    let repl ← if r == "-" then some none else (unhex r).map some
    pure { filename := ← unhex fn,
           m := { number := ← nr.toNat?, startPos := ← s.toNat?, endPos := ← e.toNat?, startLine := ← l1.toNat?,
                  endLine := ← l2.toNat?, startCol := ← c1.toNat?, endCol := ← c2.toNat?, value := ← unhex v,
                  vars := ← vmapOfS es, replacement := repl } }
  | _ => none

def matchesOfS : SExp → Option (List FileMatch)
  | .list (.atom "ms" :: ms) => ms.mapM fileMatchOfS
  | _ => none

mutual
partial def jsonOfS : SExp → Option Json
  | .atom "null" => some .null
  | .list [.atom "num", .atom n] => do pure (.num (← n.toInt?))
  | .list [.atom "str", .atom h] => do pure (.str (← unhex h))
  | .list (.atom "arr" :: xs) => do pure (.arr (← jlistOfS xs))
  | .list (.atom "obj" :: fs) => do pure (.obj (← jfieldsOfS fs))
  | _ => none
partial def jlistOfS : List SExp → Option JList
  | [] => some .nil
  | x :: rest => do pure (.cons (← jsonOfS x) (← jlistOfS rest))
partial def jfieldsOfS : List SExp → Option JFields
  | [] => some .nil
  | .list [.atom k, v] :: rest => do pure (.cons (← unname k) (← jsonOfS v) (← jfieldsOfS rest))
  | _ => none
end

/-! ## canonical rendering: members sorted by name (what `encoding/json` does with a map) -/

def sortPairs (es : List (String × String)) : List (String × String) :=
  (es.toArray.qsort (fun a b => a.1 < b.1)).toList

def keyHex (k : String) : String := (hex (stringToBytes k)).drop 1 |>.toString

mutual
def canon : Json → String
  | .null => "null"
  | .num n => toString n
  | .str s => hex s
  | .arr items => "[" ++ ",".intercalate (canonList items) ++ "]"
  | .obj f => "{" ++ ",".intercalate ((sortPairs (canonFields f)).map (fun kv => kv.1 ++ ":" ++ kv.2)) ++ "}"
def canonList : JList → List String
  | .nil => []
  | .cons x rest => canon x :: canonList rest
def canonFields : JFields → List (String × String)
  | .nil => []
  | .cons k v rest => (keyHex k, canon v) :: canonFields rest
end

/-- canonical rendering of decoded matches (through the same tree printer) -/
def canonMatchList (ms : List FileMatch) : String := canon (Json.ofMatches ms)

def handle (op : String) (fields : List String) : Option String :=
  if op != "json" then none else
  match fields with
  | msS :: treeS :: _ =>
    match parseSExp msS >>= matchesOfS with
    | none => some "BADCASE matches"
    | some ms =>
      let model := (Json.ofMatches ms).coerce
      let mc := canon model
      match parseSExp treeS >>= jsonOfS with
      | none => some ("TREE " ++ mc ++ "\tEQ F\tPRED F\tNOTE impl tree unreadable")
      | some it =>
        let eq := canon it == mc
        let pred := match Json.decodeMatches it with
          | some ms' => canonMatchList ms' == canonMatchList (ms.map FileMatch.coerce) && ms'.length == ms.length
          | none => false
        some ("TREE " ++ mc ++ "\tEQ " ++ boolStr eq ++ "\tPRED " ++ boolStr pred)
  | _ => some "BADCASE"

end Vore.Driver.C17

def Vore.Driver.handleC17 : String → List String → Option String := Vore.Driver.C17.handle
