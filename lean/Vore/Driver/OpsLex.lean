import Vore.Driver.Print
import Vore.Model.LexSource
/-!
# Vore.Driver.OpsLex — model side of the token-level correspondence (L1)

`lex <srchex>` → `TOKS KIND:x<lexemehex>:start:end …` | `LEXERR <Kind> <start> <end>` | `PANIC x<msg>`
(the same canonical line the harness op `tokens` prints for the real lexer).
`strlit <srchex>` → `STR x<hex>` if the source lexes to exactly one STRING token and EOF, else the `lex` line.
-/
namespace Vore.Driver
open Vore Vore.Lex

def errKindStr : ErrKind → String
  | .unknownToken => "Unknowntoken"
  | .unendingString => "Unendingstring"
  | .unendingBlockComment => "Unendingblockcomment"
  | .unendingRegexp => "Unendingregexp"

def tokenStr (t : Token) : String := s!"{t.kind.name}:{hex t.lexeme}:{t.startOff}:{t.endOff}"

def outcomeStr : LexOutcome → String
  | .tokens ts => "TOKS " ++ " ".intercalate (ts.map tokenStr)
  | .lexError e a b => s!"LEXERR {errKindStr e} {a} {b}"
  | .panic m => "PANIC " ++ hex m.toUTF8.toList

def handleLex (op : String) (fields : List String) : Option String :=
  match op, fields with
  | "lex", src :: _ =>
    -- `lexSource`: the byte model on the class image of the decoded runes (= `lex` on ASCII sources)
    match unhex src with
    | some s => some (outcomeStr (lexSource s))
    | none => some "BADCASE"
  | "strlit", src :: _ =>
    match unhex src with
    | some s =>
      match lex s with
      | .tokens [t, e] => if t.kind = .string ∧ e.kind = .eof then some ("STR " ++ hex t.lexeme) else some (outcomeStr (lex s))
      | o => some (outcomeStr o)
    | none => some "BADCASE"
  | _, _ => none

end Vore.Driver
