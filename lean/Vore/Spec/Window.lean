import Vore.Model.VM
/-!
# Vore.Spec.Window — C04: what each amount clause selects from the `find all` sequence
-/
namespace Vore.Spec
open Vore

/-- the amount clauses of the language -/
inductive Clause where
  | all
  | top (n : Nat)
  | take (n : Nat)
  | skip (s : Nat)
  | skipTake (s t : Nat)
  | last (n : Nat)
deriving Repr, DecidableEq, Inhabited

/-- the property text: `top n`/`take n` = A[0:n], `skip s` = A[s:], `skip s take t` = A[s:s+t],
`last n` (n ≥ 1) = the final n elements -/
def select : Clause → List Match → List Match
  | .all, A => A
  | .top n, A => A.take n
  | .take n, A => A.take n
  | .skip s, A => A.drop s
  | .skipTake s t, A => (A.drop s).take t
  | .last n, A => A.drop (A.length - n)

/-- `parse_amount` (ast/parser.go:234): the (all, skip, take, last) tuple of each clause -/
def Clause.amount : Clause → Amount
  | .all => ⟨true, 0, 0, 0⟩
  | .top n => ⟨false, 0, n, 0⟩
  | .take n => ⟨false, 0, n, 0⟩
  | .skip s => ⟨true, s, 0, 0⟩
  | .skipTake s t => ⟨false, s, t, 0⟩
  | .last n => ⟨true, 0, 0, n⟩

/-- the window an arbitrary (all, skip, take, last) tuple selects -/
def window (a : Amount) (A : List Match) : List Match :=
  limitLast a.last ((if a.all then A else A.take (a.skip + a.take)).drop a.skip)

end Vore.Spec
