import Vore.Model.Basic
/-!
# Vore.Spec.StringLit — what a vore string literal denotes (property C16, docs/language)

A literal is a quote, a list of *spelling items*, and the same quote.  Each item spells one byte:
the raw character (where legal for that quote style), a named escape `\n \t \r \a \b \f \v`,
`\xHH` with two hexadecimal digits of either case, or a backslash before any other character,
meaning that character.  `\x` that is *not* followed by two hexadecimal digits is a backslash
before the ordinary character `x`: it denotes `x` and everything after it is spelled on its own
(so it "keeps all of its following characters").
This file is the specification: it does not mention the lexer.
-/
namespace Vore.Lex

inductive Quote where
  | single | double
deriving Repr, DecidableEq, Inhabited

/-- `'` or `"` -/
def Quote.byte : Quote → UInt8
  | .single => 39
  | .double => 34

/-- the documented named escapes: letter ↦ byte -/
def docEscape (l : UInt8) : Option UInt8 :=
  if l = 110 then some 10        -- \n
  else if l = 116 then some 9    -- \t
  else if l = 114 then some 13   -- \r
  else if l = 97 then some 7     -- \a
  else if l = 98 then some 8     -- \b
  else if l = 102 then some 12   -- \f
  else if l = 118 then some 11   -- \v
  else none

/-- value of a hexadecimal digit, either case -/
def hexVal (c : UInt8) : Option UInt8 :=
  if 48 ≤ c ∧ c ≤ 57 then some (c - 48)
  else if 97 ≤ c ∧ c ≤ 102 then some (c - 87)
  else if 65 ≤ c ∧ c ≤ 70 then some (c - 55)
  else none

/-- the source text begins with two hexadecimal digits -/
def twoHex : Bytes → Prop
  | a :: b :: _ => (hexVal a).isSome ∧ (hexVal b).isSome
  | _ => False

instance : DecidablePred twoHex := fun l =>
  match l with
  | [] => isFalse (by simp [twoHex])
  | [_] => isFalse (by simp [twoHex])
  | a :: b :: _ => by unfold twoHex; infer_instance

/-- one way of spelling one byte -/
inductive Sp where
  | raw (c : UInt8)          -- the character itself
  | named (l : UInt8)        -- backslash + one of n t r a b f v
  | hex (d1 d2 : UInt8)      -- backslash x d1 d2
  | esc (c : UInt8)          -- backslash + any other character
deriving Repr, DecidableEq, Inhabited

/-- the source characters of an item -/
def Sp.render : Sp → Bytes
  | .raw c => [c]
  | .named l => [92, l]
  | .hex d1 d2 => [92, 120, d1, d2]
  | .esc c => [92, c]

/-- the byte an item denotes -/
def Sp.denote : Sp → UInt8
  | .raw c => c
  | .named l => (docEscape l).getD l
  | .hex d1 d2 => (hexVal d1).getD 0 * 16 + (hexVal d2).getD 0
  | .esc c => c

/-- legality of an item in a literal quoted with `q`, when `next` is the source text that follows it
(only `\x` looks at what follows).  All characters are ASCII and not NUL. -/
def Sp.ok (q : Quote) (next : Bytes) : Sp → Prop
  | .raw c => c ≠ 0 ∧ c < 128 ∧ c ≠ 92 ∧ c ≠ q.byte
  | .named l => (docEscape l).isSome
  | .hex d1 d2 => (hexVal d1).isSome ∧ (hexVal d2).isSome ∧ (hexVal d1).getD 0 * 16 + (hexVal d2).getD 0 < 128
  | .esc c => c ≠ 0 ∧ c < 128 ∧ docEscape c = none ∧ (c = 120 → ¬ twoHex next)

def renderAll (sps : List Sp) : Bytes := sps.flatMap Sp.render

/-- the byte string a spelling denotes -/
def denoteAll (sps : List Sp) : Bytes := sps.map Sp.denote

/-- every item is legal, given the source text `tail` that follows the whole spelling
(for a complete literal: the closing quote and the rest of the program) -/
def okAll (q : Quote) (tail : Bytes) : List Sp → Prop
  | [] => True
  | x :: xs => x.ok q (renderAll xs ++ tail) ∧ okAll q tail xs

/-- the literal as source text -/
def literal (q : Quote) (sps : List Sp) : Bytes := q.byte :: renderAll sps ++ [q.byte]

/-- `sps` is a spelling of `b` in quote style `q` (as a complete literal) -/
def Spells (q : Quote) (sps : List Sp) (b : Bytes) : Prop := okAll q [q.byte] sps ∧ denoteAll sps = b

end Vore.Lex
