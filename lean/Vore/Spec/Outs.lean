import Vore.Spec.Search
/-!
# Vore.Spec.Outs — the list-of-successes reading of the pattern as written

`outs text lf e d` is the list of *all* ways the expression `e` can match starting from the data `d`
(position, text consumed so far, bindings), **in priority order**: earlier alternative first, earlier
`in` item first, a greedy loop's longer continuations before its exit, a `fewest` loop's exit before its
continuations; an optional iteration that consumes nothing contributes nothing.  No continuations, no
program counter: this is the declarative form of the property's sentence "the first complete match in
priority order" — the first complete match is the head of the list.

`Vore/Lemmas/Outs.lean` proves that the two-continuation semantics `Spec.m` (the one the VM is proved to
implement) visits exactly this list, in this order.
-/
namespace Vore.Spec
open Vore

/-- the ways `n` mandatory copies can match in sequence -/
def repeatOuts (ob : Data → List Data) : Nat → Data → List Data
  | 0, d => [d]
  | n + 1, d => (ob d).flatMap (repeatOuts ob n)

/-- the ways the optional part of a loop can match after `k` optional iterations (`fuel` bounds the number
of iterations; `|text| + 1` is never exhausted because every optional iteration must consume) -/
def loopOuts (ob : Data → List Data) (max : Int) (fewest : Bool) : Nat → Nat → Data → List Data
  | 0, _, _ => []
  | fuel + 1, k, d =>
    if max == -1 || (k : Int) ≤ max then
      if fewest then
        d :: (ob d).flatMap (fun d' => if d'.cur.length == d.cur.length then [] else loopOuts ob max fewest fuel (k + 1) d')
      else
        (ob d).flatMap (fun d' => if d'.cur.length == d.cur.length then [] else loopOuts ob max fewest fuel (k + 1) d') ++ [d]
    else []

/-- all ways `e` can match from `d`, in priority order -/
def outs (text : Bytes) (lf : Nat) : Expr → Data → List Data
  | .empty, d => [d]
  | .seq a b, d => (outs text lf a d).flatMap (outs text lf b)
  | .atom a, d => (atomD text a d).toList
  | .var x, d => (backrefD text x d).toList
  | .loop mn mx fewest _ body, d =>
    (repeatOuts (outs text lf body) mn d).flatMap (fun d' =>
      if (mn : Int) == mx then [d']
      else loopOuts (outs text lf body) (if mx > 0 then mx - mn else mx) fewest lf 0 d')
  | .branch l r, d => outs text lf l d ++ outs text lf r d
  | .dec x body, d => (outs text lf body d).map (fun d' => bindD d' x (d'.cur.drop d.cur.length))
  | .sub _ _, _ => []
  | .inl false items, d => items.filterMap (fun a => atomD text a d)
  | .inl true items, d =>
    if items.any (fun a => (atomD text a d).isSome) then []
    else if (consumeD text d (listMaxSize items).toNat).pos == d.pos then []
    else [consumeD text d (listMaxSize items).toNat]

/-- offer the successes one after the other: each to `ks`, with "try the next one" as its failure
continuation; `fk` when none is left -/
def firstK : List Data → SK → FK → Option SRes
  | [], _, fk => fk ()
  | d :: rest, ks, fk => ks d (fun _ => firstK rest ks fk)

/-- the first complete match in priority order, declaratively: the head of the list of all matches -/
def attemptOuts (text : Bytes) (lf : Nat) (e : Expr) (pos line col : Nat) : SRes :=
  match outs text lf e ⟨pos, line, col, [], .nil⟩ with
  | d :: _ => .matched d
  | [] => .fail

end Vore.Spec
