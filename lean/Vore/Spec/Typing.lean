import Vore.Spec.DocOps
import Vore.Model.Check
/-!
# Vore.Spec.Typing — the DOCUMENTED typing rules of the process language

Written from `docs/language/LanguageDetails.md` ("Typechecking": the operator table,
"Statement Type Requirements") and the text of property C12:

* every operator is applied to an operand-type combination listed in the table
  (`DocOps.binType` / `DocOps.unType` are read off the transcribed table);
* an `if` condition is a boolean;
* a predicate returns a boolean, a transform ("function") returns a string or a number;
* `break` / `continue` occur only inside `loop`;
* a variable has the type of the last value assigned to it in source order, and a name that
  was never assigned is a string (`match` is a string and `matchLength` a number).

Type environments are functions `String → PT` here; the checker's association lists
(`Vore.TEnv`) are related to them by `TEnv.get`.  `Ctx` (predicate / transformation) is the
only thing shared with the model of the checker.  Core Lean only.
-/
namespace Vore.Spec.Typing
open Vore

/-- a type environment: every name has a type (unknown names are strings) -/
abbrev Env := String → PT

def Env.update (Γ : Env) (x : String) (t : PT) : Env := fun y => if y = x then t else Γ y

/-- the environment in which a predicate or a transform is checked -/
def initEnv : Env := fun x => if x = "matchLength" then .number else .string

/-- `e` has type `t` according to the documented operator table -/
inductive HasType (Γ : Env) : PExpr → PT → Prop where
  | str (s : Bytes) : HasType Γ (.str s) .string
  | num (n : Int) : HasType Γ (.num n) .number
  | bool (b : Bool) : HasType Γ (.bool b) .boolean
  | var (x : String) : HasType Γ (.var x) (Γ x)
  | un {op : Op} {e : PExpr} {t t' : PT} :
      HasType Γ e t → DocOps.unType t op = some t' → HasType Γ (.un op e) t'
  | bin {op : Op} {l r : PExpr} {tl tr t : PT} :
      HasType Γ l tl → HasType Γ r tr → DocOps.binType tl tr op = some t → HasType Γ (.bin op l r) t

/-- "Statement Type Requirements": what a `return` may return in each context -/
def returnAllowed : Ctx → PT → Prop
  | .predicate, t => t = .boolean
  | .transformation, t => t = .string ∨ t = .number

/-- `WT ctx inLoop Γ s Γ'`: statement (list) `s` obeys the documented rules in context `ctx`,
inside a loop or not, starting with variable types `Γ`; `Γ'` are the variable types after it
(last assignment in source order). -/
inductive WT (ctx : Ctx) : Bool → Env → Stmt → Env → Prop where
  | skip {b : Bool} {Γ : Env} : WT ctx b Γ .skip Γ
  | seq {b : Bool} {Γ Γ₁ Γ₂ : Env} {s₁ s₂ : Stmt} :
      WT ctx b Γ s₁ Γ₁ → WT ctx b Γ₁ s₂ Γ₂ → WT ctx b Γ (.seq s₁ s₂) Γ₂
  | set {b : Bool} {Γ : Env} {x : String} {e : PExpr} {t : PT} :
      HasType Γ e t → WT ctx b Γ (.set x e) (Γ.update x t)
  | ret {b : Bool} {Γ : Env} {e : PExpr} {t : PT} :
      HasType Γ e t → returnAllowed ctx t → WT ctx b Γ (.ret e) Γ
  | ite {b : Bool} {Γ Γ₁ Γ₂ : Env} {c : PExpr} {s₁ s₂ : Stmt} :
      HasType Γ c .boolean → WT ctx b Γ s₁ Γ₁ → WT ctx b Γ₁ s₂ Γ₂ → WT ctx b Γ (.ite c s₁ s₂) Γ₂
  | debug {b : Bool} {Γ : Env} {e : PExpr} {t : PT} :
      HasType Γ e t → WT ctx b Γ (.debug e) Γ
  | loop {b : Bool} {Γ Γ₁ : Env} {body : Stmt} :
      WT ctx true Γ body Γ₁ → WT ctx b Γ (.loop body) Γ₁
  | cont {Γ : Env} : WT ctx true Γ .cont Γ
  | brk {Γ : Env} : WT ctx true Γ .brk Γ

/-- a predicate / transform body obeys the documented typing rules -/
def wellTyped (ctx : Ctx) (body : Stmt) : Prop := ∃ Γ', WT ctx false initEnv body Γ'

/-! ## hypotheses of the soundness half of C12 and of C11 -/

/-- "each variable keeps one type": every assignment `set x to e` in the code assigns a value
of the type `Γ x` that `x` has from the start (a name that is not bound initially is a
string, so it may only be assigned strings) -/
def SingleTyped (Γ : Env) : Stmt → Prop
  | .skip => True
  | .seq a b => SingleTyped Γ a ∧ SingleTyped Γ b
  | .set x e => HasType Γ e (Γ x)
  | .ret _ => True
  | .ite _ t f => SingleTyped Γ t ∧ SingleTyped Γ f
  | .debug _ => True
  | .loop body => SingleTyped Γ body
  | .cont => True
  | .brk => True

/-- executable form of `SingleTyped` over the checker's association-list environments
(`singleTypedB Γ s = true ↔ SingleTyped Γ.get s`, `Vore/Lemmas/Soundness.lean`) -/
def singleTypedB (Γ : TEnv) : Stmt → Bool
  | .skip => true
  | .seq a b => singleTypedB Γ a && singleTypedB Γ b
  | .set x e => typeOf Γ e == some (Γ.get x)
  | .ret _ => true
  | .ite _ t f => singleTypedB Γ t && singleTypedB Γ f
  | .debug _ => true
  | .loop body => singleTypedB Γ body
  | .cont => true
  | .brk => true

/-- the value a variable reference evaluates to: unbound names are the empty string -/
def lookup (ρ : PEnv) (x : String) : PVal :=
  match ρ.get x with
  | some v => v
  | none => .str []

/-- the run-time environment has exactly the types the checker assumes (used by C11) -/
def Models (ρ : PEnv) (Γ : Env) : Prop := ∀ x, (lookup ρ x).type = Γ x

/-- a value of dynamic type `d` may stand where the checker assumed `s`: the same type, or a
number where a string was assumed (`matchNumber` is a number at run time and unknown — hence
a string — to the checker; every operator accepted on a string is defined on a number) -/
def Fits (d s : PT) : Prop := d = s ∨ (s = .string ∧ d = .number)

/-- the run-time environment agrees with the checker's assumptions up to `Fits` (used by the
soundness half of C12; weaker than `Models`) -/
def Agrees (ρ : PEnv) (Γ : Env) : Prop := ∀ x, Fits (lookup ρ x).type (Γ x)

end Vore.Spec.Typing
