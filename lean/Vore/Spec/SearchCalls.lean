import Vore.Spec.Search
/-!
# Vore.Spec.SearchCalls — the backtracking semantics with subroutines (C01 stage 2, C13)

`mc` extends `Spec.m` with the two ways of naming a pattern:

* an inline subroutine `{B} = s` matches `B` where it stands and makes `s` callable (also from
  inside `B`: recursion); a later `s` matches `B` again at the point of reference;
* a global pattern `set p to pattern B [begin … end]` referenced as `p` matches `B` (read in the
  scope it was defined in: earlier global patterns only) and then requires its predicate, evaluated
  with `match` = the text matched so far by the command.

*Naming is transparent*: both forms run the body with the same success and failure continuations
the body would have in place (`mc_sub`, `mc_call` in Props/C13).

Scoping is static, as in the generator: `Env` is the list of names declared so far in the command
(most recent first); the scope a subroutine body is read in is the suffix of the list that starts at
its own entry.  Recursion needs fuel: `cf` bounds the depth of nested calls (a call with no fuel left
answers `none`, i.e. "unknown").
-/
namespace Vore.Spec
open Vore

/-- a name declared in a command -/
inductive Bind where
  | capture
  /-- an inline subroutine (`fresh = false`) or an inlined global pattern (`fresh = true`: its body is
  read in an empty scope with the globals defined before it, `gdepth` = how many) at code address `pc` -/
  | proc (pc : Nat) (body : Expr) (pred : Stmt) (fresh : Bool) (gdepth : Nat)
deriving Inhabited

abbrev Env := List (String × Bind)

/-- global patterns, most recent first: name, body, predicate -/
abbrev GEnv := List (String × Expr × Stmt)

/-- the entry for `x` together with the scope that starts at it -/
def Env.find : Env → String → Option (Bind × Env)
  | [], _ => none
  | (y, b) :: rest, x => if y == x then some (b, (y, b) :: rest) else Env.find rest x

def GEnv.find : GEnv → String → Option (Expr × Stmt × GEnv)
  | [], _ => none
  | (y, b, p) :: rest, x => if y == x then some (b, p, rest) else GEnv.find rest x

/-- how a reference `x` resolves (`generateVariable`) -/
inductive Target where
  | backref
  | call (pc : Nat) (body : Expr) (pred : Stmt) (scope : Env) (globals : GEnv)
  | inlineGlobal (body : Expr) (pred : Stmt) (globals : GEnv)
  | undefined

def resolve (G : GEnv) (Γ : Env) (x : String) : Target :=
  match Γ.find x with
  | some (.capture, _) => .backref
  | some (.proc pc body pred fresh gd, scope) =>
    if fresh then .call pc body pred [] (G.drop (G.length - gd)) else .call pc body pred scope G
  | none =>
    match G.find x with
    | some (body, pred, G') => .inlineGlobal body pred G'
    | none => .undefined

/-- code length of an expression in a scope (references to global patterns inline their body) -/
def codeLenC (G : GEnv) : Nat → Env → Expr → Nat × Env
  | _, Γ, .empty => (0, Γ)
  | f, Γ, .seq a b =>
    let ra := codeLenC G f Γ a
    let rb := codeLenC G f ra.2 b
    (ra.1 + rb.1, rb.2)
  | _, Γ, .atom _ => (1, Γ)
  | _, Γ, .var _ => (1, Γ)   -- refined below for inlined globals by `lenVar`
  | f, Γ, .loop mn mx _ _ body =>
    let rb := codeLenC G f Γ body
    (if (mn : Int) == mx then mn * rb.1 else mn * rb.1 + rb.1 + 2, Γ)
  | f, Γ, .branch l r =>
    let rl := codeLenC G f Γ l
    let rr := codeLenC G f rl.2 r
    (rl.1 + rr.1 + 3, rr.2)
  | f, Γ, .dec x body => let rb := codeLenC G f Γ body; (rb.1 + 2, (x, .capture) :: rb.2)
  | f, Γ, .sub _ body => let rb := codeLenC G f Γ body; (rb.1 + 2, rb.2)
  | _, Γ, .inl false items => (1 + 2 * items.length, Γ)
  | _, Γ, .inl true items => (3 * items.length + 1, Γ)

/-- does the predicate of a pattern hold for the text matched so far? `none` = it does not evaluate -/
def predHolds (pf : Nat) (pred : Stmt) (d : Data) : Option Bool :=
  if pred == .skip then some true else
  match runProcess pf pred [("match", .str d.cur), ("matchLength", .num d.cur.length)] with
  | .ok (some v) => some v.getBoolean
  | _ => none

end Vore.Spec
