import Vore.Spec.Atoms
import Vore.Spec.Window
/-!
# Vore.Spec.Search — the priority-ordered backtracking semantics of the pattern *as written* (C01)

Defined on the syntax tree, never mentioning a program counter.  Two-continuation form: `m e d ks fk`
tries to match `e` starting from data `d`; on each way `e` can match — in priority order: earlier
alternative first, greedy loops longest first, `fewest` loops shortest first — it calls the success
continuation `ks` with the data after the match and a failure continuation that resumes with the
next way; when no way is left it calls `fk`.  `Vore/Spec/Outs.lean` is the list-of-successes reading and
`Vore/Lemmas/Outs.lean` proves the two equal (`m … ks fk = firstK (outs …) ks fk`).

Loop rule (for unnamed loops, the property's quantifier): the first `min` copies are mandatory and
carry no consumption requirement; an *optional* iteration that consumes nothing is rejected, which
is what makes every loop finite; `max` (when bounded) bounds the optional iterations by `max - min`
— the head may be visited once more, and that visit fails.

This file covers the call-free fragment: leaves, sequence, `or`, `in` / `not in`, all loop forms,
captures and back-references.  Subroutines are `Spec.SearchCalls` (fuel for recursion).
`lf` is the fuel of loop heads; `text.length + 2` always suffices (`Lemmas/SpecTotal.lean`).
-/
namespace Vore.Spec
open Vore

/-- how one attempt at one start position ends -/
inductive SRes where
  | matched (d : Data)
  | fail
deriving Inhabited

abbrev FK := Unit → Option SRes
abbrev SK := Data → FK → Option SRes

/-- `n` mandatory copies in sequence -/
def repeatM (mb : Data → SK → FK → Option SRes) : Nat → Data → SK → FK → Option SRes
  | 0, d, ks, fk => ks d fk
  | n + 1, d, ks, fk => mb d (fun d' fk' => repeatM mb n d' ks fk') fk

/-- the loop head after `k` completed optional iterations -/
def loopV (mb : Data → SK → FK → Option SRes) (max : Int) (fewest : Bool) :
    Nat → Nat → Data → SK → FK → Option SRes
  | 0, _, _, _, _ => none
  | fuel + 1, k, d, ks, fk =>
    if max == -1 || (k : Int) ≤ max then
      if fewest then
        ks d (fun _ => mb d (fun d' fk' =>
          if d'.cur.length == d.cur.length then fk' () else loopV mb max fewest fuel (k + 1) d' ks fk') fk)
      else
        mb d (fun d' fk' =>
          if d'.cur.length == d.cur.length then fk' () else loopV mb max fewest fuel (k + 1) d' ks fk')
          (fun _ => ks d fk)
    else fk ()

/-- `in a, b, c`: the first listed item that matches, later items on backtracking -/
def inAlts (text : Bytes) : List Atom → Data → SK → FK → Option SRes
  | [], _, _, fk => fk ()
  | a :: rest, d, ks, fk =>
    match atomD text a d with
    | some d' => ks d' (fun _ => inAlts text rest d ks fk)
    | none => inAlts text rest d ks fk

def bindD (d : Data) (x : String) (v : Bytes) : Data := { d with env := d.env.put x (.str v) }

def m (text : Bytes) (lf : Nat) : Expr → Data → SK → FK → Option SRes
  | .empty, d, ks, fk => ks d fk
  | .seq a b, d, ks, fk => m text lf a d (fun d' fk' => m text lf b d' ks fk') fk
  | .atom a, d, ks, fk =>
    match atomD text a d with
    | some d' => ks d' fk
    | none => fk ()
  | .var x, d, ks, fk =>
    match backrefD text x d with
    | some d' => ks d' fk
    | none => fk ()
  | .loop mn mx fewest _ body, d, ks, fk =>
    repeatM (m text lf body) mn d (fun d' fk' =>
      if (mn : Int) == mx then ks d' fk'
      else loopV (m text lf body) (if mx > 0 then mx - mn else mx) fewest lf 0 d' ks fk') fk
  | .branch l r, d, ks, fk => m text lf l d ks (fun _ => m text lf r d ks fk)
  | .dec x body, d, ks, fk =>
    m text lf body d (fun d' fk' => ks (bindD d' x (d'.cur.drop d.cur.length)) fk') fk
  | .sub _ _, _, _, fk => fk ()
  | .inl false items, d, ks, fk => inAlts text items d ks fk
  | .inl true items, d, ks, fk =>
    if items.any (fun a => (atomD text a d).isSome) then fk ()
    else if (consumeD text d (listMaxSize items).toNat).pos == d.pos then fk ()
    else ks (consumeD text d (listMaxSize items).toNat) fk

/-- the first complete match of `e` starting at `(pos, line, col)`, in priority order -/
def attempt (text : Bytes) (lf : Nat) (e : Expr) (pos line col : Nat) : Option SRes :=
  m text lf e ⟨pos, line, col, [], .nil⟩ (fun d _ => some (.matched d)) (fun _ => some .fail)

def matchOfData (number pos line col : Nat) (d : Data) : Match :=
  { number := number, startPos := pos, endPos := d.pos, startLine := line, endLine := d.line,
    startCol := col, endCol := d.col, value := d.cur, vars := d.env }

/-- the scan of the property text, for any first-match function `att pos line col`: at each start
position from left to right take the first complete match; if it exists and is non-empty report it
and continue at its end, otherwise advance one byte; stop at the end of the text.  `none` only if an
attempt answers `none`. -/
def scanAllWith (text : Bytes) (att : Nat → Nat → Nat → Option SRes) :
    Nat → (acc : List Match) → (pos line col : Nat) → Option (List Match)
  | 0, _, _, _, _ => none
  | f + 1, acc, pos, line, col =>
    match att pos line col with
    | none => none
    | some (.matched d) =>
      if d.cur.length != 0 then
        let acc' := acc ++ [matchOfData (acc.length + 1) pos line col d]
        if d.pos ≥ text.length then some acc' else scanAllWith text att f acc' d.pos d.line d.col
      else step1 f acc pos line col
    | some .fail => step1 f acc pos line col
where
  step1 (f : Nat) (acc : List Match) (pos line col : Nat) : Option (List Match) :=
    match readAt text pos 1 with
    | [b] =>
      if pos + 1 ≥ text.length then some acc
      else if b = nl then scanAllWith text att f acc (pos + 1) (line + 1) 1
      else scanAllWith text att f acc (pos + 1) line (col + 1)
    | _ => some acc

/-- the scan with the first-match semantics of the call-free pattern `e` -/
abbrev scanAll (text : Bytes) (lf : Nat) (e : Expr) := scanAllWith text (attempt text lf e)

/-- all matches of `find all e` on `text` -/
def findAll (text : Bytes) (e : Expr) : Option (List Match) :=
  if text.length = 0 then some [] else scanAll text (text.length + 2) e (text.length + 1) [] 0 1 1

end Vore.Spec

namespace Vore.Spec
open Vore

/-- decidable form of the call-free fragment (`Vore.CallFree`, proved equivalent in Lemmas) -/
def callFreeB : Expr → Bool
  | .empty => true
  | .seq a b => callFreeB a && callFreeB b
  | .atom _ => true
  | .var _ => true
  | .loop _ _ _ name body => name == "" && callFreeB body
  | .branch l r => callFreeB l && callFreeB r
  | .dec _ body => callFreeB body
  | .sub _ _ => false
  | .inl neg items => neg || !items.isEmpty

end Vore.Spec
