import Vore.Model.VM
/-!
# Vore.Spec.Atoms — what one leaf of the search language does to the match in progress

`Data` is the part of the engine state a pattern can observe and change: the position (with its
line/column), the text consumed so far and the bindings.  Every leaf either fails (`none`) or
yields a new `Data`.  These definitions are *shared* between the specification (Spec.Search) and
the VM model: `Vore/Lemmas/AtomsFrame.lean` proves that the VM's `MATCH*` primitives are exactly
these functions, lifted to "advance the pc or backtrack".
-/
namespace Vore

structure Data where
  pos : Nat
  line : Nat
  col : Nat
  cur : Bytes
  env : VMap
deriving Inhabited

def Core.data (c : Core) : Data := ⟨c.pos, c.line, c.col, c.cur, c.env⟩

/-- a VM core from its control part and its data part -/
def mkCore (pc : Nat) (d : Data) (loops : List LoopSt) (vars : List (String × Nat)) (calls : List CallSt) : Core :=
  ⟨pc, d.pos, d.line, d.col, d.cur, loops, vars, calls, d.env⟩

namespace Spec

/-- `CONSUME(n)` on data -/
def consumeD (text : Bytes) (d : Data) (n : Nat) : Data :=
  { d with cur := d.cur ++ readAt text d.pos n, pos := d.pos + (readAt text d.pos n).length,
           line := (advance d.line d.col (readAt text d.pos n)).1, col := (advance d.line d.col (readAt text d.pos n)).2 }

/-- zero-width test: succeed unchanged iff `cond ≠ neg` -/
def anchorD (d : Data) (cond neg : Bool) : Option Data := if cond != neg then some d else none

/-- a string literal (`MATCH`) -/
def litD (text : Bytes) (v : Bytes) (neg caseless : Bool) (d : Data) : Option Data :=
  if (readAt text d.pos v.length).length = 0 then none else
  if (if caseless then equalFoldAscii v (readAt text d.pos v.length) else v == readAt text d.pos v.length) != neg
  then some (consumeD text d v.length) else none

def rangeLoopD (text : Bytes) (lo hi : Bytes) (neg : Bool) (d : Data) : Nat → Option Data
  | 0 => none
  | k + 1 =>
    if readAt text d.pos (lo.length + k) == [] then rangeLoopD text lo hi neg d k else
    if (inRange lo hi (readAt text d.pos (lo.length + k)) && !neg) ||
        (!(inRange lo hi (readAt text d.pos (lo.length + k))) && neg) then some (consumeD text d (lo.length + k))
    else rangeLoopD text lo hi neg d k

/-- a range `lo to hi` (`MATCHRANGE`) -/
def rangeD (text : Bytes) (lo hi : Bytes) (neg : Bool) (d : Data) : Option Data :=
  rangeLoopD text lo hi neg d (hi.length + 1 - lo.length)

/-- a character class or anchor (`matchCharClass`) -/
def classD (text : Bytes) (c : Class) (neg : Bool) (d : Data) : Option Data :=
  match c with
  | .any =>
    if neg then none else
    if readAt text d.pos 1 == [] then none else some (consumeD text d 1)
  | .whitespace =>
    if readAt text d.pos 1 == [] then none else
    if readAt text d.pos 1 == [32] || readAt text d.pos 1 == [9] || readAt text d.pos 1 == [10] || readAt text d.pos 1 == [13] then
      (if neg then none else some (consumeD text d 1))
    else (if neg then some (consumeD text d 1) else none)
  | .digit => rangeD text [48] [57] neg d
  | .upper => rangeD text [65] [90] neg d
  | .lower => rangeD text [97] [122] neg d
  | .letter =>
    if readAt text d.pos 1 == [] then none else
    if inRange [97] [122] (readAt text d.pos 1) || inRange [65] [90] (readAt text d.pos 1) then
      (if neg then none else some (consumeD text d 1))
    else (if neg then some (consumeD text d 1) else none)
  | .fileStart => anchorD d (d.pos == 0) neg
  | .fileEnd => anchorD d (d.pos == text.length) neg
  | .lineStart => if d.pos == 0 then anchorD d true neg else anchorD d (readAt text (d.pos - 1) 1 == [nl]) neg
  | .lineEnd => anchorD d (isLineBreakAt text d.pos) neg
  | .wordStart =>
    if d.pos == text.length then anchorD d true neg else
    if d.pos == 0 then anchorD d (isWordStr (readAt text d.pos 1)) neg else
    anchorD d (isWordStr (readAt text d.pos 1) && !isWordStr (readAt text (d.pos - 1) 1)) neg
  | .wordEnd =>
    if d.pos == 0 then anchorD d true neg else
    if d.pos == text.length then anchorD d (!isWordStr (readAt text d.pos 1)) neg else
    anchorD d (!isWordStr (readAt text d.pos 1) && isWordStr (readAt text (d.pos - 1) 1)) neg
  | .wholeFile =>
    if d.pos != 0 then (if neg then some d else none) else
    if neg then none else some (consumeD text d text.length)
  | .wholeLine =>
    if (d.pos != 0 && readAt text (d.pos - 1) 1 != [nl]) || d.pos == text.length then
      (if neg then some d else none)
    else if neg then none
    else some (consumeD text d (1 + wholeLineMore text (text.length - d.pos) (d.pos + 1)))
  | .wholeWord =>
    if (d.pos != 0 && (!isWordStr (readAt text d.pos 1) || isWordStr (readAt text (d.pos - 1) 1))) || d.pos == text.length then
      (if neg then some d else none)
    else if neg then none
    else some (consumeD text d (1 + wholeWordMore text (text.length - d.pos) (d.pos + 1)))

/-- a back-reference: matches exactly the text currently bound to the name -/
def backrefD (text : Bytes) (x : String) (d : Data) : Option Data :=
  match d.env.get x with
  | none => none
  | some (.map _) => none
  | some (.str v) => if v.isEmpty then some d else litD text v false false d

/-- one leaf -/
def atomD (text : Bytes) : Atom → Data → Option Data
  | .str neg cl s => litD text s neg cl
  | .cls neg c => classD text c neg
  | .range lo hi => rangeD text lo hi false

end Spec
end Vore
