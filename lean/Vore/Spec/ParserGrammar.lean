import Vore.Model.Parser
/-!
# Vore.Spec.ParserGrammar — the vore grammar as an index-free parser over SIGNIFICANT tokens

`Grammar.parse` works on `Parser.strip ts : List STok` (WS and COMMENT removed, offsets and
keyword spelling forgotten) by looking at the head of the list: no indices, no skipping, no
partial access.  It doubles as the readable grammar (compare
docs/language/LanguageDetails.md, "Grammar and Parsing"):

```
program    := command* EOF
command    := 'find' amount expr*  |  'replace' amount expr* 'with' atom+  |  'set' ID 'to' setbody
setbody    := 'pattern' expr* ['begin' stmt* 'end'] | 'transform' ['begin'] stmt* 'end' | 'matches' command
amount     := 'all' | 'skip' N ['take' N] | ('take'|'top') N | 'last' N
expr       := 'at' ('least'|'most') N expr suffix | 'between' N 'and' N expr suffix | 'exactly' N expr
            | 'maybe' expr ['fewest'] | ['not'] 'in' listable (',' listable)* | '{' expr* '}' '=' ID
            | REGEXP | literal ['=' ID | 'or' literal ('or' literal)*]
suffix     := ['fewest'] ['named' (ID|STRING)]
literal    := STRING | 'caseless' STRING | ID | '(' expr* ')' | 'not' (STRING | class) | class
listable   := STRING ['to' STRING] | 'caseless' STRING | 'any'|'whitespace'|'digit'|'upper'|'lower'|'letter'
class      := listable-class | ('line'|'file'|'word') ('start'|'end') | 'whole' ('line'|'file'|'word')
stmt       := 'set' ID 'to' pexpr | 'if' pexpr 'then' stmt* ['else' stmt*] 'end' | 'return' pexpr
            | 'debug' pexpr | 'loop' stmt* 'end' | 'break' | 'continue'
pexpr      := the tokens up to the next statement keyword / EOF, parsed by the Pratt parser
```
Differences from the grammar printed in LanguageDetails.md (the code is what is modelled): bodies may be
empty (`find all`, `()`, `{} = x`, `set p to pattern`) where the document asks for at least one
operation; `with` needs at least one item where the document allows none, and also takes
`caseless STRING`; loops take the `fewest` / `named` suffix and `in` items may be `caseless STRING` or
a range `STRING to STRING`, none of which the document lists; `exactly N e` does not take `named`
(the Go code looks for it at the wrong index); the documented `FUNCTION` keyword does not exist;
an unmatched `)` ends a process expression and the rest of it is ignored.

Results: `ok node rest | err | fuel`.  The recursive functions take the same fuel argument as
the model (`Lemmas/GrammarMono.lean` shows the result does not depend on it once it suffices).
Process expressions reuse `Parser.pratt` (it already works on a filtered token list).
-/
namespace Vore.Grammar
open Vore Vore.Parser

inductive GR (α : Type) where
  | ok (v : α) (rest : List STok)
  | err
  | fuel
deriving Repr

@[inline] def GR.bind {α β : Type} (g : GR α) (k : α → List STok → GR β) : GR β :=
  match g with
  | .ok v r => k v r
  | .err => .err
  | .fuel => .fuel

/-- look at the first token -/
@[inline] def next {β : Type} (l : List STok) (k : STok → List STok → GR β) : GR β :=
  match l with
  | [] => .err
  | t :: r => k t r

@[inline] def gNumber {β : Type} (t : STok) (k : Int → GR β) : GR β :=
  if t.kind = .number then
    match atoi t.lex with
    | none => .err
    | some v => k v
  else .err

/-- amount := 'all' | 'skip' N ['take' N] | ('take'|'top') N | 'last' N -/
def pAmount (l : List STok) : GR Amount :=
  next l fun t r =>
    if t.kind = .all then .ok ⟨true, 0, 0, 0⟩ r
    else if t.kind = .skip then
      next r fun t1 r1 =>
        gNumber t1 fun sv =>
          next r1 fun t2 r2 =>
            if t2.kind = .take then
              next r2 fun t3 r3 => gNumber t3 fun tv => .ok ⟨false, sv.toNat, tv.toNat, 0⟩ r3
            else .ok ⟨true, sv.toNat, 0, 0⟩ r1
    else if t.kind = .take ∨ t.kind = .top then
      next r fun t1 r1 => gNumber t1 fun tv => .ok ⟨false, 0, tv.toNat, 0⟩ r1
    else if t.kind = .last then
      next r fun t1 r1 => gNumber t1 fun lv => .ok ⟨true, 0, 0, lv.toNat⟩ r1
    else .err

/-- class -/
def pCharacterClass (neg : Bool) (l : List STok) : GR Atom :=
  next l fun t r =>
    match simpleClass t.kind with
    | some c => .ok (.cls neg c) r
    | none =>
      if t.kind = .line ∨ t.kind = .file ∨ t.kind = .word ∨ t.kind = .whole then
        next r fun t2 r2 =>
          match compoundClass t.kind t2.kind with
          | some c => .ok (.cls neg c) r2
          | none => .err
      else .err

/-- 'caseless' STRING -/
def pCaseless (l : List STok) : GR Bytes :=
  next l fun _ r =>
    next r fun t r2 =>
      if t.kind = .string then .ok t.lex r2 else .err

/-- listable -/
def pListable (l : List STok) : GR Atom :=
  next l fun t r =>
    if t.kind = .string then
      next r fun t2 r2 =>
        if t2.kind = .to then
          next r2 fun t3 r3 => if t3.kind = .string then .ok (.range t.lex t3.lex) r3 else .err
        else .ok (.str false false t.lex) r
    else if t.kind = .caseless then (pCaseless l).bind fun s k => .ok (.str false true s) k
    else if isListableClass t.kind then pCharacterClass false l
    else .err

/-- (',' listable)* -/
def pInRest : Nat → List STok → GR (List Atom)
  | 0, _ => .fuel
  | n + 1, l =>
    next l fun t r =>
      if t.kind = .comma then
        (pListable r).bind fun a r' => (pInRest n r').bind fun as r'' => .ok (a :: as) r''
      else .ok [] l

/-- 'in' listable (',' listable)* -/
def pIn (F : Nat) (neg : Bool) (l : List STok) : GR Expr :=
  next l fun _ r =>
    (pListable r).bind fun a r' => (pInRest F r').bind fun as r'' => .ok (.inl neg (a :: as)) r''

/-- 'not' (STRING | class) -/
def pNotLiteral (l : List STok) : GR Expr :=
  next l fun _ r =>
    next r fun t r2 =>
      if t.kind = .string then .ok (.atom (.str true false t.lex)) r2
      else if isClassStart t.kind then (pCharacterClass true r).bind fun a k => .ok (.atom a) k
      else .err

/-- atom (item of `with`) := STRING | 'caseless' STRING | ID -/
def pAtom (l : List STok) : GR RAtom :=
  next l fun t r =>
    if t.kind = .string then .ok (.str t.lex) r
    else if t.kind = .caseless then
      (pCaseless l).bind fun s k => .ok (.str s) k
    else if t.kind = .identifier then .ok (.var (nameOf t.lex)) r
    else .err

def pRegexp (rx : Bytes → RegexOutcome) (l : List STok) : GR Expr :=
  next l fun t r =>
    match rx t.lex with
    | .ok e => .ok e r
    | _ => .err

/-- suffix := ['fewest'] ['named' (ID|STRING)] -/
def pLoopSuffix (l : List STok) : GR (Bool × String) :=
  next l fun t r =>
    next (if t.kind = .fewest then r else l) fun t2 r2 =>
      if t2.kind = .named then
        next r2 fun t3 r3 =>
          if t3.kind = .identifier ∨ t3.kind = .string then .ok (decide (t.kind = .fewest), nameOf t3.lex) r3
          else .err
      else .ok (decide (t.kind = .fewest), "") (if t.kind = .fewest then r else l)

/-- pexpr: the tokens up to the next statement keyword / EOF, through the Pratt parser -/
def pProcessExpression (l : List STok) : GR PExpr :=
  let toks := l.takeWhile (fun t => !isProcessExprEnd t.kind)
  let rest := l.dropWhile (fun t => !isProcessExprEnd t.kind)
  if toks.isEmpty then .err
  else
    match pratt toks with
    | .ok e _ => .ok e rest
    | .fuel => .fuel
    | _ => .err

mutual
def pExpression (rx : Bytes → RegexOutcome) : Nat → List STok → GR Expr
  | 0, _ => .fuel
  | f + 1, l =>
    next l fun t _ =>
      if t.kind = .at then pAt rx f l
      else if t.kind = .between then pBetween rx f l
      else if t.kind = .exactly then pExactly rx f l
      else if t.kind = .maybe then pMaybe rx f l
      else if t.kind = .in_ then pIn f false l
      else if t.kind = .opencurly then pSubroutine rx f l
      else if t.kind = .not then pNotExpression rx f l
      else if t.kind = .regexp then pRegexp rx l
      else if isPrimaryStart t.kind then pPrimaryOrDec rx f l
      else .err

/-- 'at' ('least'|'most') N expr suffix -/
def pAt (rx : Bytes → RegexOutcome) : Nat → List STok → GR Expr
  | 0, _ => .fuel
  | f + 1, l =>
    next l fun _ r =>
      next r fun t r1 =>
        if t.kind = .least ∨ t.kind = .most then
          next r1 fun t2 r2 =>
            gNumber t2 fun v =>
              (pExpression rx f r2).bind fun e r3 =>
                (pLoopSuffix r3).bind fun fn r4 =>
                  if t.kind = .least then .ok (.loop v.toNat (-1) fn.1 fn.2 e) r4
                  else .ok (.loop 0 v fn.1 fn.2 e) r4
        else .err

/-- 'between' N 'and' N expr suffix -/
def pBetween (rx : Bytes → RegexOutcome) : Nat → List STok → GR Expr
  | 0, _ => .fuel
  | f + 1, l =>
    next l fun _ r =>
      next r fun t r1 =>
        gNumber t fun lo =>
          next r1 fun t2 r2 =>
            if t2.kind = .and then
              next r2 fun t3 r3 =>
                gNumber t3 fun hi =>
                  (pExpression rx f r3).bind fun e r4 =>
                    (pLoopSuffix r4).bind fun fn r5 => .ok (.loop lo.toNat hi fn.1 fn.2 e) r5
            else .err

/-- 'exactly' N expr   (no suffix: the Go code never sees a following `named`) -/
def pExactly (rx : Bytes → RegexOutcome) : Nat → List STok → GR Expr
  | 0, _ => .fuel
  | f + 1, l =>
    next l fun _ r =>
      next r fun t r1 =>
        gNumber t fun v =>
          (pExpression rx f r1).bind fun e r2 => .ok (.loop v.toNat v false "" e) r2

/-- 'maybe' expr ['fewest'] -/
def pMaybe (rx : Bytes → RegexOutcome) : Nat → List STok → GR Expr
  | 0, _ => .fuel
  | f + 1, l =>
    next l fun _ r =>
      (pExpression rx f r).bind fun e r1 =>
        next r1 fun t r2 =>
          if t.kind = .fewest then .ok (.loop 0 1 true "" e) r2
          else .ok (.loop 0 1 false "" e) r1

/-- 'not' 'in' …  |  literal starting with 'not' -/
def pNotExpression (rx : Bytes → RegexOutcome) : Nat → List STok → GR Expr
  | 0, _ => .fuel
  | f + 1, l =>
    next l fun _ r =>
      next r fun t _ =>
        if t.kind = .in_ then pIn f true r
        else pPrimaryOrDec rx f l

def pLiteral (rx : Bytes → RegexOutcome) : Nat → List STok → GR Expr
  | 0, _ => .fuel
  | f + 1, l =>
    next l fun t r =>
      if t.kind = .string then .ok (.atom (.str false false t.lex)) r
      else if t.kind = .caseless then (pCaseless l).bind fun s k => .ok (.atom (.str false true s)) k
      else if t.kind = .identifier then .ok (.var (nameOf t.lex)) r
      else if t.kind = .openparen then pSubExpression rx f l
      else if t.kind = .not then pNotLiteral l
      else if isClassStart t.kind then (pCharacterClass false l).bind fun a k => .ok (.atom a) k
      else .err

/-- literal ['=' ID | 'or' literal ('or' literal)*] -/
def pPrimaryOrDec (rx : Bytes → RegexOutcome) : Nat → List STok → GR Expr
  | 0, _ => .fuel
  | f + 1, l =>
    (pLiteral rx f l).bind fun lit r =>
      next r fun t r1 =>
        if t.kind = .equal then
          next r1 fun t2 r2 =>
            if t2.kind = .identifier then .ok (.dec (nameOf t2.lex) lit) r2 else .err
        else if t.kind = .or then
          (pPrimaryOrOr rx f r1).bind fun rhs r2 => .ok (.branch lit rhs) r2
        else .ok lit r

def pPrimaryOrOr (rx : Bytes → RegexOutcome) : Nat → List STok → GR Expr
  | 0, _ => .fuel
  | f + 1, l =>
    (pLiteral rx f l).bind fun lit r =>
      next r fun t r1 =>
        if t.kind = .or then
          (pPrimaryOrOr rx f r1).bind fun rhs r2 => .ok (.branch lit rhs) r2
        else .ok lit r

/-- expr* up to (not including) a stop token -/
def pExprList (rx : Bytes → RegexOutcome) (stop : Tok → Bool) : Nat → List STok → GR Expr
  | 0, _ => .fuel
  | f + 1, l =>
    next l fun t _ =>
      if stop t.kind then .ok .empty l
      else
        (pExpression rx f l).bind fun e r =>
          (pExprList rx stop f r).bind fun es r' => .ok (.seq e es) r'

/-- '(' expr* ')' -/
def pSubExpression (rx : Bytes → RegexOutcome) : Nat → List STok → GR Expr
  | 0, _ => .fuel
  | f + 1, l =>
    next l fun _ r =>
      (pExprList rx stopParen f r).bind fun body r1 =>
        next r1 fun t r2 => if t.kind = .closeparen then .ok body r2 else .err

/-- '{' expr* '}' '=' ID -/
def pSubroutine (rx : Bytes → RegexOutcome) : Nat → List STok → GR Expr
  | 0, _ => .fuel
  | f + 1, l =>
    next l fun _ r =>
      (pExprList rx stopCurly f r).bind fun body r1 =>
        next r1 fun t r2 =>
          if t.kind = .closecurly then
            next r2 fun t2 r3 =>
              if t2.kind = .equal then
                next r3 fun t3 r4 =>
                  if t3.kind = .identifier then .ok (.sub (nameOf t3.lex) body) r4 else .err
              else .err
          else .err
end

/-- 'set' ID 'to' pexpr -/
def pProcessSet (l : List STok) : GR Stmt :=
  next l fun _ r =>
    next r fun t r1 =>
      if t.kind = .identifier then
        next r1 fun t2 r2 =>
          if t2.kind = .to then (pProcessExpression r2).bind fun e k => .ok (.set (nameOf t.lex) e) k
          else .err
      else .err

def pProcessReturn (l : List STok) : GR Stmt :=
  next l fun _ r => (pProcessExpression r).bind fun e k => .ok (.ret e) k

def pProcessDebug (l : List STok) : GR Stmt :=
  next l fun _ r => (pProcessExpression r).bind fun e k => .ok (.debug e) k

mutual
/-- stmt* up to (not including) 'end' / 'else' -/
def pStatements : Nat → List STok → GR Stmt
  | 0, _ => .fuel
  | f + 1, l =>
    (pStatement f l).bind fun os r =>
      match os with
      | none => .ok .skip r
      | some s => (pStatements f r).bind fun rest r' => .ok (.seq s rest) r'

/-- one statement; `none` at 'end' / 'else' -/
def pStatement : Nat → List STok → GR (Option Stmt)
  | 0, _ => .fuel
  | f + 1, l =>
    next l fun t r =>
      if t.kind = .set then (pProcessSet l).bind fun s k => .ok (some s) k
      else if t.kind = .if_ then (pProcessIf f l).bind fun s k => .ok (some s) k
      else if t.kind = .return_ then (pProcessReturn l).bind fun s k => .ok (some s) k
      else if t.kind = .debug then (pProcessDebug l).bind fun s k => .ok (some s) k
      else if t.kind = .loop then (pProcessLoop f l).bind fun s k => .ok (some s) k
      else if t.kind = .break_ then .ok (some .brk) r
      else if t.kind = .continue_ then .ok (some .cont) r
      else if t.kind = .end_ then .ok none l
      else if t.kind = .else_ then .ok none l
      else .err

/-- 'if' pexpr 'then' stmt* ['else' stmt*] 'end' -/
def pProcessIf : Nat → List STok → GR Stmt
  | 0, _ => .fuel
  | f + 1, l =>
    next l fun _ r =>
      (pProcessExpression r).bind fun e r1 =>
        next r1 fun t2 r2 =>
          if t2.kind = .then_ then
            (pStatements f r2).bind fun tb r3 =>
              next r3 fun t3 r4 =>
                if t3.kind = .else_ then
                  (pStatements f r4).bind fun fb r5 =>
                    next r5 fun t4 r6 => if t4.kind = .end_ then .ok (.ite e tb fb) r6 else .err
                else if t3.kind = .end_ then .ok (.ite e tb .skip) r4
                else .err
          else .err

/-- 'loop' stmt* 'end' -/
def pProcessLoop : Nat → List STok → GR Stmt
  | 0, _ => .fuel
  | f + 1, l =>
    next l fun _ r =>
      (pStatements f r).bind fun b r1 =>
        next r1 fun t r2 => if t.kind = .end_ then .ok (.loop b) r2 else .err
end

/-- atom+ up to a command keyword / EOF -/
def pAtomList : Nat → List STok → GR (List RAtom)
  | 0, _ => .fuel
  | n + 1, l =>
    (pAtom l).bind fun a r =>
      next r fun t _ =>
        if isCmdStart t.kind then .ok [a] r
        else (pAtomList n r).bind fun as r' => .ok (a :: as) r'

/-- 'find' amount expr* -/
def pFind (rx : Bytes → RegexOutcome) (F : Nat) (l : List STok) : GR Cmd :=
  next l fun _ r =>
    (pAmount r).bind fun amt r1 =>
      (pExprList rx stopFind F r1).bind fun body r2 => .ok (.find amt body) r2

/-- 'replace' amount expr* 'with' atom+ -/
def pReplace (rx : Bytes → RegexOutcome) (F : Nat) (l : List STok) : GR Cmd :=
  next l fun _ r =>
    (pAmount r).bind fun amt r1 =>
      (pExprList rx stopReplaceBody F r1).bind fun body r2 =>
        next r2 fun t r3 =>
          if t.kind = .with_ then (pAtomList F r3).bind fun res r4 => .ok (.replace amt body res) r4
          else .err

/-- 'transform' ['begin'] stmt* 'end' -/
def pSetTransform (F : Nat) (l : List STok) : GR Stmt :=
  next l fun _ r =>
    next r fun t r1 =>
      (pStatements F (if t.kind = .begin_ then r1 else r)).bind fun stmts r2 =>
        next r2 fun t2 r3 => if t2.kind = .end_ then .ok stmts r3 else .err

/-- 'pattern' expr* ['begin' stmt* 'end'] -/
def pSetPattern (rx : Bytes → RegexOutcome) (F : Nat) (l : List STok) : GR (Expr × Stmt) :=
  next l fun _ r =>
    (pExprList rx stopPattern F r).bind fun body r1 =>
      next r1 fun t r2 =>
        if t.kind = .begin_ then
          (pStatements F r2).bind fun stmts r3 =>
            next r3 fun t2 r4 => if t2.kind = .end_ then .ok (body, stmts) r4 else .err
        else .ok (body, .skip) r1

mutual
/-- command; `none` at EOF -/
def pCommand (rx : Bytes → RegexOutcome) (F : Nat) : Nat → List STok → GR (Option Cmd)
  | 0, _ => .fuel
  | f + 1, l =>
    next l fun t _ =>
      if t.kind = .find then (pFind rx F l).bind fun c k => .ok (some c) k
      else if t.kind = .replace then (pReplace rx F l).bind fun c k => .ok (some c) k
      else if t.kind = .set then (pSet rx F f l).bind fun c k => .ok (some c) k
      else if t.kind = .eof then .ok none l
      else .err

/-- 'set' ID 'to' ('pattern' … | 'matches' command | 'transform' …) -/
def pSet (rx : Bytes → RegexOutcome) (F : Nat) : Nat → List STok → GR Cmd
  | 0, _ => .fuel
  | f + 1, l =>
    next l fun _ r =>
      next r fun t r1 =>
        if t.kind = .identifier then
          next r1 fun t2 r2 =>
            if t2.kind = .to then
              next r2 fun t3 _ =>
                if t3.kind = .pattern then
                  (pSetPattern rx F r2).bind fun bp k => .ok (.setPattern (nameOf t.lex) bp.1 bp.2) k
                else if t3.kind = .matches then
                  (pSetMatches rx F f r2).bind fun cmd k => .ok (.setMatches (nameOf t.lex) cmd) k
                else if t3.kind = .transform then
                  (pSetTransform F r2).bind fun s k => .ok (.setTransform (nameOf t.lex) s) k
                else .err
            else .err
        else .err

/-- 'matches' command -/
def pSetMatches (rx : Bytes → RegexOutcome) (F : Nat) : Nat → List STok → GR Cmd
  | 0, _ => .fuel
  | f + 1, l =>
    next l fun _ r =>
      (pCommand rx F f r).bind fun oc r1 =>
        match oc with
        | none => .err
        | some cmd => .ok cmd r1
end

/-- program := command* EOF -/
def pCmds (rx : Bytes → RegexOutcome) (F : Nat) : Nat → List STok → GR (List Cmd)
  | 0, _ => .fuel
  | n + 1, l =>
    next l fun t _ =>
      if t.kind = .eof then .ok [] l
      else
        (pCommand rx F F l).bind fun oc r =>
          (pCmds rx F n r).bind fun cs r' => .ok (oc.toList ++ cs) r'

/-- fuel for a stripped token list -/
def fuelOf (l : List STok) : Nat := 8 * l.length + 16

/-- the grammar-level parser of a stripped token list -/
def parse (rx : Bytes → RegexOutcome) (l : List STok) : GR (List Cmd) :=
  pCmds rx (fuelOf l) (fuelOf l) l

end Vore.Grammar
