import Vore.Spec.StringLit
import Vore.Model.Lexer
/-!
# Vore.Spec.LexItems — the lexical grammar of vore: a source as a list of lexical items

A well-formed source is the concatenation of *items* — words (identifiers / keywords), numbers,
string literals, regex literals, punctuation, operators, blank runs, line comments, block
comments — such that no item runs into its right neighbour (`Item.sep`: maximal munch is the only
reason a separator is ever needed: a word before a letter or digit, a number before a digit, a blank
run before a blank, `=`/`<`/`>` before `=`, `-` before `-`, a line comment before anything but a
newline).  `C15lex` proves that the lexer maps such a source to exactly the items' tokens; layout
independence and keyword-case independence are corollaries.

The kind of a word is the keyword table's answer on the lower-cased word (`kwLookup`, defined from
the table extracted from lexer.go).
-/
namespace Vore.Lex
open Vore

-- 0x81 / 0x82 / 0x83: the class bytes of non-ASCII letters / digits / spaces (Vore/Model/Unicode.lean)
def isAlnumB (c : UInt8) : Bool :=
  (48 ≤ c && c ≤ 57) || (65 ≤ c && c ≤ 90) || (97 ≤ c && c ≤ 122) || c = 0x81 || c = 0x82
def isLetterB (c : UInt8) : Bool := (65 ≤ c && c ≤ 90) || (97 ≤ c && c ≤ 122) || c = 0x81
def isDigitB (c : UInt8) : Bool := (48 ≤ c && c ≤ 57) || c = 0x82
def isSpaceB (c : UInt8) : Bool := (9 ≤ c && c ≤ 13) || c = 32 || c = 0x83

inductive Item where
  | word (w : Bytes)                    -- letter (letter | digit)*
  | number (d : Bytes)                  -- digit+
  | str (q : Quote) (sps : List Sp)     -- a string literal (Vore.Spec.StringLit)
  | regexp (body : Bytes)               -- @/body/
  | punct (c : UInt8)                   -- ( ) { } , + * / %
  | op2 (a : UInt8)                     -- == != := <= >=   (a is the first character)
  | op1 (c : UInt8)                     -- = < > -
  | blank (w : Bytes)                   -- a run of blanks, tabs, newlines …
  | lineComment (text : Bytes)          -- --text   (up to, not including, the newline)
  | blockComment (body : Bytes)         -- --(body)--
deriving Repr, DecidableEq, Inhabited

/-- the source characters of an item -/
def Item.render : Item → Bytes
  | .word w => w
  | .number d => d
  | .str q sps => literal q sps
  | .regexp body => 64 :: 47 :: (body ++ [47])
  | .punct c => [c]
  | .op2 a => [a, 61]
  | .op1 c => [c]
  | .blank w => w
  | .lineComment text => 45 :: 45 :: text
  | .blockComment body => 45 :: 45 :: 40 :: (body ++ [41, 45, 45])

def punctKind (c : UInt8) : Option Tok :=
  if c = 40 then some .openparen else if c = 41 then some .closeparen
  else if c = 123 then some .opencurly else if c = 125 then some .closecurly
  else if c = 44 then some .comma else if c = 43 then some .plus else if c = 42 then some .mult
  else if c = 47 then some .div else if c = 37 then some .mod else none

def op2Kind (a : UInt8) : Option Tok :=
  if a = 61 then some .dequal else if a = 33 then some .nequal else if a = 58 then some .coloneq
  else if a = 60 then some .lesseq else if a = 62 then some .greatereq else none

def op1Kind (c : UInt8) : Option Tok :=
  if c = 61 then some .equal else if c = 60 then some .less else if c = 62 then some .greater
  else if c = 45 then some .minus else none

/-- the token kind of an item -/
def Item.kind : Item → Tok
  | .word w => kwLookup w
  | .number _ => .number
  | .str _ _ => .string
  | .regexp _ => .regexp
  | .punct c => (punctKind c).getD .error
  | .op2 a => (op2Kind a).getD .error
  | .op1 c => (op1Kind c).getD .error
  | .blank _ => .ws
  | .lineComment _ => .comment
  | .blockComment _ => .comment

/-- the token lexeme of an item (for strings: the denoted bytes; for regex literals: the body) -/
def Item.lexeme : Item → Bytes
  | .str _ sps => denoteAll sps
  | .regexp body => body
  | it => it.render

/-- blanks and comments -/
def Item.insignificant : Item → Bool
  | .blank _ | .lineComment _ | .blockComment _ => true
  | _ => false

/-- `)--` -/
def closer : Bytes := [41, 45, 45]

/-- an item is well formed on its own (ASCII, no NUL) -/
def Item.ok : Item → Prop
  | .word w => ∃ l w', w = l :: w' ∧ isLetterB l = true ∧ ∀ c ∈ w', isAlnumB c = true
  | .number d => d ≠ [] ∧ ∀ c ∈ d, isDigitB c = true
  | .str q sps => okAll q [q.byte] sps
  | .regexp body => ∀ c ∈ body, c ≠ 47 ∧ c ≠ 0
  | .punct c => (punctKind c).isSome
  | .op2 a => (op2Kind a).isSome
  | .op1 c => (op1Kind c).isSome
  | .blank w => w ≠ [] ∧ ∀ c ∈ w, isSpaceB c = true
  | .lineComment text => (∀ c ∈ text, c ≠ 10 ∧ c ≠ 0) ∧ text.head? ≠ some 40
  | .blockComment body => (∀ c ∈ body, c ≠ 0) ∧ ¬ closer <:+: body

/-- the item does not run into the text `next` that follows it (maximal munch) -/
def Item.sep (next : Bytes) : Item → Prop
  | .word _ => ∀ c, next.head? = some c → isAlnumB c = false
  | .number _ => ∀ c, next.head? = some c → isDigitB c = false
  | .blank _ => ∀ c, next.head? = some c → isSpaceB c = false
  | .op1 c => ∀ d, next.head? = some d → d ≠ (if c = 45 then 45 else 61)
  | .lineComment _ => ∀ c, next.head? = some c → c = 10
  | _ => True

def renderItems (items : List Item) : Bytes := items.flatMap Item.render

/-- every item is well formed and separated from what follows (`tail` follows the whole list) -/
def WellSep (tail : Bytes) : List Item → Prop
  | [] => True
  | it :: its => it.ok ∧ it.sep (renderItems its ++ tail) ∧ WellSep tail its

/-- kind and lexeme of a token (offsets dropped) -/
def Token.kl (t : Token) : Tok × Bytes := (t.kind, t.lexeme)
def Item.kl (it : Item) : Tok × Bytes := (it.kind, it.lexeme)

/-- the significant tokens of a lexer outcome: kinds and lexemes with WS and COMMENT stripped;
`none` for an error -/
def significant : LexOutcome → Option (List (Tok × Bytes))
  | .tokens ts => some ((ts.filter (fun t => t.kind != .ws && t.kind != .comment)).map Token.kl)
  | _ => none

end Vore.Lex
