import Vore.Model.Process
/-!
# Vore.Spec.DocOps — the DOCUMENTED operator and coercion tables of the process language

Transcribed cell by cell from `docs/language/LanguageDetails.md`, section "Type Coersion"
(first table: operand types per operator, *italic* operands are coerced; second table: how a
value of one type is coerced to another), plus the sentences of property C11:

* the left operand's type selects the operation, the right operand is coerced to it;
* string→number is a decimal parse or 0, number→string is decimal, bool↔number is 1/0,
  string→bool is "non-empty", number→bool is "non-zero", bool→string is `true`/`false`;
* arithmetic is integer arithmetic (`/` and `%` truncate towards zero; a zero divisor has no
  documented value — it is the separate outcome `divByZero`, property C09's business);
* comparison of numbers compares numbers; strings compare bytewise; `false < true`;
* `head`/`tail` split off the first byte.

Reading of the four rows `_number_ (− * / %) number`, whose LEFT operand is the coerced one:
they are the rows for a *string* on the left of a number (a string has no `− * / %` of its
own; `bool − number` is not in the checker's table and is not accepted).  `string + number`
is decided by the first row (`string + _string_`, concatenation), as the table lists no
`_number_ + number` row.

Nothing here refers to `evalBin`/`evalUn`/`binType`; the shared vocabulary is the value type
`PVal`, the operator names `Op`, and the models of `strconv.Itoa`/`Atoi` and of Go's bytewise
string order (`itoa`, `atoi`, `bytesLt`, `bytesLe`: trusted base).  Core Lean only.
-/
namespace Vore.Spec.DocOps
open Vore

/-! ## second documented table: coercions (row = target type, column = source type) -/

/-- to string: number ↦ `strconv.Itoa(number)`, bool ↦ `"true"`/`"false"` -/
def toStr : PVal → Bytes
  | .str s => s
  | .num n => itoa n
  | .bool b => if b then "true".toUTF8.toList else "false".toUTF8.toList

/-- to number: string ↦ `strconv.Atoi(string)` (on error 0), bool ↦ 1/0 -/
def toNum : PVal → Int
  | .str s => (atoi s).getD 0
  | .num n => n
  | .bool b => if b then 1 else 0

/-- to bool: string ↦ `len(string) != 0`, number ↦ `number != 0` -/
def toBool : PVal → Bool
  | .str s => !(s.length == 0)
  | .num n => !(n == 0)
  | .bool b => b

/-! ## first documented table: which operand types an operator takes -/

/-- an operand column of the table: the type, and whether it is printed in italics
(= a value of any other type is coerced to it) -/
structure Operand where
  type : PT
  coerced : Bool
deriving Repr, DecidableEq, Inhabited

/-- one row: `LH Operand | Operator | RH Operand | Result` (`lhs = none`: unary operator) -/
structure Row where
  lhs : Option Operand
  op : Op
  rhs : Operand
  res : PT
deriving Repr, DecidableEq, Inhabited

private def plain (t : PT) : Operand := ⟨t, false⟩
private def ital (t : PT) : Operand := ⟨t, true⟩

/-- the 33 rows of the table, in document order -/
def table : List Row := [
  ⟨some (plain .string), .plus,      ital .string,  .string⟩,
  ⟨some (plain .string), .dequal,    ital .string,  .boolean⟩,
  ⟨some (plain .string), .nequal,    ital .string,  .boolean⟩,
  ⟨some (plain .string), .less,      ital .string,  .boolean⟩,
  ⟨some (plain .string), .greater,   ital .string,  .boolean⟩,
  ⟨some (plain .string), .lesseq,    ital .string,  .boolean⟩,
  ⟨some (plain .string), .greatereq, ital .string,  .boolean⟩,
  ⟨none,                 .head,      plain .string, .string⟩,
  ⟨none,                 .tail,      plain .string, .string⟩,
  ⟨none,                 .not,       plain .boolean, .boolean⟩,
  ⟨some (plain .boolean), .and,       ital .boolean, .boolean⟩,
  ⟨some (plain .boolean), .or,        ital .boolean, .boolean⟩,
  ⟨some (plain .boolean), .dequal,    ital .boolean, .boolean⟩,
  ⟨some (plain .boolean), .nequal,    ital .boolean, .boolean⟩,
  ⟨some (plain .boolean), .less,      ital .boolean, .boolean⟩,
  ⟨some (plain .boolean), .greater,   ital .boolean, .boolean⟩,
  ⟨some (plain .boolean), .lesseq,    ital .boolean, .boolean⟩,
  ⟨some (plain .boolean), .greatereq, ital .boolean, .boolean⟩,
  ⟨some (plain .number), .dequal,    ital .number,  .boolean⟩,
  ⟨some (plain .number), .nequal,    ital .number,  .boolean⟩,
  ⟨some (plain .number), .less,      ital .number,  .boolean⟩,
  ⟨some (plain .number), .greater,   ital .number,  .boolean⟩,
  ⟨some (plain .number), .lesseq,    ital .number,  .boolean⟩,
  ⟨some (plain .number), .greatereq, ital .number,  .boolean⟩,
  ⟨some (plain .number), .plus,      ital .number,  .number⟩,
  ⟨some (plain .number), .minus,     ital .number,  .number⟩,
  ⟨some (plain .number), .mult,      ital .number,  .number⟩,
  ⟨some (plain .number), .div,       ital .number,  .number⟩,
  ⟨some (plain .number), .mod,       ital .number,  .number⟩,
  ⟨some (ital .number),  .minus,     plain .number, .number⟩,
  ⟨some (ital .number),  .mult,      plain .number, .number⟩,
  ⟨some (ital .number),  .div,       plain .number, .number⟩,
  ⟨some (ital .number),  .mod,       plain .number, .number⟩
]

/-- does a right-operand column accept a value of type `t`?  An italic column accepts every
type (it is coerced), a plain column only its own. -/
def Operand.acceptsRight (o : Operand) (t : PT) : Bool := o.coerced || o.type == t

/-- does a left-operand column accept a value of type `t`?  A plain column only its own type;
the italic `_number_` left column is the string-on-the-left reading explained above. -/
def Operand.acceptsLeft (o : Operand) (t : PT) : Bool :=
  if o.coerced then t == .string else o.type == t

def Row.appliesBin (r : Row) (op : Op) (lt rt : PT) : Bool :=
  match r.lhs with
  | some l => r.op == op && l.acceptsLeft lt && r.rhs.acceptsRight rt
  | none => false

def Row.appliesUn (r : Row) (op : Op) (t : PT) : Bool :=
  match r.lhs with
  | some _ => false
  | none => r.op == op && r.rhs.acceptsRight t

/-- the first row of the table for a binary operator and operand types, if any
("If an operand/type combination is not shown in this then a semantic error occurs") -/
def findBin : List Row → Op → PT → PT → Option Row
  | [], _, _, _ => none
  | r :: rs, op, lt, rt => if r.appliesBin op lt rt then some r else findBin rs op lt rt

def findUn : List Row → Op → PT → Option Row
  | [], _, _ => none
  | r :: rs, op, t => if r.appliesUn op t then some r else findUn rs op t

/-! ## what each operator computes on two operands of the operation's type -/

/-- outcome of a documented operation -/
inductive Res where
  | val (v : PVal)
  /-- `/` or `%` with a zero divisor: no documented value (Go panics; C09) -/
  | divByZero
  /-- the combination is not in the table (a semantic error at compile time) -/
  | undefined
deriving Repr, DecidableEq, Inhabited

def onStrings : Op → Bytes → Bytes → Res
  | .plus, a, b => .val (.str (a ++ b))
  | .dequal, a, b => .val (.bool (a == b))
  | .nequal, a, b => .val (.bool (!(a == b)))
  | .less, a, b => .val (.bool (bytesLt a b))
  | .greater, a, b => .val (.bool (bytesLt b a))
  | .lesseq, a, b => .val (.bool (bytesLe a b))
  | .greatereq, a, b => .val (.bool (bytesLe b a))
  | _, _, _ => .undefined

/-- booleans are ordered `false < true` (bool ↔ number is 1/0) -/
def boolRank (b : Bool) : Int := if b then 1 else 0

def onBools : Op → Bool → Bool → Res
  | .and, a, b => .val (.bool (a && b))
  | .or, a, b => .val (.bool (a || b))
  | .dequal, a, b => .val (.bool (a == b))
  | .nequal, a, b => .val (.bool (!(a == b)))
  | .less, a, b => .val (.bool (decide (boolRank a < boolRank b)))
  | .greater, a, b => .val (.bool (decide (boolRank b < boolRank a)))
  | .lesseq, a, b => .val (.bool (decide (boolRank a ≤ boolRank b)))
  | .greatereq, a, b => .val (.bool (decide (boolRank b ≤ boolRank a)))
  | _, _, _ => .undefined

/-- integer arithmetic and comparison of numbers -/
def onNumbers : Op → Int → Int → Res
  | .dequal, a, b => .val (.bool (a == b))
  | .nequal, a, b => .val (.bool (!(a == b)))
  | .less, a, b => .val (.bool (decide (a < b)))
  | .greater, a, b => .val (.bool (decide (b < a)))
  | .lesseq, a, b => .val (.bool (decide (a ≤ b)))
  | .greatereq, a, b => .val (.bool (decide (b ≤ a)))
  | .plus, a, b => .val (.num (a + b))
  | .minus, a, b => .val (.num (a - b))
  | .mult, a, b => .val (.num (a * b))
  | .div, a, b => if b = 0 then .divByZero else .val (.num (Int.tdiv a b))
  | .mod, a, b => if b = 0 then .divByZero else .val (.num (Int.tmod a b))
  | _, _, _ => .undefined

/-- apply a binary row: both operands are brought to the row's operation type (the type of
its coerced column — for a plain column this is the identity) and the operator is applied -/
def Row.runBin (r : Row) (l v : PVal) : Res :=
  match r.rhs.type with
  | .string => onStrings r.op (toStr l) (toStr v)
  | .boolean => onBools r.op (toBool l) (toBool v)
  | .number => onNumbers r.op (toNum l) (toNum v)

/-- `head`: the first byte (empty for the empty string); `tail`: the rest; `not`: negation -/
def Row.runUn (r : Row) (v : PVal) : Res :=
  match r.op with
  | .head => .val (.str ((toStr v).take 1))
  | .tail => .val (.str ((toStr v).drop 1))
  | .not => .val (.bool (!(toBool v)))
  | _ => .undefined

/-- the documented value of `l op r` -/
def evalBin (op : Op) (l r : PVal) : Res :=
  match findBin table op l.type r.type with
  | some row => row.runBin l r
  | none => .undefined

/-- the documented value of `op v` -/
def evalUn (op : Op) (v : PVal) : Res :=
  match findUn table op v.type with
  | some row => row.runUn v
  | none => .undefined

/-- the documented result type of a binary operator on operand types -/
def binType (lt rt : PT) (op : Op) : Option PT := (findBin table op lt rt).map (·.res)

/-- the documented result type of a unary operator -/
def unType (t : PT) (op : Op) : Option PT := (findUn table op t).map (·.res)

/-- the documented value of an expression in an environment; a variable that is not bound is
the empty string; operands are evaluated left to right -/
def eval (ρ : PEnv) : PExpr → Res
  | .str s => .val (.str s)
  | .num n => .val (.num n)
  | .bool b => .val (.bool b)
  | .var x => .val (match ρ.get x with | some v => v | none => .str [])
  | .un op e =>
    match eval ρ e with
    | .val v => evalUn op v
    | r => r
  | .bin op l r =>
    match eval ρ l with
    | .val lv =>
      match eval ρ r with
      | .val rv => evalBin op lv rv
      | x => x
    | x => x

/-- the outcome of the implementation's evaluator that corresponds to a documented result:
a value is that value, a zero divisor is Go's run-time panic -/
def Res.toEvalRes : Res → Option EvalRes
  | .val v => some (.val v)
  | .divByZero => some (.panic "integer divide by zero")
  | .undefined => none

end Vore.Spec.DocOps
