import Vore.Model.Cli
/-!
# Vore.Spec.CliDoc — the documented behaviour of the command line tool

From the property text (C18) and docs/GettingStarted.md (`./vore -help` listing and the six
worked invocations).  Written over a `View` of a run, so that the same predicate is evaluated
on the model's outcome (theorems, `Props/C18.lean`) and on what the built binary was observed
to do (`Driver/OpsC18.lean`, field `PRED`).

Documented: exactly one of `-com` / `-src`; `-files`; optionally one of `-json` /
`-formatted-json`; optionally `-json-file`, `-formatted-json-file`; `-replace-mode` one of
`NEW`, `NOTHING`, `OVERWRITE` with `NEW` the default; `-no-output`.
(GettingStarted.md also lists `-ide`, which main.go does not have; the property's list of
documented flags does not include it.  `-no-output` is described only by its usage text "Do
not output any results": nothing is required of the JSON files under it.)

The tests are written with pattern matching rather than `==` so that the kernel evaluates them
cheaply (the theorems enumerate the whole flag space).
-/
namespace Vore.Cli

/-- `-replace-mode value: File mode for replace statements [NEW, NOTHING, OVERWRITE] (default: NEW)` -/
def docMode : ModeArg → Option Mode
  | .absent => some .new
  | .new => some .new
  | .nothing => some .nothing
  | .overwrite => some .overwrite
  | .bogus => none
  -- an empty value stands for the default (main.go spells this case out; the usage text lists only the three names)
  | .empty => some .new
  | .lower => none
  | .confirm => none

/-- a documented invocation: exactly one of -com and -src, -files given, not both -json and
-formatted-json, a documented mode (or none) -/
def documented (fl : Flags) : Bool :=
  (bif fl.com then !fl.src else fl.src) && !fl.files.isAbsent && !(fl.json && fl.fjson) &&
  (match docMode fl.mode with | some _ => true | none => false)

/-- what the specification looks at -/
structure View where
  exit : Exit
  stdout : List OutItem
  stderr : Stderr
  jsonFile : FileState
  fjsonFile : FileState
  untouched : Bool          -- no searched file (nor any other file) differs from before
  ranAs : Mode → Bool       -- the searched files are as `RunFiles` in that mode leaves them

def SearchFs.isUntouched : SearchFs → Bool
  | .untouched => true
  | _ => false

def SearchFs.ranAs : SearchFs → Mode → Bool
  | .library .new, .new => true
  | .library .overwrite, .overwrite => true
  | .library .nothing, .nothing => true
  | _, _ => false

def Outcome.view : Outcome → View
  | ⟨exit, stdout, stderr, jf, fjf, searched⟩ =>
    { exit := exit, stdout := stdout, stderr := stderr, jsonFile := jf, fjsonFile := fjf,
      untouched := searched.isUntouched, ranAs := searched.ranAs }

def Exit.isOk : Exit → Bool
  | .ok => true
  | _ => false

def Stderr.isNone : Stderr → Bool
  | .none => true
  | _ => false

def isMsg : OutItem → Bool
  | .msg _ => true
  | _ => false

/-- standard output is exactly one JSON document in that layout -/
def isDoc : Fmt → List OutItem → Bool
  | .compact, [.doc .compact] => true
  | .formatted, [.doc .formatted] => true
  | _, _ => false

/-- the file holds exactly the document in that layout -/
def FileState.holdsDoc : Fmt → FileState → Bool
  | .compact, .holds .compact => true
  | .formatted, .holds .formatted => true
  | _, _ => false

def FileState.unmodified : FileState → Bool
  | .notNamed => true
  | .untouched => true
  | _ => false

/-- the property, as a decidable predicate on one run -/
def spec (fl : Flags) (sc : Scenario) : View → Bool
  | ⟨exit, stdout, stderr, jf, fjf, untouched, ranAs⟩ =>
    bif documented fl && !sc.prog.isFailing then
      -- every documented invocation exits 0
      exit.isOk &&
      (bif fl.files.isNoneMatching then true else
        -- replace commands honour the mode, NEW by default
        (match docMode fl.mode with | some m => ranAs m | none => false) &&
        (bif sc.hits && !fl.noOutput then
          -- standard output is exactly one JSON document (the library's result) …
          (!fl.json || isDoc .compact stdout) && (!fl.fjson || isDoc .formatted stdout) &&
          -- … and each named file holds exactly that document
          (!fl.jsonFile || jf.holdsDoc .compact) && (!fl.fjsonFile || fjf.holdsDoc .formatted)
        else true))
    else
      -- invalid combination, unknown mode, compile error: non-zero, a message, no file modified
      !exit.isOk && (stdout.any isMsg || !stderr.isNone) && jf.unmodified && fjf.unmodified && untouched

end Vore.Cli
