import Vore.Spec.Search
/-!
# Vore.Spec.Core — the resolved core language, with subroutines (C01 stage 2, C13)

`resolveE` resolves names the way `generateVariable`/`generateSubroutine`/`generateVarDec` do and unrolls
the mandatory copies of counted loops the way `generateLoop` does, producing a *resolved* expression:

* a reference is a back-reference to a capture, a **call** of a subroutine identified by a unique id,
  or — the first reference to a global pattern in a command — that pattern's body **inlined** as a
  subroutine (with its predicate), read in the scope it was defined in;
* `{B} = s` is a subroutine node: it matches `B` where it stands and makes the id callable, also
  from inside `B` (recursion);
* a counted loop is its `min` mandatory copies followed (unless `min = max`) by a `star`.

`mr` is the backtracking semantics of resolved expressions: `Spec.m` plus "a subroutine node runs its
body in place" and "a call runs the body of its target at the point of reference", both with the
continuations the body would have in place, followed by the predicate (evaluated with `match` =
everything matched so far).  Recursion needs fuel: `cf` bounds the nesting depth of calls.
-/
namespace Vore.Spec
open Vore

inductive RExpr where
  | empty
  | seq (a b : RExpr)
  | atom (a : Atom)
  | backref (x : String)
  | call (x : String) (id : Nat)
  | star (mx : Int) (fewest : Bool) (body : RExpr)
  | branch (l r : RExpr)
  | dec (x : String) (body : RExpr)
  | sub (id : Nat) (x : String) (body : RExpr) (pred : Stmt)
  | inl (neg : Bool) (items : List Atom)
deriving Inhabited

/-- global patterns, most recent first: name, body, predicate -/
abbrev GEnv := List (String × Expr × Stmt)

def GEnv.find : GEnv → String → Option (Expr × Stmt × GEnv)
  | [], _ => none
  | (y, b, p) :: rest, x => if y == x then some (b, p, rest) else GEnv.find rest x

structure ElabSt where
  /-- names declared so far in the command: `none` = capture, `some id` = subroutine -/
  vars : List (String × Option Nat) := []
  nextSub : Nat := 0
deriving Inhabited

def lookupVar (vars : List (String × Option Nat)) (x : String) : Option (Option Nat) :=
  (vars.find? (·.1 == x)).map (·.2)

def seqOf : List RExpr → RExpr
  | [] => .empty
  | e :: rest => .seq e (seqOf rest)

/-- `n` copies of an elaborator run in sequence (the unrolled minimum of a counted loop) -/
def copiesOf (f : ElabSt → Option (RExpr × ElabSt)) : Nat → ElabSt → Option (List RExpr × ElabSt)
  | 0, st => some ([], st)
  | n + 1, st => do
    let (r, st1) ← f st
    let (rs, st2) ← copiesOf f n st1
    pure (r :: rs, st2)

/-- `forgetCaptures` of `generateLoop` (fix 60824b3): before each copy of a loop body is resolved, the
captures that were not in scope when the loop was entered are dropped -/
def forgetVars (outer : List (String × Option Nat)) (s : ElabSt) : ElabSt :=
  { s with vars := s.vars.filter (fun kv => kv.2.isSome || (lookupVar outer kv.1).isSome) }

/-- name resolution and unrolling, given how the body of a global pattern is resolved.
`none` = the generator rejects the program (undefined name, name clash) or the program uses a named
loop (outside this fragment). -/
def resolveWith (inlineG : GEnv → Expr → ElabSt → Option (RExpr × ElabSt)) (G : GEnv) :
    Expr → ElabSt → Option (RExpr × ElabSt)
  | .empty, st => some (.empty, st)
  | .seq a b, st => do
    let (ra, st1) ← resolveWith inlineG G a st
    let (rb, st2) ← resolveWith inlineG G b st1
    pure (.seq ra rb, st2)
  | .atom a, st => some (.atom a, st)
  | .var x, st =>
    match lookupVar st.vars x with
    | some none => some (.backref x, st)
    | some (some id) => some (.call x id, st)
    | none =>
      match G.find x with
      | some (body, pred, G') =>
        -- first reference to a global pattern: its body, read in its own scope, as a subroutine
        match inlineG G' body { vars := [], nextSub := st.nextSub + 1 } with
        | some (rb, stb) =>
          some (.sub st.nextSub x rb pred, { vars := (x, some st.nextSub) :: st.vars, nextSub := stb.nextSub })
        | none => none
      | none => none
  | .loop mn mx fewest name body, st =>
    if name != "" then none else do
      let (pre, st1) ← copiesOf (fun s => resolveWith inlineG G body (forgetVars st.vars s)) mn st
      if (mn : Int) == mx then pure (seqOf pre, st1) else
      let (rb, st2) ← resolveWith inlineG G body (forgetVars st.vars st1)
      pure (.seq (seqOf pre) (.star (if mx > 0 then mx - mn else mx) fewest rb), st2)
  | .branch l r, st => do
    let (rl, st1) ← resolveWith inlineG G l st
    let (rr, st2) ← resolveWith inlineG G r st1
    pure (.branch rl rr, st2)
  | .dec x body, st => do
    let (rb, st1) ← resolveWith inlineG G body st
    if (lookupVar st1.vars x).isSome then none else
    pure (.dec x rb, { st1 with vars := (x, none) :: st1.vars })
  | .sub x body, st =>
    if (lookupVar st.vars x).isSome then none else
    match resolveWith inlineG G body { vars := (x, some st.nextSub) :: st.vars, nextSub := st.nextSub + 1 } with
    | some (rb, st1) => some (.sub st.nextSub x rb .skip, st1)
    | none => none
  | .inl neg items, st => some (.inl neg items, st)

/-- resolution with global patterns nested at most `n` deep -/
def resolveN : Nat → GEnv → Expr → ElabSt → Option (RExpr × ElabSt)
  | 0 => resolveWith (fun _ _ _ => none)
  | n + 1 => resolveWith (resolveN n)

/-- the resolved body of a command (scope empty at its start) under the global patterns `G` -/
def resolveBody (G : GEnv) (e : Expr) : Option RExpr := (resolveN (G.length + 1) G e {}).map (·.1)

/-! ## semantics of resolved expressions -/

/-- id ↦ (name, body, predicate) for every subroutine node -/
abbrev Procs := List (Nat × String × RExpr × Stmt)

def procsOf : RExpr → Procs
  | .empty => []
  | .seq a b => procsOf a ++ procsOf b
  | .atom _ => []
  | .backref _ => []
  | .call _ _ => []
  | .star _ _ body => procsOf body
  | .branch l r => procsOf l ++ procsOf r
  | .dec _ body => procsOf body
  | .sub id x body pred => (id, x, body, pred) :: procsOf body
  | .inl _ _ => []

def Procs.find (ρ : Procs) (id : Nat) : Option (String × RExpr × Stmt) := (List.find? (·.1 == id) ρ).map (·.2)

/-- does the predicate of a pattern hold for the text matched so far? `none` = it does not evaluate
(panics or runs out of fuel) -/
def predHolds (pf : Nat) (pred : Stmt) (d : Data) : Option Bool :=
  if pred == .skip then some true else
  match runProcess pf pred [("match", .str d.cur), ("matchLength", .num d.cur.length)] with
  | .ok (some v) => some v.getBoolean
  | _ => none

/-- continue with `ks` if the predicate holds, backtrack if it does not -/
def withPred (pf : Nat) (pred : Stmt) (ks : SK) : SK := fun d fk =>
  match predHolds pf pred d with
  | some true => ks d fk
  | some false => fk ()
  | none => none

/-- the semantics, given how the body of a *called* subroutine is run -/
def mrWith (text : Bytes) (lf pf : Nat) (ρ : Procs)
    (callK : RExpr → Data → SK → FK → Option SRes) : RExpr → Data → SK → FK → Option SRes
  | .empty, d, ks, fk => ks d fk
  | .seq a b, d, ks, fk => mrWith text lf pf ρ callK a d (fun d' fk' => mrWith text lf pf ρ callK b d' ks fk') fk
  | .atom a, d, ks, fk =>
    match atomD text a d with
    | some d' => ks d' fk
    | none => fk ()
  | .backref x, d, ks, fk =>
    match backrefD text x d with
    | some d' => ks d' fk
    | none => fk ()
  | .call _ id, d, ks, fk =>
    -- a call matches the body of its target at the point of reference, then requires its predicate
    match ρ.find id with
    | some (_, body, pred) => callK body d (withPred pf pred ks) fk
    | none => none
  | .star mx fewest body, d, ks, fk => loopV (mrWith text lf pf ρ callK body) mx fewest lf 0 d ks fk
  | .branch l r, d, ks, fk => mrWith text lf pf ρ callK l d ks (fun _ => mrWith text lf pf ρ callK r d ks fk)
  | .dec x body, d, ks, fk =>
    mrWith text lf pf ρ callK body d (fun d' fk' => ks (bindD d' x (d'.cur.drop d.cur.length)) fk') fk
  | .sub _ _ body pred, d, ks, fk =>
    -- a subroutine node matches its body where it stands, then requires its predicate
    mrWith text lf pf ρ callK body d (withPred pf pred ks) fk
  | .inl false items, d, ks, fk => inAlts text items d ks fk
  | .inl true items, d, ks, fk =>
    if items.any (fun a => (atomD text a d).isSome) then fk ()
    else if (consumeD text d (listMaxSize items).toNat).pos == d.pos then fk ()
    else ks (consumeD text d (listMaxSize items).toNat) fk

/-- calls nested at most `cf` deep -/
def mrN (text : Bytes) (lf pf : Nat) (ρ : Procs) : Nat → RExpr → Data → SK → FK → Option SRes
  | 0 => mrWith text lf pf ρ (fun _ _ _ _ => none)
  | cf + 1 => mrWith text lf pf ρ (mrN text lf pf ρ cf)

def attemptR (text : Bytes) (lf pf cf : Nat) (e : RExpr) (pos line col : Nat) : Option SRes :=
  mrN text lf pf (procsOf e) cf e ⟨pos, line, col, [], .nil⟩ (fun d _ => some (.matched d)) (fun _ => some .fail)

/-- all matches of `find all` for a resolved body; `none` = some attempt did not answer within the
call-depth bound `cf` (or a predicate did not evaluate) -/
def findAllR (text : Bytes) (pf cf : Nat) (e : RExpr) : Option (List Match) :=
  if text.length = 0 then some []
  else scanAllWith text (attemptR text (text.length + 2) pf cf e) (text.length + 1) [] 0 1 1

end Vore.Spec
