import Vore.Spec.Search
/-!
# Vore.Spec.Core — the resolved core language, with subroutines (C01 stage 2, C13)

`resolveE` resolves names the way `generateVariable`/`generateSubroutine`/`generateVarDec` do and unrolls
the mandatory copies of counted loops the way `generateLoop` does, producing a *resolved* expression:

* a reference is a back-reference to a capture, a **call** of a subroutine identified by a unique id,
  or — the first reference to a global pattern in a command — that pattern's body **inlined** as a
  subroutine (with its predicate), read in the scope it was defined in;
* `{B} = s` is a subroutine node: it matches `B` where it stands and makes the id callable, also
  from inside `B` (recursion);
* a counted loop is its `min` mandatory copies followed (unless `min = max`) by a `star`.

`mr` is the backtracking semantics of resolved expressions: `Spec.m` plus "a subroutine node runs its
body in place" and "a call runs the body of its target at the point of reference", both with the
continuations the body would have in place, followed by the predicate (evaluated with `match` =
everything matched so far).  Recursion needs fuel: `cf` bounds the nesting depth of calls.
-/
namespace Vore.Spec
open Vore

inductive RExpr where
  | empty
  | seq (a b : RExpr)
  | atom (a : Atom)
  | backref (x : String)
  | call (x : String) (id : Nat)
  | star (mx : Int) (fewest : Bool) (body : RExpr)
  | branch (l r : RExpr)
  | dec (x : String) (body : RExpr)
  | sub (id : Nat) (x : String) (body : RExpr) (pred : Stmt)
  | inl (neg : Bool) (items : List Atom)
deriving Inhabited

/-- global patterns, most recent first: name, body, predicate -/
abbrev GEnv := List (String × Expr × Stmt)

def GEnv.find : GEnv → String → Option (Expr × Stmt × GEnv)
  | [], _ => none
  | (y, b, p) :: rest, x => if y == x then some (b, p, rest) else GEnv.find rest x

structure ElabSt where
  /-- names declared so far in the command: `none` = capture, `some id` = subroutine -/
  vars : List (String × Option Nat) := []
  nextSub : Nat := 0
deriving Inhabited

def lookupVar (vars : List (String × Option Nat)) (x : String) : Option (Option Nat) :=
  (vars.find? (·.1 == x)).map (·.2)

def seqOf : List RExpr → RExpr
  | [] => .empty
  | e :: rest => .seq e (seqOf rest)

/-- `n` copies of an elaborator run in sequence (the unrolled minimum of a counted loop) -/
def copiesOf (f : ElabSt → Option (RExpr × ElabSt)) : Nat → ElabSt → Option (List RExpr × ElabSt)
  | 0, st => some ([], st)
  | n + 1, st => do
    let (r, st1) ← f st
    let (rs, st2) ← copiesOf f n st1
    pure (r :: rs, st2)

/-- name resolution and unrolling, given how the body of a global pattern is resolved.
`none` = the generator rejects the program (undefined name, name clash) or the program uses a named
loop (outside this fragment). -/
def resolveWith (inlineG : GEnv → Expr → ElabSt → Option (RExpr × ElabSt)) (G : GEnv) :
    Expr → ElabSt → Option (RExpr × ElabSt)
  | .empty, st => some (.empty, st)
  | .seq a b, st => do
    let (ra, st1) ← resolveWith inlineG G a st
    let (rb, st2) ← resolveWith inlineG G b st1
    pure (.seq ra rb, st2)
  | .atom a, st => some (.atom a, st)
  | .var x, st =>
    match lookupVar st.vars x with
    | some none => some (.backref x, st)
    | some (some id) => some (.call x id, st)
    | none =>
      match G.find x with
      | some (body, pred, G') =>
        -- first reference to a global pattern: its body, read in its own scope, as a subroutine
        match inlineG G' body { vars := [], nextSub := st.nextSub + 1 } with
        | some (rb, stb) =>
          some (.sub st.nextSub x rb pred, { vars := (x, some st.nextSub) :: st.vars, nextSub := stb.nextSub })
        | none => none
      | none => none
  | .loop mn mx fewest name body, st =>
    if name != "" then none else do
      let (pre, st1) ← copiesOf (resolveWith inlineG G body) mn st
      if (mn : Int) == mx then pure (seqOf pre, st1) else
      let (rb, st2) ← resolveWith inlineG G body st1
      pure (.seq (seqOf pre) (.star (if mx > 0 then mx - mn else mx) fewest rb), st2)
  | .branch l r, st => do
    let (rl, st1) ← resolveWith inlineG G l st
    let (rr, st2) ← resolveWith inlineG G r st1
    pure (.branch rl rr, st2)
  | .dec x body, st => do
    let (rb, st1) ← resolveWith inlineG G body st
    if (lookupVar st1.vars x).isSome then none else
    pure (.dec x rb, { st1 with vars := (x, none) :: st1.vars })
  | .sub x body, st =>
    if (lookupVar st.vars x).isSome then none else
    match resolveWith inlineG G body { vars := (x, some st.nextSub) :: st.vars, nextSub := st.nextSub + 1 } with
    | some (rb, st1) => some (.sub st.nextSub x rb .skip, st1)
    | none => none
  | .inl neg items, st => some (.inl neg items, st)

/-- resolution with global patterns nested at most `n` deep -/
def resolveN : Nat → GEnv → Expr → ElabSt → Option (RExpr × ElabSt)
  | 0 => resolveWith (fun _ _ _ => none)
  | n + 1 => resolveWith (resolveN n)

/-- the resolved body of a command (scope empty at its start) under the global patterns `G` -/
def resolveBody (G : GEnv) (e : Expr) : Option RExpr := (resolveN (G.length + 1) G e {}).map (·.1)

end Vore.Spec
