import Vore.Model.VM
import Vore.Model.Files
/-!
# Vore.Spec.Files — what C07 says, in the model's vocabulary

"Searching a file gives the same result as searching its bytes in memory.  Equivalently, the
buffered file reader returns the same bytes as the file for any sequence of seeks and reads."

* the bytes of the file in memory, read at `off` for `n` bytes, is `Vore.readAt file off n`
  (Model/VM.lean) — the only way the VM model looks at its input;
* a *history* is any list of `Reader` calls (`ROp`: `Seek`, `Read`, `ReadAt`, arbitrary `Int`
  arguments), `runOps` (Model/Files.lean) gives what the caller sees of each call;
* a reader state is *reachable* if some history that returned from every call leads to it.
-/
namespace Vore.Files

/-- the states of the file reader (buffer size `B`) that calls on it can produce -/
def Reachable (B : Nat) (file : Bytes) (r : Reader BufferedFile) : Prop :=
  ∃ ops : List ROp, (runOps (ReaderFromFileB B file) ops).2 = some r

/-- the reader contract the VM model assumes, for one reader state: both ways the engine reads
(`READAT`/`READ` = `Seek` then `Read`; `Reader.ReadAt`) return `readAt file off n` -/
def ReaderLawAt (file : Bytes) (r : Reader BufferedFile) : Prop :=
  ∀ n off : Nat,
    (∃ r', r.ReadAt n off = .ok r' (Vore.readAt file off n)) ∧
    (∃ r₁ r₂, r.Seek off = .ok r₁ [] ∧ r₁.Read n = .ok r₂ (Vore.readAt file off n))

/-- file and memory are indistinguishable through `files.Reader` -/
def SameObservations (B : Nat) (file : Bytes) : Prop :=
  ∀ ops : List ROp, (runOps (ReaderFromFileB B file) ops).1 = (runOps (ReaderFromString file) ops).1

end Vore.Files
