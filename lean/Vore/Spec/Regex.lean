import Vore.Model.VM
/-!
# Vore.Spec.Regex — regular expressions of the supported subset and their conventional meaning (C14)

Independent of the vore parser, code generator and VM: this file says what a regular expression *is*
(`Re`), how it is written (`Re.show`, the conventional concrete syntax), what the documented
Regex-to-Vore table (`docs/language/RegexComparison.md`) says it corresponds to (`Re.toExpr`), and
what a conventional leftmost-first backtracking engine (Perl / PCRE / Go `regexp` priorities) finds
(`Regex.m`, `Regex.findAll`).  The only things shared with the rest of the development are plain data:
`Bytes`, the syntax tree `Vore.Expr` (target of the table) and the finite map `VMap` (group ↦ text).

## Subset (the property's)
literal characters, `.`, bracket classes with ranges and negation, `\d \D \s \S`, groups plain /
non-capturing / named, quantifiers `* + ? {m} {m,} {m,n}` and their lazy forms, alternation of single
(possibly quantified) atoms or groups, `^` `$` as line anchors, numbered and named back-references.

## Conventions (where conventional engines differ among themselves, the choice is stated)
* bytes, not code points (the property quantifies over ASCII texts);
* `.` is any byte but `\n`; `\s` is `[ \t\n\r\f]`; `^` holds at 0 and after `\n`; `$` at the end and
  before `\n` (multi-line mode, as the property says);
* priorities: earlier alternative first; greedy quantifier = one more iteration first, lazy = stop
  first; `r{m,n}` is `m` copies of `r` followed by up to `n-m` optional iterations;
* a group holds the text of its last iteration; a group that did not take part keeps its previous
  value (Perl, PCRE, Go); a back-reference to a group that has no value fails (Perl, PCRE, Python);
* unnamed groups are numbered from 1 by their opening parenthesis, named groups are not counted
  (.NET; engines that also number named groups differ only on patterns mixing both kinds);
* no special rule for iterations that match the empty string: the textbook unfolding
  `r* = (r r* | ε)` diverges on them, which is the `none` answer (`lf` = iteration budget);
  the property quantifies over regexes whose repeated bodies cannot match the empty string
  (`NonNullableBodies`), where this never happens (`Vore/Props/C14.lean`, `C14_regex_total`).
-/
namespace Vore.Regex
open Vore

/-- item of a bracket class -/
inductive ClsItem where
  | single (c : UInt8)
  | range (lo hi : UInt8)
deriving Repr, DecidableEq, Inhabited

inductive Quant where
  | star | plus | opt
  | exact (m : Nat)
  | atLeast (m : Nat)
  | between (m n : Nat)
deriving Repr, DecidableEq, Inhabited

/-- Regular expressions.  A concatenation is right-nested `seq item (seq item … empty)` (like
`Vore.Expr`); `group n r` is the unnamed capturing group number `n`. -/
inductive Re where
  | empty
  | seq (a b : Re)
  | chr (c : UInt8)
  | dot
  | bol
  | eol
  | digit (neg : Bool)
  | space (neg : Bool)
  | cls (neg : Bool) (items : List ClsItem)
  | group (n : Nat) (r : Re)
  | ncgroup (r : Re)
  | named (name : Bytes) (r : Re)
  | backref (n : Nat)
  | backrefNamed (name : Bytes)
  | rep (r : Re) (q : Quant) (lazy : Bool)
  | alt (a b : Re)
deriving Repr, Inhabited

def Quant.min : Quant → Nat
  | .star => 0 | .plus => 1 | .opt => 0 | .exact m => m | .atLeast m => m | .between m _ => m

/-- `none` = unbounded -/
def Quant.max : Quant → Option Nat
  | .star => none | .plus => none | .opt => some 1 | .exact m => some m | .atLeast _ => none | .between _ n => some n

/-! ## concrete syntax -/

/-- characters that are written with a backslash -/
def isSpecial (c : UInt8) : Bool :=
  c == 94 || c == 36 || c == 92 || c == 46 || c == 42 || c == 43 || c == 63 || c == 40 || c == 41 ||
  c == 91 || c == 93 || c == 123 || c == 125 || c == 124

def showChr (c : UInt8) : Bytes := if isSpecial c then [92, c] else [c]

def digitByte (n : Nat) : UInt8 := UInt8.ofNat (48 + n % 10)

def showNatAux : Nat → Nat → Bytes
  | 0, _ => []
  | f + 1, n => if n < 10 then [digitByte n] else showNatAux f (n / 10) ++ [digitByte n]

/-- decimal digits -/
def showNat (n : Nat) : Bytes := showNatAux (n + 1) n

def ClsItem.show : ClsItem → Bytes
  | .single c => [c]
  | .range lo hi => [lo, 45, hi]

def showItems : List ClsItem → Bytes
  | [] => []
  | i :: rest => i.show ++ showItems rest

def Quant.show : Quant → Bytes
  | .star => [42]
  | .plus => [43]
  | .opt => [63]
  | .exact m => 123 :: (showNat m ++ [125])
  | .atLeast m => 123 :: (showNat m ++ [44, 125])
  | .between m n => 123 :: (showNat m ++ 44 :: (showNat n ++ [125]))

def Re.show : Re → Bytes
  | .empty => []
  | .seq a b => a.show ++ b.show
  | .chr c => showChr c
  | .dot => [46]
  | .bol => [94]
  | .eol => [36]
  | .digit neg => [92, if neg then 68 else 100]
  | .space neg => [92, if neg then 83 else 115]
  | .cls neg items => 91 :: ((if neg then [94] else []) ++ (showItems items ++ [93]))
  | .group _ r => 40 :: (r.show ++ [41])
  | .ncgroup r => 40 :: 63 :: 58 :: (r.show ++ [41])
  | .named nm r => 40 :: 63 :: 60 :: (nm ++ 62 :: (r.show ++ [41]))
  | .backref n => 92 :: showNat n
  | .backrefNamed nm => 92 :: 107 :: 60 :: (nm ++ [62])
  | .rep r q lz => r.show ++ (q.show ++ (if lz then [63] else []))
  | .alt a b => a.show ++ 124 :: b.show

/-! ## the documented translation (docs/language/RegexComparison.md) -/

/-- the variable an unnamed group is assigned to / `\n` refers to: `_` followed by the decimal digits of `n` -/
def numName (n : Nat) : String := String.ofList ('_' :: (showNat n).map (fun x => Char.ofNat x.toNat))
/-- a group name as a vore identifier -/
def nameStr (b : Bytes) : String := String.ofList (b.map (fun x => Char.ofNat x.toNat))

def ClsItem.toAtom : ClsItem → Atom
  | .single c => .str false false [c]         -- `[ABC]` ↦ `in 'A', 'B', 'C'`
  | .range lo hi => .range [lo] [hi]          -- `[A-Z]` ↦ `'A' to 'Z'`

def Quant.maxInt : Quant → Int
  | .star => -1 | .plus => -1 | .opt => 1 | .exact m => m | .atLeast _ => -1 | .between _ n => n

def Re.toExpr : Re → Expr
  | .empty => .empty
  | .seq a b => .seq a.toExpr b.toExpr
  | .chr c => .atom (.str false false [c])                       -- `a` ↦ `'a'`
  | .dot => .atom (.str true false [10])                         -- `.` ↦ `not "\n"`
  | .bol => .atom (.cls false .lineStart)                        -- `^` (multi-line) ↦ `line start`
  | .eol => .atom (.cls false .lineEnd)                          -- `$` (multi-line) ↦ `line end`
  | .digit neg => .atom (.cls neg .digit)                        -- `\d` ↦ `digit`, `\D` ↦ `not digit`
  | .space neg => .atom (.cls neg .whitespace)                   -- `\s` ↦ `whitespace`
  | .cls neg items => .inl neg (items.map ClsItem.toAtom)        -- `[…]` ↦ `in …`, `[^…]` ↦ `not in …`
  | .group n r => .seq (.dec (numName n) r.toExpr) .empty        -- `(ABC)` ↦ `('ABC' = _n)`
  | .ncgroup r => r.toExpr                                       -- `(?:ABC)` ↦ `("ABC")`
  | .named nm r => .seq (.dec (nameStr nm) r.toExpr) .empty      -- `(?<name>ABC)` ↦ `("ABC" = name)`
  | .backref n => .var (numName n)                               -- `\1` ↦ the variable
  | .backrefNamed nm => .var (nameStr nm)                        -- `\k<name>` ↦ `name`
  | .rep r q lz => .loop q.min q.maxInt lz "" r.toExpr           -- `a+` ↦ `at least 1 'a'`, … `fewest`
  | .alt a b => .branch (.seq a.toExpr .empty) b.toExpr          -- `a|b` ↦ `('a') or "b"`

/-! ## the supported subset as a predicate -/

def Re.isSeq : Re → Bool
  | .empty | .seq _ _ => true
  | _ => false

def Re.isEmpty : Re → Bool
  | .empty => true
  | _ => false

def Re.isAlt : Re → Bool
  | .alt _ _ => true
  | _ => false

/-- one item of a concatenation: an anchor, an atom, or a quantified atom -/
def Re.isItem (r : Re) : Bool := !r.isSeq && !r.isAlt

/-- what a quantifier may be attached to -/
def Re.isAtom : Re → Bool
  | .chr _ | .dot | .digit _ | .space _ | .cls _ _ | .group _ _ | .ncgroup _ | .named _ _
  | .backref _ | .backrefNamed _ => true
  | _ => false

/-- a pattern character: ASCII, not NUL (end of input for the lexer), not `/` (ends the literal) -/
def okChr (c : UInt8) : Bool := c != 0 && c != 47 && c < 128

/-- a character inside brackets: additionally none of `]` `\` `-` `^` -/
def okClsChr (c : UInt8) : Bool := okChr c && c != 93 && c != 92 && c != 45 && c != 94

def ClsItem.ok : ClsItem → Bool
  | .single c => okClsChr c
  | .range lo hi => okClsChr lo && okClsChr hi && lo ≤ hi

def isAlnum (c : UInt8) : Bool := (48 ≤ c && c ≤ 57) || (65 ≤ c && c ≤ 90) || (97 ≤ c && c ≤ 122)

def okName (nm : Bytes) : Bool := !nm.isEmpty && nm.all isAlnum

/-- counts fit a Go `int` -/
def maxCount : Nat := 9223372036854775807

def Quant.ok : Quant → Bool
  | .star | .plus | .opt => true
  | .exact m => m ≤ maxCount
  | .atLeast m => m ≤ maxCount
  | .between m n => m ≤ n && n ≤ maxCount

def startsWithDigit : Bytes → Bool
  | [] => false
  | c :: _ => 48 ≤ c && c ≤ 57

/-- `\1`…`\9` directly followed by a digit would read as a two-digit reference -/
def Re.isShortRef : Re → Bool
  | .backref n => n < 10
  | _ => false

/-- the shape and lexical conditions of the subset -/
def Re.sup : Re → Bool
  | .empty => true
  | .seq a b =>
    (a.isItem || (a.isAlt && b.isEmpty)) && b.isSeq && a.sup && b.sup &&
    !(a.isShortRef && startsWithDigit b.show)
  | .chr c => okChr c
  | .dot | .bol | .eol | .digit _ | .space _ => true
  | .cls _ items => !items.isEmpty && items.all ClsItem.ok
  | .group _ r => r.isSeq && r.sup
  | .ncgroup r => r.isSeq && r.sup
  | .named nm r => okName nm && r.isSeq && r.sup
  | .backref n => 1 ≤ n && n ≤ 99
  | .backrefNamed nm => okName nm
  | .rep r q _ => r.isAtom && r.sup && q.ok
  | .alt a b => a.isItem && (b.isItem || b.isAlt) && a.sup && b.sup

/-- unnamed groups carry the numbers `c+1, c+2, …` in the order of their opening parentheses;
result: the last number used -/
def Re.numFrom : Re → Nat → Option Nat
  | .seq a b, c => (a.numFrom c).bind b.numFrom
  | .alt a b, c => (a.numFrom c).bind b.numFrom
  | .group n r, c => if n = c + 1 then r.numFrom (c + 1) else none
  | .ncgroup r, c => r.numFrom c
  | .named _ r, c => r.numFrom c
  | .rep r _ _, c => r.numFrom c
  | _, c => some c

/-- **the supported subset**: a concatenation of items (or one alternation of items) at top level
and in every group, alternation only between single items, quantifiers only on atoms, well-formed
counts, lexically representable characters and names, groups numbered by opening parenthesis. -/
def Supported (r : Re) : Prop := r.isSeq = true ∧ r.sup = true ∧ (r.numFrom 0).isSome = true

instance (r : Re) : Decidable (Supported r) := by unfold Supported; exact inferInstance

/-- may match the empty string (syntactic, conservative: anchors and back-references may) -/
def Re.nullable : Re → Bool
  | .empty => true
  | .seq a b => a.nullable && b.nullable
  | .chr _ | .dot | .digit _ | .space _ | .cls _ _ => false
  | .bol | .eol => true
  | .group _ r | .ncgroup r | .named _ r => r.nullable
  | .backref _ | .backrefNamed _ => true
  | .rep r q _ => q.min == 0 || r.nullable
  | .alt a b => a.nullable || b.nullable

/-- **the property's quantifier**: a body that is repeated an optional number of times (every
quantifier except the exact count `{m}`) cannot match the empty string -/
def Re.nnb : Re → Bool
  | .seq a b | .alt a b => a.nnb && b.nnb
  | .group _ r | .ncgroup r | .named _ r => r.nnb
  | .rep r q _ => r.nnb && (q.max == some q.min || !r.nullable)
  | _ => true

def NonNullableBodies (r : Re) : Prop := r.nnb = true

instance (r : Re) : Decidable (NonNullableBodies r) := by unfold NonNullableBodies; exact inferInstance

/-! ## conventional backtracking semantics -/

/-- where the match in progress stands: position and the groups set so far -/
structure St where
  pos : Nat
  caps : VMap
deriving Inhabited

inductive RRes where
  | matched (s : St)
  | fail
deriving Inhabited

abbrev RFK := Unit → Option RRes
abbrev RSK := St → RFK → Option RRes

def ClsItem.mem : ClsItem → UInt8 → Bool
  | .single c, b => b == c
  | .range lo hi, b => lo ≤ b && b ≤ hi

def isDigit (b : UInt8) : Bool := 48 ≤ b && b ≤ 57
/-- `[ \t\n\r\f]` -/
def isSpace (b : UInt8) : Bool := b == 32 || b == 9 || b == 10 || b == 13 || b == 12

/-- `text[a, b)` -/
def slice (text : Bytes) (a b : Nat) : Bytes := (text.drop a).take (b - a)

/-- does `v` occur in `text` at `p` -/
def hasAt (text : Bytes) (p : Nat) (v : Bytes) : Bool := (text.drop p).take v.length == v

/-- one byte satisfying `pred` -/
def one (text : Bytes) (pred : UInt8 → Bool) (s : St) (ks : RSK) (fk : RFK) : Option RRes :=
  match text[s.pos]? with
  | some b => if pred b then ks { s with pos := s.pos + 1 } fk else fk ()
  | none => fk ()

/-- the text of a group that has a value, matched again -/
def again (text : Bytes) (x : String) (s : St) (ks : RSK) (fk : RFK) : Option RRes :=
  match s.caps.get x with
  | some (.str v) => if hasAt text s.pos v then ks { s with pos := s.pos + v.length } fk else fk ()
  | _ => fk ()

/-- `n` copies in sequence -/
def times (mb : St → RSK → RFK → Option RRes) : Nat → St → RSK → RFK → Option RRes
  | 0, s, ks, fk => ks s fk
  | n + 1, s, ks, fk => mb s (fun s' fk' => times mb n s' ks fk') fk

/-- up to `bound` (`none` = any number of) further iterations: greedy tries one more first, lazy
stops first.  The first argument is the iteration budget. -/
def more (mb : St → RSK → RFK → Option RRes) (lz : Bool) : Nat → Option Nat → St → RSK → RFK → Option RRes
  | 0, _, _, _, _ => none
  | fuel + 1, bound, s, ks, fk =>
    if bound == some 0 then ks s fk
    else if lz then
      ks s (fun _ => mb s (fun s' fk' => more mb lz fuel (bound.map (· - 1)) s' ks fk') fk)
    else
      mb s (fun s' fk' => more mb lz fuel (bound.map (· - 1)) s' ks fk') (fun _ => ks s fk)

/-- `m text lf r s ks fk`: every way `r` matches from `s`, in priority order, is offered to `ks`
(with a continuation that resumes with the next way); `fk` when none is left. -/
def m (text : Bytes) (lf : Nat) : Re → St → RSK → RFK → Option RRes
  | .empty, s, ks, fk => ks s fk
  | .seq a b, s, ks, fk => m text lf a s (fun s' fk' => m text lf b s' ks fk') fk
  | .chr c, s, ks, fk => one text (fun b => b == c) s ks fk
  | .dot, s, ks, fk => one text (fun b => b != 10) s ks fk
  | .bol, s, ks, fk => if s.pos == 0 || text[s.pos - 1]? == some 10 then ks s fk else fk ()
  | .eol, s, ks, fk => if s.pos == text.length || text[s.pos]? == some 10 then ks s fk else fk ()
  | .digit neg, s, ks, fk => one text (fun b => isDigit b != neg) s ks fk
  | .space neg, s, ks, fk => one text (fun b => isSpace b != neg) s ks fk
  | .cls neg items, s, ks, fk => one text (fun b => items.any (fun i => i.mem b) != neg) s ks fk
  | .group n r, s, ks, fk =>
    m text lf r s (fun s' fk' => ks { s' with caps := s'.caps.put (numName n) (.str (slice text s.pos s'.pos)) } fk') fk
  | .ncgroup r, s, ks, fk => m text lf r s ks fk
  | .named nm r, s, ks, fk =>
    m text lf r s (fun s' fk' => ks { s' with caps := s'.caps.put (nameStr nm) (.str (slice text s.pos s'.pos)) } fk') fk
  | .backref n, s, ks, fk => again text (numName n) s ks fk
  | .backrefNamed nm, s, ks, fk => again text (nameStr nm) s ks fk
  | .rep r q lz, s, ks, fk =>
    times (m text lf r) q.min s
      (fun s' fk' => more (m text lf r) lz lf (q.max.map (· - q.min)) s' ks fk') fk
  | .alt a b, s, ks, fk => m text lf a s ks (fun _ => m text lf b s ks fk)

/-- the first match starting at `p`, in priority order -/
def attempt (text : Bytes) (lf : Nat) (r : Re) (p : Nat) : Option RRes :=
  m text lf r ⟨p, .nil⟩ (fun s _ => some (.matched s)) (fun _ => some .fail)

/-- a reported match: span and groups -/
structure Span where
  startPos : Nat
  endPos : Nat
  groups : VMap
deriving Inhabited

/-- the scan of the property: at each start position from left to right take the first match; a
non-empty one is reported and the scan continues at its end, otherwise it advances one byte; it
stops at the end of the text. -/
def scan (text : Bytes) (lf : Nat) (r : Re) : Nat → Nat → Option (List Span)
  | 0, _ => none
  | f + 1, p =>
    if p ≥ text.length then some []
    else
      match attempt text lf r p with
      | none => none
      | some (.matched s) =>
        if s.pos > p then (scan text lf r f s.pos).map (fun l => ⟨p, s.pos, s.caps⟩ :: l)
        else scan text lf r f (p + 1)
      | some .fail => scan text lf r f (p + 1)

/-- all matches of `r` in `text` (`none`: the iteration budget ran out — a nullable repeated body) -/
def findAll (r : Re) (text : Bytes) : Option (List Span) :=
  scan text (text.length + 2) r (text.length + 1) 0

end Vore.Regex
