import Vore.Model.Engine
/-!
# Vore.Spec.Replace — C05/C06: what a replacement is, and what a replace command writes

Written against the match record and the `with` list only.
-/
namespace Vore.Spec
open Vore

/-- the built-in names available to `with` items, for match `m` -/
def builtin (m : Match) (total : Nat) (filename : Bytes) (x : String) : Option Bytes :=
  if x = "totalMatches" then some (itoa total)
  else if x = "matchNumber" then some (itoa m.number)
  else if x = "startOffset" then some (itoa m.startPos)
  else if x = "endOffset" then some (itoa m.endPos)
  else if x = "lineNumber" then some (itoa m.startLine)
  else if x = "columnNumber" then some (itoa m.startCol)
  else if x = "value" then some m.value
  else if x = "filename" then some filename
  else none

/-- text of a name for match `m`: a built-in, else a string capture of *this* match, else nothing -/
def nameText (m : Match) (total : Nat) (filename : Bytes) (x : String) : Option Bytes :=
  match builtin m total filename x with
  | some b => some b
  | none =>
    match m.vars.get x with
    | some (.str s) => some s
    | _ => none

/-- what one `with` item contributes for match `m` (`none` = nothing) -/
def itemText (pf : Nat) (transforms : List (String × Stmt)) (m : Match) (total : Nat) (filename : Bytes) :
    RAtom → Res (Option Bytes)
  | .str s => .ok (some s)
  | .var x =>
    match lookup transforms x with
    | some body =>
      match runProcess pf body (transformEnv (replacerVars m total filename) m) with
      | .error t => .panic t
      | .ok none => .pfuel
      | .ok (some v) => .ok (some v.getString)
    | none => .ok (nameText m total filename x)

/-- the replacement of `m`: the contributions in order; `none` iff no item contributed -/
def replacement (pf : Nat) (transforms : List (String × Stmt)) (m : Match) (total : Nat) (filename : Bytes) :
    List RAtom → Option Bytes → Res (Option Bytes)
  | [], acc => .ok acc
  | it :: rest, acc =>
    match itemText pf transforms m total filename it with
    | .ok (some s) => replacement pf transforms m total filename rest (some (acc.getD [] ++ s))
    | .ok none => replacement pf transforms m total filename rest acc
    | .panic t => .panic t
    | .pfuel => .pfuel

/-- C06: the input with every matched span substituted by its replacement, other bytes kept -/
def splice (text : Bytes) : List Match → Nat → Bytes
  | [], from_ => text.drop from_
  | m :: ms, from_ => slice' text from_ m.startPos ++ m.replacement.getD [] ++ splice text ms m.endPos
where slice' (text : Bytes) (s e : Nat) : Bytes := (text.drop s).take (e - s)

end Vore.Spec
