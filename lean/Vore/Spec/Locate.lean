import Vore.Model.VM
/-!
# Vore.Spec.Locate — what C03 demands of a reported match list, written against the input only

`lineOf`/`colOf` are the property's definitions: 1-based line = 1 + number of newlines
before the offset; 1-based byte column = bytes since the last newline before the offset, + 1.
-/
namespace Vore.Spec
open Vore

def lineOf (text : Bytes) (off : Nat) : Nat := 1 + (text.take off).count nl

def colOf (text : Bytes) (off : Nat) : Nat := ((text.take off).reverse.takeWhile (· != nl)).length + 1

/-- `text[start, end)` -/
def slice (text : Bytes) (s e : Nat) : Bytes := (text.drop s).take (e - s)

/-- `v` occurs in `w` as a contiguous substring -/
def infixB (v w : Bytes) : Bool := (List.range (w.length + 1)).any (fun i => v.isPrefixOf (w.drop i))

mutual
/-- every string value (recursively through named-loop maps) is a substring of `w` -/
def valSubB (w : Bytes) : Val → Bool
  | .str s => infixB s w
  | .map m => mapSubB w m
def mapSubB (w : Bytes) : VMap → Bool
  | .nil => true
  | .cons _ v rest => valSubB w v && mapSubB w rest
end

/-- one match is a faithful, located slice -/
def matchOk (text : Bytes) (m : Match) : Bool :=
  decide (m.startPos < m.endPos) && decide (m.endPos ≤ text.length) &&
  (m.value == slice text m.startPos m.endPos) &&
  (m.startLine == lineOf text m.startPos) && (m.endLine == lineOf text m.endPos) &&
  (m.startCol == colOf text m.startPos) && (m.endCol == colOf text m.endPos) &&
  mapSubB m.value m.vars

/-- consecutive matches: increasing, non-overlapping, numbered consecutively -/
def chainOk : List Match → Bool
  | [] => true
  | [_] => true
  | a :: b :: rest => decide (a.endPos ≤ b.startPos) && (b.number == a.number + 1) && chainOk (b :: rest)

/-- the whole of C03 for the result of one command -/
def faithful (text : Bytes) (ms : List Match) : Bool := ms.all (matchOk text) && chainOk ms

/-- C03 without the column claim (the property states it for ASCII inputs: Go counts columns in runes): what is
demanded of a text that is not ASCII -/
def matchOkNoCol (text : Bytes) (m : Match) : Bool :=
  decide (m.startPos < m.endPos) && decide (m.endPos ≤ text.length) &&
  (m.value == slice text m.startPos m.endPos) &&
  (m.startLine == lineOf text m.startPos) && (m.endLine == lineOf text m.endPos) &&
  mapSubB m.value m.vars

def faithfulNoCol (text : Bytes) (ms : List Match) : Bool := ms.all (matchOkNoCol text) && chainOk ms

/-- the predicate the correspondence evaluates on the implementation's matches: all of C03 on ASCII texts, all but
the columns otherwise -/
def faithfulFor (text : Bytes) (ms : List Match) : Bool :=
  if text.all (· < 128) then faithful text ms else faithfulNoCol text ms

end Vore.Spec
