import Vore.Model.Path
/-!
# Vore.Spec.Glob — what a `-files` pattern describes

`*` stands for any run of bytes (possibly none) within one path segment; every other
byte stands for itself.  A path matches a pattern when it has as many components as the
pattern has segments and every component matches its segment.  Core Lean only; the only
thing taken from the model file is the data type of directory trees (`Path.Dir`, with its
enumeration `regularFiles` and its lookup `isRegularFile`), none of the modelled Go functions.
-/
namespace Vore.Spec.Glob

def star : UInt8 := 42   -- '*'
def slash : UInt8 := 47  -- '/'
def dot : UInt8 := 46    -- '.'

/-- The relation, as the property states it. -/
inductive Matches : Bytes → Bytes → Prop where
  /-- the empty pattern describes the empty name -/
  | nil : Matches [] []
  /-- an ordinary byte stands for itself -/
  | lit {c : UInt8} {pat name : Bytes} : c ≠ star → Matches pat name → Matches (c :: pat) (c :: name)
  /-- a star stands for any run of bytes -/
  | star {pat : Bytes} (run : Bytes) {name : Bytes} : Matches pat name → Matches (star :: pat) (run ++ name)

/-- `k` holds of some suffix of the name: what remains after a star took a run -/
def anySuffix (k : Bytes → Bool) : Bytes → Bool
  | [] => k []
  | c :: name => k (c :: name) || anySuffix k name

/-- the obvious recursive decision procedure: `matches pat name` -/
def «matches» : Bytes → Bytes → Bool
  | [], name => name.isEmpty
  | p :: pat, name =>
    if p == star then anySuffix («matches» pat) name
    else match name with
      | [] => false
      | c :: rest => p == c && «matches» pat rest

/-- segment by segment: as many components as segments, each matching -/
def pathMatches : List Bytes → List Bytes → Bool
  | [], [] => true
  | seg :: segs, comp :: comps => «matches» seg comp && pathMatches segs comps
  | _, _ => false

/-- the segments of a pattern written with `/` (at least one; `segments_join`,
`segments_noSlash` in `Lemmas/Glob.lean` say they are the slash-free pieces whose
`/`-join is the pattern) -/
def segments : Bytes → List Bytes
  | [] => [[]]
  | c :: cs =>
    if c == slash then [] :: segments cs
    else match segments cs with
      | [] => [[c]]
      | seg :: segs => (c :: seg) :: segs

/-- a pattern starting with `/` is taken from the root, any other from the given directory -/
def isAbsolute (pattern : Bytes) : Bool := pattern.head? == some slash

/-- the segments a path below the starting directory is compared with -/
def relSegments (pattern : Bytes) : List Bytes :=
  if isAbsolute pattern then segments (pattern.drop 1) else segments pattern

/-- the directory those paths are relative to -/
def startDir (pattern dir : Bytes) : Bytes := if isAbsolute pattern then [slash] else dir

/-- made only of stars (the empty segment included) -/
def starOnly (seg : Bytes) : Bool := seg.all (· == star)

/-- hypothesis of the property: no *directory* segment (any but the last) made only of
stars (those deliberately also match zero levels) -/
def NoStarOnlyDir (pattern : Bytes) : Prop := ∀ seg ∈ (relSegments pattern).dropLast, starOnly seg = false

/-- hypothesis of the property: no `.` / `..` directory segment (acknowledged FIXME) -/
def NoDotSegments (pattern : Bytes) : Prop :=
  ∀ seg ∈ (relSegments pattern).dropLast, seg ≠ [dot] ∧ seg ≠ [dot, dot]

instance (pattern : Bytes) : Decidable (NoStarOnlyDir pattern) := by unfold NoStarOnlyDir; infer_instance
instance (pattern : Bytes) : Decidable (NoDotSegments pattern) := by unfold NoDotSegments; infer_instance

/-- how a relative path (component list) below `dir` is written: `dir/c₁/…/cₙ` -/
def render (dir : Bytes) (comps : List Bytes) : Bytes := dir ++ comps.flatMap (slash :: ·)

/-- the list the property describes: the regular files below the starting directory
(`start` is the tree found there) whose relative path matches segment by segment, written
as `GetFileList` writes them -/
def selected (start : Path.Dir) (pattern dir : Bytes) : List Bytes :=
  (start.regularFiles.filter (pathMatches (relSegments pattern))).map (render (startDir pattern dir))

end Vore.Spec.Glob
