import Vore.Model.Pratt
/-!
# Vore.Spec.Grammar — the DOCUMENTED operator grammar of process expressions

Property C11: "Multiplicative operators bind tighter than additive, those tighter than
comparisons, those tighter than and/or, and operators of one level associate to the left";
the prefix operators `not`, `head`, `tail` bind tightest.  Equality operators form their own
level between the comparisons and `and`/`or`.

The grammar is given by a level per binary operator and two printers of expression trees
into tokens: fully parenthesised, and with the minimal parentheses the stratified,
left-associative grammar needs.  `C11_pratt` says the parser reads both back.
-/
namespace Vore.Spec.Grammar
open Vore Vore.Pratt

/-- binding level of a binary operator (higher binds tighter); 0 = not a binary operator -/
def level : Op → Nat
  | .and | .or => 1
  | .dequal | .nequal => 2
  | .less | .greater | .lesseq | .greatereq => 3
  | .plus | .minus => 4
  | .mult | .div | .mod => 5
  | _ => 0

def binaryOps : List Op :=
  [.and, .or, .dequal, .nequal, .less, .greater, .lesseq, .greatereq, .plus, .minus, .mult, .div, .mod]

def prefixOps : List Op := [.not, .head, .tail]

/-- level of an expression: that of its top binary operator; atoms, prefix applications (and
parenthesised expressions) are tightest -/
def exprLevel : PExpr → Nat
  | .bin o _ _ => level o
  | _ => 6

/-- an expression tree the grammar can produce: prefix operators at `un`, binary operators
at `bin` -/
def WF : PExpr → Prop
  | .un o e => o ∈ prefixOps ∧ WF e
  | .bin o l r => o ∈ binaryOps ∧ WF l ∧ WF r
  | _ => True

def atomTok : PExpr → PTok
  | .str s => .str s
  | .num n => .num n
  | .bool true => .tru
  | .bool false => .fls
  | .var x => .ident x
  | _ => .lparen

/-- every compound sub-expression in parentheses -/
def renderFull : PExpr → List PTok
  | .un o e => [.lparen, .op o] ++ renderFull e ++ [.rparen]
  | .bin o l r => [.lparen] ++ renderFull l ++ [.op o] ++ renderFull r ++ [.rparen]
  | e => [atomTok e]

/-- minimal parentheses: `renderMin k e` prints `e` where an expression of level ≥ `k` is
expected.  A binary node of level `n` takes its left operand at level `n` and its right
operand at level `n + 1` (left associativity); a prefix operator takes level 6. -/
def renderMin (k : Nat) : PExpr → List PTok
  | .un o e => .op o :: renderMin 6 e
  | .bin o l r =>
    if level o < k then
      [.lparen] ++ (renderMin (level o) l ++ [.op o] ++ renderMin (level o + 1) r) ++ [.rparen]
    else renderMin (level o) l ++ [.op o] ++ renderMin (level o + 1) r
  | e => [atomTok e]

end Vore.Spec.Grammar
