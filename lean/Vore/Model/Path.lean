import Vore.Model.Basic
/-!
# Vore.Model.Path — `-files` patterns (libvore/files/path.go)

One Lean function per Go function: `ParsePath`, `pathMatches` (the matcher after
`fixes/C20-glob.diff`: split the pattern at its stars, first text = prefix, every middle
text at its leftmost occurrence, last text = suffix of what is left), `directoryExists`,
`GetFileList`.  Strings are byte lists.  `os.ReadDir` is a parameter of `getFileList`
(`ReadDir`); `FS` below is the model of the operating system side: an inductive directory
tree whose entries are listed in tree order (the assumption is that this is the order and
content `os.ReadDir` reports: the children, sorted by name) and path strings are resolved
component by component.  Core Lean only.
-/
namespace Vore.Path

def star : UInt8 := 42   -- '*'
def slash : UInt8 := 47  -- '/'
def dot : UInt8 := 46    -- '.'

/-! ## the `strings` functions used by path.go -/

/-- `strings.Split(s, sep)` for a one-byte separator: always at least one part -/
def splitByte (sep : UInt8) : Bytes → List Bytes
  | [] => [[]]
  | c :: cs =>
    if c == sep then [] :: splitByte sep cs
    else match splitByte sep cs with
      | [] => [[c]]
      | h :: t => (c :: h) :: t

/-- `strings.Index(s, sub)`: offset of the leftmost occurrence, `none` for `-1` -/
def index (sub : Bytes) : Bytes → Option Nat
  | [] => if sub.isPrefixOf [] then some 0 else none
  | c :: s => if sub.isPrefixOf (c :: s) then some 0 else (index sub s).map (· + 1)

/-- `strings.ContainsRune(s, '*')` -/
def containsStar (s : Bytes) : Bool := s.contains star

/-- `strings.Trim(s, "*") == ""`: nothing is left once the stars are cut off both ends,
i.e. every byte is a star (true of the empty string) -/
def starOnly (s : Bytes) : Bool := s.all (· == star)

/-! ## pathMatches (fixed) -/

/-- the part of `pathMatches` after the prefix test: `part` is `parts[i]` (i ≥ 1), `more`
the parts after it.  The loop `for _, part := range parts[1:len(parts)-1]` followed by
`return strings.HasSuffix(target, parts[len(parts)-1])`. -/
def matchRest : Bytes → Bytes → List Bytes → Bool
  | target, last, [] => last.isSuffixOf target
  | target, part, next :: more =>
    match index part target with
    | none => false
    | some partStart => matchRest (target.drop (partStart + part.length)) next more

/-- `pathMatches(target, matches)` -/
def pathMatches (target pat : Bytes) : Bool :=
  match splitByte star pat with
  | [] => false                       -- unreachable: `splitByte_ne_nil`
  | [_] => target == pat              -- len(parts) == 1
  | first :: part :: more =>
    if first.isPrefixOf target then matchRest (target.drop first.length) part more
    else false

/-! ## ParsePath -/

inductive PathEntryType where
  | directory | wildcardDirectory | file | wildcardFile
deriving Repr, DecidableEq, Inhabited

structure PathEntry where
  entryType : PathEntryType
  value : Bytes
deriving Repr, DecidableEq, Inhabited

/-- a value or a Go panic -/
inductive Outcome (α : Type) where
  | ok (a : α)
  | panic (tag : String)
deriving Repr, DecidableEq

/-- the loop `for idx, pathPart := range splitPath` -/
def parseEntries : List Bytes → List PathEntry
  | [] => []
  | [last] =>
    [if containsStar last then ⟨.wildcardFile, last⟩ else ⟨.file, last⟩]
  | part :: rest =>
    (if containsStar part then ⟨.wildcardDirectory, part⟩ else ⟨.directory, part⟩) :: parseEntries rest

/-- `ParsePath(path)`; `path[0]` panics on the empty string.  (The debug line it prints
belongs to C18.) -/
def parsePath (path : Bytes) : Outcome (List PathEntry) :=
  match path with
  | [] => .panic "index out of range [0] with length 0"
  | c :: rest =>
    if c == slash then .ok (⟨.directory, [slash]⟩ :: parseEntries (splitByte slash rest))
    else .ok (parseEntries (splitByte slash (c :: rest)))

/-! ## GetFileList -/

/-- what `GetFileList` sees of a directory entry: its name and whether the name leads to a directory.
For a plain entry that is `e.IsDir()`; for a symbolic link it is what the link resolves to — the descent
follows links (`os.ReadDir(dir + "/" + name)`), and since fix 8a86468 the last segment resolves a link with
`os.Stat` before listing it (a link to a directory, or a dangling link, is not a file). -/
structure DirEntry where
  name : Bytes
  isDir : Bool
deriving Repr, DecidableEq, Inhabited

/-- `os.ReadDir`: `none` = an error (no such directory, not a directory, …) -/
abbrev ReadDir := Bytes → Option (List DirEntry)

def directoryExists (entries : List DirEntry) (name : Bytes) : Bool :=
  entries.any (fun e => e.name == name)

/-- `(path *Path) GetFileList(currentDirectory)` for `path.entries = e :: rest`.
`shrink()` drops the first entry, so every recursive call again has at least one entry. -/
def getFileListNE (readDir : ReadDir) : PathEntry → List PathEntry → Bytes → List Bytes
  | e, [], cur =>                                   -- len(path.entries) == 1
    match readDir cur with
    | none => []
    | some entries =>
      (entries.filter (fun d => !d.isDir && pathMatches d.name e.value)).map
        (fun d => cur ++ slash :: d.name)
  | e, e' :: rest, cur =>
    if e.value == [slash] then getFileListNE readDir e' rest [slash]
    else match readDir cur with
      | none => []
      | some entries =>
        (if starOnly e.value then getFileListNE readDir e' rest cur else []) ++
        (if e.entryType == .wildcardDirectory then
           (entries.filter (fun d => pathMatches d.name e.value)).flatMap
             (fun d => getFileListNE readDir e' rest (cur ++ slash :: d.name))
         else if e.entryType == .directory && directoryExists entries e.value then
           getFileListNE readDir e' rest (cur ++ slash :: e.value)
         else [])

/-- `GetFileList` on any entry list: `path.entries[0]` panics when there is none -/
def getFileList (readDir : ReadDir) (entries : List PathEntry) (cur : Bytes) : Outcome (List Bytes) :=
  match entries with
  | [] => .panic "index out of range [0] with length 0"
  | e :: rest => .ok (getFileListNE readDir e rest cur)

/-- `files.ParsePath(p).GetFileList(dir)` as main.go calls it -/
def fileList (readDir : ReadDir) (pattern dir : Bytes) : Outcome (List Bytes) :=
  match parsePath pattern with
  | .panic t => .panic t
  | .ok entries => getFileList readDir entries dir

/-! ## the file system side (assumption): an inductive directory tree -/

/-- A directory: its entries in the order `os.ReadDir` lists them.  An entry is a regular
file or a sub-directory with its own entries. -/
inductive Dir where
  | nil
  | file (name : Bytes) (rest : Dir)
  | sub (name : Bytes) (children : Dir) (rest : Dir)
deriving Repr, DecidableEq, Inhabited

namespace Dir

def entries : Dir → List DirEntry
  | nil => []
  | file n rest => ⟨n, false⟩ :: rest.entries
  | sub n _ rest => ⟨n, true⟩ :: rest.entries

def names : Dir → List Bytes
  | nil => []
  | file n rest => n :: rest.names
  | sub n _ rest => n :: rest.names

/-- the sub-directory called `name` (`none`: no such entry, or a regular file) -/
def subdir (name : Bytes) : Dir → Option Dir
  | nil => none
  | file n rest => if n == name then none else rest.subdir name
  | sub n ch rest => if n == name then some ch else rest.subdir name

/-- relative paths (component lists) of all regular files below the directory, in
directory order, depth first -/
def regularFiles : Dir → List (List Bytes)
  | nil => []
  | file n rest => [n] :: rest.regularFiles
  | sub n ch rest => ch.regularFiles.map (n :: ·) ++ rest.regularFiles

/-- the entry called `name` is a regular file -/
def hasFile (name : Bytes) : Dir → Bool
  | nil => false
  | file n rest => if n == name then true else rest.hasFile name
  | sub n _ rest => if n == name then false else rest.hasFile name

/-- the relative path (component list) names a regular file below the directory -/
def isRegularFile : Dir → List Bytes → Bool
  | _, [] => false
  | d, [n] => d.hasFile n
  | d, n :: m :: ms =>
    match d.subdir n with
    | some ch => ch.isRegularFile (m :: ms)
    | none => false

/-- a name a directory entry can have -/
def validName (n : Bytes) : Bool :=
  n != [] && !n.contains slash && n != [dot] && n != [dot, dot]

/-- every later entry name is greater (Go string order) -/
def namesGt (n : Bytes) : Dir → Bool
  | nil => true
  | file m rest => bytesLt n m && rest.namesGt n
  | sub m _ rest => bytesLt n m && rest.namesGt n

/-- well-formed: valid entry names, strictly sorted by name (hence distinct), recursively -/
def wf : Dir → Bool
  | nil => true
  | file n rest => validName n && rest.namesGt n && rest.wf
  | sub n ch rest => validName n && rest.namesGt n && ch.wf && rest.wf

end Dir

/-- the file system: the root directory and the chain of directories from the process's
working directory up to the root (innermost first) -/
structure FS where
  root : Dir
  cwd : List Dir

/-- one path component; the state is the chain of directories walked (innermost first) -/
def step (stack : List Dir) (comp : Bytes) : Option (List Dir) :=
  if comp == [] || comp == [dot] then some stack
  else if comp == [dot, dot] then
    some (match stack with
          | _ :: p :: ps => p :: ps
          | s => s)
  else match stack with
    | [] => none
    | d :: _ => (d.subdir comp).map (· :: stack)

def walk (stack : List Dir) : List Bytes → Option (List Dir)
  | [] => some stack
  | c :: cs =>
    match step stack c with
    | none => none
    | some s => walk s cs

/-- resolve a path string to the chain of directories ending in the one it names
(`none`: ENOENT / ENOTDIR; the empty path is ENOENT) -/
def FS.resolve (fs : FS) (path : Bytes) : Option (List Dir) :=
  match path with
  | [] => none
  | c :: _ => walk (if c == slash then [fs.root] else fs.cwd) (splitByte slash path)

/-- `os.ReadDir(path)` on the modelled file system -/
def FS.readDir (fs : FS) : ReadDir := fun path =>
  match fs.resolve path with
  | some (d :: _) => some d.entries
  | _ => none

end Vore.Path
