/-!
# Vore.Model.Sched — interleaving model of concurrent `Compile` / `Run` calls (property C19)

What this models, and what it does not.  A Go call (`libvore.Compile`, `(*Vore).Run`) is a
*thread*: a finite sequence of atomic actions on a shared store.  A *schedule* is a list of
thread ids; `exec` runs it, one action of the named thread per entry (an entry naming a
finished thread, or a thread blocked on a held mutex, is a no-op).  There is no bound on the
number of threads (`Tid → List Action`), on their length, or on the schedule.

Shared locations (`Loc`) are exactly the places through which two calls can interfere:

* `global i`  — the `i`-th package-level variable of libvore that some function reachable
                from `Compile`/`Run` writes (regenerated: `Vore/ExtractedGlobals.lean`);
* `priv t n`  — memory allocated by call `t` itself (tokens, parser state, syntax tree,
                `GenState`, `SearchEngineState`, match lists …): engine/searchengine.go
                `CreateState`, engine/engine.go `Run`, ast/ast.go `ParseReader`;
* `code n`    — the compiled bytecode reachable from a shared `*Vore`
                (`Vore.bytecode`, e.g. `Branch.Branches` read by `matchBranch`);
* `randSrc`   — the global `math/rand` source behind `rand.Int63()` (bytecode/generate.go,
                loop ids), which the Go library guards with its own mutex (`randMutex`).

The Go memory model, the scheduler and the race detector are *not* modelled: an `Action` is
atomic here.  What the model does say is the logic of interference — which results can depend
on the schedule and which accesses are ordered by happens-before — given *which* locations
the code touches, and that "which" is regenerated from the Go source on every check.

Core Lean only.
-/
namespace Vore.Sched

abbrev Tid := Nat
abbrev Mutex := Nat
abbrev Val := Int

inductive Loc where
  | global (i : Nat)
  | priv (t : Tid) (n : Nat)
  | code (n : Nat)
  | randSrc
deriving DecidableEq, Repr

/-- the mutex inside `math/rand`'s global source -/
def randMutex : Mutex := 0

/-- Atomic actions of a thread.  `acc` is the thread's private accumulator: everything the
call will return is a function of it.
`rmw` is a *blind* read-modify-write: the value read does not reach `acc` (this is how a draw
from the random source is modelled — loop ids matter only up to renaming, DESIGN §3.2/§8). -/
inductive Action where
  | read (g : Loc) (k : Val → Val → Val)   -- acc := k acc (store g)
  | write (g : Loc) (e : Val → Val)        -- store g := e acc
  | rmw (g : Loc) (f : Val → Val)          -- store g := f (store g)
  | lock (m : Mutex)
  | unlock (m : Mutex)
  | loc (f : Val → Val)                    -- acc := f acc      (local computation)

/-- what an action does, as seen by the happens-before relation -/
inductive EvKind where
  | rd (g : Loc)
  | wr (g : Loc)
  | acq (m : Mutex)
  | rel (m : Mutex)
  | tau
deriving DecidableEq, Repr

structure Event where
  tid : Tid
  kind : EvKind
deriving DecidableEq, Repr

def upd {α β} [DecidableEq α] (f : α → β) (x : α) (v : β) : α → β :=
  fun y => if y = x then v else f y

namespace Action

def ev : Action → EvKind
  | read g _ => .rd g
  | write g _ => .wr g
  | rmw g _ => .wr g
  | lock m => .acq m
  | unlock m => .rel m
  | loc _ => .tau

/-- the shared location an action touches -/
def target : Action → Option Loc
  | read g _ => some g
  | write g _ => some g
  | rmw g _ => some g
  | _ => none

def isWrite : Action → Bool
  | write _ _ => true
  | rmw _ _ => true
  | _ => false

def isRmw : Action → Bool
  | rmw _ _ => true
  | _ => false

def accAfter : Action → Val → (Loc → Val) → Val
  | read g k, a, st => k a (st g)
  | loc f, a, _ => f a
  | _, a, _ => a

def storeAfter : Action → Val → (Loc → Val) → (Loc → Val)
  | write g e, a, st => upd st g (e a)
  | rmw g f, _, st => upd st g (f (st g))
  | _, _, st => st

def holderAfter : Action → Tid → (Mutex → Option Tid) → (Mutex → Option Tid)
  | lock m, t, h => upd h m (some t)
  | unlock m, _, h => upd h m none
  | _, _, h => h

/-- `lock m` can only fire when `m` is free -/
def enabled : Action → (Mutex → Option Tid) → Bool
  | lock m, h => (h m).isNone
  | _, _ => true

/-- does the thread hold `m` after this action, if it did (`h`) before -/
def heldAfter (m : Mutex) (h : Bool) : Action → Bool
  | lock m' => if m' = m then true else h
  | unlock m' => if m' = m then false else h
  | _ => h

/-- has the thread written `g` since it last locked `m`, if (`h`) it had before this action -/
def freshAfter (g : Loc) (m : Mutex) (h : Bool) : Action → Bool
  | lock m' => if m' = m then false else h
  | unlock m' => if m' = m then false else h
  | write g' _ => if g' = g then true else h
  | _ => h

end Action

def EvKind.loc? : EvKind → Option Loc
  | .rd g => some g
  | .wr g => some g
  | _ => none

/-! ## concurrent execution -/

structure State where
  pc : Tid → Nat
  acc : Tid → Val
  store : Loc → Val
  holder : Mutex → Option Tid
  trace : List Event            -- chronological

def init (acc0 : Tid → Val) (store0 : Loc → Val) : State :=
  { pc := fun _ => 0, acc := acc0, store := store0, holder := fun _ => none, trace := [] }

/-- thread `t` performs action `a` -/
def fire (σ : State) (t : Tid) (a : Action) : State :=
  { pc := upd σ.pc t (σ.pc t + 1)
    acc := upd σ.acc t (a.accAfter (σ.acc t) σ.store)
    store := a.storeAfter (σ.acc t) σ.store
    holder := a.holderAfter t σ.holder
    trace := σ.trace ++ [⟨t, a.ev⟩] }

/-- one schedule entry -/
def step (P : Tid → List Action) (σ : State) (t : Tid) : State :=
  match (P t)[σ.pc t]? with
  | none => σ
  | some a => if a.enabled σ.holder then fire σ t a else σ

def exec (P : Tid → List Action) (σ : State) (s : List Tid) : State := s.foldl (step P) σ

/-! ## a thread on its own (the "sequential result") -/

structure SeqState where
  acc : Val
  store : Loc → Val

def seqStep (s : SeqState) (a : Action) : SeqState :=
  { acc := a.accAfter s.acc s.store, store := a.storeAfter s.acc s.store }

/-- run the whole call alone; mutexes never block a lone thread -/
def seqRun (as : List Action) (s0 : SeqState) : SeqState := as.foldl seqStep s0

/-- the first `n` actions of the call, alone -/
def seqAt (as : List Action) (s0 : SeqState) : Nat → SeqState
  | 0 => s0
  | n + 1 =>
    match as[n]? with
    | some a => seqStep (seqAt as s0 n) a
    | none => seqAt as s0 n

/-- does the thread hold `m` before its `n`-th action (by its own lock/unlock actions) -/
def heldAt (as : List Action) (m : Mutex) : Nat → Bool
  | 0 => false
  | n + 1 =>
    match as[n]? with
    | some a => a.heldAfter m (heldAt as m n)
    | none => heldAt as m n

/-- has the thread, before its `n`-th action, written `g` since it last locked `m` -/
def freshAt (as : List Action) (g : Loc) (m : Mutex) : Nat → Bool
  | 0 => false
  | n + 1 =>
    match as[n]? with
    | some a => a.freshAfter g m (freshAt as g m n)
    | none => freshAt as g m n

/-! ## the access discipline (hypotheses of the theorem) -/

/-- some thread writes `g` -/
def Written (P : Tid → List Action) (g : Loc) : Prop :=
  ∃ (t : Tid) (n : Nat) (a : Action), (P t)[n]? = some a ∧ a.target = some g ∧ a.isWrite = true

/-- every access to `g` is made by thread `o` -/
def ConfinedTo (P : Tid → List Action) (g : Loc) (o : Tid) : Prop :=
  ∀ (t : Tid) (n : Nat) (a : Action), (P t)[n]? = some a → a.target = some g → t = o

def Confined (P : Tid → List Action) (g : Loc) : Prop := ∃ o, ConfinedTo P g o

/-- every access to `g` is made while holding `m` -/
def Guarded (P : Tid → List Action) (g : Loc) (m : Mutex) : Prop :=
  ∀ (t : Tid) (n : Nat) (a : Action), (P t)[n]? = some a → a.target = some g → heldAt (P t) m n = true

/-- every access to `g` is a blind update: what is read never reaches a result -/
def BlindOnly (P : Tid → List Action) (g : Loc) : Prop :=
  ∀ (t : Tid) (n : Nat) (a : Action), (P t)[n]? = some a → a.target = some g → a.isRmw = true

/-- every read of `g` comes after a write of `g` by the same thread in the same critical
section of `m` (the thread initialises the location before it looks at it) -/
def InitBeforeRead (P : Tid → List Action) (g : Loc) (m : Mutex) : Prop :=
  ∀ (t : Tid) (n : Nat) (a : Action), (P t)[n]? = some a → a.target = some g → a.isWrite = false →
    freshAt (P t) g m n = true

/-- `g` is protected by a mutex: every access holds it, and either no value read from `g`
reaches a result, or every read sees the reader's own write of the same critical section -/
def LockProtected (P : Tid → List Action) (g : Loc) : Prop :=
  ∃ m, Guarded P g m ∧ (BlindOnly P g ∨ InitBeforeRead P g m)

/-- a thread only unlocks a mutex it holds -/
def WellLocked (P : Tid → List Action) : Prop :=
  ∀ t n m, (P t)[n]? = some (.unlock m) → heldAt (P t) m n = true

/-! ## happens-before and data-race freedom -/

/-- Happens-before on the positions of a chronological trace: program order, plus
"an unlock of `m` is synchronised before every later lock of `m`" (the Go memory model's rule
for `sync.Mutex`), closed under transitivity. -/
inductive HB (c : List Event) : Nat → Nat → Prop where
  | po {i j : Nat} {e e' : Event} : i < j → c[i]? = some e → c[j]? = some e' → e.tid = e'.tid → HB c i j
  | sw {i j : Nat} {t t' : Tid} {m : Mutex} :
      i < j → c[i]? = some ⟨t, .rel m⟩ → c[j]? = some ⟨t', .acq m⟩ → HB c i j
  | trans {i j k : Nat} : HB c i j → HB c j k → HB c i k

/-- two accesses of different threads to the same location, at least one a write -/
def Conflict (e e' : Event) : Prop :=
  e.tid ≠ e'.tid ∧ ∃ g, e.kind.loc? = some g ∧ e'.kind.loc? = some g ∧ (e.kind = .wr g ∨ e'.kind = .wr g)

/-- no two conflicting accesses are unordered -/
def RaceFree (c : List Event) : Prop :=
  ∀ i j e e', i < j → c[i]? = some e → c[j]? = some e' → Conflict e e' → HB c i j

/-! ## executable race check (used for the concrete witnesses; `decide`-friendly) -/

/-- transitive closure by saturation over positions `< n`: `hbB c fuel i j` -/
def hbEdge (c : List Event) (i j : Nat) : Bool :=
  i < j && match c[i]?, c[j]? with
    | some e, some e' =>
      e.tid == e'.tid ||
      (match e.kind, e'.kind with
       | .rel m, .acq m' => m == m'
       | _, _ => false)
    | _, _ => false

/-- is there a path `i → … → j` of `hbEdge`s (positions only increase, so `fuel = j - i` suffices) -/
def hbPath (c : List Event) : Nat → Nat → Nat → Bool
  | 0, _, _ => false
  | fuel + 1, i, j =>
    hbEdge c i j || (List.range j).any (fun k => i < k && hbEdge c i k && hbPath c fuel k j)

def conflictB (e e' : Event) : Bool :=
  e.tid != e'.tid &&
  match e.kind.loc?, e'.kind.loc? with
  | some g, some g' => g == g' && (e.kind == .wr g || e'.kind == .wr g)
  | _, _ => false

/-- positions `(i, j)` of conflicting accesses not ordered by happens-before -/
def races (c : List Event) : List (Nat × Nat) :=
  (List.range c.length).flatMap fun j =>
    ((List.range j).filter fun i =>
      match c[i]?, c[j]? with
      | some e, some e' => conflictB e e' && !hbPath c c.length i j
      | _, _ => false).map fun i => (i, j)

end Vore.Sched
