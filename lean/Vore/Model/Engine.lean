import Vore.Model.VM
import Vore.Model.Check
/-!
# Vore.Model.Engine — commands: generation (generate.go), replacer and splice (search.go),
`Run` (engine.go)
-/
namespace Vore

/-- `generateCommand` -/
def genCmd : Cmd → GenState → GenM (BCmd × GenState)
  | .find amt body, st => do
    let (code, st1) ← gen body 0 { st with variables := [] }
    pure (.find amt code, st1)
  | .replace amt body result, st => do
    let (code, st1) ← gen body 0 { st with variables := [] }
    pure (.replace amt code (result.map (genReplacer st1)), st1)
  | .setPattern name body pred, st => do
    let (code, st1) ← gen body 0 { st with variables := [] }
    let st2 := { st1 with globals := insertKV st1.globals name (code, pred) }
    if checkBody .predicate pred then pure (.setPattern name code pred, st2)
    else .error "predicate rejected by the semantic check"
  | .setTransform name body, st =>
    let st1 := { st with variables := [], transforms := insertKV st.transforms name body }
    if checkBody .transformation body then .ok (.setTransform name body, st1)
    else .error "transform rejected by the semantic check"
  | .setMatches name cmd, st => do
    let (c, st1) ← genCmd cmd { st with variables := [] }
    pure (.setMatches name c, st1)

/-- `GenerateBytecode` -/
def genProgram : List Cmd → GenState → GenM (List BCmd)
  | [], _ => .ok []
  | c :: cs, st => do
    let (b, st1) ← genCmd c st
    let bs ← genProgram cs st1
    pure (b :: bs)

/-! ## replacer (searchengine.go `ReplacerState`, search.go `executeReplace*`) -/

def strB (s : String) : Bytes := s.toUTF8.toList

/-- `InitReplacerState`: the match's variables plus the built-ins (which shadow captures) -/
def replacerVars (m : Match) (total : Nat) (filename : Bytes) : VMap :=
  (((((((m.vars.put "totalMatches" (.str (itoa total))).put "matchNumber" (.str (itoa m.number))).put
    "startOffset" (.str (itoa m.startPos))).put "endOffset" (.str (itoa m.endPos))).put
    "lineNumber" (.str (itoa m.startLine))).put "columnNumber" (.str (itoa m.startCol))).put
    "value" (.str m.value)).put "filename" (.str filename)

/-- the string-valued entries of a variable map as a process environment -/
def VMap.toPEnv : VMap → PEnv
  | .nil => []
  | .cons k (.str s) rest => (k, .str s) :: rest.toPEnv
  | .cons _ (.map _) rest => rest.toPEnv

/-- the environment `executeReplaceProcess` builds -/
def transformEnv (vars : VMap) (m : Match) : PEnv :=
  ((vars.toPEnv.put "match" (.str m.value)).put "matchLength" (.num m.value.length)).put "matchNumber" (.num m.number)

/-- text contributed by one replacer instruction; `none` = contributes nothing -/
def replItem (pf : Nat) (vars : VMap) (m : Match) : RInstr → Res (Option Bytes)
  | .str s => .ok (some s)
  | .var x =>
    match vars.get x with
    | some (.str s) => .ok (some s)
    | _ => .ok none
  | .proc body =>
    match runProcess pf body (transformEnv vars m) with
    | .error t => .panic t
    | .ok none => .pfuel
    | .ok (some v) => .ok (some v.getString)

/-- run the replacer program over one match, accumulating `Replacement` -/
def runReplacer (pf : Nat) (vars : VMap) (m : Match) : List RInstr → Option Bytes → Res (Option Bytes)
  | [], acc => .ok acc
  | i :: is, acc =>
    match replItem pf vars m i with
    | .ok (some s) => runReplacer pf vars m is (some (acc.getD [] ++ s))
    | .ok none => runReplacer pf vars m is acc
    | .panic t => .panic t
    | .pfuel => .pfuel

def replaceAll (pf : Nat) (filename : Bytes) (replacer : List RInstr) (total : Nat) :
    List Match → Res (List Match)
  | [] => .ok []
  | m :: ms =>
    match runReplacer pf (replacerVars m total filename) m replacer none with
    | .ok r =>
      match replaceAll pf filename replacer total ms with
      | .ok rest => .ok ({ m with replacement := r } :: rest)
      | .panic t => .panic t
      | .pfuel => .pfuel
    | .panic t => .panic t
    | .pfuel => .pfuel

/-! ## the writer and the splice loop of `searchReplace` -/

/-- `Writer.WriteAt(offset, data)` on a growable byte array (`MemoryStream.Write`; a file
opened with O_TRUNC starts empty).  A gap is filled with zero bytes. -/
def writeAt (buf : Bytes) (off : Nat) (data : Bytes) : Bytes :=
  (buf.take off ++ List.replicate (off - buf.length) 0) ++ data ++ buf.drop (off + data.length)

/-- the copy loop of `searchReplace` (search.go:115-128), with its two offsets -/
def spliceLoop (text : Bytes) : List Match → (lastReader writerOff : Nat) → (out : Bytes) → Bytes × Nat × Nat
  | [], lr, wo, out => (out, lr, wo)
  | m :: ms, lr, wo, out =>
    let len := m.startPos - lr
    let orig := readAt text lr len
    let out1 := writeAt out wo orig
    let wo1 := wo + len
    let lr1 := lr + len
    let rep := m.replacement.getD []
    let out2 := writeAt out1 wo1 rep
    spliceLoop text ms (lr1 + m.value.length) (wo1 + rep.length) out2

/-- everything `searchReplace` writes to its destination -/
def writtenText (text : Bytes) (ms : List Match) : Bytes :=
  let (out, lr, wo) := spliceLoop text ms 0 0 []
  if lr < text.length then writeAt out wo (readAt text lr (text.length - lr)) else out

/-! ## `search` / `Run` -/

def runCmd (pf vf : Nat) (filename : Bytes) (text : Bytes) : BCmd → Option (Res (List Match))
  | .find amt code => findMatches pf vf code amt text
  | .replace amt code replacer =>
    match findMatches pf vf code amt text with
    | some (.ok ms) => some (replaceAll pf filename replacer ms.length ms)
    | some (.panic t) => some (.panic t)
    | some .pfuel => some .pfuel
    | none => none
  | _ => some (.ok [])

/-- `engine.Run`: results of all commands, concatenated -/
def runProgram (pf vf : Nat) (filename : Bytes) (text : Bytes) : List BCmd → Option (Res (List Match))
  | [] => some (.ok [])
  | c :: cs =>
    match runCmd pf vf filename text c with
    | some (.ok ms) =>
      match runProgram pf vf filename text cs with
      | some (.ok rest) => some (.ok (ms ++ rest))
      | some (.panic t) => some (.panic t)
      | some .pfuel => some .pfuel
      | none => none
    | some (.panic t) => some (.panic t)
    | some .pfuel => some .pfuel
    | none => none

end Vore

namespace Vore

/-! ## files: `search` with a replace mode over an abstract file system (engine.go, search.go:100-113) -/

/-- `engine.ReplaceMode` -/
inductive Mode where
  | overwrite | confirm | new | nothing
deriving Repr, DecidableEq, Inhabited

/-- path ↦ content; absent = no such file -/
abbrev FileSys := List (Bytes × Bytes)

def FileSys.get (fs : FileSys) (p : Bytes) : Option Bytes := (fs.find? (·.1 == p)).map (·.2)

/-- create or truncate-and-write -/
def FileSys.put (fs : FileSys) (p : Bytes) (content : Bytes) : FileSys := (p, content) :: fs.filter (fun kv => !(kv.1 == p))

def voredSuffix : Bytes := ".vored".toUTF8.toList

/-- `search(command, filename, reader, mode)` for one regular file whose content is `text`:
the matches and the file system afterwards.  Find and set commands never open a writer.
`CONFIRM` has no case in the Go switch: the writer stays nil and the first write panics. -/
def searchFile (pf vf : Nat) (mode : Mode) (fs : FileSys) (filename text : Bytes) (c : BCmd) :
    Option (Res (List Match × FileSys)) :=
  match c with
  | .replace .. =>
    match runCmd pf vf filename text c with
    | some (.ok ms) =>
      match mode with
      | .nothing => some (.ok (ms, fs))
      | .new => some (.ok (ms, fs.put (filename ++ voredSuffix) (writtenText text ms)))
      | .overwrite => some (.ok (ms, fs.put filename (writtenText text ms)))
      | .confirm => some (.panic "nil pointer dereference (no writer for CONFIRM)")
    | some (.panic t) => some (.panic t)
    | some .pfuel => some .pfuel
    | none => none
  | _ =>
    match runCmd pf vf filename text c with
    | some (.ok ms) => some (.ok (ms, fs))
    | some (.panic t) => some (.panic t)
    | some .pfuel => some .pfuel
    | none => none

end Vore

namespace Vore

/-- `RunFiles(bytecode, [filename], mode, false)` for one regular file: every command opens the
file afresh (so a later command sees what an earlier OVERWRITE left).  A missing file panics. -/
def runFiles (pf vf : Nat) (mode : Mode) (filename : Bytes) : List BCmd → FileSys → Option (Res (List Match × FileSys))
  | [], fs => some (.ok ([], fs))
  | c :: cs, fs =>
    match fs.get filename with
    | none => some (.panic "stat: no such file")
    | some text =>
      match searchFile pf vf mode fs filename text c with
      | some (.ok (ms, fs1)) =>
        match runFiles pf vf mode filename cs fs1 with
        | some (.ok (rest, fs2)) => some (.ok (ms ++ rest, fs2))
        | some (.panic t) => some (.panic t)
        | some .pfuel => some .pfuel
        | none => none
      | some (.panic t) => some (.panic t)
      | some .pfuel => some .pfuel
      | none => none

end Vore

namespace Vore

/-- one command over the listed files, in order (the inner loop of `RunFiles`) -/
def runFilesCmd (pf vf : Nat) (mode : Mode) (c : BCmd) : List Bytes → FileSys → Option (Res (List Match × FileSys))
  | [], fs => some (.ok ([], fs))
  | f :: rest, fs =>
    match fs.get f with
    | none => some (.panic "stat: no such file")
    | some text =>
      match searchFile pf vf mode fs f text c with
      | some (.ok (ms, fs1)) =>
        match runFilesCmd pf vf mode c rest fs1 with
        | some (.ok (more, fs2)) => some (.ok (ms ++ more, fs2))
        | some (.panic t) => some (.panic t)
        | some .pfuel => some .pfuel
        | none => none
      | some (.panic t) => some (.panic t)
      | some .pfuel => some .pfuel
      | none => none

/-- `RunFiles(bytecode, filenames, mode, false)` for regular files: commands outermost, every command
visits every listed path (a path listed twice is visited twice) and opens it afresh -/
def runFilesL (pf vf : Nat) (mode : Mode) (files : List Bytes) : List BCmd → FileSys → Option (Res (List Match × FileSys))
  | [], fs => some (.ok ([], fs))
  | c :: cs, fs =>
    match runFilesCmd pf vf mode c files fs with
    | some (.ok (ms, fs1)) =>
      match runFilesL pf vf mode files cs fs1 with
      | some (.ok (rest, fs2)) => some (.ok (ms ++ rest, fs2))
      | some (.panic t) => some (.panic t)
      | some .pfuel => some .pfuel
      | none => none
    | some (.panic t) => some (.panic t)
    | some .pfuel => some .pfuel
    | none => none

/-- `os.ReadDir(dir)`: the names in the directory, sorted by name (byte-wise) -/
def listDir (fs : FileSys) : List Bytes := (fs.map (·.1)).mergeSort (fun a b => bytesLe a b)

/-- `RunFiles(bytecode, [dir], mode, false)` for a directory of regular files (`fs` holds exactly its entries, keyed by
the path `dir/name` the engine opens): EVERY command lists the directory again (so it also visits what an earlier
command created) and visits the entries in name order; an entry created while a command runs is not visited by
that command -/
def runFilesDir (pf vf : Nat) (mode : Mode) : List BCmd → FileSys → Option (Res (List Match × FileSys))
  | [], fs => some (.ok ([], fs))
  | c :: cs, fs =>
    match runFilesCmd pf vf mode c (listDir fs) fs with
    | some (.ok (ms, fs1)) =>
      match runFilesDir pf vf mode cs fs1 with
      | some (.ok (rest, fs2)) => some (.ok (ms ++ rest, fs2))
      | some (.panic t) => some (.panic t)
      | some .pfuel => some .pfuel
      | none => none
    | some (.panic t) => some (.panic t)
    | some .pfuel => some .pfuel
    | none => none

end Vore
